(* Vocabulary of aggregation pipelines: operand type descriptors (TypeDetails without the object type),
   application methods, aggregation operators and the JSON shapes an initial value can take. *)
From Coq Require Import List Bool.
From OIS Require Import Base.Types.
Import ListNotations.

Inductive item := IString | INumeric | IBoolean | IObject | INull.
Record ptype := PT { pt_list : bool; pt_item : item }.

Definition all_item := [IString; INumeric; IBoolean; IObject; INull].
Definition all_ptype : list ptype :=
  flat_map (fun l => map (PT l) all_item) [false; true].

Lemma all_ptype_complete : forall p, In p all_ptype.
Proof. intros [[|] []]; simpl; tauto. Qed.

Definition item_eqb (a b : item) : bool :=
  match a, b with
  | IString, IString | INumeric, INumeric | IBoolean, IBoolean | IObject, IObject | INull, INull => true
  | _, _ => false end.
Lemma item_eqb_eq a b : item_eqb a b = true <-> a = b.
Proof. destruct a, b; simpl; split; congruence. Qed.

Definition ptype_eqb (a b : ptype) : bool :=
  Bool.eqb (pt_list a) (pt_list b) && item_eqb (pt_item a) (pt_item b).
Lemma ptype_eqb_eq a b : ptype_eqb a b = true <-> a = b.
Proof.
  destruct a as [la ia], b as [lb ib]; unfold ptype_eqb; simpl.
  rewrite andb_true_iff, Bool.eqb_true_iff, item_eqb_eq. split; [intros [-> ->]; reflexivity | intros H; inversion H; auto].
Qed.

(* TypeDetails.to_string / to_field_type_string *)
Definition ty_of_ptype (p : ptype) : ty :=
  match p with
  | PT false IString => STRING | PT false INumeric => NUMERIC | PT false IBoolean => BOOLEAN
  | PT false IObject => OBJECT | PT false INull => TNULL
  | PT true IString => STRING_LIST | PT true INumeric => NUMERIC_LIST | PT true IBoolean => BOOLEAN_LIST
  | PT true IObject => OBJECT_LIST | PT true INull => TLIST
  end.

Inductive meth := M_ADD | M_SUBTRACT | M_MULTIPLY | M_DIVIDE | M_APPEND | M_PREPEND | M_CONCAT | M_SET | M_AND | M_OR.
Definition all_meth := [M_ADD; M_SUBTRACT; M_MULTIPLY; M_DIVIDE; M_APPEND; M_PREPEND; M_CONCAT; M_SET; M_AND; M_OR].
Lemma all_meth_complete : forall m, In m all_meth.
Proof. destruct m; simpl; tauto. Qed.
Definition meth_eqb (a b : meth) : bool :=
  match a, b with
  | M_ADD, M_ADD | M_SUBTRACT, M_SUBTRACT | M_MULTIPLY, M_MULTIPLY | M_DIVIDE, M_DIVIDE | M_APPEND, M_APPEND
  | M_PREPEND, M_PREPEND | M_CONCAT, M_CONCAT | M_SET, M_SET | M_AND, M_AND | M_OR, M_OR => true
  | _, _ => false end.
Lemma meth_eqb_eq a b : meth_eqb a b = true <-> a = b.
Proof. destruct a, b; simpl; split; congruence. Qed.

Inductive agg := A_AVERAGE | A_COUNT | A_MAX | A_MIN | A_SUM | A_FIRST | A_LAST | A_AND | A_OR.
Definition all_agg := [A_AVERAGE; A_COUNT; A_MAX; A_MIN; A_SUM; A_FIRST; A_LAST; A_AND; A_OR].
Lemma all_agg_complete : forall a, In a all_agg.
Proof. destruct a; simpl; tauto. Qed.
Definition agg_eqb (a b : agg) : bool :=
  match a, b with
  | A_AVERAGE, A_AVERAGE | A_COUNT, A_COUNT | A_MAX, A_MAX | A_MIN, A_MIN | A_SUM, A_SUM | A_FIRST, A_FIRST
  | A_LAST, A_LAST | A_AND, A_AND | A_OR, A_OR => true
  | _, _ => false end.
Lemma agg_eqb_eq a b : agg_eqb a b = true <-> a = b.
Proof. destruct a, b; simpl; split; congruence. Qed.

(* JSON shapes of an initial / default value *)
Inductive ishape := SNull | SStr | SInt | SFloat | SBool | SEmpty | SStrs | SNums | SBools | SMixed | SNulls | SNested | SObj.
Definition all_ishape := [SNull; SStr; SInt; SFloat; SBool; SEmpty; SStrs; SNums; SBools; SMixed; SNulls; SNested; SObj].
Lemma all_ishape_complete : forall s, In s all_ishape.
Proof. destruct s; simpl; tauto. Qed.
Definition ishape_eqb (a b : ishape) : bool :=
  match a, b with
  | SNull, SNull | SStr, SStr | SInt, SInt | SFloat, SFloat | SBool, SBool | SEmpty, SEmpty | SStrs, SStrs
  | SNums, SNums | SBools, SBools | SMixed, SMixed | SNulls, SNulls | SNested, SNested | SObj, SObj => true
  | _, _ => false end.
Lemma ishape_eqb_eq a b : ishape_eqb a b = true <-> a = b.
Proof. destruct a, b; simpl; split; congruence. Qed.
