(* JSON values as the implementation sees them after json.loads.
   Objects keep their key order (Python dicts are insertion ordered); keys are assumed distinct.
   Numbers: ints are exact; a float is carried by Python's repr of it (never computed with). *)
From Coq Require Import List String ZArith Bool Ascii.
Import ListNotations.
Open Scope string_scope.

Inductive json :=
  | JNull
  | JBool (b : bool)
  | JInt (z : Z)
  | JFloat (repr : string)
  | JStr (s : string)
  | JArr (l : list json)
  | JObj (kv : list (string * json)).

(* induction principle that reaches inside arrays and objects *)
Section JsonInd.
  Variable P : json -> Prop.
  Hypothesis Hnull : P JNull.
  Hypothesis Hbool : forall b, P (JBool b).
  Hypothesis Hint : forall z, P (JInt z).
  Hypothesis Hfloat : forall r, P (JFloat r).
  Hypothesis Hstr : forall s, P (JStr s).
  Hypothesis Harr : forall l, Forall P l -> P (JArr l).
  Hypothesis Hobj : forall kv, Forall (fun p => P (snd p)) kv -> P (JObj kv).

  Fixpoint json_ind' (j : json) : P j :=
    match j with
    | JNull => Hnull
    | JBool b => Hbool b
    | JInt z => Hint z
    | JFloat r => Hfloat r
    | JStr s => Hstr s
    | JArr l => Harr l ((fix go (l : list json) : Forall P l :=
                           match l with [] => Forall_nil _ | x :: r => Forall_cons _ (json_ind' x) (go r) end) l)
    | JObj kv => Hobj kv ((fix go (kv : list (string * json)) : Forall (fun p => P (snd p)) kv :=
                             match kv with [] => Forall_nil _ | (k, v) :: r => Forall_cons (k, v) (json_ind' v) (go r) end) kv)
    end.
End JsonInd.

Fixpoint jsize (j : json) : nat :=
  match j with
  | JArr l => S (fold_right (fun x n => jsize x + n) 0 l)
  | JObj kv => S (fold_right (fun p n => jsize (snd p) + n) 0 kv)
  | _ => 1
  end.

Definition get (k : string) (kv : list (string * json)) : option json :=
  match find (fun p => String.eqb (fst p) k) kv with Some p => Some (snd p) | None => None end.

Definition has_key (k : string) (kv : list (string * json)) : bool :=
  existsb (fun p => String.eqb (fst p) k) kv.
