(* Finite vocabularies of the schema language: operand types and comparison operators.
   [ty] is the result domain of the implementation's operand typing
   (TypeDetails.to_field_type_string / extract_field_type):
   the eight field types, NULL (null literal), LIST (empty list literal), TNone (unresolvable). *)
From Coq Require Import List Bool.
Import ListNotations.

Inductive ty :=
  | STRING | NUMERIC | BOOLEAN
  | STRING_LIST | NUMERIC_LIST | BOOLEAN_LIST
  | OBJECT | OBJECT_LIST
  | TNULL | TLIST | TNONE.

Definition all_ty : list ty :=
  [STRING; NUMERIC; BOOLEAN; STRING_LIST; NUMERIC_LIST; BOOLEAN_LIST; OBJECT; OBJECT_LIST; TNULL; TLIST; TNONE].

Lemma all_ty_complete : forall t, In t all_ty.
Proof. destruct t; simpl; tauto. Qed.

Definition ty_eqb (a b : ty) : bool :=
  match a, b with
  | STRING, STRING | NUMERIC, NUMERIC | BOOLEAN, BOOLEAN
  | STRING_LIST, STRING_LIST | NUMERIC_LIST, NUMERIC_LIST | BOOLEAN_LIST, BOOLEAN_LIST
  | OBJECT, OBJECT | OBJECT_LIST, OBJECT_LIST | TNULL, TNULL | TLIST, TLIST | TNONE, TNONE => true
  | _, _ => false
  end.

Lemma ty_eqb_spec : forall a b, reflect (a = b) (ty_eqb a b).
Proof. destruct a, b; simpl; constructor; congruence. Qed.

Lemma ty_eqb_eq : forall a b, ty_eqb a b = true <-> a = b.
Proof. intros a b; destruct (ty_eqb_spec a b); split; congruence. Qed.

Inductive cop :=
  | EQUALS | DOES_NOT_EQUAL
  | GREATER_THAN | LESS_THAN | GREATER_THAN_OR_EQUAL_TO | LESS_THAN_OR_EQUAL_TO
  | ONE_OF | NONE_OF
  | CONTAINS | DOES_NOT_CONTAIN
  | CONTAINS_ANY_OF | CONTAINS_NONE_OF | IS_SUBSET_OF | IS_SUPERSET_OF.

Definition all_cop : list cop :=
  [EQUALS; DOES_NOT_EQUAL; GREATER_THAN; LESS_THAN; GREATER_THAN_OR_EQUAL_TO; LESS_THAN_OR_EQUAL_TO;
   ONE_OF; NONE_OF; CONTAINS; DOES_NOT_CONTAIN; CONTAINS_ANY_OF; CONTAINS_NONE_OF; IS_SUBSET_OF; IS_SUPERSET_OF].

Lemma all_cop_complete : forall o, In o all_cop.
Proof. destruct o; simpl; tauto. Qed.

Definition cop_eqb (a b : cop) : bool :=
  match a, b with
  | EQUALS, EQUALS | DOES_NOT_EQUAL, DOES_NOT_EQUAL | GREATER_THAN, GREATER_THAN | LESS_THAN, LESS_THAN
  | GREATER_THAN_OR_EQUAL_TO, GREATER_THAN_OR_EQUAL_TO | LESS_THAN_OR_EQUAL_TO, LESS_THAN_OR_EQUAL_TO
  | ONE_OF, ONE_OF | NONE_OF, NONE_OF | CONTAINS, CONTAINS | DOES_NOT_CONTAIN, DOES_NOT_CONTAIN
  | CONTAINS_ANY_OF, CONTAINS_ANY_OF | CONTAINS_NONE_OF, CONTAINS_NONE_OF
  | IS_SUBSET_OF, IS_SUBSET_OF | IS_SUPERSET_OF, IS_SUPERSET_OF => true
  | _, _ => false
  end.

Lemma cop_eqb_eq : forall a b, cop_eqb a b = true <-> a = b.
Proof. destruct a, b; simpl; split; congruence. Qed.

(* item type <-> list type *)
Definition list_of (t : ty) : option ty :=
  match t with
  | STRING => Some STRING_LIST | NUMERIC => Some NUMERIC_LIST | BOOLEAN => Some BOOLEAN_LIST
  | OBJECT => Some OBJECT_LIST | _ => None
  end.

Definition is_list_ty (t : ty) : bool :=
  match t with STRING_LIST | NUMERIC_LIST | BOOLEAN_LIST | OBJECT_LIST => true | _ => false end.

Definition is_item_ty (t : ty) : bool :=
  match t with STRING | NUMERIC | BOOLEAN | OBJECT => true | _ => false end.
