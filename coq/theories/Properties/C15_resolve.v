(* Property C15 (and the reference clauses of C01 and C10), string layer.

   The scenario model has no spelling; what the validator does with the TEXT of a reference -- lexing
   (utils.is_global_ref, is_import_ref, parse_ref_type, parse_ref_id, parse_schema_id, truncate_schema_id, reduce_ref),
   lookup (SchemaValidator._resolve_global_ref) and canonicalisation (_normalize_ref, on which every map keyed by a
   reference and every uniqueness check of a reference-valued field rests) -- is modelled function by function in
   Model/Resolve.v and compared with the real functions by harness/corr/resolve.py on generated environments and
   reference strings.  The theorems below are about that model.

   Vocabulary.  [env]: the native collections and the loaded imported schemas (file name -> collections); an entity has
   optional fields id, name, alias.  [eref] = (schema file or None, kind, position in the collection) is the identity
   of an entity.  [resolve E r] is [Val (Some x)], [Val None] (nothing found) or [Raise InvalidRef] (not a reference).
   [normalize E to_alias r] is _normalize_ref(r, to_alias); [normalize_attr] has the alias_attribute_name as well.
   [ref_text f loc p] is the text [schema:{f}.]loc[.p]; [as_ref_id k z] = "k:z", [as_ref_alias k a] = "k:{a}".

   Hypotheses.  [env_ok E] (boolean) = [env_distinct E] && [env_lexical E]: in every collection of every schema the
   ids are pairwise distinct and the names / aliases are pairwise distinct; ids are not negative; a name is not empty
   and contains neither a dot nor a newline (patterns.alias demands more).  [qualifier_ok f]: the file name is not
   empty and contains no dot, newline or colon.  [example_env_ok] shows a concrete environment satisfying [env_ok], in
   which names are decimal spellings of other entities' ids, natively and in an imported schema.
   Each hypothesis is needed: see the [_refuted] theorems.  *)
From Coq Require Import List String ZArith Bool.
From OIS Require Import Model.Regex Model.Resolve Proofs.ResolveProofs.
Import ListNotations.
Open Scope string_scope.

(* ---- (a) both spellings of a declared entity denote it: natively or under a schema qualifier, with any attribute
   path behind the id spelling and any newline-free path behind the alias spelling *)
Theorem C15r_id_spelling_resolves : forall E f k i e z p,
  env_ok E = true -> In k entity_kinds -> qualifier_ok f = true ->
  entity_at E (f, k, i) = Some e -> e_id e = Some z ->
  resolve E (ref_text f (as_ref_id k z) p) = Val (Some (f, k, i)).
Proof. exact resolve_id_spelling. Qed.
Print Assumptions C15r_id_spelling_resolves.

Theorem C15r_alias_spelling_resolves : forall E f k i e a p,
  env_ok E = true -> In k entity_kinds -> qualifier_ok f = true -> path_nl_free p = true ->
  entity_at E (f, k, i) = Some e -> get_field (alias_field k) e = Some a ->
  resolve E (ref_text f (as_ref_alias k a) p) = Val (Some (f, k, i)).
Proof. exact resolve_alias_spelling. Qed.
Print Assumptions C15r_alias_spelling_resolves.

Theorem C15r_spellings_agree : forall E f k i e z a p p',
  env_ok E = true -> In k entity_kinds -> qualifier_ok f = true -> path_nl_free p' = true ->
  entity_at E (f, k, i) = Some e -> e_id e = Some z -> get_field (alias_field k) e = Some a ->
  resolve E (ref_text f (as_ref_id k z) p) = Val (Some (f, k, i)) /\
  resolve E (ref_text f (as_ref_alias k a) p') = Val (Some (f, k, i)).
Proof. exact spellings_agree. Qed.
Print Assumptions C15r_spellings_agree.

(* resolution by alias never consults ids and vice versa: the entity at position j may be NAMED by the decimal spelling
   of the ID of the entity at position i; "k:z" is i and "k:{z}" is j *)
Theorem C15r_numeric_alias_not_confused : forall E f k i j e e' z p p',
  env_ok E = true -> In k entity_kinds -> qualifier_ok f = true -> path_nl_free p' = true ->
  entity_at E (f, k, i) = Some e -> e_id e = Some z ->
  entity_at E (f, k, j) = Some e' -> get_field (alias_field k) e' = Some (dec z) ->
  resolve E (ref_text f (as_ref_id k z) p) = Val (Some (f, k, i)) /\
  resolve E (ref_text f (as_ref_alias k (dec z)) p') = Val (Some (f, k, j)).
Proof. exact numeric_alias_not_confused. Qed.
Print Assumptions C15r_numeric_alias_not_confused.

Theorem C15r_example_env_ok : env_ok example_env = true.
Proof. exact example_env_ok. Qed.
Print Assumptions C15r_example_env_ok.

(* ---- (b) normalisation is idempotent and does not change what the reference denotes (for to_alias the attribute has
   to be the alias field of the kind: "name", or "alias" for checkpoints) *)
Theorem C15r_normalize_idempotent : forall E b attr r r',
  env_ok E = true -> (b = true -> attr = alias_field (ref_kind r)) ->
  normalize_attr E b attr r = Val r' -> normalize_attr E b attr r' = Val r'.
Proof. exact normalize_idempotent. Qed.
Print Assumptions C15r_normalize_idempotent.

Theorem C15r_normalize_preserves_resolution : forall E b attr r r',
  env_ok E = true -> (b = true -> attr = alias_field (ref_kind r)) ->
  normalize_attr E b attr r = Val r' -> resolve E r' = resolve E r.
Proof. exact normalize_preserves_resolution. Qed.
Print Assumptions C15r_normalize_preserves_resolution.

(* ---- (c) what the uniqueness check of reference-valued fields relies on: two path-free references that resolve, with
   the same qualifier text, have the same normal form exactly when they denote the same entity *)
Theorem C15r_unique_reference_fields : forall E r1 r2 x1 x2,
  env_ok E = true -> ref_has_path r1 = false -> ref_has_path r2 = false ->
  resolve E r1 = Val (Some x1) -> resolve E r2 = Val (Some x2) -> qualifier_text r1 = qualifier_text r2 ->
  (normalize E false r1 = normalize E false r2 <-> x1 = x2).
Proof. exact unique_field_iff. Qed.
Print Assumptions C15r_unique_reference_fields.

(* ... the qualifier is compared AS WRITTEN: "schema:{lib}" and "schema:{lib}:junk}" denote the same loaded schema *)
Theorem C15r_qualifier_spelling_refuted :
  ~ (forall E r1 r2 x1 x2, env_ok E = true -> ref_has_path r1 = false -> ref_has_path r2 = false ->
       resolve E r1 = Val (Some x1) -> resolve E r2 = Val (Some x2) ->
       (normalize E false r1 = normalize E false r2 <-> x1 = x2)).
Proof. exact qualifier_spelling_refuted. Qed.
Print Assumptions C15r_qualifier_spelling_refuted.

(* ---- (d) a reference that denotes nothing, or is not a reference, is returned unchanged; a reference qualified by a
   schema that is not loaded never resolves, whatever the native collections contain *)
Theorem C15r_unresolvable_unchanged : forall E b attr r, resolve E r = Val None -> normalize_attr E b attr r = Val r.
Proof. exact unresolvable_unchanged. Qed.
Print Assumptions C15r_unresolvable_unchanged.

Theorem C15r_invalid_iff_not_global : forall E r, resolve E r = Raise InvalidRef <-> is_global_ref r = false.
Proof. exact invalid_iff. Qed.
Print Assumptions C15r_invalid_iff_not_global.

Theorem C15r_invalid_unchanged : forall E b attr r, is_global_ref r = false -> normalize_attr E b attr r = Val r.
Proof. exact invalid_unchanged. Qed.
Print Assumptions C15r_invalid_unchanged.

Theorem C15r_unloaded_schema_never_resolves : forall E r f,
  parse_schema_id r = Some f -> assoc f (imported E) = None ->
  resolve E r = Val None /\ forall b attr, normalize_attr E b attr r = Val r.
Proof. exact unloaded_never_resolves. Qed.
Print Assumptions C15r_unloaded_schema_never_resolves.

Theorem C15r_unloaded_prepended_never_resolves : forall E f r,
  file_ok f = true -> is_global_ref r = true -> assoc f (imported E) = None ->
  resolve E (prepend_schema_id f r) = Val None.
Proof. exact unloaded_prepended_never_resolves. Qed.
Print Assumptions C15r_unloaded_prepended_never_resolves.

(* ---- (e) the exact result: a reference already in the target spelling is returned as it is, path included; otherwise
   the result is the qualifier as written, the kind and the other spelling, WITHOUT the path *)
Theorem C15r_normalize_exact : forall E r x e, resolve E r = Val (Some x) -> entity_at E x = Some e ->
  normalize_attr E false FName r =
    Val (match e_id e with
         | Some z => if by_alias r then requalify (qualifier_text r) (as_ref_id (ref_kind r) z) else r
         | None => r
         end)
  /\ normalize_attr E true (alias_field (ref_kind r)) r =
    Val (match get_field (alias_field (ref_kind r)) e with
         | Some a => if by_alias r then r else requalify (qualifier_text r) (as_ref_alias (ref_kind r) a)
         | None => r
         end).
Proof. exact normalize_exact. Qed.
Print Assumptions C15r_normalize_exact.

Theorem C15r_normalize_drops_path : forall E r x e z,
  env_ok E = true -> resolve E r = Val (Some x) -> entity_at E x = Some e -> e_id e = Some z -> by_alias r = true ->
  exists r', normalize E false r = Val r' /\ ref_has_path r' = false /\ resolve E r' = Val (Some x).
Proof. exact normalize_drops_path. Qed.
Print Assumptions C15r_normalize_drops_path.

Theorem C15r_path_preserved_refuted :
  ~ (forall E r r', env_ok E = true -> normalize E false r = Val r' -> ref_has_path r' = ref_has_path r).
Proof. exact path_preserved_refuted. Qed.
Print Assumptions C15r_path_preserved_refuted.

(* ---- utils.reduce_ref keeps the qualifier and the entity; _normalize_ref(reduce_ref(ref)), the key of the validator's
   maps, is determined by the qualifier as written, the kind and the id: not by the spelling, not by the path *)
Theorem C15r_reduce_ref_resolves : forall E r x, nl_free r = true -> resolve E r = Val (Some x) ->
  resolve E (reduce_ref r) = Val (Some x) /\ ref_has_path (reduce_ref r) = false /\
  qualifier_text (reduce_ref r) = qualifier_text r /\ parse_schema_id (reduce_ref r) = parse_schema_id r.
Proof. exact reduce_ref_resolves. Qed.
Print Assumptions C15r_reduce_ref_resolves.

Theorem C15r_canonical_key : forall E r x e z,
  env_ok E = true -> nl_free r = true -> resolve E r = Val (Some x) -> entity_at E x = Some e -> e_id e = Some z ->
  normalize E false (reduce_ref r) = Val (requalify (qualifier_text r) (as_ref_id (ref_kind r) z)).
Proof. exact canonical_key. Qed.
Print Assumptions C15r_canonical_key.

(* ---- the hypotheses are needed *)
(* a path segment with a newline in it makes "k:{12}.path" look up the ID 12 *)
Theorem C15r_newline_path_refuted :
  ~ (forall E f k i e a p, env_ok E = true -> In k entity_kinds -> qualifier_ok f = true ->
       entity_at E (f, k, i) = Some e -> get_field (alias_field k) e = Some a ->
       resolve E (ref_text f (as_ref_alias k a) p) = Val (Some (f, k, i))).
Proof. exact newline_path_refuted. Qed.
Print Assumptions C15r_newline_path_refuted.

(* a negative id is normalised to a text that is not a reference (recorded known finding of C12) *)
Theorem C15r_negative_id_refuted :
  env_distinct negative_env = true /\
  ~ (forall E r r', env_distinct E = true -> normalize E false r = Val r' -> resolve E r' = resolve E r).
Proof. exact negative_id_refuted. Qed.
Print Assumptions C15r_negative_id_refuted.
