(* Property C02 -- circular dependencies.
   A schema whose dependency relation contains a cycle is never accepted, where an action depends on every action
   compared anywhere in its checkpoint (through nested checkpoint references), and every threaded action and
   nested thread group additionally depends on what its enclosing thread groups' checkpoints depend on.
   Conversely an otherwise valid schema whose dependency relation is acyclic is never reported as circular.

   The dependency relation is [Dep] of Spec/DepRel.v (declarative: [Mentions] through nested references,
   [HoldsAction]/[HoldsGroup] through enclosing thread groups); [Acyclic s] says its transitive closure is
   irreflexive.  The verdict is [conforms] of Model/Rules.v, whose last conjunct is [negb (has_cycle s)]; the
   detector [has_cycle] is the implementation's search (shared visited set, copied path, explicit fuel).
   Proofs: Proofs/DepLemmas.v, Proofs/CycleProofs.v.

   Side conditions, both implied by [conforms] (lemmas [conforms_with_scopes], [has_cycle_false_parts]):
   [NestingAcyclic s] -- checkpoint references are not circular; [ScopesResolve s] -- the context chain of every
   existing thread group reaches a top-level group. *)
From Coq Require Import List Bool Arith Relations.
From OIS Require Import Base.Types Base.PipeTypes Model.Schema Model.Rules Spec.DepRel Proofs.DepLemmas Proofs.CycleProofs.
Import ListNotations.

(* a schema with a dependency cycle is never accepted (contrapositive form: accepted schemas are acyclic) *)
Theorem C02_cycle_never_accepted : forall tbl s, conforms tbl s = true -> Acyclic s.
Proof. exact C02_cycle_never_accepted_lemma. Qed.
Print Assumptions C02_cycle_never_accepted.

(* the detector alone: its negative answer already excludes every cycle of [Dep] (scopes resolving) *)
Theorem C02_detector_sound : forall s, ScopesResolve s -> has_cycle s = false -> Acyclic s.
Proof. exact has_cycle_false_acyclic. Qed.
Print Assumptions C02_detector_sound.

(* an acyclic schema is never reported as circular *)
Theorem C02_acyclic_never_flagged : forall s,
  nodup_nat (map a_id (actions s)) = true -> Acyclic s -> NestingAcyclic s -> has_cycle s = false.
Proof. exact C02_acyclic_never_flagged_lemma. Qed.
Print Assumptions C02_acyclic_never_flagged.

(* the model's direct-dependency function computes exactly the relation the property speaks about *)
Theorem C02_dep_characterisation : forall s, NestingAcyclic s -> ScopesResolve s ->
  forall a b, In b (succ s a) <-> Dep s a b.
Proof. exact C02_dep_characterisation_lemma. Qed.
Print Assumptions C02_dep_characterisation.

(* ... in particular on every accepted schema *)
Theorem C02_dep_characterisation_conforms : forall tbl s, conforms tbl s = true ->
  forall a b, In b (succ s a) <-> Dep s a b.
Proof. exact C02_dep_characterisation_conforms_lemma. Qed.
Print Assumptions C02_dep_characterisation_conforms.
