(* Property C12 -- validation of a well-shaped document always returns a verdict.
   The Gallina model is a total function: every search of the validator is written on explicit fuel, and a
   lookup that fails returns [None] which every rule handles.  So "terminates and returns a verdict" holds of the
   model by construction; what has to be PROVED is that the fuel bounds are adequate, i.e. that running out of
   fuel never changes a verdict (the model's image of "no RecursionError on any wiring, cyclic or not"):
     - the cycle search answers "cycle" only when a dependency cycle or a cyclic checkpoint nesting exists
       (in particular when it runs out of fuel);
     - the nested-reference expansion [mentions] with the model's fuel computes exactly the declarative
       relation wherever nesting is acyclic, and the cyclic case is reported;
     - the ancestry closure and the guaranteed-ancestor search are exact with the model's fuel.
   Python exceptions (KeyError, TypeError, AttributeError, ...) and the interpreter's recursion limit are runtime
   behaviour that this model cannot exhibit: that half of C12 is carried by the differential run of
   checks/c12.py (arbitrarily rewired well-shaped documents must not raise, and must get the model's verdict). *)
From Coq Require Import List Bool Arith Relations.
From OIS Require Import Base.Types Base.PipeTypes Model.Schema Model.Rules Spec.DepRel
                        Proofs.DepLemmas Proofs.CycleProofs Proofs.AncestryProofs.

(* the model always returns a verdict *)
Theorem C12_model_total : forall tbl s, conforms tbl s = true \/ conforms tbl s = false.
Proof. intros tbl s. destruct (conforms tbl s); [left|right]; reflexivity. Qed.
Print Assumptions C12_model_total.

(* fuel exhaustion of the cycle search is never a spurious verdict *)
Theorem C12_cycle_search_fuel_adequate : forall s,
  has_cycle s = true -> ~ (Acyclic s /\ NestingAcyclic s).
Proof.
  intros s H [HA HN]. rewrite (acyclic_has_cycle_false s HA HN) in H. discriminate.
Qed.
Print Assumptions C12_cycle_search_fuel_adequate.

(* the expansion of nested checkpoint references is exact with the model's fuel *)
Theorem C12_nesting_fuel_adequate : forall s c b,
  NestAcyclicFrom s c -> (In b (mentions s (fuel_of s) c) <-> Mentions s c b).
Proof. exact mentions_iff. Qed.
Print Assumptions C12_nesting_fuel_adequate.

(* the ancestry closure reaches every ancestor within |actions| rounds, on any graph (cyclic or not) *)
Theorem C12_ancestry_rounds_adequate : forall s a b,
  In b (ancestors s a) <-> clos_trans nat (Edge s) a b.
Proof. exact ancestors_reach. Qed.
Print Assumptions C12_ancestry_rounds_adequate.

(* the guaranteed-ancestor search is exact as soon as fuel >= |checkpoints|, with no acyclicity assumption *)
Theorem C12_guaranteed_fuel_adequate : forall s fuel b c,
  length (checkpoints s) <= fuel -> GuarCp s b c -> guar_cp s fuel b c = true.
Proof. exact guar_cp_complete. Qed.
Print Assumptions C12_guaranteed_fuel_adequate.
