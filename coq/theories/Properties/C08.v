(* Property C08 -- aggregation pipelines are type-checked end to end.  (tables part; the pipeline typing
   rules over whole pipelines are in Properties/C08_pipeline.v once Model/PipeRules.v is in place) *)
From Coq Require Import List.
From OIS Require Import Base.Types Base.PipeTypes Spec.PipelineSpec Proofs.C08Tables.

(* the implementation's method rule (validate_operation), tabulated from the current source on all
   10 x 10 x 10 x 2 (target type, method, source type, target-is-null) points, equals Combine:
   SET required as the first and only the first operation on a null-initialised variable *)
Theorem C08_method_table : forall l m r n, impl_method_ok l m r n = Some (Combine l m r n).
Proof. exact C08_method_table_lemma. Qed.
Print Assumptions C08_method_table.

(* aggregation operators fit the aggregated item type, with the documented result type *)
Theorem C08_agg_table : forall s a, impl_aggregate s a = Some (Aggregate s a).
Proof. exact C08_agg_table_lemma. Qed.
Print Assumptions C08_agg_table.

(* a variable's initial value fits its declared type; lists are never null *)
Theorem C08_initial : forall s t, In t var_types -> impl_initial_ok s t = Some (InitOk s t).
Proof. exact C08_initial_lemma. Qed.
Print Assumptions C08_initial.

Theorem C08_lists_never_null : forall t, In t var_types -> is_list_ty t = true -> impl_initial_ok SNull t = Some false.
Proof.
  intros t Ht Hl. rewrite (C08_initial_lemma SNull t Ht).
  destruct t; simpl in Hl; try discriminate; reflexivity.
Qed.
Print Assumptions C08_lists_never_null.
