(* Property C11 (structural layer).  Only the property theorems; the development is in
   Model/Interp.v (the interpreter), Model/Regex.v (pattern recognisers), Spec/Grammar.v (the grammar G the
   property enumerates, the refinement order, the notion of inert addition), Proofs/InterpProofs.v (proofs) and
   Gen/Specs.v (the specification data of the implementation, regenerated from the repository on every run).

   Reading: [interp spec_env fuel root_spec d = true] iff the structural layer of the validator, interpreting the
   repository's own specification data, reports no error for d (tie to the code: harness/corr/interp.py compares
   exactly this function with the implementation on damaged documents).  [interp G_env fuel G_root d] is the same
   interpreter on the hand-written grammar of the property.

   C11_specs_refine     the implementation's specification data is at least as strict as the grammar - checked
                        by computation against the REGENERATED data, so loosening obj_specs.py breaks this file;
   C11_damage_rejected  hence every document the grammar rejects (missing required property, wrong JSON type,
                        unknown enumeration value, pattern violation, reserved or forbidden property, both or
                        neither of a mutually exclusive pair, short array, gate_type against the number of
                        dependencies, lone checkpoint reference, at any depth) is rejected by the implementation's data;
   C11_inert_unknown    adding properties that no specification mentions and that are not reserved, with any
                        values, anywhere outside keys/values maps, does not change the verdict at all;
   C11_inert_descriptive adding description / abbreviated_description / supporting_info / steps / hex_code with
                        well-formed values where they were absent keeps an accepted document accepted. *)
From Coq Require Import List String Bool.
From OIS Require Import Base.Json Model.Regex Model.Interp Gen.Specs Spec.Grammar Proofs.InterpProofs.
Import ListNotations.
Open Scope string_scope.

Theorem C11_specs_refine : refines spec_env root_spec G_env G_root = true.
Proof. vm_compute. reflexivity. Qed.
Print Assumptions C11_specs_refine.

Theorem C11_damage_rejected :
  forall fuel d, interp G_env fuel G_root d = false -> interp spec_env fuel root_spec d = false.
Proof. exact (interp_refines_contra spec_env root_spec G_env G_root C11_specs_refine). Qed.
Print Assumptions C11_damage_rejected.

Theorem C11_inert_unknown :
  forall k, unknown_key spec_env root_spec k = true ->
  forall fuel d d',
    ext map_keys k (fun _ => True) d d' ->
    interp spec_env fuel root_spec d' = interp spec_env fuel root_spec d.
Proof. exact (interp_ignores_unknown spec_env root_spec). Qed.
Print Assumptions C11_inert_unknown.

Theorem C11_inert_descriptive :
  forall k sk, In (k, sk) descriptive ->
  forall n fuel d d',
    interp spec_env fuel root_spec d = true ->
    ext map_keys k (fun v => interp spec_env n sk v = true) d d' ->
    interp spec_env (fuel + n) root_spec d' = true.
Proof.
  exact (interp_optional_descriptive_all spec_env root_spec descriptive
           (eq_refl true <: forallb (fun p => descriptive_key spec_env root_spec (fst p) (snd p)) descriptive = true)
           (eq_refl true <: env_le le_fuel spec_env spec_env = true)).
Qed.
Print Assumptions C11_inert_descriptive.
