(* Properties C06 (ancestry part) and C07 (guaranteed-ancestor part).
   C06: an action editing an object promise (and an edge or spawn source referring to one) must have the fulfilling
   action among its ancestors -- whatever route the ancestry takes (gates of any type, nested checkpoints,
   thread-group checkpoints, several dependencies per checkpoint in any order).
   C07: a promise whose fulfilment is guaranteed beforehand, even through OR gates.

   Ancestry is [Anc] of Spec/DepRel.v, the transitive closure of the dependency relation [Dep] of property C02
   (nested checkpoint references through [Mentions], thread-group checkpoints through [HoldsAction]/[HoldsGroup];
   gate types and the order of dependencies play no role in it).  Guaranteed ancestry is [GuarCp]: every branch
   of an OR gate leads to the action, some dependency of any other gate does.  The searches are [is_ancestor],
   [group_ancestors], [guar_cp] and [guaranteed_ancestor] of Model/Rules.v, the ones [action_op_ok] and [group_ok]
   call.  Proofs: Proofs/AncestryProofs.v.

   Side conditions of the completeness directions, both implied by [conforms]: [NestingAcyclic s] and
   [ScopesResolve s] (see Properties/C02.v).  Guaranteed ancestry needs neither. *)
From Coq Require Import List Bool Arith Relations.
From OIS Require Import Base.Types Base.PipeTypes Model.Schema Model.Rules Spec.DepRel
  Proofs.DepLemmas Proofs.CycleProofs Proofs.AncestryProofs.
Import ListNotations.

(* whatever the ancestor search finds is an ancestor *)
Theorem C06_ancestor_search_sound : forall s a b, is_ancestor s a b = true -> Anc s a b.
Proof. exact C06_ancestor_search_sound_lemma. Qed.
Print Assumptions C06_ancestor_search_sound.

(* every ancestor is found, whatever route the ancestry takes *)
Theorem C06_ancestor_search_complete : forall s a b,
  Anc s a b -> NestingAcyclic s -> ScopesResolve s -> nodup_nat (map a_id (actions s)) = true ->
  is_ancestor s a b = true.
Proof. exact C06_ancestor_search_complete_lemma. Qed.
Print Assumptions C06_ancestor_search_complete.

(* on accepted schemas the search decides ancestry *)
Theorem C06_ancestor_search_exact : forall tbl s, conforms tbl s = true ->
  forall a b, is_ancestor s a b = true <-> Anc s a b.
Proof. exact C06_ancestor_search_exact_lemma. Qed.
Print Assumptions C06_ancestor_search_exact.

(* ancestors of a thread group (used for its spawn source): through the checkpoints holding the group *)
Theorem C06_group_ancestor_search_sound : forall s g b, In b (group_ancestors s g) -> GroupAnc s g b.
Proof. exact C06_group_ancestor_search_sound_lemma. Qed.
Print Assumptions C06_group_ancestor_search_sound.

Theorem C06_group_ancestor_search_complete : forall s g b,
  GroupAnc s g b -> NestingAcyclic s -> ScopesResolve s -> In b (group_ancestors s g).
Proof. exact C06_group_ancestor_search_complete_lemma. Qed.
Print Assumptions C06_group_ancestor_search_complete.

(* guaranteed ancestry: the search accepts only what is guaranteed ... *)
Theorem C07_guaranteed_sound : forall s fuel b c, guar_cp s fuel b c = true -> GuarCp s b c.
Proof. exact C07_guaranteed_sound_lemma. Qed.
Print Assumptions C07_guaranteed_sound.

(* ... and everything that is guaranteed, given fuel for |checkpoints| rounds (no acyclicity needed) *)
Theorem C07_guaranteed_complete : forall s fuel b c,
  length (checkpoints s) <= fuel -> GuarCp s b c -> guar_cp s fuel b c = true.
Proof. exact C07_guaranteed_complete_lemma. Qed.
Print Assumptions C07_guaranteed_complete.

(* the test applied to appends_objects_to, with the fuel the validator's model uses *)
Theorem C07_guaranteed_ancestor_exact : forall s a b,
  guaranteed_ancestor s a b = true <-> exists c, In c (action_cps s a) /\ GuarCp s b c.
Proof. exact C07_guaranteed_ancestor_exact_lemma. Qed.
Print Assumptions C07_guaranteed_ancestor_exact.
