(* Property C04, typing part -- a checkpoint comparison is accepted iff at least one operand is a reference, the
   operands are not the same expression, both operand types resolve and the operator is defined for the pair of
   types; and what the type of an operand is.  (The operator table itself is Properties/C04.v.)

   Vocabulary (Proofs/TypingSpec.v): [PathType] (below, C04_path_typing, with its constructors);
   [RefPathType s tr path td] := exists d, find_type_ref s tr = Some d /\ PathType s (Some d) (TD false IObject (Some tr)) path td;
   [Sees s from target] := forall g', target = Some g' -> exists g, from = Some g /\ Encloses s g' g;
   [VarType s g vt]: the variable of thread group g has the item type of g's list-valued spawn source
     (VT_promise: source object_promise:<p>.<path>, typed by PromisePathType from the group's own context;
      VT_variable: source a path from the variable of a strictly enclosing group);
   [OperandType s ctx o t]: a literal has the type of its JSON shape; action:<a>.object_promise.<path> the type of the
     path on a's promise seen from ctx (list-lifted when the promise's thread context is not seen); $g the variable's
     type provided g is ctx or encloses it; $g.<path> the type of the path from the variable's object type. *)
From Coq Require Import List Relations.
From OIS Require Import Base.Types Base.PipeTypes Spec.Compare Model.Schema Model.Rules Spec.DepRel.
From OIS Require Import Proofs.ConformsInv Proofs.TypingSpec Proofs.C04Table.
Import ListNotations.

(* acceptance of the schema gives, for every comparison of every checkpoint: *)
Theorem C04_accepted_comparisons : forall tbl s, conforms tbl s = true ->
  forall cp l o r, In cp (checkpoints s) -> In (DCmp l o r) (cp_deps cp) ->
  ~ (exists x y, l = OLit x /\ r = OLit y) /\                              (* at least one operand is a reference *)
  l <> r /\ operand_eqb l r = false /\                                      (* not the same expression *)
  exists tl tr,
    operand_type s (ctx_group (cp_ctx cp)) l = Some tl /\ operand_type s (ctx_group (cp_ctx cp)) r = Some tr /\
    OperandType s (ctx_group (cp_ctx cp)) l tl /\ OperandType s (ctx_group (cp_ctx cp)) r tr /\   (* both types resolve *)
    Cmp tl o tr = true /\ Comparable tl o tr.                               (* the operator is defined for them *)
Proof. exact C04_accepted_spec_lemma. Qed.
Print Assumptions C04_accepted_comparisons.

(* the implementation's table (known finding: STRING CONTAINS STRING) *)
Theorem C04_accepted_comparisons_kf : forall tbl s, conforms_kf tbl s = true ->
  forall cp l o r, In cp (checkpoints s) -> In (DCmp l o r) (cp_deps cp) ->
  ~ (exists x y, l = OLit x /\ r = OLit y) /\ l <> r /\ operand_eqb l r = false /\
  exists tl tr,
    operand_type s (ctx_group (cp_ctx cp)) l = Some tl /\ operand_type s (ctx_group (cp_ctx cp)) r = Some tr /\
    OperandType s (ctx_group (cp_ctx cp)) l tl /\ OperandType s (ctx_group (cp_ctx cp)) r tr /\
    Cmp_kf tl o tr = true.
Proof. exact (C04_accepted_lemma Cmp_kf). Qed.
Print Assumptions C04_accepted_comparisons_kf.

(* the acceptance condition of one comparison, both directions, on any schema *)
Theorem C04_comparison_iff : forall s ctx l o r,
  comparison_ok Cmp s ctx l o r = true <->
  ~ (exists x y, l = OLit x /\ r = OLit y) /\ l <> r /\
  exists tl tr, operand_type s ctx l = Some tl /\ operand_type s ctx r = Some tr /\ Comparable tl o tr.
Proof. exact C04_comparison_iff_lemma. Qed.
Print Assumptions C04_comparison_iff.

(* the same with the declarative operand typing, for a comparison placed in a declared thread context (or none) of
   an accepted schema *)
Theorem C04_comparison_iff_declarative : forall cmp tbl s, conforms_with cmp tbl s = true ->
  forall ctx l o r, (forall cg, ctx = Some cg -> exists tg, find_group s cg = Some tg) ->
  (comparison_ok Cmp s ctx l o r = true <->
   ~ (exists x y, l = OLit x /\ r = OLit y) /\ l <> r /\
   exists tl tr, OperandType s ctx l tl /\ OperandType s ctx r tr /\ Comparable tl o tr).
Proof. exact C04_comparison_declarative_lemma. Qed.
Print Assumptions C04_comparison_iff_declarative.

(* operand typing: the model's function computes the declarative relation (soundness on every schema; completeness
   on accepted ones, where the fuel of [var_type] and of the scope search is enough) *)
Theorem C04_operand_typing_sound : forall s ctx o t, operand_type s ctx o = Some t -> OperandType s ctx o t.
Proof. exact operand_type_sound. Qed.
Print Assumptions C04_operand_typing_sound.

Theorem C04_operand_typing : forall cmp tbl s, conforms_with cmp tbl s = true ->
  forall ctx o t, (forall cg, ctx = Some cg -> exists tg, find_group s cg = Some tg) ->
  (operand_type s ctx o = Some t <-> OperandType s ctx o t).
Proof. exact operand_type_spec. Qed.
Print Assumptions C04_operand_typing.

Theorem C04_variable_typing : forall cmp tbl s, conforms_with cmp tbl s = true ->
  forall g vt, var_type s (fuel_of s) g = TOk vt <-> VarType s g vt.
Proof. exact var_type_spec. Qed.
Print Assumptions C04_variable_typing.

(* paths: [walk] computes [PathType].  PathType s def td path td' is generated by
     PT_here             PathType s def td [] td
     PT_field            find_attr d seg = Some a -> at_kind a = KField t -> field_item t = Some (false, it) ->
                         PathType s (Some d) td [seg] (TD (td_list td) it None)
     PT_list_field       ... field_item t = Some (true, it) -> td_list td = false -> PathType s (Some d) td [seg] (TD true it None)
     PT_edge             find_attr d seg = Some a -> at_kind a = KEdge tgt -> r_kind tgt = RType ->
                         PathType s (find_type s (r_id tgt)) (TD (td_list td) IObject (Some tgt)) rest td' ->
                         PathType s (Some d) td (seg :: rest) td'
     PT_edge_collection  ... at_kind a = KEdgeColl tgt -> r_kind tgt = RType -> td_list td = false ->
                         PathType s (find_type s (r_id tgt)) (TD true IObject (Some tgt)) rest td' ->
                         PathType s (Some d) td (seg :: rest) td' *)
Theorem C04_path_typing : forall s def td path td', walk s def td path = TOk td' <-> PathType s def td path td'.
Proof. exact walk_spec. Qed.
Print Assumptions C04_path_typing.

Theorem C04_resolve_path_typing : forall s tr path td, resolve_path s tr path = TOk td <-> RefPathType s tr path td.
Proof. exact resolve_path_spec. Qed.
Print Assumptions C04_resolve_path_typing.

(* object_promise:<p>.<path> observed from thread context [from], in an accepted schema: the type of the path on the
   promise's object type when the observer sees the thread context of the fulfilling action (none, the observer's
   own, or an enclosing one); otherwise -- the object is promised inside a thread group that does not enclose the
   observer -- that type made a list, which is not possible if it already is one *)
Theorem C04_promise_lifting : forall cmp tbl s, conforms_with cmp tbl s = true ->
  forall from p path td, (forall g, from = Some g -> exists tg, find_group s g = Some tg) ->
  (promise_path_type s from p path = TOk td <->
   exists pr f base, find_promise s p = Some pr /\ creators s p = [f] /\ RefPathType s (pr_type pr) path base /\
     ((Sees s from (ctx_group (a_ctx f)) /\ td = base) \/
      (~ Sees s from (ctx_group (a_ctx f)) /\ td_list base = false /\ td = TD true (td_item base) (td_obj base)))).
Proof. exact C04_promise_lifting_lemma. Qed.
Print Assumptions C04_promise_lifting.

(* a list is never crossed twice *)
Theorem C04_path_keeps_list : forall s def td path td', PathType s def td path td' -> td_list td = true -> td_list td' = true.
Proof. exact PathType_keeps_list. Qed.
Print Assumptions C04_path_keeps_list.
