(* Property C18 -- edges spanning several columns never run straight through another node.

   In every computed layout, if an edge joins two nodes that sit at the same height more than one column
   apart, no node in a column strictly between them sits at that height.

   [layout] is the executable model of DependencyChartLayout.from_graph_data (Model/Layout.v); heights are
   counted in halves (y_model = 2 * y). *)
From Coq Require Import List ZArith Relations.
From OIS Require Import Model.Layout Spec.LayoutSpec Proofs.LayoutProofs.
Local Open Scope Z_scope.

Theorem C18_no_overlap : forall nodes edges,
  wf nodes edges = true ->
  (forall x, ~ clos_trans nat (fun a b => In (a, b) edges) x x) ->
  forall out, layout nodes edges = Some out ->
  forall a b w xa ya xb yb xw yw,
    In (a, b) edges -> In (a, (xa, ya)) out -> In (b, (xb, yb)) out -> In (w, (xw, yw)) out ->
    ya = yb -> 1 < Z.abs (xa - xb) -> Z.min xa xb < xw < Z.max xa xb -> yw <> ya.
Proof. exact C18_no_overlap_explicit_lemma. Qed.
Print Assumptions C18_no_overlap.

(* the same, through the specification's predicate *)
Theorem C18_no_edge_through_node : forall nodes edges,
  wf nodes edges = true ->
  (forall x, ~ clos_trans nat (fun a b => In (a, b) edges) x x) ->
  forall out, layout nodes edges = Some out -> ~ EdgeThroughNode edges out.
Proof. exact C18_no_overlap_lemma. Qed.
Print Assumptions C18_no_edge_through_node.
