(* Property C10 -- uniqueness: a schema in which two entities of a uniqueness domain share an identifier (id, name /
   alias, milestone, file name, connection target, promise written by a pipeline, or the composite checkpoint key
   gate type + SET of dependencies) is never accepted; a schema whose identifiers are all distinct is never reported
   as containing duplicates.

   What is proved here is about the MODEL of the uniqueness machinery (Model/Canon.v: `dups`, `unique_errors`,
   `canon`, `ser`), tied to /repo/utils.py and SchemaValidator._validate_unique by harness/corr/canon.py (exact
   agreement of verdicts / error counts on generated cases).  Preconditions and modelling assumptions are listed at
   the top of Model/Canon.v.  Known deviation of the implementation (witnessed in C10_impl_confuses_kinds): the hash
   does not record whether a container is a dict or a list; unreachable from obj_spec-valid checkpoints. *)
From Coq Require Import List String ZArith Bool Permutation.
From OIS Require Import Base.Json Model.Canon Spec.UniqueSpec Proofs.CanonProofs.
Import ListNotations.
Open Scope string_scope.
Open Scope list_scope.

(* the dict-based detection of _validate_unique reports nothing exactly when the keys are pairwise distinct -- for any
   key type with a correct boolean equality, whatever the positions and the multiplicity of the repeated keys *)
Theorem C10_dup_detect : forall (K : Type) (eqb : K -> K -> bool),
  (forall a b, eqb a b = true <-> a = b) ->
  forall l : list K, dups eqb l = [] <-> NoDup l.
Proof. exact (@dups_nil_iff_NoDup). Qed.
Print Assumptions C10_dup_detect.

(* ... and a key is reported exactly when it stands at two different positions (every pair of positions) *)
Theorem C10_dup_positions : forall (K : Type) (eqb : K -> K -> bool),
  (forall a b, eqb a b = true <-> a = b) ->
  forall (k : K) (l : list K), In k (dups eqb l) <-> repeated k l.
Proof. exact (@In_dups_iff_repeated). Qed.
Print Assumptions C10_dup_positions.

(* the whole of _validate_unique for constraints {"unique": fields, "unique_composites": composites} *)
Theorem C10_unique_errors_zero : forall fields composites bypass items,
  unique_errors fields composites bypass items = 0 <->
  (forall f, In f fields -> NoDup (field_keys f items)) /\
  (forall ps, In ps composites -> NoDupOn canon (composite_objs ps bypass items)).
Proof. exact unique_errors_zero_iff. Qed.
Print Assumptions C10_unique_errors_zero.

(* the composite checkpoint key: hash equality is equality up to the order of arrays and keys *)
Theorem C10_canon_eq : forall x y, keys_distinct x -> keys_distinct y ->
  (canon_eqb x y = true <-> same_modulo_order x y).
Proof. exact canon_eq. Qed.
Print Assumptions C10_canon_eq.

(* two checkpoints are reported as duplicates of each other exactly when their (gate type, dependencies) objects are
   the same up to order *)
Theorem C10_composite_detect : forall props bypass items,
  Forall keys_distinct (composite_objs props bypass items) ->
  (composite_dups props bypass items = [] <->
   forall i j a b, i <> j ->
     nth_error (composite_objs props bypass items) i = Some a ->
     nth_error (composite_objs props bypass items) j = Some b -> ~ same_modulo_order a b).
Proof. exact composite_dups_nil_iff. Qed.
Print Assumptions C10_composite_detect.

(* reordering an array does not change the hash ... *)
Theorem C10_canon_perm : forall l l', Permutation l l' -> canon_eqb (JArr l) (JArr l') = true.
Proof. exact canon_perm. Qed.
Print Assumptions C10_canon_perm.

(* ... nor does the order of the keys ... *)
Theorem C10_canon_key_order : forall kv kv', NoDup (map fst kv) -> Permutation kv kv' ->
  canon_eqb (JObj kv) (JObj kv') = true.
Proof. exact canon_key_order. Qed.
Print Assumptions C10_canon_key_order.

(* ... at any depth *)
Theorem C10_canon_deep_reorder : forall x y, keys_distinct x -> same_modulo_order x y -> canon_eqb x y = true.
Proof. exact canon_deep_reorder. Qed.
Print Assumptions C10_canon_deep_reorder.

(* values of different JSON types are never identified (1 / "1", null / "None", true / "True", true / 1, ...) *)
Theorem C10_canon_type_sensitive : forall x y, jtype_of x <> jtype_of y -> canon_eqb x y = false.
Proof. exact canon_type_sensitive. Qed.
Print Assumptions C10_canon_type_sensitive.

(* ... at any depth: near-equal values differing at one place in the JSON type only are NOT duplicates, even when
   reordered *)
Theorem C10_canon_retyped : forall x y' y,
  retyped_once x y' -> keys_distinct y' -> same_modulo_order y' y -> canon_eqb x y = false.
Proof. exact canon_retyped_reordered. Qed.
Print Assumptions C10_canon_retyped.

(* the verdict does not depend on the positions of the entities in the array *)
Theorem C10_verdict_perm : forall (K : Type) (eqb : K -> K -> bool),
  (forall a b, eqb a b = true <-> a = b) ->
  forall l l' : list K, Permutation l l' -> (dups eqb l = [] <-> dups eqb l' = []).
Proof. exact (@dups_perm). Qed.
Print Assumptions C10_verdict_perm.

Theorem C10_unique_errors_perm : forall fields composites items items', Permutation items items' ->
  (unique_errors fields composites no_bypass items = 0 <-> unique_errors fields composites no_bypass items' = 0).
Proof. exact unique_errors_perm. Qed.
Print Assumptions C10_unique_errors_perm.

(* the implementation's own hash key (text model) identifies whatever is the same up to order: no duplicate missed *)
Theorem C10_impl_never_misses : forall x y, keys_distinct x -> canon_eqb x y = true -> impl_eqb x y = true.
Proof. exact canon_eqb_impl_eqb. Qed.
Print Assumptions C10_impl_never_misses.

Theorem C10_composite_text_never_misses : forall props bypass items,
  Forall keys_distinct (composite_objs props bypass items) ->
  composite_dups_text props bypass items = [] -> composite_dups props bypass items = [].
Proof. exact composite_text_never_misses. Qed.
Print Assumptions C10_composite_text_never_misses.

(* The converse of C10_impl_never_misses is FALSE of the text model (= of the implementation): full statement kept
   visible, refuted by {} vs [].  What is missing for "never reports distinct composite keys as duplicates" at the
   level of the text model is a proof that impl_eqb -> canon_eqb on values whose corresponding positions hold
   containers of the same kind (every obj_spec-valid checkpoint); that direction is covered by the correspondence
   harness only (kinds shuffle / type / dropdup / unrelated agree with the typed model on every generated case). *)
Definition C10_impl_exact_statement : Prop := forall x y, impl_eqb x y = true -> canon_eqb x y = true.
Theorem C10_impl_confuses_kinds : ~ C10_impl_exact_statement.
Proof. exact impl_exact_refuted. Qed.
Print Assumptions C10_impl_confuses_kinds.
