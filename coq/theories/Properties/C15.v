(* Property C15 -- references by id and by alias are interchangeable; names are arbitrary.

   Rewriting any reference in a schema from its id spelling to its alias spelling or back never changes
   whether the schema is accepted.  Neither does consistently renaming entities and variables, or
   renumbering ids, throughout the schema.

   Spelling.  The abstract syntax (Model/Schema.v) has no spelling: a reference is a pair (kind, id), and
   the scenario renderer (harness/scenario.py) chooses per occurrence whether to write the id or the alias.  That the
   verdict cannot depend on the choice therefore holds by construction of the model; it is tied to the
   code by the correspondence runs, which render every schema with random spellings.

   Renumbering ([Renumber.renumber rho]): [rho k] is applied to every id field of kind k, to every
   reference [Ref k i] (whatever its position) and to the bare thread-group ids inside [OVar] / [SpVar].
   Renaming ([Names.rename_names r]): party, object type, object promise, action, thread group names,
   checkpoint aliases and thread variable names are renamed by independent injective functions; attribute
   names by one injective function applied at every occurrence (declarations, paths, include/exclude
   lists, keys of default values and default edges).  Both transformations keep the order of every list.
   The verdict is unchanged for every schema, accepted or not, and for the known-finding variant
   [conforms_kf] as well (Proofs/RenameProofs.v proves both for an arbitrary comparison table). *)
From Coq Require Import List Bool Arith.
From OIS Require Import Base.Types Model.Schema Model.Rules Proofs.RenameProofs.

Theorem C15_renumber_ids : forall tbl s rho,
  (forall k, Renumber.injective (rho k)) -> conforms tbl (Renumber.renumber rho s) = conforms tbl s.
Proof. exact Renumber.C15_renumber_ids_lemma. Qed.
Print Assumptions C15_renumber_ids.

Theorem C15_rename_names : forall tbl s r,
  Names.renaming_injective r -> conforms tbl (Names.rename_names r s) = conforms tbl s.
Proof. exact Names.C15_rename_names_lemma. Qed.
Print Assumptions C15_rename_names.

(* both at once: rename, then renumber *)
Theorem C15_rename_and_renumber : forall tbl s r rho,
  Names.renaming_injective r -> (forall k, Renumber.injective (rho k)) ->
  conforms tbl (Renumber.renumber rho (Names.rename_names r s)) = conforms tbl s.
Proof.
  intros tbl s r rho Hr Hrho.
  rewrite Renumber.C15_renumber_ids_lemma by exact Hrho. apply Names.C15_rename_names_lemma. exact Hr.
Qed.
Print Assumptions C15_rename_and_renumber.
