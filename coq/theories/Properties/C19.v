(* Property C19 -- schema -> dependency graph.
   For every valid import-free schema, building the dependency graph succeeds and yields one node per action
   and one gate node per multi-dependency checkpoint in use, each gate carrying its checkpoint's gate type.
   The set of actions reachable from any action in the graph equals that action's transitive explicit
   dependency set in the schema, and every node receives a layout coordinate; with validation switched on,
   a schema the validator rejects is refused instead of being drawn.

   Model: Model/Graph.v ([build], [dependency_graph]); tie to the code: harness/corr/graph.py.
   "valid" is the boolean [wf] of Spec/GraphSpec.v (checked to hold on every generated document the real
   validator accepts).  The layout itself is a separate component (C17): the graph hands it [g_nodes g],
   which [C19_nodes] shows to be duplicate-free and to contain both ends of every edge. *)
From Coq Require Import List Arith ZArith Bool Relations.
From OIS Require Import Model.Graph Model.Board Spec.GraphSpec Proofs.GraphProofs.
Import ListNotations.

(* building succeeds (no exception, no exhausted recursion budget) *)
Theorem C19_builds : forall s, wf s = true -> exists g, build s = Ok g.
Proof. exact C19_builds_lemma. Qed.
Print Assumptions C19_builds.

(* one node per action, one gate per multi-dependency checkpoint in use with its gate type,
   no repeated node, every edge between nodes *)
Theorem C19_nodes : forall s g, wf s = true -> build s = Ok g -> nodes_ok s g.
Proof. exact C19_nodes_lemma. Qed.
Print Assumptions C19_nodes.

(* reachable actions = transitive explicit dependencies *)
Theorem C19_reach : forall s g, wf s = true -> build s = Ok g ->
  forall a b, Reach g (NAct a) (NAct b) <-> clos_trans nat (Dep_explicit s) a b.
Proof. exact C19_reach_lemma. Qed.
Print Assumptions C19_reach.

(* with validation switched on a rejected schema is refused ... *)
Theorem C19_refuses_invalid : forall validator s,
  validator s = false -> dependency_graph validator true s = Raise.
Proof. exact C19_validated_lemma. Qed.
Print Assumptions C19_refuses_invalid.

(* ... and otherwise the graph is the one characterised above *)
Theorem C19_draws_otherwise : forall validator s,
  dependency_graph validator false s = build s
  /\ (validator s = true -> dependency_graph validator true s = build s).
Proof. exact C19_not_validated_lemma. Qed.
Print Assumptions C19_draws_otherwise.

(* the graph is acyclic (what the layout's depth computation needs in order to terminate) *)
Theorem C19_acyclic : forall s g, wf s = true -> build s = Ok g -> forall n, ~ Reach g n n.
Proof. exact C19_acyclic_lemma. Qed.
Print Assumptions C19_acyclic.

(* edge_captions and edge_dict, as filled by _add_edge, are functions of the (labelled) edge list:
   edge_captions[t] = captions of the occurrences of t in order, edge_dict[n] = targets of n's edges in order *)
Theorem C19_dicts : forall s g, wf s = true -> build s = Ok g ->
  (forall t, getl tuple_eqb (g_caps g) t = caps_derived (g_ledges g) t)
  /\ (forall n, getl node_eqb (g_edict g) n = succs_derived (g_ledges g) n).
Proof. exact dicts_lemma. Qed.
Print Assumptions C19_dicts.

(* the [wf] test really excludes cyclic checkpoint nesting *)
Theorem C19_wf_excludes_nesting_cycles : forall s j c k,
  wf s = true -> cp_at s j c -> In (DRef k) (c_deps c) -> ~ Nested s k j.
Proof. exact wf_no_nesting_cycle. Qed.
Print Assumptions C19_wf_excludes_nesting_cycles.

(* ---------------------------------------------------------------- the hypotheses are satisfiable *)
(* five actions; checkpoint 0: single comparison; checkpoint 1: AND gate with a comparison naming action 1
   on both sides (a parallel edge), a comparison and a nested reference; checkpoint 2: OR gate repeating the
   dependency object of checkpoint 0; action 5 shares checkpoint 1 *)
Definition ex_schema : schema :=
  {| s_actions :=
       [ {| a_id := 4; a_dep := Some 1; a_party := Some 0; a_info := true |};
         {| a_id := 1; a_dep := None;   a_party := Some 0; a_info := false |};
         {| a_id := 2; a_dep := None;   a_party := None;   a_info := false |};
         {| a_id := 3; a_dep := Some 0; a_party := Some 1; a_info := false |};
         {| a_id := 5; a_dep := Some 1; a_party := Some 1; a_info := false |} ];
     s_cps :=
       [ {| c_key := 7; c_gate := None;      c_deps := [DCmp 10 (Some 1) None]; c_info := false |};
         {| c_key := 8; c_gate := Some GAnd; c_deps := [DCmp 11 (Some 1) (Some 1); DCmp 12 None (Some 2); DRef 2];
            c_info := true |};
         {| c_key := 9; c_gate := Some GOr;  c_deps := [DCmp 13 (Some 3) None; DCmp 10 (Some 1) None];
            c_info := false |} ];
     s_parties := [Some 3; None] |}.

Example ex_wf : wf ex_schema = true.
Proof. vm_compute. reflexivity. Qed.

Example ex_builds :
  exists g, build ex_schema = Ok g
    /\ g_gates g = [(1, GAnd); (2, GOr)]
    /\ g_edges g = [(NAct 4, NGate 1); (NGate 1, NAct 1); (NGate 1, NAct 1); (NGate 1, NAct 2);
                    (NGate 1, NGate 2); (NGate 2, NAct 3); (NGate 2, NAct 1);
                    (NAct 3, NAct 1); (NAct 5, NGate 1)].
Proof. eexists; split; [vm_compute; reflexivity|]; split; reflexivity. Qed.

(* action 4 reaches action 1 three ways, e.g. through both gates and action 3 *)
Example ex_dep : clos_trans nat (Dep_explicit ex_schema) 4 1.
Proof.
  apply t_step.
  apply (dep_explicit ex_schema {| a_id := 4; a_dep := Some 1; a_party := Some 0; a_info := true |} 1 1
           {| c_key := 8; c_gate := Some GAnd; c_deps := [DCmp 11 (Some 1) (Some 1); DCmp 12 None (Some 2); DRef 2];
              c_info := true |} (DCmp 11 (Some 1) (Some 1)) 1).
  - simpl; auto.
  - reflexivity.
  - apply nested_refl.
  - reflexivity.
  - simpl; auto.
  - simpl; auto.
Qed.
