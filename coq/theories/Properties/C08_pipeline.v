(* Property C08 -- aggregation pipelines are type-checked end to end (pipeline part; the tables Combine / Aggregate /
   InitOk are proved equal to the implementation's tables in Properties/C08.v).
   Model: Model/PipeRules.v.  A pipeline is flattened ([flatten]) into the instructions the validator performs, in its
   order; [trace cmp s ctx own [] (flatten pl)] lists every instruction together with the store of pipeline variables the
   validator has built when it reaches it ("the types the model computes": [pv_td] of a store entry is the variable's
   current type -- list-ness, item type, object type --, [src_type] the type of a source read in that store).
   The theorems hold verbatim for [conforms_p_kf] (operator table Cmp_kf): the lemmas are stated for any table. *)
From Coq Require Import List Bool Arith.
From OIS Require Import Base.Types Base.PipeTypes Spec.Compare Spec.PipelineSpec Model.Schema Model.Rules Model.PipeRules Proofs.PipeProofs.
Import ListNotations.

(* every instruction of every pipeline of an accepted schema is reached, and is well typed in the store it is reached in *)
Theorem C08_pipeline_typed : forall tbl ps, conforms_p tbl ps = true ->
  forall pl, In pl (pipelines ps) ->
  let s := base ps in let own := r_id (pl_promise pl) in let ctx := pipe_ctx s own in
  map snd (trace Cmp s ctx own [] (flatten pl)) = flatten pl /\
  forall st i, In (st, i) (trace Cmp s ctx own [] (flatten pl)) -> instr_typed Cmp s ctx own st i.
Proof. exact (C08_typed_lemma Cmp). Qed.
Print Assumptions C08_pipeline_typed.

(* each variable's initial value fits its declared type; lists are never null *)
Theorem C08_initial_values : forall tbl ps, conforms_p tbl ps = true ->
  forall pl sc top d, In pl (pipelines ps) -> In (IDecl sc top d) (flatten pl) ->
  InitOk (vd_init d) (vd_type d) = true /\
  In (vd_type d) [STRING; NUMERIC; BOOLEAN; STRING_LIST; NUMERIC_LIST; BOOLEAN_LIST; OBJECT; OBJECT_LIST] /\
  (is_list_ty (vd_type d) = true -> vd_init d <> SNull).
Proof. exact (C08_initial_lemma Cmp). Qed.
Print Assumptions C08_initial_values.

(* each application: the source has a type r; its step (none, aggregate, filter, sort, select) yields rt by the step's
   rule [step_typed]: Aggregate (operator fits the aggregated item type) for aggregations of $_item or of a field path,
   Cmp on the operand types of every comparison of the filter's clause tree, a declared path for select; the target is
   declared with type t0 in a visible scope and Combine allows the method for (t0, rt); SET is used exactly when the
   variable was initialised to null and not assigned before; object types of objects agree *)
Theorem C08_applications : forall tbl ps, conforms_p tbl ps = true ->
  forall pl, In pl (pipelines ps) ->
  let s := base ps in let own := r_id (pl_promise pl) in let ctx := pipe_ctx s own in
  forall st sc a, In (st, IApp sc a) (trace Cmp s ctx own [] (flatten pl)) ->
  exists r e rt top vd t0,
    src_type s ctx own st sc (ap_src a) = TOk r /\
    step_typed Cmp s ctx own st sc r (ap_step a) rt /\
    get_var st (ap_to a) sc = Some e /\
    In (IDecl (pv_scope e) top vd) (flatten pl) /\ vd_name vd = ap_to a /\ tdet_of_ty (vd_type vd) = Some t0 /\
    Combine (pt_of t0) (ap_meth a) (pt_of rt) (left_null e) = true /\
    (left_null e = true <-> ap_meth a = M_SET) /\
    left_null e = negb (pv_assigned e) && ishape_eqb (vd_init vd) SNull /\
    (forall o, td_obj (pv_td e) = Some o -> td_obj rt = Some o).
Proof. exact (C08_application_lemma Cmp). Qed.
Print Assumptions C08_applications.

(* traversal sources are lists *)
Theorem C08_traversals : forall tbl ps, conforms_p tbl ps = true ->
  forall pl, In pl (pipelines ps) ->
  let s := base ps in let own := r_id (pl_promise pl) in let ctx := pipe_ctx s own in
  forall st sc src as_, In (st, ITrav sc src as_) (trace Cmp s ctx own [] (flatten pl)) ->
  exists t, src_type s ctx own st sc src = TOk t /\ td_list t = true.
Proof. exact (C08_traversal_lemma Cmp). Qed.
Print Assumptions C08_traversals.

(* each output variable's type -- list-ness, item type and the object type of objects -- equals the type of the
   attribute it writes (resolve_path on the object type of the pipeline's promise) *)
Theorem C08_outputs : forall tbl ps, conforms_p tbl ps = true ->
  forall pl, In pl (pipelines ps) ->
  let s := base ps in let own := r_id (pl_promise pl) in let ctx := pipe_ctx s own in
  forall v attr, In (v, attr) (pl_out pl) ->
  exists st e pr, In (st, IOut v attr) (trace Cmp s ctx own [] (flatten pl)) /\
                  get_var st v [] = Some e /\ find_promise s own = Some pr /\
                  resolve_path s (pr_type pr) [attr] = TOk (pv_td e).
Proof. exact (C08_output_lemma Cmp). Qed.
Print Assumptions C08_outputs.

(* well-typed pipelines are never rejected: the verdict is EXACTLY the conjunction of the rules.  [instr_rule] (Proofs/PipeProofs.v)
   states the rules of one instruction as a relation between the stores before and after: a declaration's name is not visible
   and its initial value fits (InitOk); a traversal's source is a list and its loop variable's name is not visible; an
   application's source is typed, its step follows [step_rule] (Aggregate / Cmp on every filter clause / declared paths), its
   target is a visible variable that is neither a loop variable nor being traversed, Combine allows the method, object types
   agree; an output's variable is top-level, has exactly the attribute's type and the attribute is not settable.
   [Run] chains the rules over the flattened pipeline. *)
Theorem C08_verdict_is_rules : forall tbl ps,
  conforms_p tbl ps = true <->
  conforms tbl (base ps) = true /\
  NoDup (map pl_id (pipelines ps)) /\ NoDup (map pl_name (pipelines ps)) /\ NoDup (map (fun pl => r_id (pl_promise pl)) (pipelines ps)) /\
  no_compare_on_aggregated ps = true /\
  forall pl, In pl (pipelines ps) ->
    ref_ok (base ps) RPromise (pl_promise pl) = true /\ pl_out pl <> [] /\
    nodup_by psrc_eqb (map trav_src (pl_trav pl)) = true /\ forallb trav_struct_ok (pl_trav pl) = true /\
    exists fin, Run Cmp (base ps) (pipe_ctx (base ps) (r_id (pl_promise pl))) (r_id (pl_promise pl)) [] (flatten pl) fin.
Proof. exact (conforms_p_iff Cmp). Qed.
Print Assumptions C08_verdict_is_rules.

(* the executable checks are the rules *)
Theorem C08_step_is_rule : forall s ctx own st i st',
  step Cmp s ctx own st i = Some st' <-> instr_rule Cmp s ctx own st i st'.
Proof. exact (step_iff Cmp). Qed.
Print Assumptions C08_step_is_rule.

Theorem C08_step_type_is_rule : forall s ctx own st sc r stp rt,
  step_type Cmp s ctx own st sc r stp = Some rt <-> step_rule Cmp s ctx own st sc r stp rt.
Proof. exact (step_type_iff Cmp). Qed.
Print Assumptions C08_step_type_is_rule.
