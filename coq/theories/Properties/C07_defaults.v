(* Property C07, default values: "default values appear ... with a value of the attribute's type; operations obeying
   these rules are never rejected".

   Which JSON value shapes the implementation takes as a default of which attribute type is TABULATED from the current
   source on every run (Gen/Tables.v, default_value_table: pipeline_utils.type_details_from_scalar on every shape x
   type).  The scenario model consults that table through [default_fits].  The two theorems below tie the table to the
   specification [DefaultOk]: the tabulated implementation accepts a shape for an attribute type exactly when the
   specification does, for every shape and every field type -- so a change of the literal-typing code that rejects a
   legal default (or admits an illegal one) breaks this obligation even though model and implementation still agree
   with each other.  Proofs: Proofs/C08Tables.v (reflection over the regenerated table). *)
From Coq Require Import List.
From OIS Require Import Base.Types Base.PipeTypes Spec.PipelineSpec Proofs.C08Tables.
From OIS Require Import Model.Schema Model.Rules Gen.Tables.

Theorem C07_default_table_is_spec : forall s t, In t field_types -> impl_default_ok s t = Some (DefaultOk s t).
Proof. exact C07_default_lemma. Qed.
Print Assumptions C07_default_table_is_spec.

Theorem C07_model_defaults_are_spec : forall s t, In t field_types -> default_fits default_value_table s t = DefaultOk s t.
Proof. exact default_fits_spec. Qed.
Print Assumptions C07_model_defaults_are_spec.

(* non-vacuity: a list mixing whole and fractional numbers is a legal NUMERIC_LIST default; a string is not *)
Example C07_defaults_example : DefaultOk SNums NUMERIC_LIST = true /\ DefaultOk SStr NUMERIC_LIST = false.
Proof. split; reflexivity. Qed.
