(* Property C03 -- every specification-conformant schema is accepted.
   In this development the executable specification of the schema language is [conforms] (Model/Rules.v):
   the conjunction of the rules that C01, C02, C04-C07 and C10 characterise declaratively.  The statement
   "conformant => accepted by the implementation" is about the Python code and is carried by the
   correspondence run (checks/c03.py: every scenario [conforms] accepts must be accepted by the implementation
   under every rendering).  What is proved here is that [conforms] is exactly the conjunction of its rules
   (nothing else can make the model reject), and that the known finding of C04 only widens acceptance. *)
From Coq Require Import List Bool.
From OIS Require Import Base.Types Base.PipeTypes Spec.Compare Model.Schema Model.Rules.

Lemma conforms_iff_rules : forall cmp tbl s,
  conforms_with cmp tbl s = true <->
  unique_ids s = true /\
  (forall t, In t (otypes s) -> otype_ok s t = true) /\
  (forall p, In p (promises s) -> promise_refs_ok s p = true /\ promise_ok s p = true) /\
  (forall a, In a (actions s) -> action_ok tbl s a = true) /\
  (forall c, In c (checkpoints s) -> checkpoint_ok cmp s c = true) /\
  (forall g, In g (groups s) -> group_ok s g = true) /\
  has_cycle s = false.
Proof.
  intros cmp tbl s. unfold conforms_with.
  rewrite !andb_true_iff, !forallb_forall, negb_true_iff.
  split.
  - intros [[[[[[H1 H2] H3] H4] H5] H6] H7].
    split; [exact H1|]. split; [exact H2|]. split.
    { intros q Hq. specialize (H3 q Hq). apply andb_true_iff in H3. exact H3. }
    split; [exact H4|]. split; [exact H5|]. split; [exact H6|exact H7].
  - intros (H1 & H2 & H3 & H4 & H5 & H6 & H7).
    split; [|exact H7]. split; [|exact H6]. split; [|exact H5]. split; [|exact H4]. split; [|].
    { split; [exact H1|exact H2]. }
    intros q Hq. apply andb_true_iff. apply H3; assumption.
Qed.

Theorem C03_conforms_is_conjunction_of_rules : forall tbl s,
  conforms tbl s = true <->
  unique_ids s = true /\
  (forall t, In t (otypes s) -> otype_ok s t = true) /\
  (forall p, In p (promises s) -> promise_refs_ok s p = true /\ promise_ok s p = true) /\
  (forall a, In a (actions s) -> action_ok tbl s a = true) /\
  (forall c, In c (checkpoints s) -> checkpoint_ok Cmp s c = true) /\
  (forall g, In g (groups s) -> group_ok s g = true) /\
  has_cycle s = false.
Proof. exact (conforms_iff_rules Cmp). Qed.
Print Assumptions C03_conforms_is_conjunction_of_rules.

(* the model of the current implementation (specification + recorded known finding) accepts at least
   everything the specification accepts *)
Lemma Cmp_le_Cmp_kf : forall l o r, Cmp l o r = true -> Cmp_kf l o r = true.
Proof. intros l o r H. unfold Cmp_kf. rewrite H. reflexivity. Qed.

Lemma forallb_impl {A} (f g : A -> bool) l : (forall x, f x = true -> g x = true) -> forallb f l = true -> forallb g l = true.
Proof. intros H. rewrite !forallb_forall. auto. Qed.

Lemma comparison_widens : forall s ctx l o r,
  comparison_ok Cmp s ctx l o r = true -> comparison_ok Cmp_kf s ctx l o r = true.
Proof.
  intros s ctx l o r. unfold comparison_ok.
  destruct (negb (is_lit l && is_lit r) && negb (operand_eqb l r)); [|discriminate].
  destruct (operand_type s ctx l) as [tl|]; [|discriminate].
  destruct (operand_type s ctx r) as [tr|]; [|discriminate].
  simpl. apply Cmp_le_Cmp_kf.
Qed.

Lemma dep_widens : forall s cp d, dep_ok Cmp s cp d = true -> dep_ok Cmp_kf s cp d = true.
Proof.
  intros s cp d. unfold dep_ok. destruct d as [l o r|c]; [|auto].
  intro H. rewrite !andb_true_iff in H. destruct H as [[[[X1 X2] X3] X4] X5].
  rewrite !andb_true_iff. repeat split; auto. apply comparison_widens; assumption.
Qed.

Lemma checkpoint_widens : forall s c, checkpoint_ok Cmp s c = true -> checkpoint_ok Cmp_kf s c = true.
Proof.
  intros s c. unfold checkpoint_ok. intro H. rewrite !andb_true_iff in H. destruct H as [[[Ha Hb] Hd] He].
  rewrite !andb_true_iff. repeat split; auto.
  revert Hd. apply forallb_impl. intros d. apply dep_widens.
Qed.

Theorem C03_known_finding_only_widens : forall tbl s, conforms tbl s = true -> conforms_kf tbl s = true.
Proof.
  intros tbl s H. apply (conforms_iff_rules Cmp) in H. apply (conforms_iff_rules Cmp_kf).
  destruct H as (H1 & H2 & H3 & H4 & H5 & H6 & H7).
  split; [exact H1|]. split; [exact H2|]. split; [exact H3|]. split; [exact H4|]. split; [|split; [exact H6|exact H7]].
  intros c Hc. apply checkpoint_widens. apply H5. exact Hc.
Qed.
Print Assumptions C03_known_finding_only_widens.
