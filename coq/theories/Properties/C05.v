(* Property C05 -- thread-group scoping of checkpoints, actions and variables, in accepted schemas.
   [Encloses s g' g] (Spec/DepRel.v): g' is thread group g or one of the groups enclosing it.
   Clauses as in DESIGN.md, Appendix A.  All theorems hold verbatim for [conforms_kf]: the lemmas behind them are
   stated for [conforms_with cmp], any operator table (C05_SC2_SC3_kf instantiates the two that look at comparisons). *)
From Coq Require Import List Relations.
From OIS Require Import Base.Types Base.PipeTypes Spec.Compare Model.Schema Model.Rules Spec.DepRel.
From OIS Require Import Proofs.ConformsInv Proofs.TypingSpec.
Import ListNotations.

(* SC1: a checkpoint bound to a thread group (context rc) is depended on only from that group or one nested in it:
   by an action, by a thread group (whose own context counts), by an enclosing checkpoint *)
Theorem C05_SC1 : forall tbl s, conforms tbl s = true ->
  (forall a r cp rc, In a (actions s) -> a_dep a = Some r -> find_checkpoint s (r_id r) = Some cp -> cp_ctx cp = Some rc ->
     exists ra, a_ctx a = Some ra /\ r_kind ra = RGroup /\ Encloses s (r_id rc) (r_id ra)) /\
  (forall g r cp rc, In g (groups s) -> g_dep g = Some r -> find_checkpoint s (r_id r) = Some cp -> cp_ctx cp = Some rc ->
     exists rg, g_ctx g = Some rg /\ r_kind rg = RGroup /\ Encloses s (r_id rc) (r_id rg)) /\
  (forall cp c c' rc, In cp (checkpoints s) -> In (DRef c) (cp_deps cp) -> find_checkpoint s (r_id c) = Some c' ->
     cp_ctx c' = Some rc ->
     exists r0, cp_ctx cp = Some r0 /\ r_kind r0 = RGroup /\ Encloses s (r_id rc) (r_id r0)).
Proof.
  exact (fun tbl s H => conj (C05_SC1_action_lemma Cmp tbl s H)
                       (conj (C05_SC1_group_lemma Cmp tbl s H) (C05_SC1_checkpoint_lemma Cmp tbl s H))).
Qed.
Print Assumptions C05_SC1.

(* SC2: a comparison mentions a threaded action only if the action's thread group is the checkpoint's own or encloses it *)
Theorem C05_SC2 : forall tbl s, conforms tbl s = true ->
  forall cp l o r a path act rg, In cp (checkpoints s) -> In (DCmp l o r) (cp_deps cp) ->
  l = OAct a path \/ r = OAct a path -> find_action s (r_id a) = Some act -> a_ctx act = Some rg ->
  exists r0, cp_ctx cp = Some r0 /\ r_kind r0 = RGroup /\ Encloses s (r_id rg) (r_id r0).
Proof. exact (C05_SC2_lemma Cmp). Qed.
Print Assumptions C05_SC2.

(* SC3: a comparison mentions the variable of thread group g only if g is the checkpoint's own group or encloses it *)
Theorem C05_SC3 : forall tbl s, conforms tbl s = true ->
  forall cp l o r g path, In cp (checkpoints s) -> In (DCmp l o r) (cp_deps cp) ->
  l = OVar g path \/ r = OVar g path ->
  exists r0, cp_ctx cp = Some r0 /\ r_kind r0 = RGroup /\ Encloses s g (r_id r0).
Proof. exact (C05_SC3_lemma Cmp). Qed.
Print Assumptions C05_SC3.

(* SC4: the spawn source is list-valued.  [PromisePathType] / [RefPathType] / [VarType] (Proofs/TypingSpec.v) never
   produce a list of lists: an edge collection or list field cannot be crossed from a list, and list-lifting
   applies to non-lists only. *)
Theorem C05_SC4 : forall tbl s, conforms tbl s = true ->
  forall g, In g (groups s) ->
  (forall p path, g_src g = SpPromise p path ->
     exists td, PromisePathType s (ctx_group (g_ctx g)) (r_id p) path td /\ td_list td = true) /\
  (forall g' path, g_src g = SpVar g' path ->
     exists vt tr td, VarType s g' vt /\ td_item vt = IObject /\ td_obj vt = Some tr /\
                      RefPathType s tr path td /\ td_list td = true).
Proof. exact (C05_SC4_lemma Cmp). Qed.
Print Assumptions C05_SC4.

(* SC5: a promise spawn source is fulfilled by an ancestor of the group (a checkpoint holding the group mentions the
   fulfilling action or a descendant of it); a variable spawn source belongs to a strictly enclosing group *)
Theorem C05_SC5 : forall tbl s, conforms tbl s = true ->
  forall g, In g (groups s) ->
  (forall p path, g_src g = SpPromise p path ->
     r_kind p = RPromise /\
     exists f, creators s (r_id p) = [f] /\
       exists c m, HoldsGroup s (g_id g) c /\ Mentions s c m /\ (m = a_id f \/ Anc s m (a_id f))) /\
  (forall g' path, g_src g = SpVar g' path -> g' <> g_id g /\ Encloses s g' (g_id g)).
Proof. exact (C05_SC5_lemma Cmp). Qed.
Print Assumptions C05_SC5.

(* SC6: every thread group is the context of at least one action or thread group *)
Theorem C05_SC6 : forall tbl s, conforms tbl s = true ->
  forall g, In g (groups s) ->
  (exists a, In a (actions s) /\ a_ctx a = Some (Ref RGroup (g_id g))) \/
  (exists h, In h (groups s) /\ g_ctx h = Some (Ref RGroup (g_id g))).
Proof. exact (C05_SC6_lemma Cmp). Qed.
Print Assumptions C05_SC6.

(* SC7: no variable name repeats along a nesting chain *)
Theorem C05_SC7 : forall tbl s, conforms tbl s = true ->
  forall g g' h, In g (groups s) -> Encloses s g' (g_id g) -> g' <> g_id g -> find_group s g' = Some h ->
  g_var h <> g_var g.
Proof. exact (C05_SC7_lemma Cmp). Qed.
Print Assumptions C05_SC7.

(* the scope search of the model decides [Encloses] on accepted schemas (both directions) *)
Theorem C05_has_access_is_Encloses : forall tbl s, conforms tbl s = true ->
  forall g g' tg, find_group s g = Some tg -> (has_access s g g' = true <-> Encloses s g' g).
Proof. exact (has_access_iff Cmp). Qed.
Print Assumptions C05_has_access_is_Encloses.

(* without any hypothesis on the schema *)
Theorem C05_has_access_sound : forall s g g', has_access s g g' = true -> Encloses s g' g.
Proof. exact has_access_Encloses. Qed.
Print Assumptions C05_has_access_sound.

(* known-finding variant: the scoping clauses do not depend on the operator table *)
Theorem C05_SC2_SC3_kf : forall tbl s, conforms_kf tbl s = true ->
  (forall cp l o r a path act rg, In cp (checkpoints s) -> In (DCmp l o r) (cp_deps cp) ->
     l = OAct a path \/ r = OAct a path -> find_action s (r_id a) = Some act -> a_ctx act = Some rg ->
     exists r0, cp_ctx cp = Some r0 /\ r_kind r0 = RGroup /\ Encloses s (r_id rg) (r_id r0)) /\
  (forall cp l o r g path, In cp (checkpoints s) -> In (DCmp l o r) (cp_deps cp) ->
     l = OVar g path \/ r = OVar g path ->
     exists r0, cp_ctx cp = Some r0 /\ r_kind r0 = RGroup /\ Encloses s g (r_id r0)).
Proof. exact (fun tbl s H => conj (C05_SC2_lemma Cmp_kf tbl s H) (C05_SC3_lemma Cmp_kf tbl s H)). Qed.
Print Assumptions C05_SC2_SC3_kf.
