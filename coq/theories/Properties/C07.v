(* Property C07 -- action operations touch only existing fields, with the right type and mode, in accepted schemas.
   For an action a: p its promise, pr the promise's declaration, t the promised object type, f the fulfilling action
   ([creators s p = [f]], see Properties/C06.v).  Clauses OP1 - OP4 of DESIGN.md, Appendix A. *)
From Coq Require Import List Relations.
From OIS Require Import Base.Types Base.PipeTypes Spec.Compare Model.Schema Model.Rules Spec.DepRel.
From OIS Require Import Proofs.ConformsInv Proofs.TypingSpec.
Import ListNotations.

Theorem C07_operations : forall tbl s, conforms tbl s = true ->
  forall a, In a (actions s) ->
  exists p pr t f,
    a_promise a = Ref RPromise p /\ find_promise s p = Some pr /\ find_type_ref s (pr_type pr) = Some t /\
    creators s p = [f] /\
    (* OP1: include / exclude name only attributes of the promised object type *)
    (forall n, In n (incl_list (op_incl (a_op a))) -> exists at_, find_attr t n = Some at_) /\
    (* OP2: default values only on the fulfilling action, only for non-edge attributes, with a value of the attribute's type *)
    (forall n sh, In (n, sh) (op_defaults (a_op a)) ->
       a = f /\ exists at_ ft, find_attr t n = Some at_ /\ at_kind at_ = KField ft /\ default_fits tbl sh ft = true) /\
    (* OP3: default edges only on the fulfilling action, only for edge attributes, pointing at a promise of the edge's
       object type that an ancestor fulfils *)
    (forall n q, In (n, q) (op_edges (a_op a)) ->
       a = f /\ exists at_ pq fq, find_attr t n = Some at_ /\ at_kind at_ = KEdge (pr_type pq) /\
         r_kind q = RPromise /\ find_promise s (r_id q) = Some pq /\
         creators s (r_id q) = [fq] /\ is_ancestor s (a_id a) (a_id fq) = true) /\
    (* OP4: appends_objects_to only on a fulfilling action that no checkpoint depends on; the path reaches a list of
       objects of the action's own object type, its last attribute settable by no operation, on a promise of the
       same context whose fulfilment is guaranteed *)
    (forall q path, op_appends (a_op a) = Some (q, path) ->
       a = f /\ is_dependee s (a_id a) = false /\ r_kind q = RPromise /\
       exists pq fq td, find_promise s (r_id q) = Some pq /\ creators s (r_id q) = [fq] /\
         promise_path_type s (ctx_group (a_ctx a)) (r_id q) path = TOk td /\
         td_list td = true /\ td_item td = IObject /\ td_obj td = Some (pr_type pr) /\
         ~ In (last path 0) (settable s (r_id q)) /\
         ctx_group (a_ctx a) = ctx_group (a_ctx fq) /\ ctx_group (a_ctx a) = ctx_group (pr_ctx pq) /\
         guaranteed_ancestor s a (a_id fq) = true).
Proof. exact (C07_operations_lemma Cmp). Qed.
Print Assumptions C07_operations.

Theorem C07_operations_kf : forall tbl s, conforms_kf tbl s = true ->
  forall a, In a (actions s) ->
  exists p pr t f,
    a_promise a = Ref RPromise p /\ find_promise s p = Some pr /\ find_type_ref s (pr_type pr) = Some t /\
    creators s p = [f] /\
    (forall n, In n (incl_list (op_incl (a_op a))) -> exists at_, find_attr t n = Some at_) /\
    (forall n sh, In (n, sh) (op_defaults (a_op a)) ->
       a = f /\ exists at_ ft, find_attr t n = Some at_ /\ at_kind at_ = KField ft /\ default_fits tbl sh ft = true) /\
    (forall n q, In (n, q) (op_edges (a_op a)) ->
       a = f /\ exists at_ pq fq, find_attr t n = Some at_ /\ at_kind at_ = KEdge (pr_type pq) /\
         r_kind q = RPromise /\ find_promise s (r_id q) = Some pq /\
         creators s (r_id q) = [fq] /\ is_ancestor s (a_id a) (a_id fq) = true) /\
    (forall q path, op_appends (a_op a) = Some (q, path) ->
       a = f /\ is_dependee s (a_id a) = false /\ r_kind q = RPromise /\
       exists pq fq td, find_promise s (r_id q) = Some pq /\ creators s (r_id q) = [fq] /\
         promise_path_type s (ctx_group (a_ctx a)) (r_id q) path = TOk td /\
         td_list td = true /\ td_item td = IObject /\ td_obj td = Some (pr_type pr) /\
         ~ In (last path 0) (settable s (r_id q)) /\
         ctx_group (a_ctx a) = ctx_group (a_ctx fq) /\ ctx_group (a_ctx a) = ctx_group (pr_ctx pq) /\
         guaranteed_ancestor s a (a_id fq) = true).
Proof. exact (C07_operations_lemma Cmp_kf). Qed.
Print Assumptions C07_operations_kf.

(* OP4, the path in declarative terms: it is typed on the target promise's own object type ([RefPathType], every
   segment a declared attribute; no list-lifting, the contexts being equal) and reaches a list (so it crosses an edge
   collection) of objects of the appending action's own object type *)
Theorem C07_appends_path : forall tbl s, conforms tbl s = true ->
  forall a q path, In a (actions s) -> op_appends (a_op a) = Some (q, path) ->
  exists p pr pq td, a_promise a = Ref RPromise p /\ find_promise s p = Some pr /\ find_promise s (r_id q) = Some pq /\
    RefPathType s (pr_type pq) path td /\ td_list td = true /\ td_item td = IObject /\ td_obj td = Some (pr_type pr).
Proof. exact (C07_appends_path_lemma Cmp). Qed.
Print Assumptions C07_appends_path.

(* "no checkpoint depends on the action" *)
Theorem C07_is_dependee_meaning : forall s a, is_dependee s a = false <->
  forall cp l o r, In cp (checkpoints s) -> In (DCmp l o r) (cp_deps cp) -> ~ In a (operand_action l ++ operand_action r).
Proof. exact is_dependee_false. Qed.
Print Assumptions C07_is_dependee_meaning.

(* "settable by some operation": made settable by the operation of some action on the promise *)
Theorem C07_settable_meaning : forall s p n, In n (settable s p) <->
  exists t a, type_of_promise s p = Some t /\ In a (actions_on s p) /\ In n (settable_by t (a_op a)).
Proof. exact settable_In. Qed.
Print Assumptions C07_settable_meaning.
