(* Property C17 -- the chart layout places every dependency strictly left of its dependents.

   For every acyclic dependency graph the chart layout terminates, assigns each node exactly one
   coordinate, and no two nodes share a coordinate.  A node's column is minus the length of the longest
   dependency chain from a final node (one nothing depends on) down to it, so for every edge the dependency
   lies strictly left of the dependent, and the same input always yields the same layout.

   [layout] is the executable model of DependencyChartLayout.from_graph_data (Model/Layout.v; tied to the
   implementation by harness/corr/layout.py); it returns None only when the fuel bounding the python
   recursion / while-loop is exhausted.  The graph is any finite one: nodes : list nat (node_ids),
   edges : list (nat * nat) (edge_tuples, (a, b) = "a depends on b"), with no bound on its size. *)
From Coq Require Import List ZArith Relations.
From OIS Require Import Model.Layout Spec.LayoutSpec Proofs.LayoutProofs.
Local Open Scope Z_scope.

Theorem C17_terminates : forall nodes edges,
  wf nodes edges = true ->
  (forall x, ~ clos_trans nat (fun a b => In (a, b) edges) x x) ->
  layout nodes edges <> None.
Proof. exact C17_terminates_lemma. Qed.
Print Assumptions C17_terminates.

(* every listed node gets exactly one coordinate (and nothing else gets one); coordinates pairwise distinct *)
Theorem C17_total_injective : forall nodes edges,
  wf nodes edges = true ->
  (forall x, ~ clos_trans nat (fun a b => In (a, b) edges) x x) ->
  forall out, layout nodes edges = Some out ->
    (NoDup (map fst out) /\ forall v, In v nodes <-> In v (map fst out)) /\
    (forall v1 v2 p, In (v1, p) out -> In (v2, p) out -> v1 = v2) /\
    NoDup (map snd out).
Proof. exact C17_total_injective_lemma. Qed.
Print Assumptions C17_total_injective.

(* x = - (length of the longest chain from a final node down to v) *)
Theorem C17_depth_is_longest : forall nodes edges,
  wf nodes edges = true ->
  (forall x, ~ clos_trans nat (fun a b => In (a, b) edges) x x) ->
  forall out, layout nodes edges = Some out ->
  forall v x y, In (v, (x, y)) out ->
    exists n, LongestPath nodes edges v n /\ x = - Z.of_nat n.
Proof. exact C17_depth_is_longest_lemma. Qed.
Print Assumptions C17_depth_is_longest.

(* for every edge (a, b) -- a depends on b -- the dependency b lies strictly left of the dependent a *)
Theorem C17_edge_left : forall nodes edges,
  wf nodes edges = true ->
  (forall x, ~ clos_trans nat (fun a b => In (a, b) edges) x x) ->
  forall out, layout nodes edges = Some out ->
  forall a b xa ya xb yb,
    In (a, b) edges -> In (a, (xa, ya)) out -> In (b, (xb, yb)) out -> xb < xa.
Proof. exact C17_edge_left_lemma. Qed.
Print Assumptions C17_edge_left.

(* the layout is a function of its input *)
Theorem C17_deterministic : forall nodes edges o1 o2,
  layout nodes edges = o1 -> layout nodes edges = o2 -> o1 = o2.
Proof. exact C17_deterministic_lemma. Qed.
Print Assumptions C17_deterministic.
