(* Property C06 (lifecycle part) -- in an accepted schema every object promise is fulfilled by exactly one action,
   the only action on that promise with no ancestor acting on it; the promise's declared context equals that
   action's context; every other action on the promise has the fulfilling action among its ancestors and shares
   its context.  Ancestry is [is_ancestor s a b = true] ("b is an ancestor of a"); its equivalence with the
   transitive closure of [Dep] is proved separately (soundness also here: C06_is_ancestor_sound). *)
From Coq Require Import List Relations.
From OIS Require Import Base.Types Base.PipeTypes Spec.Compare Model.Schema Model.Rules Spec.DepRel.
From OIS Require Import Proofs.ConformsInv.
Import ListNotations.

(* the actions on promise p *)
Theorem C06_actions_on_characterisation : forall s p a,
  In a (actions_on s p) <-> In a (actions s) /\ a_promise a = Ref RPromise p.
Proof. exact actions_on_spec. Qed.
Print Assumptions C06_actions_on_characterisation.

(* the candidates for fulfilling p: the actions on p none of whose ancestors acts on p *)
Theorem C06_creators_characterisation : forall s p a,
  In a (creators s p) <->
  In a (actions_on s p) /\ forall b, In b (actions_on s p) -> a_id b <> a_id a -> is_ancestor s (a_id a) (a_id b) = false.
Proof. exact creators_In. Qed.
Print Assumptions C06_creators_characterisation.

Theorem C06_lifecycle : forall tbl s, conforms tbl s = true ->
  forall p, In p (promises s) ->
  exists f,
    (* LC1: exactly one candidate ... *)
    creators s (pr_id p) = [f] /\
    (* LC2: ... whose context is the promise's declared context *)
    ctx_group (pr_ctx p) = ctx_group (a_ctx f) /\
    (* LC3, LC4: every other action on p has f among its ancestors and shares its context *)
    (forall a, In a (actions_on s (pr_id p)) -> a_id a <> a_id f ->
       is_ancestor s (a_id a) (a_id f) = true /\ ctx_group (a_ctx a) = ctx_group (a_ctx f)) /\
    (* f has no ancestor acting on p, and is the only such action *)
    (forall b, In b (actions_on s (pr_id p)) -> a_id b <> a_id f -> is_ancestor s (a_id f) (a_id b) = false) /\
    (forall a, In a (actions_on s (pr_id p)) ->
       (forall b, In b (actions_on s (pr_id p)) -> a_id b <> a_id a -> is_ancestor s (a_id a) (a_id b) = false) -> a = f).
Proof. exact (C06_lifecycle_lemma Cmp). Qed.
Print Assumptions C06_lifecycle.

Theorem C06_lifecycle_kf : forall tbl s, conforms_kf tbl s = true ->
  forall p, In p (promises s) ->
  exists f,
    creators s (pr_id p) = [f] /\
    ctx_group (pr_ctx p) = ctx_group (a_ctx f) /\
    (forall a, In a (actions_on s (pr_id p)) -> a_id a <> a_id f ->
       is_ancestor s (a_id a) (a_id f) = true /\ ctx_group (a_ctx a) = ctx_group (a_ctx f)) /\
    (forall b, In b (actions_on s (pr_id p)) -> a_id b <> a_id f -> is_ancestor s (a_id f) (a_id b) = false) /\
    (forall a, In a (actions_on s (pr_id p)) ->
       (forall b, In b (actions_on s (pr_id p)) -> a_id b <> a_id a -> is_ancestor s (a_id a) (a_id b) = false) -> a = f).
Proof. exact (C06_lifecycle_lemma Cmp_kf). Qed.
Print Assumptions C06_lifecycle_kf.

(* distinct actions have distinct ids, so "a_id a <> a_id f" is "a <> f" *)
Theorem C06_action_ids_injective : forall tbl s, conforms tbl s = true ->
  forall a b, In a (actions s) -> In b (actions s) -> a_id a = a_id b -> a = b.
Proof. exact (fun tbl s H a b => action_id_inj s a b (conforms_unique Cmp tbl s H)). Qed.
Print Assumptions C06_action_ids_injective.

(* [ctx_group c = Some g] means: c is a reference to thread group g *)
Theorem C06_ctx_group_meaning : forall c g,
  ctx_group c = Some g <-> exists r, c = Some r /\ r_kind r = RGroup /\ r_id r = g.
Proof. exact ctx_group_some. Qed.
Print Assumptions C06_ctx_group_meaning.

(* the ancestry search only finds real ancestors (no hypothesis on the schema) *)
Theorem C06_is_ancestor_sound : forall s a b, is_ancestor s a b = true -> Anc s a b.
Proof. exact is_ancestor_Anc. Qed.
Print Assumptions C06_is_ancestor_sound.
