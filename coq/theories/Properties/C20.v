(* Property C20 -- Miro board emission.
   Generating a board creates exactly one shape per action and per gate, positioned at its layout coordinate
   scaled by the documented factors (x_coord_factor=400, y_coord_factor=100) and filled with the acting
   party's colour code (white when the party declares none or the action names no party), and for every
   graph edge, with multiplicity, one connector chain from the dependent's shape to the dependency's shape -
   parallel edges fanned through distinct intermediate points, each chain captioned with its comparison or
   checkpoint description, gates labelled with their gate type - and no other connectors.  An error
   response from the board service aborts generation with an exception rather than being ignored.

   Model: Model/Board.v ([emit_log] = the conversation (request, response) list and how it ended;
   [emit] = its request list); tie to the code: harness/corr/graph.py (full request sequences for
   error-free and error scripts).  The specification predicates are in Spec/GraphSpec.v:
     shapes_ok      the Shape requests of the conversation, in order, are exactly one per graph node
                    (the node list is duplicate free by C19_nodes), each at [scaled] position, with
                    [fill_spec] colour and [label_spec] content;
     connectors_ok  all Elbow/Connector requests of the conversation are, per DISTINCT edge tuple with
                    its multiplicity k ([tuple_table]), one [chain_spec]: k = 1 a single captioned
                    Connector from the dependent's shape item to the dependency's shape item; k >= 2,
                    for i < k, an Elbow at [strand_point] i and two Connector segments through it
                    carrying the caption of the i-th occurrence; nothing else.
   Layout coordinates are integer pairs (x, 2y); requests carry final board units (integers). *)
From Coq Require Import List Arith ZArith Bool.
From OIS Require Import Model.Graph Model.Board Spec.GraphSpec Proofs.BoardProofs Proofs.GraphProofs.
Import ListNotations.

Theorem C20_shapes : forall s g coords create rs l,
  wf s = true -> build s = Ok g ->
  emit_log s g coords create rs = (l, Finished) -> shapes_ok s g coords l.
Proof. exact C20_shapes_thm. Qed.
Print Assumptions C20_shapes.

Theorem C20_connectors : forall s g coords create rs l,
  wf s = true -> build s = Ok g ->
  emit_log s g coords create rs = (l, Finished) -> connectors_ok g coords l.
Proof. exact C20_connectors_thm. Qed.
Print Assumptions C20_connectors.

(* parallel chains pass through pairwise distinct points *)
Theorem C20_points_distinct : forall coords f t k i i' px py px' py',
  strand_point coords f t k i px py -> strand_point coords f t k i' px' py' -> i <> i' -> py <> py'.
Proof. exact strand_points_distinct. Qed.
Print Assumptions C20_points_distinct.

(* if the request number k (counting from 0) received an error response, generation raised and that
   request was the last one sent *)
Theorem C20_error_aborts : forall s g coords create rs reqs st k,
  wf s = true -> build s = Ok g ->
  emit s g coords create rs = (reqs, st) ->
  k < length reqs -> nth_error rs k = Some RErr ->
  st = Aborted /\ length reqs = S k.
Proof. exact C20_error_aborts_thm. Qed.
Print Assumptions C20_error_aborts.

(* a script whose first error response is at position k: generation raised on exactly that response,
   unless the board was already complete after at most k requests (the response was never asked for) *)
Theorem C20_first_error : forall s g coords create rs reqs st k,
  wf s = true -> build s = Ok g ->
  emit s g coords create rs = (reqs, st) ->
  nth_error rs k = Some RErr ->
  (forall i r, i < k -> nth_error rs i = Some r -> is_ok r) ->
  (st = Aborted /\ length reqs = S k) \/ (st = Finished /\ length reqs <= k).
Proof. exact C20_first_error_thm. Qed.
Print Assumptions C20_first_error.

(* and nothing but an error response aborts generation (no KeyError on shape_dict / party_colors) *)
Theorem C20_aborts_only_on_error : forall s g coords create rs l,
  wf s = true -> build s = Ok g ->
  emit_log s g coords create rs = (l, Aborted) ->
  exists l0 q, l = l0 ++ [(q, RErr)] /\ all_ok l0 /\ nth_error rs (length l0) = Some RErr.
Proof. exact C20_aborts_only_on_error_thm. Qed.
Print Assumptions C20_aborts_only_on_error.

(* ---------------------------------------------------------------- the hypotheses are satisfiable *)
Definition ex_schema : schema :=
  {| s_actions :=
       [ {| a_id := 4; a_dep := Some 1; a_party := Some 0; a_info := true |};
         {| a_id := 1; a_dep := None;   a_party := Some 0; a_info := false |};
         {| a_id := 2; a_dep := None;   a_party := None;   a_info := false |};
         {| a_id := 3; a_dep := Some 0; a_party := Some 1; a_info := false |};
         {| a_id := 5; a_dep := Some 1; a_party := Some 1; a_info := false |} ];
     s_cps :=
       [ {| c_key := 7; c_gate := None;      c_deps := [DCmp 10 (Some 1) None]; c_info := false |};
         {| c_key := 8; c_gate := Some GAnd; c_deps := [DCmp 11 (Some 1) (Some 1); DCmp 12 None (Some 2); DRef 2];
            c_info := true |};
         {| c_key := 9; c_gate := Some GOr;  c_deps := [DCmp 13 (Some 3) None; DCmp 10 (Some 1) None];
            c_info := false |} ];
     s_parties := [Some 3; None] |}.

Definition ex_coords (n : node) : Z * Z :=
  match n with
  | NAct 1 => (-3, -3) | NAct 2 => (-2, 3) | NAct 3 => (-2, -3) | NAct 4 => (0, -5) | NAct 5 => (0, 1)
  | NGate 1 => (-1, -2) | NGate 2 => (-1, 4) | _ => (0, 0)
  end%Z.

Definition ex_script (n : nat) : list response := map (fun i => ROk (Z.of_nat (100 + i))) (seq 0 n).

(* an error-free run: 1 board + 7 shapes + 2 supporting-info shapes + 7 single connectors + one fanned
   pair (2 elbows, 4 segments) = 23 requests *)
Example ex_finished :
  wf ex_schema = true /\
  exists g l, build ex_schema = Ok g
    /\ emit_log ex_schema g ex_coords true (ex_script 40) = (l, Finished)
    /\ length l = 23
    /\ filter is_shape (map fst l)
       = [Shape (NAct 4) 0 (-250) (Hex 3) (CAction 4); Shape (NAct 1) (-1200) (-150) (Hex 3) (CAction 1);
          Shape (NAct 2) (-800) 150 White (CAction 2); Shape (NAct 3) (-800) (-150) White (CAction 3);
          Shape (NAct 5) 0 50 White (CAction 5);
          Shape (NGate 1) (-400) (-100) (GateColour GAnd) (CGate GAnd);
          Shape (NGate 2) (-400) 200 (GateColour GOr) (CGate GOr)]%Z.
Proof.
  split; [vm_compute; reflexivity|].
  eexists; eexists; split; [vm_compute; reflexivity|]; split; [vm_compute; reflexivity|].
  split; vm_compute; reflexivity.
Qed.

(* the same run with an error as 12th response: 12 requests, raised *)
Example ex_aborted :
  exists g reqs, build ex_schema = Ok g
    /\ emit ex_schema g ex_coords true (ex_script 11 ++ [RErr] ++ ex_script 40) = (reqs, Aborted)
    /\ length reqs = 12.
Proof.
  eexists; eexists; split; [vm_compute; reflexivity|]; split; vm_compute; reflexivity.
Qed.
