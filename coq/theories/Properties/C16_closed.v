(* Property C16 -- imports and connections: the closed form of the combined schema.

   Properties/C16.v proves what ONE stitching step adds, exactly, and lower bounds for the combined schema
   [combine native ims].  Here the sentence of the property -- "after validation each connection's target depends on
   the added checkpoint in conjunction with everything it depended on before", and nothing else changes -- is proved
   as an if-and-only-if on the whole combined schema, for any number of interacting connections.

   Reference point: [plain native ims], the native schema united with the shifted imported schemas, no connection
   applied.  A connection onto a checkpoint acts as one more nested checkpoint reference from its target to the added
   native checkpoint; a connection onto an action as one more checkpoint holding that action:
     [ConnI RCheckpoint ims t a] : some import has a connection onto its checkpoint at combined id t adding native checkpoint a;
     [MentionsX s K]             : [Mentions s] (Spec/DepRel.v) with the additional references K  (Proofs/ImportClosedForm.v);
     [StitchedBy ims x]          : x is one of the ids [im_base im + STITCH + m] of the checkpoints made by stitching.

   General form (side conditions [wf_i], [wf_refs] of Properties/C16.v, and [conns_ok]: every connection passes
   [conn_ok], which [conforms_i] implies): [C16_closed_mentions], [C16_closed_dep], [C16_closed_unfold].
   When nested checkpoint references of the native schema stay in the native schema ([native_nests_native]; the
   renderer writes none into imported files) the added checkpoint mentions in the combined schema what it mentions in
   the native schema, and the closed form reads as in the property:
     [C16_closed_imported_action]     (1) an imported action: what it depended on in its own schema, what connections onto
                                          it add, what connections onto checkpoints holding it (through nesting) add;
     [C16_closed_native_action]       (2) a native action: what it depended on in the plain union, and what connections
                                          onto imported checkpoints that its checkpoints are or nest add;
     [C16_closed_connection_target]   (3) the target of a connection, [C16_closed_connection_target_only] when no other
                                          connection reaches it: exactly its old dependencies and those of the added checkpoint;
     [C16_closed_native_checkpoint], [C16_closed_imported_checkpoint]: the same for checkpoints.
   [C16_closed_example_*]: a concrete accepted importing schema with three interacting connections, both sides
   computed for every pair; and a variant showing that [native_nests_native] cannot be dropped from (1). *)
From Coq Require Import List Bool Arith Relations.
From OIS Require Import Base.Types Model.Schema Model.Rules Spec.DepRel Model.Imports Gen.Tables.
From OIS Require Import Proofs.ImportProofs Proofs.ImportClosedForm.
Import ListNotations.

(* ================================================================== the general closed form *)
(* a checkpoint of the combined schema (not one made by stitching) mentions what it mentions in the plain union when
   every connection onto a checkpoint is read as a reference from its target to the added checkpoint *)
Theorem C16_closed_mentions : forall native ims,
  wf_i native ims = true -> wf_refs native ims = true -> conns_ok native ims = true ->
  forall x b, ~ StitchedBy ims x ->
    (Mentions (combine native ims) x b <-> MentionsX (plain native ims) (ConnI RCheckpoint ims) x b).
Proof. exact C16_closed_mentions_lemma. Qed.
Print Assumptions C16_closed_mentions.

(* an action of the combined schema depends on what the checkpoints holding it in the plain union mention, and on what
   the checkpoints added by connections onto it mention *)
Theorem C16_closed_dep : forall native ims,
  wf_i native ims = true -> wf_refs native ims = true -> conns_ok native ims = true ->
  forall x b, Dep (combine native ims) x b <->
    exists act, find_action (plain native ims) x = Some act /\
      ((exists cc, HoldsAction (plain native ims) act cc /\ MentionsX (plain native ims) (ConnI RCheckpoint ims) cc b) \/
       (exists im c, In im ims /\ In c (im_conns im) /\ r_kind (cn_to c) = RAction /\ x = im_base im + r_id (cn_to c) /\
                     MentionsX (plain native ims) (ConnI RCheckpoint ims) (r_id (cn_add c)) b)).
Proof. exact C16_closed_dep_lemma. Qed.
Print Assumptions C16_closed_dep.

(* [MentionsX], one connection at a time *)
Theorem C16_closed_unfold : forall native ims x b,
  MentionsX (plain native ims) (ConnI RCheckpoint ims) x b <->
  Mentions (plain native ims) x b \/
  exists im c, In im ims /\ In c (im_conns im) /\ r_kind (cn_to c) = RCheckpoint /\
    NestsR (plain native ims) x (im_base im + r_id (cn_to c)) /\
    MentionsX (plain native ims) (ConnI RCheckpoint ims) (r_id (cn_add c)) b.
Proof. exact C16_closed_unfold_lemma. Qed.
Print Assumptions C16_closed_unfold.

Theorem C16_closed_conns_ok : forall tbl native ims, conforms_i tbl native ims = true -> conns_ok native ims = true.
Proof. exact conns_ok_of_conforms_i. Qed.
Print Assumptions C16_closed_conns_ok.

(* ================================================================== checkpoints *)
Theorem C16_closed_native_checkpoint : forall native ims,
  wf_i native ims = true -> wf_refs native ims = true -> conns_ok native ims = true ->
  native_nests_native native = true ->
  forall x b, x < OFF -> (Mentions (combine native ims) x b <-> Mentions native x b).
Proof. exact C16_closed_native_checkpoint_lemma. Qed.
Print Assumptions C16_closed_native_checkpoint.

Theorem C16_closed_imported_checkpoint : forall native ims,
  wf_i native ims = true -> wf_refs native ims = true -> conns_ok native ims = true ->
  native_nests_native native = true ->
  forall im k b, In im ims -> k < STITCH ->
    (Mentions (combine native ims) (im_base im + k) b <->
     Mentions (shift (im_base im) (im_schema im)) (im_base im + k) b \/
     exists c k', In c (im_conns im) /\ cn_to c = Ref RCheckpoint k' /\
       NestsR (shift (im_base im) (im_schema im)) (im_base im + k) (im_base im + k') /\
       Mentions native (r_id (cn_add c)) b).
Proof. exact C16_closed_imported_checkpoint_lemma. Qed.
Print Assumptions C16_closed_imported_checkpoint.

(* ================================================================== (1) imported actions *)
Theorem C16_closed_imported_action : forall tbl native ims,
  wf_i native ims = true -> wf_refs native ims = true -> conforms_i tbl native ims = true ->
  native_nests_native native = true ->
  forall im a act0, In im ims -> find_action (im_schema im) a = Some act0 ->
  forall b,
    Dep (combine native ims) (im_base im + a) b <->
    Dep (shift (im_base im) (im_schema im)) (im_base im + a) b \/
    (exists c, In c (im_conns im) /\ cn_to c = Ref RAction a /\ Mentions native (r_id (cn_add c)) b) \/
    (exists c k cc, In c (im_conns im) /\ cn_to c = Ref RCheckpoint k /\
       HoldsAction (shift (im_base im) (im_schema im)) (sh_action (im_base im) act0) cc /\
       NestsR (shift (im_base im) (im_schema im)) cc (im_base im + k) /\
       Mentions native (r_id (cn_add c)) b).
Proof. exact C16_closed_imported_action_lemma. Qed.
Print Assumptions C16_closed_imported_action.

(* ================================================================== (2) native actions *)
Theorem C16_closed_native_action : forall native ims,
  wf_i native ims = true -> wf_refs native ims = true -> conns_ok native ims = true ->
  native_nests_native native = true ->
  forall x b, x < OFF ->
  (Dep (combine native ims) x b <->
   Dep (plain native ims) x b \/
   exists act cc im c, find_action native x = Some act /\ HoldsAction (plain native ims) act cc /\
     In im ims /\ In c (im_conns im) /\ r_kind (cn_to c) = RCheckpoint /\
     NestsR (plain native ims) cc (im_base im + r_id (cn_to c)) /\ Mentions native (r_id (cn_add c)) b).
Proof. exact C16_closed_native_action_lemma. Qed.
Print Assumptions C16_closed_native_action.

(* ================================================================== (3) the target of a connection *)
Theorem C16_closed_connection_target : forall tbl native ims,
  wf_i native ims = true -> wf_refs native ims = true -> conforms_i tbl native ims = true ->
  native_nests_native native = true ->
  forall im c a act0, In im ims -> In c (im_conns im) -> cn_to c = Ref RAction a ->
  find_action (im_schema im) a = Some act0 ->
  forall b,
    Dep (combine native ims) (im_base im + a) b <->
    Dep (shift (im_base im) (im_schema im)) (im_base im + a) b \/
    Mentions native (r_id (cn_add c)) b \/
    (exists c' k cc, In c' (im_conns im) /\ cn_to c' = Ref RCheckpoint k /\
       HoldsAction (shift (im_base im) (im_schema im)) (sh_action (im_base im) act0) cc /\
       NestsR (shift (im_base im) (im_schema im)) cc (im_base im + k) /\
       Mentions native (r_id (cn_add c')) b).
Proof. exact C16_closed_connection_target_lemma. Qed.
Print Assumptions C16_closed_connection_target.

Theorem C16_closed_connection_target_only : forall tbl native ims,
  wf_i native ims = true -> wf_refs native ims = true -> conforms_i tbl native ims = true ->
  native_nests_native native = true ->
  forall im c a act0, In im ims -> In c (im_conns im) -> cn_to c = Ref RAction a ->
  find_action (im_schema im) a = Some act0 ->
  (forall c' k cc, In c' (im_conns im) -> cn_to c' = Ref RCheckpoint k ->
     HoldsAction (shift (im_base im) (im_schema im)) (sh_action (im_base im) act0) cc ->
     ~ NestsR (shift (im_base im) (im_schema im)) cc (im_base im + k)) ->
  forall b,
    Dep (combine native ims) (im_base im + a) b <->
    Dep (shift (im_base im) (im_schema im)) (im_base im + a) b \/ Mentions native (r_id (cn_add c)) b.
Proof. exact C16_closed_connection_target_only_lemma. Qed.
Print Assumptions C16_closed_connection_target_only.

(* ================================================================== (4) a concrete importing schema *)
(* import A at 1000 with connections onto its action 1 (adds native checkpoint 10) and onto its checkpoint 3 (adds 11),
   which holds action 1 and is nested by checkpoint 4 holding action 2; import B at 2000 with a connection onto its
   action 0, which has no depends_on (adds 12) *)
Theorem C16_closed_example_hypotheses :
  wf_i ClosedExamples.cx_native ClosedExamples.cx_ims = true /\ wf_refs ClosedExamples.cx_native ClosedExamples.cx_ims = true /\
  conforms_i default_value_table ClosedExamples.cx_native ClosedExamples.cx_ims = true /\
  native_nests_native ClosedExamples.cx_native = true.
Proof. exact ClosedExamples.cx_hypotheses. Qed.
Print Assumptions C16_closed_example_hypotheses.

(* both sides of C16_closed_imported_action, as booleans, agree for every imported action and every action b *)
Theorem C16_closed_example_table : ClosedExamples.table_agrees ClosedExamples.cx_native ClosedExamples.cx_ims = true.
Proof. exact ClosedExamples.cx_table. Qed.
Print Assumptions C16_closed_example_table.

Theorem C16_closed_example_deps :
  map (fun x => (x, succ (combine ClosedExamples.cx_native ClosedExamples.cx_ims) x)) [1000; 1001; 1002; 2000; 2001; 0; 3; 5] =
  [(1000, []); (1001, [3; 1000; 5]); (1002, [1001; 1000; 5]); (2000, [3]); (2001, [2000]); (0, [2001]); (3, []); (5, [])].
Proof. exact ClosedExamples.cx_combined_deps. Qed.
Print Assumptions C16_closed_example_deps.

Theorem C16_closed_example_parts :
  map (fun x => (x, succ (shift 1000 ClosedExamples.cx_A) x)) [1000; 1001; 1002] = [(1000, []); (1001, [1000]); (1002, [1001; 1000])] /\
  map (fun x => (x, succ (shift 2000 ClosedExamples.cx_B) x)) [2000; 2001] = [(2000, []); (2001, [2000])] /\
  map (fun c => (c, mentions ClosedExamples.cx_native (fuel_of ClosedExamples.cx_native) c)) [10; 11; 12] = [(10, [3]); (11, [5]); (12, [3])].
Proof. exact ClosedExamples.cx_own_deps. Qed.
Print Assumptions C16_closed_example_parts.

Theorem C16_closed_example_nested_holder : Dep (combine ClosedExamples.cx_native ClosedExamples.cx_ims) 1002 5.
Proof. exact ClosedExamples.cx_nested_holder. Qed.
Print Assumptions C16_closed_example_nested_holder.

Theorem C16_closed_example_connected_action : Dep (combine ClosedExamples.cx_native ClosedExamples.cx_ims) 1001 3.
Proof. exact ClosedExamples.cx_connected_action. Qed.
Print Assumptions C16_closed_example_connected_action.

(* [native_nests_native] cannot be dropped from (1): an accepted importing schema whose added native checkpoint 12
   nests the imported checkpoint 1003 *)
Theorem C16_closed_example_nesting_needed :
  wf_i ClosedExamples.cx_native_nesting ClosedExamples.cx_ims = true /\ wf_refs ClosedExamples.cx_native_nesting ClosedExamples.cx_ims = true /\
  conforms_i default_value_table ClosedExamples.cx_native_nesting ClosedExamples.cx_ims = true /\
  native_nests_native ClosedExamples.cx_native_nesting = false /\
  succ (combine ClosedExamples.cx_native_nesting ClosedExamples.cx_ims) 2000 = [3; 1000; 5] /\
  mentions ClosedExamples.cx_native_nesting (fuel_of ClosedExamples.cx_native_nesting) 12 = [3] /\
  ClosedExamples.table_agrees ClosedExamples.cx_native_nesting ClosedExamples.cx_ims = false.
Proof. exact ClosedExamples.cx_nesting_needed. Qed.
Print Assumptions C16_closed_example_nesting_needed.
