(* Property C16 at import depth > 1 (and the import clause of C02): transitively imported schemas.

   Model (Model/ImportsDeep.v, built from the functions of Model/Imports.v).  [INode im kids] is one import entry:
   the file it names, the connections it lists, and the entries of that file's own "imports" array.  Ids are relative
   to the importer: the importer refers to entity i of the file by [im_base im + i] and a connection adds a
   checkpoint of the IMPORTER to an entity of the imported file; the absolute id range of a file is the sum of the
   relative bases on the way down, so namespacing stays the [shift] of Model/Imports.v.  A file is loaded once: the
   first entry naming it (depth first, document order) contributes schema and nested entries, a later one its
   connections only.  [combine_deep native kids] is the combined schema; [conforms_deep tbl native kids] the verdict:
   every entry readable, its connections well formed w.r.t. its importer, its file valid in isolation TOGETHER WITH
   ITS OWN IMPORTS (the deep verdict again), and the combined schema conforms.

   [Entry native kids parent t] (Proofs/ImportDeepProofs.v): t is an import entry at some depth, listed by the schema
   [parent].  [conn_facts parent im c]: the target of c is an action or checkpoint of the imported schema and the
   added dependency is a checkpoint of [parent]. *)
From Coq Require Import List Bool Arith Relations.
From OIS Require Import Base.Types Base.PipeTypes Spec.Compare Model.Schema Model.Rules Spec.DepRel Model.Imports Model.ImportsDeep.
From OIS Require Import Gen.Tables Proofs.ImportProofs Proofs.ImportDeepProofs.
Import ListNotations.

(* ================================================================== 1. conservative extension of Model/Imports.v *)
(* when no imported schema imports anything the deep verdict is the flat one, for every comparison table *)
Theorem C16_deep_conservative : forall cmp tbl native ims,
  conforms_deep_with cmp tbl native (map leaf ims) = conforms_i_with cmp tbl native ims.
Proof. exact C16_deep_conservative_lemma. Qed.
Print Assumptions C16_deep_conservative.

Theorem C16_deep_conservative_spec : forall tbl native ims,
  conforms_deep tbl native (map leaf ims) = conforms_i tbl native ims.
Proof. exact C16_deep_conservative_spec_lemma. Qed.
Print Assumptions C16_deep_conservative_spec.

Theorem C16_deep_conservative_kf : forall tbl native ims,
  conforms_deep_kf tbl native (map leaf ims) = conforms_i_kf tbl native ims.
Proof. exact C16_deep_conservative_kf_lemma. Qed.
Print Assumptions C16_deep_conservative_kf.

(* the verdict is a conjunction; deciding the cycle search first (as the executable definition does) changes nothing *)
Theorem C16_deep_verdict_is_conjunction : forall cmp tbl native kids,
  conforms_deep_with cmp tbl native kids =
  bases_ok (map t_im kids) && forallb (tree_ok cmp tbl native) kids && conforms_with cmp tbl (combine_deep native kids).
Proof. exact conforms_deep_with_spec_lemma. Qed.
Print Assumptions C16_deep_verdict_is_conjunction.

Theorem C16_deep_entry_verdict : forall cmp tbl parent im kids,
  tree_ok cmp tbl parent (INode im kids) = entry_ok parent im && conforms_deep_with cmp tbl (im_schema im) kids.
Proof. exact tree_ok_unfold. Qed.
Print Assumptions C16_deep_entry_verdict.

(* ================================================================== 2. bad imports and bad connections at any depth are rejected *)
Theorem C16_deep_bad_import_rejected : forall tbl native kids, conforms_deep tbl native kids = true ->
  forall parent im ks, Entry native kids parent (INode im ks) ->
    im_readable im = true /\
    (forall c, In c (im_conns im) -> conn_facts parent im c) /\
    nodup_by ref_eqb (map cn_to (im_conns im)) = true /\
    bases_ok (map t_im ks) = true /\
    conforms_deep tbl (im_schema im) ks = true.
Proof. exact C16_deep_bad_import_rejected_lemma. Qed.
Print Assumptions C16_deep_bad_import_rejected.

Theorem C16_deep_bad_import_rejected_kf : forall tbl native kids, conforms_deep_kf tbl native kids = true ->
  forall parent im ks, Entry native kids parent (INode im ks) ->
    im_readable im = true /\
    (forall c, In c (im_conns im) -> conn_facts parent im c) /\
    nodup_by ref_eqb (map cn_to (im_conns im)) = true /\
    bases_ok (map t_im ks) = true /\
    conforms_deep_kf tbl (im_schema im) ks = true.
Proof. exact C16_deep_bad_import_rejected_kf_lemma. Qed.
Print Assumptions C16_deep_bad_import_rejected_kf.

(* an imported schema that imports nothing itself conforms on its own, wherever it sits in the tree *)
Theorem C16_deep_leaf_valid : forall tbl native kids, conforms_deep tbl native kids = true ->
  forall parent im, Entry native kids parent (INode im []) -> conforms tbl (im_schema im) = true.
Proof. exact C16_deep_leaf_valid_lemma. Qed.
Print Assumptions C16_deep_leaf_valid.

(* ================================================================== 3. cycles and scope violations through connections at any depth *)
(* the combined schema of an accepted tree is acyclic (C02 on the combined schema), and so is the combined schema of
   every imported file with its own imports *)
Theorem C16_deep_cycle_rejected : forall tbl native kids, conforms_deep tbl native kids = true ->
  Acyclic (combine_deep native kids) /\
  forall parent im ks, Entry native kids parent (INode im ks) -> Acyclic (combine_deep (im_schema im) ks).
Proof. exact C16_deep_cycle_rejected_lemma. Qed.
Print Assumptions C16_deep_cycle_rejected.

Theorem C16_deep_cycle_rejected_kf : forall tbl native kids, conforms_deep_kf tbl native kids = true ->
  Acyclic (combine_deep native kids) /\
  forall parent im ks, Entry native kids parent (INode im ks) -> Acyclic (combine_deep (im_schema im) ks).
Proof. exact C16_deep_cycle_rejected_kf_lemma. Qed.
Print Assumptions C16_deep_cycle_rejected_kf.

Theorem C16_deep_cyclic_not_accepted : forall tbl native kids,
  ~ Acyclic (combine_deep native kids) -> conforms_deep tbl native kids = false.
Proof. exact C16_deep_cyclic_not_accepted_lemma. Qed.
Print Assumptions C16_deep_cyclic_not_accepted.

Theorem C16_deep_scope : forall tbl native kids, conforms_deep tbl native kids = true ->
  scope_clauses (combine_deep native kids).
Proof. exact C16_deep_scope_lemma. Qed.
Print Assumptions C16_deep_scope.

(* ================================================================== 4. stitching *)
(* an entry for a file that is loaded already contributes its connections only, shifted by its importer's base *)
Theorem C16_deep_later_entry : forall pb im kids st, mem_nat (pb + im_base im) (ds_seen st) = true ->
  ds_schema (stitch_tree pb (INode im kids) st) =
  stitch_all (pb + im_base im) (ds_schema st) (ds_n st) (map (sh_conn pb) (im_conns im)).
Proof. exact stitch_tree_loaded. Qed.
Print Assumptions C16_deep_later_entry.

(* the first entry loads the file, stitches the file's own entries, then its connections *)
Theorem C16_deep_first_entry : forall pb im kids st, mem_nat (pb + im_base im) (ds_seen st) = false ->
  ds_schema (stitch_tree pb (INode im kids) st) =
  stitch_all (pb + im_base im)
    (ds_schema (stitch_forest (pb + im_base im) kids
       {| ds_schema := union (ds_schema st) (shift (pb + im_base im) (im_schema im));
          ds_seen := (pb + im_base im) :: ds_seen st; ds_n := ds_n st |}))
    0 (map (sh_conn pb) (im_conns im)).
Proof. exact stitch_tree_first. Qed.
Print Assumptions C16_deep_first_entry.

(* one step: a connection listed by an importer at absolute base pb adds exactly the IMPORTER's checkpoint *)
Theorem C16_deep_nested_connection_adds : forall pb b s n c a,
  r_kind (cn_to c) = RAction -> r_kind (cn_add c) = RCheckpoint ->
  find_action s (b + r_id (cn_to c)) = Some a ->
  FreshCp s (b + STITCH + n) -> pb + r_id (cn_add c) <> b + STITCH + n ->
  forall x, Dep (stitch_one b s n (sh_conn pb c)) (b + r_id (cn_to c)) x <->
            Dep s (b + r_id (cn_to c)) x \/ Mentions s (pb + r_id (cn_add c)) x.
Proof. exact C16_deep_nested_connection_adds_lemma. Qed.
Print Assumptions C16_deep_nested_connection_adds.

Theorem C16_deep_nested_connection_adds_checkpoint : forall pb b s n c tc,
  r_kind (cn_to c) = RCheckpoint -> r_kind (cn_add c) = RCheckpoint ->
  find_checkpoint s (b + r_id (cn_to c)) = Some tc ->
  FreshCp s (b + STITCH + n) -> pb + r_id (cn_add c) <> b + STITCH + n ->
  forall x, Mentions (stitch_one b s n (sh_conn pb c)) (b + r_id (cn_to c)) x <->
            Mentions s (b + r_id (cn_to c)) x \/ Mentions s (pb + r_id (cn_add c)) x.
Proof. exact C16_deep_nested_connection_adds_checkpoint_lemma. Qed.
Print Assumptions C16_deep_nested_connection_adds_checkpoint.

Theorem C16_deep_nested_connection_other_actions : forall pb b s n c,
  r_kind (cn_to c) = RAction -> FreshCp s (b + STITCH + n) ->
  forall y, y <> b + r_id (cn_to c) -> forall x, Dep (stitch_one b s n (sh_conn pb c)) y x <-> Dep s y x.
Proof. exact C16_deep_nested_connection_other_actions_lemma. Qed.
Print Assumptions C16_deep_nested_connection_other_actions.

(* ================================================================== 5. non-vacuity *)
(* a depth-2 diamond (native imports M and L, M imports L, connections at both levels, references into L from the
   native schema and from M) is accepted *)
Theorem C16_deep_example_diamond_accepted :
  conforms_deep default_value_table DeepExamples.ex_N (DeepExamples.ex_kids 2) = true.
Proof. exact DeepExamples.ex_diamond_accepted. Qed.
Print Assumptions C16_deep_example_diamond_accepted.

(* in it L is present once, and L.action 1 (2001) depends on M.action 0 (1000) through the nested connection *)
Theorem C16_deep_example_diamond_combined :
  List.length (actions (combine_deep DeepExamples.ex_N (DeepExamples.ex_kids 2))) = 6
  /\ In 1000 (succ (combine_deep DeepExamples.ex_N (DeepExamples.ex_kids 2)) 2001)
  /\ In 2000 (succ (combine_deep DeepExamples.ex_N (DeepExamples.ex_kids 2)) 2001)
  /\ In 3 (succ (combine_deep DeepExamples.ex_N (DeepExamples.ex_kids 2)) 1000)
  /\ In 3 (succ (combine_deep DeepExamples.ex_N (DeepExamples.ex_kids 2)) 2000).
Proof. exact DeepExamples.ex_diamond_combined. Qed.
Print Assumptions C16_deep_example_diamond_combined.

(* the same tree with a cycle native 0 -> L.1 -> (nested connection) M.0 -> (native connection) native 0 is rejected,
   although every entry (every imported file with its own imports) is fine on its own *)
Theorem C16_deep_example_nested_cycle_rejected :
  conforms_deep default_value_table DeepExamples.ex_N_cyclic (DeepExamples.ex_kids 7) = false
  /\ forallb (tree_ok Cmp default_value_table DeepExamples.ex_N_cyclic) (DeepExamples.ex_kids 7) = true
  /\ has_cycle (combine_deep DeepExamples.ex_N_cyclic (DeepExamples.ex_kids 7)) = true
  /\ has_cycle (combine_deep DeepExamples.ex_M DeepExamples.ex_M_kids) = false.
Proof. exact DeepExamples.ex_nested_cycle_rejected. Qed.
Print Assumptions C16_deep_example_nested_cycle_rejected.
