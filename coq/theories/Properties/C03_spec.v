(* Property C03 -- every schema that satisfies the published specification validates with an empty error list.
   The specification is the declarative predicate [Conforms tbl s] of Spec/Conforms.v (no boolean rule, fuel or
   search function occurs in it; the composite uniqueness key of checkpoints is a declarative multiset equality,
   [SameKey]); the verdict is [conforms tbl s] of Model/Rules.v.
   [C03_complete] is property C03 for the model; [C03_sound] is its converse (the model accepts nothing the
   specification excludes).  Proofs: Proofs/ConformsIff.v. *)
From Coq Require Import List Bool.
From OIS Require Import Base.Types Base.PipeTypes Model.Schema Model.Rules Spec.Conforms Proofs.ConformsIff.

Theorem C03_sound : forall tbl s, conforms tbl s = true -> Conforms tbl s.
Proof. exact C03_sound_lemma. Qed.
Print Assumptions C03_sound.

Theorem C03_complete : forall tbl s, Conforms tbl s -> conforms tbl s = true.
Proof. exact C03_complete_lemma. Qed.
Print Assumptions C03_complete.

Theorem C03_iff : forall tbl s, conforms tbl s = true <-> Conforms tbl s.
Proof. exact C03_iff_lemma. Qed.
Print Assumptions C03_iff.
