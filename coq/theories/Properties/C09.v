(* Property C09 -- pipeline variables obey their traversal and thread scopes; a pipeline neither reads the object it
   writes, nor writes what action operations set or checkpoints compare.
   Model: Model/PipeRules.v.  A pipeline is flattened ([flatten]) into the instructions the validator performs, in its
   order: IDecl sc _ d (declare variable d in scope sc), ITrav sc src v (enter the traversal of scope sc over src, bind
   loop variable v), IApp sc a (application a in scope sc), IOut v attr.  A scope is the list of traversal indices
   from the root; [visible d u]: a declaration in scope d is visible in scope u.  [thread_var s ctx v]: the type of the
   thread variable named v of the thread groups enclosing the pipeline's thread context ctx (= the context in which the
   pipeline's promise is fulfilled), None if there is none.
   All theorems hold verbatim for [conforms_p_kf]: the lemmas are stated for [conforms_p_with cmp], any operator table. *)
From Coq Require Import List Bool Arith.
From OIS Require Import Base.Types Base.PipeTypes Spec.Compare Model.Schema Model.Rules Model.PipeRules Proofs.PipeProofs.
Import ListNotations.

(* ---- scopes: visibility is the prefix order on lists of traversal indices *)
Theorem C09_visible_is_prefix : forall d u, visible d u = true <-> exists r, u = d ++ r.
Proof. exact prefixb_iff. Qed.
Print Assumptions C09_visible_is_prefix.

(* the code writes a scope as its indices in decimal joined by dots ("0.3.10") and tests nesting with
   (use + ".").startswith(decl + ".").  Over segments that are lists of digits (< 10; the dot is the character 10):
   [enc l] = every segment followed by a dot, [prefixb] = startswith.  The test computes the segment-wise prefix order. *)
Theorem C09_scope_strings : forall a b, Forall digits_ok a -> Forall digits_ok b ->
  (prefixb (enc a) (enc b) = true <-> exists r, b = a ++ r).
Proof. exact startswith_dot_iff. Qed.
Print Assumptions C09_scope_strings.

(* [join l] is the dotted string itself; for a non-empty scope, join l ++ "." = enc l *)
Theorem C09_scope_strings_joined : forall a b, a <> [] -> b <> [] -> Forall digits_ok a -> Forall digits_ok b ->
  (prefixb (join a ++ [dot]) (join b ++ [dot]) = true <-> exists r, b = a ++ r).
Proof. exact startswith_dot_joined. Qed.
Print Assumptions C09_scope_strings_joined.

(* with [digits n] the decimal notation of n: on the code's spelling of two scopes the test decides [visible] *)
Theorem C09_scope_strings_decimal : forall a b : list nat,
  prefixb (enc (map digits a)) (enc (map digits b)) = true <-> visible a b = true.
Proof. exact startswith_decimal. Qed.
Print Assumptions C09_scope_strings_decimal.

Theorem C09_decimal_notation : forall n, value (digits n) = n /\ digits_ok (digits n) /\ digits n <> [].
Proof. exact digits_spec. Qed.
Print Assumptions C09_decimal_notation.

(* without the trailing dot the test is wrong from index 10 on: "0.10".startswith("0.1") although [0;10] does not extend [0;1] *)
Theorem C09_plain_startswith_wrong :
  prefixb (join [[0]; [1]]) (join [[0]; [1; 0]]) = true /\ ~ (exists r, [[0]; [1; 0]] = [[0]; [1]] ++ r).
Proof. exact plain_startswith_wrong. Qed.
Print Assumptions C09_plain_startswith_wrong.

(* ---- every variable an instruction reads is declared (as a variable or a loop variable) by an EARLIER instruction in
   a scope visible from the instruction's scope, or is a thread variable of the pipeline's thread context; every
   variable it assigns is declared by an earlier variable declaration in a visible scope and is not a thread variable.
   (Outputs read in the root scope []: only top-level variables.) *)
Theorem C09_scoped : forall tbl ps, conforms_p tbl ps = true ->
  forall pl, In pl (pipelines ps) ->
  let s := base ps in let own := r_id (pl_promise pl) in let ctx := pipe_ctx s own in
  forall l1 i l2, flatten pl = l1 ++ i :: l2 ->
  (forall v, In v (reads i) ->
     (exists y d, In y l1 /\ declares y d v /\ visible d (iscope i) = true) \/ thread_var s ctx v <> None) /\
  (forall v, In v (writes i) ->
     (exists y d top vd, In y l1 /\ y = IDecl d top vd /\ vd_name vd = v /\ visible d (iscope i) = true) /\
     thread_var s ctx v = None).
Proof. exact (C09_scoped_lemma Cmp). Qed.
Print Assumptions C09_scoped.

(* what "thread variable of the pipeline's thread context" means: the pipeline's promise is fulfilled inside thread group g;
   thread group g' is g or encloses it and declares the variable; the variable has the (de-listified) type of g' 's spawn source *)
Theorem C09_thread_variable : forall s ctx v t, thread_var s ctx v = Some t ->
  exists g g' tg, ctx = Some g /\ has_access s g g' = true /\ find_group s g' = Some tg /\ g_var tg = v /\
                  var_type s (fuel_of s) g' = TOk t.
Proof. exact thread_var_spec. Qed.
Print Assumptions C09_thread_variable.

(* ---- no declared or loop variable reuses a name visible in its scope: not the name of a thread variable of the
   context, and no other instruction of the pipeline declares the same name in the same or an enclosing scope *)
Theorem C09_no_redeclaration : forall tbl ps, conforms_p tbl ps = true ->
  forall pl, In pl (pipelines ps) ->
  let s := base ps in let ctx := pipe_ctx s (r_id (pl_promise pl)) in
  forall l1 x l2 d n, flatten pl = l1 ++ x :: l2 -> declares x d n ->
  thread_var s ctx n = None /\
  forall y d', In y (l1 ++ l2) -> declares y d' n -> visible d' d = false.
Proof. exact (C09_no_redeclaration_lemma Cmp). Qed.
Print Assumptions C09_no_redeclaration.

(* ---- loop variables, thread variables and variables being traversed are never assigned: the target of an application
   in scope sc is not the loop variable of a traversal whose scope is visible from sc (this or an enclosing one), not a
   thread variable of the context, and not a variable over which this or an enclosing traversal iterates *)
Theorem C09_never_assigned : forall tbl ps, conforms_p tbl ps = true ->
  forall pl, In pl (pipelines ps) ->
  let s := base ps in let ctx := pipe_ctx s (r_id (pl_promise pl)) in
  forall l1 sc a l2, flatten pl = l1 ++ IApp sc a :: l2 ->
  (forall d src, In (ITrav d src (ap_to a)) (flatten pl) -> visible d sc = false) /\
  thread_var s ctx (ap_to a) = None /\
  (forall tsc p as_, In (ITrav tsc (PVar (ap_to a) p) as_) (flatten pl) -> visible tsc sc = false).
Proof. exact (C09_never_assigned_lemma Cmp). Qed.
Print Assumptions C09_never_assigned.

(* ---- a pipeline never reads the object it writes: no traversal, application or filter operand names the pipeline's own
   object promise or the local object "$_object" *)
Theorem C09_own_object : forall tbl ps, conforms_p tbl ps = true ->
  forall pl, In pl (pipelines ps) ->
  let own := r_id (pl_promise pl) in
  (forall sc src as_, In (ITrav sc src as_) (flatten pl) -> src_not_own own src) /\
  (forall sc a, In (IApp sc a) (flatten pl) ->
     src_not_own own (ap_src a) /\
     forall l o r, In (l, o, r) (step_cmps (ap_step a)) -> fop_not_own own l /\ fop_not_own own r).
Proof. exact (C09_own_object_lemma Cmp). Qed.
Print Assumptions C09_own_object.

(* ---- a pipeline writes only attributes that no operation of an action on its promise can set *)
Theorem C09_outputs_unsettable : forall tbl ps, conforms_p tbl ps = true ->
  forall pl v attr, In pl (pipelines ps) -> In (v, attr) (pl_out pl) ->
  ~ In attr (settable (base ps) (r_id (pl_promise pl))).
Proof. exact (C09_outputs_lemma Cmp). Qed.
Print Assumptions C09_outputs_unsettable.

(* ---- no checkpoint compares <action>.object_promise.<attr> where a pipeline writes attr of the action's promise *)
Theorem C09_no_checkpoint_on_written : forall tbl ps, conforms_p tbl ps = true ->
  forall cp l o r a n act pl v,
  In cp (checkpoints (base ps)) -> In (DCmp l o r) (cp_deps cp) -> l = OAct a [n] \/ r = OAct a [n] ->
  r_kind a = RAction -> find_action (base ps) (r_id a) = Some act ->
  In pl (pipelines ps) -> promise_of act = Some (r_id (pl_promise pl)) -> In (v, n) (pl_out pl) -> False.
Proof. exact (C09_no_checkpoint_lemma Cmp). Qed.
Print Assumptions C09_no_checkpoint_on_written.

(* ---- pipelines obeying the rules are never rejected: a schema is accepted as soon as its base is, pipeline ids / names /
   promises are pairwise different, no checkpoint compares a written attribute, every pipeline names a promise, has an
   output, has no two sibling traversals over one source, and its instructions can be run by the rules
   ([Run] / [instr_rule], Proofs/PipeProofs.v: the scoping rules above and the typing rules of C08, stated as relations) *)
Theorem C09_never_rejected : forall tbl ps,
  conforms tbl (base ps) = true ->
  NoDup (map pl_id (pipelines ps)) -> NoDup (map pl_name (pipelines ps)) -> NoDup (map (fun pl => r_id (pl_promise pl)) (pipelines ps)) ->
  no_compare_on_aggregated ps = true ->
  (forall pl, In pl (pipelines ps) ->
     ref_ok (base ps) RPromise (pl_promise pl) = true /\ pl_out pl <> [] /\
     nodup_by psrc_eqb (map trav_src (pl_trav pl)) = true /\ forallb trav_struct_ok (pl_trav pl) = true /\
     exists fin, Run Cmp (base ps) (pipe_ctx (base ps) (r_id (pl_promise pl))) (r_id (pl_promise pl)) [] (flatten pl) fin) ->
  conforms_p tbl ps = true.
Proof. exact (conforms_p_rules_accept Cmp). Qed.
Print Assumptions C09_never_rejected.
