(* Property C13 -- validation is a pure, repeatable function of the document.
   (a) The def/use data regenerated from the current source (Gen/State.v): every instance field of
       SchemaValidator that is written anywhere outside __init__ is unconditionally re-initialised at the
       start of validate() (or assigned from the call's own arguments/result).
   (b) Generic state-machine theorem: under (a), the result of a call is independent of the history of
       calls on the instance, for histories of any length.
   What is modelled, not proved: that Python statements only touch the fields the ast pass attributes to
   them (no setattr / __dict__ tricks), and that module-level data (obj_specs) is not mutated -- the latter is
   checked at run time by checks/c13.py. *)
From Coq Require Import List String Bool.
From OIS Require Import Gen.State Proofs.StateMachine.
Import ListNotations.
Open Scope string_scope.

Theorem C13_fields_covered :
  forallb (fun f => memb f (fields_reset ++ fields_percall)) fields_mutated = true.
Proof. vm_compute. reflexivity. Qed.
Print Assumptions C13_fields_covered.

Theorem C13_no_carry_over :
  forall (value doc out : Type) (init : state value) (body : state value -> doc -> state value * out),
    (forall st d f, memb f fields_mutated = false -> fst (body st d) f = st f) ->
    (forall st1 st2 d, (forall f, st1 f = st2 f) -> snd (body st1 d) = snd (body st2 d)) ->
    forall (h : list doc) (d : doc),
      snd (call value doc out init (fields_reset ++ fields_percall) body (run value doc out init (fields_reset ++ fields_percall) body init h) d)
      = snd (call value doc out init (fields_reset ++ fields_percall) body init d).
Proof.
  intros value doc out init body Hw Hext h d.
  apply (history_independent value doc out init (fields_reset ++ fields_percall) fields_mutated body Hw C13_fields_covered Hext).
Qed.
Print Assumptions C13_no_carry_over.
