(* Property C14 -- the verdict does not depend on declaration order.

   Reordering the elements of any order-free array of a schema - the top-level entity collections, an
   object type's attributes, a checkpoint's dependencies, include/exclude lists, milestones - never changes
   whether the schema is accepted.

   The verdict is [conforms] of Model/Rules.v (first-match lookups, first-declared fulfiller, searches
   with shared visited sets and list-ordered closures, exactly as the implementation iterates its arrays).
   All statements are equalities of verdicts for ALL schemas, accepted or not.  Proofs/PermProofs.v proves
   each for an arbitrary comparison table, so the known-finding variant [conforms_kf] is covered too
   ([C14_perm_kf]).  The arrays of the property's list that the abstract syntax does not have (import
   connections, pipeline clauses, outputs) are outside the model. *)
From Coq Require Import List Bool Arith Permutation.
From OIS Require Import Base.Types Model.Schema Model.Rules Proofs.PermProofs.

(* the six top-level collections, each permuted arbitrarily, elements unchanged *)
Theorem C14_top_level : forall tbl s s', schema_perm s s' -> conforms tbl s = conforms tbl s'.
Proof. exact C14_top_level_lemma. Qed.
Print Assumptions C14_top_level.

(* every checkpoint keeps id, alias, gate and context; its dependencies are permuted *)
Theorem C14_dependencies : forall tbl s s', Deps.deps_reordered s s' -> conforms tbl s = conforms tbl s'.
Proof. exact Deps.C14_dependencies_lemma. Qed.
Print Assumptions C14_dependencies.

(* every object type keeps id and name; its attributes are permuted *)
Theorem C14_attributes : forall tbl s s', Attrs.attrs_reordered s s' -> conforms tbl s = conforms tbl s'.
Proof. exact Attrs.C14_attributes_lemma. Qed.
Print Assumptions C14_attributes.

(* every action keeps everything but the order of its include / exclude list and of its milestones *)
Theorem C14_inclusion_lists : forall tbl s s', Incl.incl_reordered s s' -> conforms tbl s = conforms tbl s'.
Proof. exact Incl.C14_inclusion_lists_lemma. Qed.
Print Assumptions C14_inclusion_lists.

(* jointly: every top-level collection permuted AND its elements reordered inside *)
Theorem C14_perm : forall tbl s s', schema_reordered s s' -> conforms tbl s = conforms tbl s'.
Proof. exact C14_perm_lemma. Qed.
Print Assumptions C14_perm.

Theorem C14_perm_kf : forall tbl s s', schema_reordered s s' -> conforms_kf tbl s = conforms_kf tbl s'.
Proof. intros tbl s s'. apply conforms_with_reordered. Qed.
Print Assumptions C14_perm_kf.

(* [schema_reordered] contains the plain permutations of [C14_top_level] *)
Theorem C14_perm_covers_top_level : forall s s', schema_perm s s' -> schema_reordered s s'.
Proof. exact schema_perm_reordered. Qed.
Print Assumptions C14_perm_covers_top_level.
