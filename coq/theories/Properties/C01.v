(* Property C01 -- accepted schemas contain no dangling or wrong-kind references, and every attribute path
   attached to a reference follows declared attributes.  "Accepted" is [conforms tbl s = true]
   (Model/Rules.v); the same holds for [conforms_kf] (theorems *_kf).

   Vocabulary (Proofs/ConformsInv.v, Proofs/TypingSpec.v), repeated here for the reader:

   [RefAt s k r] -- "reference r stands at a position of schema s where the specification allows kind k":
     action.party (RParty), action.object_promise (RPromise), action.context (RGroup), action.depends_on
     (RCheckpoint), operation.default_edges.* (RPromise), operation.appends_objects_to (RPromise),
     object_promise.object_type (RType), object_promise.context (RGroup), attribute.object_type of an edge or
     edge collection (RType), checkpoint.context (RGroup), nested checkpoint reference (RCheckpoint),
     comparison operand action (RAction), comparison operand thread variable (RGroup: the declaring group),
     thread_group.context (RGroup), thread_group.depends_on (RCheckpoint), spawn.foreach promise (RPromise),
     spawn.foreach variable (RGroup: the declaring group).   One constructor per position.

   [Resolves s k r] := r_kind r = k /\ exists e, find_K s (r_id r) = Some e /\ In e (Ks s) /\ K_id e = r_id r /\
                        forall e', In e' (Ks s) -> K_id e' = r_id r -> e' = e        (K the collection of kind k)

   [PathType s def td path td'] -- inductive: every segment of [path] is a declared attribute ([find_attr d seg =
     Some a]) of the type reached so far; see Properties/C04_typing.v.
   [RefPathType s tr path td] := exists d, find_type_ref s tr = Some d /\ PathType s (Some d) (TD false IObject (Some tr)) path td
   [PromisePathDeclared s p path] := exists pr td, find_promise s p = Some pr /\ RefPathType s (pr_type pr) path td
   [VarPathDeclared s g path] := exists vt, VarType s g vt /\
        (path = [] \/ exists tr td, td_item vt = IObject /\ td_obj vt = Some tr /\ RefPathType s tr path td) *)
From Coq Require Import List.
From OIS Require Import Base.Types Base.PipeTypes Spec.Compare Model.Schema Model.Rules Spec.DepRel.
From OIS Require Import Proofs.ConformsInv Proofs.TypingSpec.
Import ListNotations.

(* every reference resolves to exactly one declared entity of the kind allowed at its position *)
Theorem C01_refs_resolve : forall tbl s, conforms tbl s = true ->
  forall k r, RefAt s k r -> Resolves s k r.
Proof. exact (C01_refs_lemma Cmp). Qed.
Print Assumptions C01_refs_resolve.

Theorem C01_refs_resolve_kf : forall tbl s, conforms_kf tbl s = true ->
  forall k r, RefAt s k r -> Resolves s k r.
Proof. exact (C01_refs_lemma Cmp_kf). Qed.
Print Assumptions C01_refs_resolve_kf.

(* one instance spelled out: the object promise of an action *)
Theorem C01_action_promise_resolves : forall tbl s, conforms tbl s = true ->
  forall a, In a (actions s) ->
  r_kind (a_promise a) = RPromise /\
  exists p, find_promise s (r_id (a_promise a)) = Some p /\ In p (promises s) /\ pr_id p = r_id (a_promise a) /\
            forall p', In p' (promises s) -> pr_id p' = r_id (a_promise a) -> p' = p.
Proof. exact (fun tbl s H a Ha => C01_refs_lemma Cmp tbl s H RPromise (a_promise a) (RA_action_promise s a Ha)). Qed.
Print Assumptions C01_action_promise_resolves.

(* ids are pairwise distinct per collection, which is what makes "exactly one" true *)
Theorem C01_ids_distinct : forall tbl s, conforms tbl s = true ->
  NoDup (map pa_id (parties s)) /\ NoDup (map ot_id (otypes s)) /\ NoDup (map pr_id (promises s)) /\
  NoDup (map a_id (actions s)) /\ NoDup (map cp_id (checkpoints s)) /\ NoDup (map g_id (groups s)).
Proof. exact (conforms_ids_distinct Cmp). Qed.
Print Assumptions C01_ids_distinct.

(* every attribute path attached to a reference follows attributes declared along the way: comparison
   operands on actions and on thread variables, spawn sources on promises and on variables, appends_objects_to *)
Theorem C01_paths_declared : forall tbl s, conforms tbl s = true ->
  (forall cp l o r a path, In cp (checkpoints s) -> In (DCmp l o r) (cp_deps cp) -> l = OAct a path \/ r = OAct a path ->
     exists act p, find_action s (r_id a) = Some act /\ a_promise act = Ref RPromise p /\ PromisePathDeclared s p path) /\
  (forall cp l o r g path, In cp (checkpoints s) -> In (DCmp l o r) (cp_deps cp) -> l = OVar g path \/ r = OVar g path ->
     VarPathDeclared s g path) /\
  (forall g p path, In g (groups s) -> g_src g = SpPromise p path -> PromisePathDeclared s (r_id p) path) /\
  (forall g g' path, In g (groups s) -> g_src g = SpVar g' path -> VarPathDeclared s g' path) /\
  (forall a q path, In a (actions s) -> op_appends (a_op a) = Some (q, path) -> PromisePathDeclared s (r_id q) path).
Proof. exact (C01_paths_lemma Cmp). Qed.
Print Assumptions C01_paths_declared.

Theorem C01_paths_declared_kf : forall tbl s, conforms_kf tbl s = true ->
  (forall cp l o r a path, In cp (checkpoints s) -> In (DCmp l o r) (cp_deps cp) -> l = OAct a path \/ r = OAct a path ->
     exists act p, find_action s (r_id a) = Some act /\ a_promise act = Ref RPromise p /\ PromisePathDeclared s p path) /\
  (forall cp l o r g path, In cp (checkpoints s) -> In (DCmp l o r) (cp_deps cp) -> l = OVar g path \/ r = OVar g path ->
     VarPathDeclared s g path) /\
  (forall g p path, In g (groups s) -> g_src g = SpPromise p path -> PromisePathDeclared s (r_id p) path) /\
  (forall g g' path, In g (groups s) -> g_src g = SpVar g' path -> VarPathDeclared s g' path) /\
  (forall a q path, In a (actions s) -> op_appends (a_op a) = Some (q, path) -> PromisePathDeclared s (r_id q) path).
Proof. exact (C01_paths_lemma Cmp_kf). Qed.
Print Assumptions C01_paths_declared_kf.

(* a typed path starts at a declared attribute; the premises of PT_edge / PT_edge_collection give the same for
   every later segment *)
Theorem C01_path_segment_declared : forall s d td seg rest td',
  PathType s (Some d) td (seg :: rest) td' -> exists a, find_attr d seg = Some a /\ In a (ot_attrs d) /\ at_name a = seg.
Proof. exact PathType_first_declared. Qed.
Print Assumptions C01_path_segment_declared.
