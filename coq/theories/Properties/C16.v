(* Property C16 -- imports and connections.

   A schema may use any entity of a directly or transitively imported valid schema through its
   schema-qualified reference, and an import that cannot be read or is itself invalid, or a connection whose
   target is not in the imported schema or whose added dependency is not a native checkpoint, is rejected.
   After validation each connection's target depends on the added checkpoint in conjunction with everything it
   depended on before, so a cycle or scope violation created through a connection is reported exactly as a
   native one would be.

   Model (Model/Imports.v).  Namespacing is an id shift: the entities of an import live at ids
   [im_base im + i], and the native schema refers to them by those ids (the renderer writes
   `schema:{file}.kind:i`).  [combine native ims] is the native schema united with the shifted imports, with
   every connection stitched in ([stitch_one]); the verdict is [conforms_i tbl native ims].

   Side conditions (Proofs/ImportProofs.v).
   [wf_i native ims]: import bases are distinct positive multiples of OFF, native ids are below OFF, imported ids
     below STITCH, an import has at most OFF - STITCH connections.
   [wf_refs native ims]: native checkpoint references avoid the ids reserved for stitched checkpoints, imported
     ones are below STITCH, added checkpoints have native ids.
   [FreshCp s f]: no checkpoint of s has id f and no depends_on or nested checkpoint reference of s points to f.
   [C16_wf_satisfiable] exhibits a generated importing schema (two imports, a connection onto an action that has a
   depends_on, a connection onto a checkpoint) that satisfies both and is accepted.

   What is proved about connections.  Exactly (iff), for one stitching step under freshness of the stitched id:
   [C16_connection_adds], [C16_connection_other_actions] (target an action), [C16_connection_adds_checkpoint],
   [C16_connection_checkpoints], [C16_connection_checkpoint_deps] and corollaries (target a checkpoint).
   [C16_every_step_fresh] shows that every stitching step performed by [combine] satisfies these hypotheses.
   For the combined schema as a whole the lower bound is proved ([C16_connection_adds_combined],
   [C16_combined_keeps]: the target has the added dependencies and keeps the old ones, and nothing native or
   imported is lost); a closed-form upper bound for several interacting connections is not stated: it is the
   least fixed point of the one-step equations, which is what iterating the one-step theorems along
   [C16_every_step_fresh] yields. *)
From Coq Require Import List Bool Arith Relations.
From OIS Require Import Base.Types Model.Schema Model.Rules Spec.DepRel Model.Imports Gen.Tables Proofs.ImportProofs.
Import ListNotations.

(* ================================================================== 1. bad imports and bad connections are rejected *)
Theorem C16_bad_import_rejected : forall tbl native ims, conforms_i tbl native ims = true ->
  forall im, In im ims ->
    im_readable im = true /\ conforms tbl (im_schema im) = true /\
    forall c, In c (im_conns im) ->
      ((r_kind (cn_to c) = RAction /\ exists a, find_action (im_schema im) (r_id (cn_to c)) = Some a) \/
       (r_kind (cn_to c) = RCheckpoint /\ exists t, find_checkpoint (im_schema im) (r_id (cn_to c)) = Some t)) /\
      r_kind (cn_add c) = RCheckpoint /\ exists k, find_checkpoint native (r_id (cn_add c)) = Some k.
Proof. exact C16_bad_import_rejected_lemma. Qed.
Print Assumptions C16_bad_import_rejected.

Theorem C16_bad_import_rejected_kf : forall tbl native ims, conforms_i_kf tbl native ims = true ->
  forall im, In im ims ->
    im_readable im = true /\ conforms_kf tbl (im_schema im) = true /\
    forall c, In c (im_conns im) ->
      ((r_kind (cn_to c) = RAction /\ exists a, find_action (im_schema im) (r_id (cn_to c)) = Some a) \/
       (r_kind (cn_to c) = RCheckpoint /\ exists t, find_checkpoint (im_schema im) (r_id (cn_to c)) = Some t)) /\
      r_kind (cn_add c) = RCheckpoint /\ exists k, find_checkpoint native (r_id (cn_add c)) = Some k.
Proof. exact C16_bad_import_rejected_kf_lemma. Qed.
Print Assumptions C16_bad_import_rejected_kf.

Theorem C16_connection_targets_distinct : forall tbl native ims, conforms_i tbl native ims = true ->
  forall im, In im ims -> nodup_by ref_eqb (map cn_to (im_conns im)) = true.
Proof. exact C16_connection_targets_distinct_lemma. Qed.
Print Assumptions C16_connection_targets_distinct.

(* ================================================================== 2. namespacing *)
(* (a) every entity of an imported schema is found in the combined schema at its shifted id *)
Theorem C16_namespacing_imported : forall native ims im, wf_i native ims = true -> In im ims ->
  (forall i p, find_party (im_schema im) i = Some p ->
     find_party (combine native ims) (im_base im + i) = Some (sh_party (im_base im) p)) /\
  (forall i t, find_type (im_schema im) i = Some t ->
     find_type (combine native ims) (im_base im + i) = Some (sh_otype (im_base im) t)) /\
  (forall i p, find_promise (im_schema im) i = Some p ->
     find_promise (combine native ims) (im_base im + i) = Some (sh_promise (im_base im) p)) /\
  (forall i g, find_group (im_schema im) i = Some g ->
     find_group (combine native ims) (im_base im + i) = Some (sh_group (im_base im) g)) /\
  (forall i a, find_action (im_schema im) i = Some a ->
     exists a', find_action (combine native ims) (im_base im + i) = Some a' /\
       a_id a' = im_base im + i /\ a_name a' = im_base im + a_name a /\
       a_party a' = sh_ref (im_base im) (a_party a) /\ a_promise a' = sh_ref (im_base im) (a_promise a) /\
       a_ctx a' = sh_oref (im_base im) (a_ctx a) /\ a_op a' = sh_op (im_base im) (a_op a) /\ a_milestones a' = []) /\
  (forall i c, find_checkpoint (im_schema im) i = Some c ->
     exists c', find_checkpoint (combine native ims) (im_base im + i) = Some c' /\
       cp_id c' = im_base im + i /\ cp_alias c' = im_base im + cp_alias c /\ cp_ctx c' = sh_oref (im_base im) (cp_ctx c)).
Proof. exact C16_namespacing_imported_lemma. Qed.
Print Assumptions C16_namespacing_imported.

(* a schema-qualified reference to any entity of an imported schema resolves in the combined schema *)
Theorem C16_namespacing_denotes : forall native ims im, wf_i native ims = true -> In im ims ->
  forall r, denotes (im_schema im) r = true -> denotes (combine native ims) (sh_ref (im_base im) r) = true.
Proof. exact C16_namespacing_denotes_lemma. Qed.
Print Assumptions C16_namespacing_denotes.

(* native lookups are unchanged (connections never touch native entities) *)
Theorem C16_namespacing_native : forall native ims, bases_ok ims = true -> forall i, i < OFF ->
  find_party (combine native ims) i = find_party native i /\
  find_type (combine native ims) i = find_type native i /\
  find_promise (combine native ims) i = find_promise native i /\
  find_action (combine native ims) i = find_action native i /\
  find_checkpoint (combine native ims) i = find_checkpoint native i /\
  find_group (combine native ims) i = find_group native i.
Proof. exact C16_namespacing_native_lemma. Qed.
Print Assumptions C16_namespacing_native.

(* (b) the shifted copy of a valid schema is valid *)
Theorem C16_shift_valid : forall tbl d s, conforms tbl s = true -> conforms tbl (shift d s) = true.
Proof. exact ShiftValid.C16_shift_valid_lemma. Qed.
Print Assumptions C16_shift_valid.

Theorem C16_shift_valid_kf : forall tbl d s, conforms_kf tbl s = true -> conforms_kf tbl (shift d s) = true.
Proof. exact ShiftValid.C16_shift_valid_kf_lemma. Qed.
Print Assumptions C16_shift_valid_kf.

(* ================================================================== 3. what a connection adds *)
(* target an action: it now depends on everything it depended on before and on everything the added checkpoint mentions *)
Theorem C16_connection_adds : forall base s n c a,
  r_kind (cn_to c) = RAction -> r_kind (cn_add c) = RCheckpoint ->
  find_action s (base + r_id (cn_to c)) = Some a ->
  FreshCp s (base + STITCH + n) -> r_id (cn_add c) <> base + STITCH + n ->
  forall b, Dep (stitch_one base s n c) (base + r_id (cn_to c)) b <->
            Dep s (base + r_id (cn_to c)) b \/ Mentions s (r_id (cn_add c)) b.
Proof. exact C16_connection_adds_action_lemma. Qed.
Print Assumptions C16_connection_adds.

(* ... and nothing else changes *)
Theorem C16_connection_other_actions : forall base s n c,
  r_kind (cn_to c) = RAction -> FreshCp s (base + STITCH + n) ->
  forall x, x <> base + r_id (cn_to c) -> forall b, Dep (stitch_one base s n c) x b <-> Dep s x b.
Proof. exact C16_connection_other_actions_lemma. Qed.
Print Assumptions C16_connection_other_actions.

(* target a checkpoint: it now mentions what it mentioned before and what the added checkpoint mentions *)
Theorem C16_connection_adds_checkpoint : forall base s n c tc,
  r_kind (cn_to c) = RCheckpoint -> r_kind (cn_add c) = RCheckpoint ->
  find_checkpoint s (base + r_id (cn_to c)) = Some tc ->
  FreshCp s (base + STITCH + n) -> r_id (cn_add c) <> base + STITCH + n ->
  forall b, Mentions (stitch_one base s n c) (base + r_id (cn_to c)) b <->
            Mentions s (base + r_id (cn_to c)) b \/ Mentions s (r_id (cn_add c)) b.
Proof. exact C16_connection_adds_checkpoint_lemma. Qed.
Print Assumptions C16_connection_adds_checkpoint.

(* every checkpoint: those that are or nest the target gain the added mentions, the others are unchanged *)
Theorem C16_connection_checkpoints : forall base s n c tc,
  r_kind (cn_to c) = RCheckpoint -> r_kind (cn_add c) = RCheckpoint ->
  find_checkpoint s (base + r_id (cn_to c)) = Some tc ->
  FreshCp s (base + STITCH + n) -> r_id (cn_add c) <> base + STITCH + n ->
  forall x b, x <> base + STITCH + n ->
    (Mentions (stitch_one base s n c) x b <->
     Mentions s x b \/ (NestsR s x (base + r_id (cn_to c)) /\ Mentions s (r_id (cn_add c)) b)).
Proof. exact C16_connection_checkpoints_lemma. Qed.
Print Assumptions C16_connection_checkpoints.

Theorem C16_connection_other_checkpoints : forall base s n c tc,
  r_kind (cn_to c) = RCheckpoint -> r_kind (cn_add c) = RCheckpoint ->
  find_checkpoint s (base + r_id (cn_to c)) = Some tc ->
  FreshCp s (base + STITCH + n) -> r_id (cn_add c) <> base + STITCH + n ->
  forall x b, x <> base + STITCH + n -> x <> base + r_id (cn_to c) -> ~ Nests s x (base + r_id (cn_to c)) ->
    (Mentions (stitch_one base s n c) x b <-> Mentions s x b).
Proof. exact C16_connection_other_checkpoints_lemma. Qed.
Print Assumptions C16_connection_other_checkpoints.

(* the dependencies of every action after a connection onto a checkpoint *)
Theorem C16_connection_checkpoint_deps : forall base s n c tc,
  r_kind (cn_to c) = RCheckpoint -> r_kind (cn_add c) = RCheckpoint ->
  find_checkpoint s (base + r_id (cn_to c)) = Some tc ->
  FreshCp s (base + STITCH + n) -> r_id (cn_add c) <> base + STITCH + n ->
  forall x b, Dep (stitch_one base s n c) x b <->
    exists act cc, find_action s x = Some act /\ HoldsAction s act cc /\
      (Mentions s cc b \/ (NestsR s cc (base + r_id (cn_to c)) /\ Mentions s (r_id (cn_add c)) b)).
Proof. exact C16_connection_checkpoint_deps_lemma. Qed.
Print Assumptions C16_connection_checkpoint_deps.

(* an action held by the target -- directly, through nesting, or through its thread groups -- gains the added dependencies *)
Theorem C16_connection_checkpoint_holders : forall base s n c tc,
  r_kind (cn_to c) = RCheckpoint -> r_kind (cn_add c) = RCheckpoint ->
  find_checkpoint s (base + r_id (cn_to c)) = Some tc ->
  FreshCp s (base + STITCH + n) -> r_id (cn_add c) <> base + STITCH + n ->
  forall x act cc, find_action s x = Some act -> HoldsAction s act cc -> NestsR s cc (base + r_id (cn_to c)) ->
  forall b, Dep (stitch_one base s n c) x b <-> Dep s x b \/ Mentions s (r_id (cn_add c)) b.
Proof. exact C16_connection_checkpoint_holders_lemma. Qed.
Print Assumptions C16_connection_checkpoint_holders.

(* ... and every other action keeps exactly its dependencies *)
Theorem C16_connection_checkpoint_nonholders : forall base s n c tc,
  r_kind (cn_to c) = RCheckpoint -> r_kind (cn_add c) = RCheckpoint ->
  find_checkpoint s (base + r_id (cn_to c)) = Some tc ->
  FreshCp s (base + STITCH + n) -> r_id (cn_add c) <> base + STITCH + n ->
  forall x, (forall act cc, find_action s x = Some act -> HoldsAction s act cc -> ~ NestsR s cc (base + r_id (cn_to c))) ->
  forall b, Dep (stitch_one base s n c) x b <-> Dep s x b.
Proof. exact C16_connection_checkpoint_nonholders_lemma. Qed.
Print Assumptions C16_connection_checkpoint_nonholders.

(* every stitching step of [combine] satisfies the freshness hypotheses of the theorems above: [s] is the schema the
   step is applied to (what was combined before this import, united with its shifted schema, with the earlier
   connections of this import applied) *)
Theorem C16_every_step_fresh : forall native ims, wf_i native ims = true -> wf_refs native ims = true ->
  forall pre im post cs1 c cs2, ims = pre ++ im :: post -> im_conns im = cs1 ++ c :: cs2 ->
  exists s,
    s = stitch_all (im_base im) (union (fold_left step pre native) (shift (im_base im) (im_schema im))) 0 cs1 /\
    FreshCp s (im_base im + STITCH + length cs1) /\
    r_id (cn_add c) <> im_base im + STITCH + length cs1 /\
    combine native ims =
      fold_left step post (stitch_all (im_base im) (stitch_one (im_base im) s (length cs1) c) (S (length cs1)) cs2).
Proof. exact C16_every_step_fresh_lemma. Qed.
Print Assumptions C16_every_step_fresh.

(* on the combined schema of an accepted importing schema: the target of every connection has the dependencies of the
   added native checkpoint and those it had in the imported schema *)
Theorem C16_connection_adds_combined : forall tbl native ims,
  wf_i native ims = true -> conforms_i tbl native ims = true ->
  forall im c, In im ims -> In c (im_conns im) ->
    (r_kind (cn_to c) = RAction ->
       forall b, Mentions native (r_id (cn_add c)) b \/ Dep (shift (im_base im) (im_schema im)) (im_base im + r_id (cn_to c)) b ->
                 Dep (combine native ims) (im_base im + r_id (cn_to c)) b) /\
    (r_kind (cn_to c) = RCheckpoint ->
       forall b, Mentions native (r_id (cn_add c)) b \/ Mentions (shift (im_base im) (im_schema im)) (im_base im + r_id (cn_to c)) b ->
                 Mentions (combine native ims) (im_base im + r_id (cn_to c)) b).
Proof. exact C16_connection_adds_combined_lemma. Qed.
Print Assumptions C16_connection_adds_combined.

(* no native or imported dependency is lost in the combined schema *)
Theorem C16_combined_keeps : forall native ims, wf_i native ims = true ->
  (forall x b, Dep native x b -> Dep (combine native ims) x b) /\
  (forall im, In im ims -> forall x b, Dep (shift (im_base im) (im_schema im)) x b -> Dep (combine native ims) x b).
Proof. exact C16_combined_keeps_lemma. Qed.
Print Assumptions C16_combined_keeps.

(* ================================================================== 4. cycles and scope violations through a connection *)
(* the cycle search and the scope rules run on the combined schema, where stitched dependencies are ordinary ones *)
Theorem C16_cycle_through_connection_rejected : forall tbl native ims,
  conforms_i tbl native ims = true -> Acyclic (combine native ims).
Proof. exact C16_cycle_through_connection_rejected_lemma. Qed.
Print Assumptions C16_cycle_through_connection_rejected.

Theorem C16_scope_through_connection : forall tbl native ims, conforms_i tbl native ims = true ->
  let s := combine native ims in
  (forall a r cp rc, In a (actions s) -> a_dep a = Some r ->
     find_checkpoint s (r_id r) = Some cp -> cp_ctx cp = Some rc ->
     exists ra, a_ctx a = Some ra /\ r_kind ra = RGroup /\ Encloses s (r_id rc) (r_id ra)) /\
  (forall g r cp rc, In g (groups s) -> g_dep g = Some r ->
     find_checkpoint s (r_id r) = Some cp -> cp_ctx cp = Some rc ->
     exists rg, g_ctx g = Some rg /\ r_kind rg = RGroup /\ Encloses s (r_id rc) (r_id rg)) /\
  (forall cp c c' rc, In cp (checkpoints s) -> In (DRef c) (cp_deps cp) ->
     find_checkpoint s (r_id c) = Some c' -> cp_ctx c' = Some rc ->
     exists r0, cp_ctx cp = Some r0 /\ r_kind r0 = RGroup /\ Encloses s (r_id rc) (r_id r0)) /\
  (forall cp l o r a path act rg, In cp (checkpoints s) -> In (DCmp l o r) (cp_deps cp) ->
     l = OAct a path \/ r = OAct a path -> find_action s (r_id a) = Some act -> a_ctx act = Some rg ->
     exists r0, cp_ctx cp = Some r0 /\ r_kind r0 = RGroup /\ Encloses s (r_id rg) (r_id r0)).
Proof. exact C16_scope_through_connection_lemma. Qed.
Print Assumptions C16_scope_through_connection.

(* ================================================================== the side conditions are satisfiable *)
Theorem C16_wf_satisfiable :
  wf_i Examples.ex_native Examples.ex_ims = true /\ wf_refs Examples.ex_native Examples.ex_ims = true /\
  conforms_i default_value_table Examples.ex_native Examples.ex_ims = true.
Proof. exact Examples.ex_satisfiable. Qed.
Print Assumptions C16_wf_satisfiable.

(* on that schema: the connected action 1019 depends on what the added native checkpoint 47 mentions (native action 0)
   and still on what it depended on in the imported schema (imported action 22, at 1022) *)
Theorem C16_example_connected_action :
  Dep (combine Examples.ex_native Examples.ex_ims) 1019 0 /\ Dep (combine Examples.ex_native Examples.ex_ims) 1019 1022.
Proof. exact Examples.ex_connected_action. Qed.
Print Assumptions C16_example_connected_action.
