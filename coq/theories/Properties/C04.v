(* Property C04 -- comparisons are accepted exactly when operand types fit the operator. *)
From OIS Require Import Base.Types Spec.Compare Proofs.C04Table.

(* (a) table: the implementation's decision, tabulated exhaustively from the current source, equals the
   specification on every (left type, operator, right type) triple outside the recorded known finding *)
Theorem C04_table_partial : forall l o r,
  kf_string_contains l o r = false -> impl_comparable l o r = Some (Cmp l o r).
Proof. exact C04_table_partial_lemma. Qed.
Print Assumptions C04_table_partial.

(* on the known-finding cells the implementation accepts *)
Theorem C04_table_known_finding : forall l o r,
  kf_string_contains l o r = true -> impl_comparable l o r = Some true.
Proof. exact C04_table_kf_lemma. Qed.
Print Assumptions C04_table_known_finding.

(* the unrestricted statement is false of the current implementation (witness STRING CONTAINS STRING) *)
Theorem C04_table_refuted : ~ C04_table_statement.
Proof. exact C04_table_refuted_lemma. Qed.
Print Assumptions C04_table_refuted.

(* the boolean specification is the relational one of the property text *)
Theorem C04_spec_is_relational : forall l o r, Cmp l o r = true <-> Comparable l o r.
Proof. exact Cmp_Comparable. Qed.
Print Assumptions C04_spec_is_relational.
