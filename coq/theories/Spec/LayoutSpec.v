(* Declarative specification for the chart layout properties C17 and C18.
   Nothing here refers to the algorithm: graphs, exit nodes, chains, longest chain, well-formedness of
   the input, and the "edge runs through a node" predicate of C18. *)
From Coq Require Import List Arith ZArith Bool Relations.
Import ListNotations.

Section LayoutSpec.
Variable nodes : list nat.              (* node_ids *)
Variable edges : list (nat * nat).      (* edge_tuples; (a, b): a depends on b *)

Definition Edge (a b : nat) : Prop := In (a, b) edges.

(* acyclic: no node reaches itself along one or more edges *)
Definition Acyclic : Prop := forall x, ~ clos_trans nat Edge x x.

(* well-formed input, as DependencyGraph builds it: node ids distinct, every edge joins listed nodes *)
Definition WF : Prop :=
  NoDup nodes /\ forall a b, In (a, b) edges -> In a nodes /\ In b nodes.

Fixpoint nodupb (l : list nat) : bool :=
  match l with
  | [] => true
  | x :: l' => negb (existsb (Nat.eqb x) l') && nodupb l'
  end.

(* the same, as a boolean *)
Definition wf : bool :=
  nodupb nodes
  && forallb (fun e => existsb (Nat.eqb (fst e)) nodes && existsb (Nat.eqb (snd e)) nodes) edges.

(* a final ("exit") node: a listed node nothing depends on, i.e. never the second component of an edge *)
Definition IsExit (v : nat) : Prop := In v nodes /\ forall a, ~ Edge a v.

(* Path u v n: a dependency chain u -> ... -> v with n edges *)
Inductive Path : nat -> nat -> nat -> Prop :=
| Path_refl : forall u, Path u u 0
| Path_cons : forall u w v n, Edge u w -> Path w v n -> Path u v (S n).

(* a chain of n edges from some final node down to v *)
Definition ChainTo (v n : nat) : Prop := exists e, IsExit e /\ Path e v n.

(* n is the length of the longest dependency chain from a final node down to v *)
Definition LongestPath (v n : nat) : Prop :=
  ChainTo v n /\ forall k, ChainTo v k -> k <= n.

(* ---- layouts: a list of (node, (x, y)) with y counted in halves ---- *)
Definition Layout := list (nat * (Z * Z)).

(* every listed node has exactly one coordinate and nothing else has one *)
Definition Total (out : Layout) : Prop :=
  NoDup (map fst out) /\ forall v, In v nodes <-> In v (map fst out).

(* no two nodes share a coordinate *)
Definition Injective (out : Layout) : Prop :=
  forall v1 v2 p, In (v1, p) out -> In (v2, p) out -> v1 = v2.

(* C18: an edge between two nodes at the same height, more than one column apart, with a node at that
   height in a column strictly between them *)
Definition EdgeThroughNode (out : Layout) : Prop :=
  exists a b w xa xb xw y,
    Edge a b /\ In (a, (xa, y)) out /\ In (b, (xb, y)) out /\ In (w, (xw, y)) out /\
    (1 < Z.abs (xa - xb))%Z /\ (Z.min xa xb < xw < Z.max xa xb)%Z.

End LayoutSpec.
