(* Declarative specification of "the operator is defined for this pair of operand types" (property C04):
   equality for equal types, ordering for numbers, membership and containment between an item type and
   its list type, set relations between equal list types, anything resolvable against a null literal; an empty
   list literal takes the list type of the other side; an unresolvable operand fits nothing. *)
From Coq Require Import List Bool.
From OIS Require Import Base.Types.
Import ListNotations.

Inductive family := FEq | FOrd | FMember | FContain | FSet.

Definition family_of (o : cop) : family :=
  match o with
  | EQUALS | DOES_NOT_EQUAL => FEq
  | GREATER_THAN | LESS_THAN | GREATER_THAN_OR_EQUAL_TO | LESS_THAN_OR_EQUAL_TO => FOrd
  | ONE_OF | NONE_OF => FMember
  | CONTAINS | DOES_NOT_CONTAIN => FContain
  | CONTAINS_ANY_OF | CONTAINS_NONE_OF | IS_SUBSET_OF | IS_SUPERSET_OF => FSet
  end.

(* the empty-list literal adopts the other side's list type *)
Definition adopt (l r : ty) : ty * ty :=
  match l, r with
  | TLIST, _ => if is_list_ty r then (r, r) else (l, r)
  | _, TLIST => if is_list_ty l then (l, l) else (l, r)
  | _, _ => (l, r)
  end.

Definition proper (t : ty) : bool := is_item_ty t || is_list_ty t.

Definition Cmp_core (l : ty) (o : cop) (r : ty) : bool :=
  proper l && proper r &&
  match family_of o with
  | FEq => ty_eqb l r
  | FOrd => ty_eqb l NUMERIC && ty_eqb r NUMERIC
  | FMember => match list_of l with Some ll => ty_eqb r ll | None => false end
  | FContain => match list_of r with Some rl => ty_eqb l rl | None => false end
  | FSet => is_list_ty l && ty_eqb l r
  end.

Definition Cmp (l : ty) (o : cop) (r : ty) : bool :=
  match l, r with
  | TNONE, _ | _, TNONE => false          (* both operand types must be resolvable *)
  | TNULL, _ | _, TNULL => true
  | _, _ => let (l', r') := adopt l r in Cmp_core l' o r'
  end.

(* Relational reading of the same specification, as the property states it. *)
Inductive Comparable : ty -> cop -> ty -> Prop :=
  | CNullL : forall o r, r <> TNONE -> Comparable TNULL o r
  | CNullR : forall l o, l <> TNONE -> Comparable l o TNULL
  | CEq : forall t o, proper t = true -> family_of o = FEq -> Comparable t o t
  | COrd : forall o, family_of o = FOrd -> Comparable NUMERIC o NUMERIC
  | CMember : forall t tl o, list_of t = Some tl -> family_of o = FMember -> Comparable t o tl
  | CContain : forall t tl o, list_of t = Some tl -> family_of o = FContain -> Comparable tl o t
  | CSet : forall t o, is_list_ty t = true -> family_of o = FSet -> Comparable t o t
  | CEmptyL : forall o r, is_list_ty r = true -> Comparable r o r -> Comparable TLIST o r
  | CEmptyR : forall l o, is_list_ty l = true -> Comparable l o l -> Comparable l o TLIST.
