(* The structural grammar that property C11 enumerates, written by hand in the [spec] datatype ([G_root], [G_env]),
   and the decidable refinement order [spec_le] / [refines]: "S is at least as strict as G".

   Sources: README.md ("Schema Specification") and the property text.  Where README and implementation differ
   the implementation is followed and the difference is noted here:
     - root.imports and SchemaImport.connections are optional (README: required);
     - Action.steps is an ARRAY of {title, description} (README: one object);
     - Dependency.description sits next to "compare" (README: inside it) and is optional;
     - Pipeline.context, ReferencedOperand.context and the "context" of a pipeline operand object are optional
       enumerations that README does not mention;
     - PipelineTraversal.foreach: "variables" and "traverse" are optional, "apply" is required, "output" is forbidden;
     - ApplicationMethod has no "SELECT" (README lists it);
     - a filter operand may also be a bare "$_item..." string or any scalar;
     - Action lists the non-property "pipeline" among its optional names (without effect; not transcribed).
   The descriptive properties of the property text are: description, abbreviated_description, supporting_info,
   steps, hex_code (colour code).

   [refines spec_env root_spec G_env G_root = true] is re-checked by computation against the regenerated
   Gen/Specs.v on every run (Properties/C11.v), so loosening a constraint in obj_specs.py breaks the build. *)
From Coq Require Import List String Bool Arith.
From OIS Require Import Base.Json Model.Regex Model.Interp.
Import ListNotations.
Open Scope string_scope.

(* ================================================================== refinement order *)
Definition incl_b (a b : list string) : bool := forallb (fun x => mems x b) a.
Definition pats_incl (a b : list pat) : bool := forallb (fun x => existsb (pat_eqb x) b) a.

Fixpoint list_eqb {A} (eqb : A -> A -> bool) (a b : list A) : bool :=
  match a, b with
  | [], [] => true
  | x :: r, y :: s => eqb x y && list_eqb eqb r s
  | _, _ => false
  end.

Definition atom_eqb (a b : atom) : bool :=
  match a, b with
  | ALenLt p n, ALenLt q m => list_eqb String.eqb p q && Nat.eqb n m
  | AOneOf p v, AOneOf q w => list_eqb String.eqb p q && list_eqb String.eqb v w
  | ANoKey p k, ANoKey q l => String.eqb p q && String.eqb k l
  | ANoMatch p x, ANoMatch q y => list_eqb String.eqb p q && pat_eqb x y
  | _, _ => false
  end.

Definition cond_eqb (a b : cond) : bool :=
  match a, b with
  | CAtom x, CAtom y => atom_eqb x y
  | CAny x, CAny y => list_eqb atom_eqb x y
  | CAll x, CAll y => list_eqb atom_eqb x y
  | _, _ => false
  end.

Definition check_eqb (a b : check) : bool :=
  match a, b with ChkSingularDependency, ChkSingularDependency => true end.

(* integer <= decimal <= scalar, boolean <= scalar *)
Definition prim_le (p q : prim) : bool :=
  match p, q with
  | PInteger, PInteger | PDecimal, PDecimal | PBoolean, PBoolean | PScalar, PScalar => true
  | PInteger, PDecimal | PInteger, PScalar | PDecimal, PScalar | PBoolean, PScalar => true
  | _, _ => false
  end.

Definition keys_of {A} (l : list (string * A)) : list string := map fst l.

(* same property names (in the same order), each S entry below the G entry *)
Definition props_same {A} (le : A -> A -> bool) (ps pg : list (string * A)) : bool :=
  list_eqb String.eqb (keys_of ps) (keys_of pg)
  && forallb (fun q => match lookup (fst q) ps with Some s => le s (snd q) | None => false end) pg.

(* forbidden lists: G forbids nothing that S allows, and whatever S forbids (hence does not require) G forbids
   too or has optional *)
Definition forb_le (fs fg og : list string) : bool :=
  incl_b fg fs && forallb (fun k => mems k fg || mems k og) fs.

Definition cond_le {A} (le : A -> A -> bool) (og : list string)
           (cs cg : cond * option (list string) * list (string * A)) : bool :=
  let '(c1, fo1, po1) := cs in
  let '(c2, fo2, po2) := cg in
  cond_eqb c1 c2
  && match fo1, fo2 with
     | None, None => true
     | Some f1, Some f2 => forb_le f1 f2 og
     | _, _ => false
     end
  && props_same le po1 po2.

Fixpoint conds_le {A} (le : A -> A -> bool) (og : list string)
         (cs cg : list (cond * option (list string) * list (string * A))) : bool :=
  match cs, cg with
  | [], [] => true
  | a :: r, b :: s => cond_le le og a b && conds_le le og r s
  | _, _ => false
  end.

Definition all_keys {A} (props : list (string * A))
           (conds : list (cond * option (list string) * list (string * A))) : list string :=
  keys_of props ++ flat_map (fun c => keys_of (snd c)) conds.

Definition obj_le {A} (reservedG : list string) (le : A -> A -> bool)
           ps os fs ms (cs : list (cond * option (list string) * list (string * A))) ks
           pg og fg mg (cg : list (cond * option (list string) * list (string * A))) kg : bool :=
  (* required is a superset: every property G knows, S knows and constrains at least as much *)
  forallb (fun q => match lookup (fst q) ps with Some s => le s (snd q) | None => false end) pg
  (* a property only S knows must not be one G would reject as a reserved word *)
  && forallb (fun p => mems (fst p) (keys_of pg) || negb (mems (fst p) reservedG)) ps
  (* optional is a subset (names G never mentions are irrelevant) *)
  && forallb (fun k => mems k og || negb (mems k (all_keys pg cg) || mems k mg)) os
  && forb_le fs fg og
  && list_eqb String.eqb ms mg
  && conds_le le og cs cg
  && forallb (fun c => existsb (check_eqb c) ks) kg.

Fixpoint spec_le (reservedG : list string) (fuel : nat) (s g : spec) {struct fuel} : bool :=
  match fuel with
  | 0 => false
  | S f =>
    match s, g with
    | SPrim p, SPrim q => prim_le p q
    | SString ps, SString pg => pats_incl pg ps
    | SEnum vs, SEnum vg => incl_b vs vg
    | SRef ks, SRef kg => incl_b ks kg
    | SArray a m, SArray b n => Nat.leb n m && spec_le reservedG f a b
    | SObject ps os fs ms cs ks, SObject pg og fg mg cg kg =>
        obj_le reservedG (spec_le reservedG f) ps os fs ms cs ks pg og fg mg cg kg
    | SMap kp vs, SMap kg vg => pats_incl kg kp && spec_le reservedG f vs vg
    | SNamed a, SNamed b => String.eqb a b
    (* every alternative of S below one of G *)
    | SAlt xs, SAlt ys => forallb (fun x => existsb (fun y => spec_le reservedG f x y) ys) xs
    | SNullable a, SNullable b => spec_le reservedG f a b
    | _, _ => false
    end
  end.

(* environments: same reference types, G reserves no more words than S, every name of S is a name of G
   with a refined specification *)
Definition env_le (fuel : nat) (ES EG : env) : bool :=
  list_eqb String.eqb (env_ref_types ES) (env_ref_types EG)
  && incl_b (env_reserved EG) (env_reserved ES)
  && forallb (fun p => match lookup (fst p) (env_specs EG) with
                       | Some g => spec_le (env_reserved EG) fuel (snd p) g
                       | None => false
                       end) (env_specs ES).

Definition le_fuel : nat := 40.

Definition refines (ES : env) (s : spec) (EG : env) (g : spec) : bool :=
  env_le le_fuel ES EG && spec_le (env_reserved EG) le_fuel s g.

(* ------------------------------------------------------------------ diagnostics: first offending location *)
Definition first_some {A} (f : A -> option string) (l : list A) : option string :=
  fold_right (fun x acc => match f x with Some e => Some e | None => acc end) None l.

Definition guard (b : bool) (msg : string) : option string := if b then None else Some msg.
Definition orelse (a b : option string) : option string := match a with Some e => Some e | None => b end.

Fixpoint spec_diag (reservedG : list string) (fuel : nat) (path : string) (s g : spec) {struct fuel} : option string :=
  match fuel with
  | 0 => Some (path ++ ": out of fuel")
  | S f =>
    if spec_le reservedG (S f) s g then None else
    match s, g with
    | SArray a m, SArray b n =>
        orelse (guard (Nat.leb n m) (path ++ ": min_length lowered")) (spec_diag reservedG f (path ++ "[]") a b)
    | SMap kp vs, SMap kg vg =>
        orelse (guard (pats_incl kg kp) (path ++ ": key pattern dropped")) (spec_diag reservedG f (path ++ ".*") vs vg)
    | SNullable s', SNullable g' => spec_diag reservedG f path s' g'
    | SObject ps os fs ms cs ks, SObject pg og fg mg cg kg =>
        orelse (first_some (fun q => match lookup (fst q) ps with
                                     | Some s' => spec_diag reservedG f (path ++ "." ++ fst q) s' (snd q)
                                     | None => Some (path ++ "." ++ fst q ++ ": property no longer known")
                                     end) pg)
       (orelse (first_some (fun p => guard (mems (fst p) (keys_of pg) || negb (mems (fst p) reservedG))
                                          (path ++ "." ++ fst p ++ ": reserved word used as a property")) ps)
       (orelse (first_some (fun k => guard (mems k og || negb (mems k (all_keys pg cg) || mems k mg))
                                          (path ++ "." ++ k ++ ": became optional")) os)
       (orelse (guard (forb_le fs fg og) (path ++ ": forbidden properties differ"))
       (orelse (guard (list_eqb String.eqb ms mg) (path ++ ": mutually exclusive properties differ"))
       (orelse (guard (conds_le (spec_le reservedG f) og cs cg) (path ++ ": conditionals differ"))
               (guard (forallb (fun c => existsb (check_eqb c) ks) kg) (path ++ ": structural check dropped")))))))
    | SString _, SString _ => Some (path ++ ": pattern dropped")
    | SEnum _, SEnum _ => Some (path ++ ": enumeration value added")
    | SRef _, SRef _ => Some (path ++ ": reference type added")
    | SNamed a, SNamed b => Some (path ++ ": names a different specification (" ++ a ++ " / " ++ b ++ ")")
    | SAlt _, SAlt _ => Some (path ++ ": an alternative is not covered")
    | _, _ => Some (path ++ ": different kind of value")
    end
  end.

Definition refines_diag (ES : env) (s : spec) (EG : env) (g : spec) : option string :=
  orelse (guard (list_eqb String.eqb (env_ref_types ES) (env_ref_types EG)) "enums.ref_types differ")
 (orelse (guard (incl_b (env_reserved EG) (env_reserved ES)) "RESERVED_KEYWORDS: a reserved word was dropped")
 (orelse (first_some (fun p => match lookup (fst p) (env_specs EG) with
                               | Some g => spec_diag (env_reserved EG) le_fuel (fst p) (snd p) g
                               | None => Some (fst p ++ ": named specification unknown to the grammar")
                               end) (env_specs ES))
         (spec_diag (env_reserved EG) le_fuel "root" s g))).

(* ================================================================== the grammar *)
Definition obj (props : list (string * spec)) (optional : list string) : spec :=
  SObject props optional [] [] [] [].
Definition str : spec := SString [].
Definition alias : spec := SString [PAlias].              (* not starting with "_", without { } : . *)
Definition var_name : spec := SString [PVariable; PDotless].  (* "$name", declared without a path *)
Definition var_path : spec := SString [PVariable].        (* "$name.path" *)
Definition int : spec := SPrim PInteger.
Definition scalar : spec := SPrim PScalar.
Definition arr (s : spec) : spec := SArray s 0.
Definition arr_min (n : nat) (s : spec) : spec := SArray s n.
Definition ref (kind : string) : spec := SRef [kind].
Definition enum (vals : list string) : spec := SEnum vals.
Definition named (n : string) : spec := SNamed n.
Definition one_of (l : list spec) : spec := SAlt l.

Definition gate_types := ["AND"; "OR"; "XOR"; "NAND"; "NOR"].
Definition field_types := ["BOOLEAN"; "NUMERIC"; "STRING"; "NUMERIC_LIST"; "STRING_LIST"; "BOOLEAN_LIST"].
Definition milestones := ["REAL"; "CLEAR_OWNERSHIP"; "PERMANENT"; "ADDITIONAL"; "VERIFIABLE"].
Definition comparison_operators :=
  ["EQUALS"; "DOES_NOT_EQUAL"; "GREATER_THAN"; "LESS_THAN"; "GREATER_THAN_OR_EQUAL_TO"; "LESS_THAN_OR_EQUAL_TO";
   "ONE_OF"; "NONE_OF"; "CONTAINS"; "DOES_NOT_CONTAIN"; "CONTAINS_ANY_OF"; "CONTAINS_NONE_OF";
   "IS_SUBSET_OF"; "IS_SUPERSET_OF"].
Definition application_methods :=
  ["ADD"; "SUBTRACT"; "MULTIPLY"; "DIVIDE"; "APPEND"; "PREPEND"; "CONCAT"; "SET"; "AND"; "OR"].
Definition aggregation_operators := ["AVERAGE"; "COUNT"; "MAX"; "MIN"; "SUM"; "FIRST"; "LAST"; "AND"; "OR"].
Definition contexts := ["TEMPLATE"; "RUNTIME"].

Definition G_reserved := ["root"; "keys"; "values"; "_this"; "_parent"; "_item"; "_corresponding_key"; "ERROR"].
Definition G_ref_types :=
  ["action"; "checkpoint"; "object_promise"; "object_type"; "party"; "schema"; "thread_group"].

Definition G_root : spec :=
  obj [("standard", str);
       ("imports", arr (named "schema_import"));
       ("terms", arr (obj [("name", str); ("description", str); ("attributes", arr str)] ["attributes"]));
       ("parties", arr (named "party"));
       ("object_types", arr (named "object_type"));
       ("object_promises", arr (named "object_promise"));
       ("pipelines", arr (named "pipeline"));
       ("actions", arr (named "action"));
       ("thread_groups", arr (named "thread_group"));
       ("checkpoints", arr (named "checkpoint"))]
      ["imports"; "thread_groups"].

Definition G_schema_import : spec :=
  obj [("file_name", alias);
       ("connections", arr (obj [("to_ref", SRef ["action"; "checkpoint"]); ("add_dependency", ref "checkpoint")] []))]
      ["connections"].

Definition G_party : spec :=
  obj [("id", int); ("name", alias); ("hex_code", SString [PHexCode])] ["hex_code"].

Definition G_object_type : spec :=
  obj [("id", int); ("name", alias); ("description", str);
       ("attributes",
        arr_min 1
          (SObject [("name", SString [PDotless]);
                    ("type", enum (field_types ++ ["EDGE"; "EDGE_COLLECTION"]));
                    ("description", str)]
                   ["description"] [] []
                   (* an edge attribute must name the object type it points to *)
                   [(CAtom (AOneOf ["type"] ["EDGE"; "EDGE_COLLECTION"]), None, [("object_type", ref "object_type")])]
                   []))]
      ["description"].

Definition G_object_promise : spec :=
  obj [("id", int); ("name", alias); ("description", str);
       ("object_type", ref "object_type"); ("context", ref "thread_group")]
      ["description"; "context"].

Definition G_operation : spec :=
  SObject [("include", SNullable (arr str));
           ("exclude", SNullable (arr str));
           ("default_values", SMap [] scalar);
           ("default_edges", SMap [] (ref "object_promise"));
           ("appends_objects_to", ref "object_promise")]
          ["default_values"; "default_edges"; "appends_objects_to"]
          []
          ["exclude"; "include"]          (* exactly one of the two *)
          [] [].

Definition G_action : spec :=
  obj [("id", int); ("name", alias); ("description", str);
       ("party", ref "party"); ("object_promise", ref "object_promise");
       ("operation", G_operation);
       ("context", ref "thread_group"); ("depends_on", ref "checkpoint");
       ("steps", arr (obj [("title", str); ("description", str)] []));
       ("milestones", arr (enum milestones));
       ("supporting_info", arr str)]
      ["context"; "depends_on"; "steps"; "milestones"; "supporting_info"].

Definition G_checkpoint_reference : spec := obj [("checkpoint", ref "checkpoint")] [].

Definition G_literal_operand : spec := obj [("value", scalar)] [].

Definition G_referenced_operand : spec :=
  obj [("ref", one_of [ref "action"; var_path]); ("context", enum ["RUNTIME"])] ["context"].

Definition operand : spec := one_of [named "literal_operand"; named "referenced_operand"].

Definition G_dependency : spec :=
  obj [("compare", obj [("left", operand); ("operator", enum comparison_operators); ("right", operand)] []);
       ("description", str)]
      ["description"].

Definition G_checkpoint : spec :=
  SObject [("id", int); ("alias", alias); ("description", str); ("abbreviated_description", str);
           ("supporting_info", arr str);
           ("gate_type", enum gate_types);        (* required ... *)
           ("dependencies", arr (one_of [named "checkpoint_reference"; named "dependency"]));
           ("context", ref "thread_group")]
          ["abbreviated_description"; "supporting_info"; "context"]
          [] []
          (* ... unless there are fewer than two dependencies: then gate_type is forbidden, there must be one
             dependency and it must be a comparison *)
          [(CAtom (ALenLt ["dependencies"] 2), Some ["gate_type"],
            [("dependencies", arr_min 1 (named "dependency"))])]
          (* a checkpoint whose only dependency is a checkpoint reference *)
          [ChkSingularDependency].

Definition G_thread_group : spec :=
  obj [("id", int); ("name", alias); ("description", str);
       ("context", ref "thread_group"); ("depends_on", ref "checkpoint");
       ("spawn", obj [("foreach", one_of [ref "object_promise"; var_path]); ("as", var_name)] [])]
      ["context"; "depends_on"].

(* ---- pipelines *)
Definition G_variable : spec :=
  obj [("name", var_name);
       ("type", enum (field_types ++ ["OBJECT"; "OBJECT_LIST"]));
       ("initial", one_of [scalar; arr scalar])]
      [].

Definition source : spec := one_of [ref "object_promise"; var_path].

Definition G_traverse : spec :=
  obj [("ref", source);
       ("foreach",
        SObject [("as", var_name);
                 ("variables", arr (named "variable"));
                 ("traverse", arr (named "traverse"));
                 ("apply", arr (named "apply"))]
                ["variables"; "traverse"]
                ["output"]                      (* only the pipeline itself has output *)
                [] [] [])]
      [].

Definition filter_clauses : spec := one_of [named "filter_comparison"; named "nested_filter_query"].

Definition G_apply : spec :=
  SObject [("from", source);
           ("to", var_name);
           ("method", enum application_methods);
           ("aggregate", obj [("field", str); ("operator", enum aggregation_operators)] []);
           ("filter",
            SObject [("where", arr_min 1 filter_clauses); ("gate_type", enum gate_types)]
                    [] [] []
                    [(CAtom (ALenLt ["where"] 2), Some ["gate_type"], [])]
                    []);
           ("sort", arr (obj [("field", str); ("order", enum ["ASC"; "DESC"])] []));
           ("select", str)]
          ["aggregate"; "filter"; "select"; "sort"]
          []
          ["aggregate"; "filter"; "select"; "sort"]   (* at most one of them *)
          [] [].

Definition G_nested_filter_query : spec :=
  obj [("where", arr_min 2 filter_clauses); ("gate_type", enum gate_types)] [].

Definition G_contextual_ref : spec :=
  obj [("ref", one_of [ref "object_promise"; SString [PLocalVariable]; var_path]); ("context", enum contexts)]
      ["context"].

Definition filter_operand : spec := one_of [SRef ["filter_ref"]; named "contextual_ref"; scalar].
Definition filter_variable_operand : spec := obj [("ref", SRef ["filter_ref"])] [].

Definition G_filter_comparison : spec :=
  SObject [("left", filter_operand); ("operator", enum comparison_operators); ("right", filter_operand)]
          [] [] []
          (* one side at least must be {"ref": "$_item..."}: when the left one is not, the right one has to be,
             and conversely *)
          [(CAny [ANoKey "left" "ref"; ANoMatch ["left"; "ref"] PFilterRef], None, [("right", filter_variable_operand)]);
           (CAny [ANoKey "right" "ref"; ANoMatch ["right"; "ref"] PFilterRef], None, [("left", filter_variable_operand)])]
          [].

Definition G_pipeline : spec :=
  obj [("id", int); ("name", str); ("object_promise", ref "object_promise");
       ("context", enum contexts);
       ("variables", arr (named "variable"));
       ("traverse", arr (named "traverse"));
       ("apply", arr (named "apply"));
       ("output", arr_min 1 (obj [("from", var_name); ("to", str)] []))]
      ["traverse"; "apply"; "context"].

Definition G_defs : list (string * spec) :=
  [("schema_import", G_schema_import); ("party", G_party); ("object_type", G_object_type);
   ("object_promise", G_object_promise); ("action", G_action);
   ("checkpoint", G_checkpoint); ("checkpoint_reference", G_checkpoint_reference); ("dependency", G_dependency);
   ("literal_operand", G_literal_operand); ("referenced_operand", G_referenced_operand);
   ("thread_group", G_thread_group);
   ("pipeline", G_pipeline); ("variable", G_variable); ("traverse", G_traverse); ("apply", G_apply);
   ("filter_comparison", G_filter_comparison); ("nested_filter_query", G_nested_filter_query);
   ("contextual_ref", G_contextual_ref)].

Definition G_env : env := mkEnv G_defs G_reserved G_ref_types.

(* ================================================================== inert additions *)
(* [ext frozen k P d d']: d' is d with, at any number of object nodes anywhere in the tree, one entry (k, v) with
   [P v] appended where no entry k existed (a Python dict gains a new key at the end).  Values below a [frozen]
   key are left untouched: these are the keys/values maps (default_values, default_edges), whose keys are data
   entries and not properties. *)
Section Ext.
  Variable frozen : string -> bool.
  Variable k : string.
  Variable P : json -> Prop.

  Inductive ext : json -> json -> Prop :=
  | ext_refl d : ext d d
  | ext_arr l l' : Forall2 ext l l' -> ext (JArr l) (JArr l')
  | ext_obj kv kv2 extra :
      Forall2 (fun p p' => fst p = fst p' /\ ext (snd p) (snd p')
                           /\ (frozen (fst p) = true -> snd p = snd p')) kv kv2 ->
      (extra = [] \/ exists v, extra = [(k, v)] /\ has_key k kv = false /\ P v) ->
      ext (JObj kv) (JObj (kv2 ++ extra)).
End Ext.

(* A key is inert for a specification when no object specification lets it influence anything but its own value:
   it is not forbidden, not part of a mutual exclusion, not looked at by a conditional or a structural check, and
   wherever it is a known property its specification satisfies [chk] (for an unknown key: nowhere known).
   Length conditionals must be on a property that every variant of the specification types as an array, so that
   additions inside the measured value cannot change its length. *)
Definition atom_avoids (k : string) (a : atom) : bool :=
  match a with
  | ALenLt path _ | AOneOf path _ | ANoMatch path _ => negb (mems k path)
  | ANoKey p key => negb (String.eqb p k) && negb (String.eqb key k)
  end.

Definition cond_atoms (c : cond) : list atom := match c with CAtom a => [a] | CAny l | CAll l => l end.

Definition is_array (s : spec) : bool := match s with SArray _ _ => true | _ => false end.

Definition len_guard (ps variants : list (string * spec)) (a : atom) : bool :=
  match a with
  | ALenLt [p] _ => mems p (keys_of ps)
                    && forallb (fun q => negb (String.eqb (fst q) p) || is_array (snd q)) variants
  | ALenLt _ _ => false
  | _ => true
  end.

Definition variants_of (ps : list (string * spec))
           (cs : list (cond * option (list string) * list (string * spec))) : list (string * spec) :=
  ps ++ flat_map (fun c => snd c) cs.

Definition inert_obj (frozen : string -> bool) (k : string) (chk rec : spec -> bool)
           (ps : list (string * spec)) (fs ms : list string)
           (cs : list (cond * option (list string) * list (string * spec))) (ks : list check) : bool :=
  let variants := variants_of ps cs in
  forallb (fun q => frozen (fst q) || rec (snd q)) variants
  && negb (mems k ms)
  && negb (mems k fs)
  && forallb (fun c => match snd (fst c) with Some l => negb (mems k l) | None => true end) cs
  && forallb (fun c => forallb (fun a => atom_avoids k a && len_guard ps variants a) (cond_atoms (fst (fst c)))) cs
  && match ks with [] => true | _ => negb (mems k ["dependencies"; "compare"; "checkpoint"]) end
  && forallb (fun q => negb (String.eqb (fst q) k) || chk (snd q)) variants.

Fixpoint inert_spec (names : list string) (frozen : string -> bool) (k : string) (chk : spec -> bool)
         (fuel : nat) (s : spec) {struct fuel} : bool :=
  match fuel with
  | 0 => false
  | S f =>
    match s with
    | SPrim _ | SString _ | SEnum _ | SRef _ => true
    | SArray a _ => inert_spec names frozen k chk f a
    | SObject ps _ fs ms cs ks => inert_obj frozen k chk (inert_spec names frozen k chk f) ps fs ms cs ks
    | SMap _ _ => false                       (* only below a frozen key *)
    | SNamed n => mems n names
    | SAlt xs => forallb (inert_spec names frozen k chk f) xs
    | SNullable a => inert_spec names frozen k chk f a
    end
  end.

Definition inert_for (E : env) (frozen : string -> bool) (k : string) (chk : spec -> bool) (root : spec) : bool :=
  negb (mems k (env_reserved E))
  && forallb (fun p => inert_spec (keys_of (env_specs E)) frozen k chk le_fuel (snd p)) (env_specs E)
  && inert_spec (keys_of (env_specs E)) frozen k chk le_fuel root.

(* the keys/values maps of the grammar *)
Definition map_keys (q : string) : bool := mems q ["default_values"; "default_edges"].

(* "unknown non-reserved property": not reserved and mentioned by no specification *)
Definition unknown_key (E : env) (root : spec) (k : string) : bool :=
  inert_for E map_keys k (fun _ => false) root.

(* the purely descriptive optional properties, with the specification of a well-formed value *)
Definition descriptive : list (string * spec) :=
  [("description", str);
   ("abbreviated_description", str);
   ("supporting_info", arr str);
   ("steps", arr (obj [("title", str); ("description", str)] []));
   ("hex_code", SString [PHexCode])].
Definition descriptive_fuel : nat := 4.

Definition descriptive_key (E : env) (root : spec) (k : string) (sk : spec) : bool :=
  inert_for E map_keys k (fun s => spec_le (env_reserved E) le_fuel sk s) root.
