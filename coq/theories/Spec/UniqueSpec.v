(* Declarative side of property C10: what "the same value up to the order of arrays and of keys" means, and what
   "all identifiers of a uniqueness domain are distinct" means.  Nothing here refers to the implementation. *)
From Coq Require Import List String ZArith Bool Permutation.
From OIS Require Import Base.Json.
Import ListNotations.
Open Scope string_scope.

(* x and y are the same JSON value up to the order of array elements (arrays are MULTISETS) and the order of keys.
     - scalars: equal scalars of the same JSON type (1 and "1", null and "None", true and 1 are NOT related);
     - arrays:  l' is a permutation of a list l'' that is elementwise related to l;
     - objects: likewise for the lists of (key, value) pairs, keys equal and values related; for objects with
       distinct keys this says: same key set and related values under every key (lemma `smo_obj_get` in
       Proofs/CanonProofs.v).
   An array is never related to an object, and a scalar to neither. *)
Inductive same_modulo_order : json -> json -> Prop :=
  | smo_null : same_modulo_order JNull JNull
  | smo_bool : forall b, same_modulo_order (JBool b) (JBool b)
  | smo_int : forall z, same_modulo_order (JInt z) (JInt z)
  | smo_float : forall r, same_modulo_order (JFloat r) (JFloat r)
  | smo_str : forall s, same_modulo_order (JStr s) (JStr s)
  | smo_arr : forall l l'' l',
      Forall2 same_modulo_order l l'' -> Permutation l'' l' ->
      same_modulo_order (JArr l) (JArr l')
  | smo_obj : forall kv kv'' kv',
      Forall2 (fun p q : string * json => fst p = fst q /\ same_modulo_order (snd p) (snd q)) kv kv'' ->
      Permutation kv'' kv' ->
      same_modulo_order (JObj kv) (JObj kv').

(* every object inside the value has pairwise distinct keys (true of everything json.loads returns) *)
Inductive keys_distinct : json -> Prop :=
  | kd_null : keys_distinct JNull
  | kd_bool : forall b, keys_distinct (JBool b)
  | kd_int : forall z, keys_distinct (JInt z)
  | kd_float : forall r, keys_distinct (JFloat r)
  | kd_str : forall s, keys_distinct (JStr s)
  | kd_arr : forall l, Forall keys_distinct l -> keys_distinct (JArr l)
  | kd_obj : forall kv, NoDup (map fst kv) -> Forall (fun p => keys_distinct (snd p)) kv -> keys_distinct (JObj kv).

(* the JSON type of a value *)
Inductive jtype := TNull | TBool | TInt | TFloat | TStr | TArr | TObj.
Definition jtype_of (j : json) : jtype :=
  match j with
  | JNull => TNull | JBool _ => TBool | JInt _ => TInt | JFloat _ => TFloat | JStr _ => TStr
  | JArr _ => TArr | JObj _ => TObj
  end.
Definition is_scalar (j : json) : Prop :=
  match j with JArr _ | JObj _ => False | _ => True end.

(* x and y are the same value except at ONE place (any depth, any position of an array or object), where values of
   different JSON types stand.  The intended instances replace a scalar by the scalar of another JSON type that has
   the same text: 1 / "1", null / "None", true / "True", true / 1. *)
Inductive retyped_once : json -> json -> Prop :=
  | rt_here : forall v v', jtype_of v <> jtype_of v' -> retyped_once v v'
  | rt_elem : forall l1 v v' l2, retyped_once v v' -> retyped_once (JArr (l1 ++ v :: l2)) (JArr (l1 ++ v' :: l2))
  | rt_field : forall kv1 k v v' kv2,
      retyped_once v v' -> retyped_once (JObj (kv1 ++ (k, v) :: kv2)) (JObj (kv1 ++ (k, v') :: kv2)).

(* A uniqueness domain: the entities `items` are pairwise distinct on the key function `key`
   (at every pair of positions: NoDup is insensitive to where in the list the two equal keys sit). *)
Definition NoDupOn {A K : Type} (key : A -> K) (items : list A) : Prop := NoDup (map key items).

(* the same thing said with positions *)
Definition distinct_at_all_positions {K : Type} (l : list K) : Prop :=
  forall i j a b, nth_error l i = Some a -> nth_error l j = Some b -> i <> j -> a <> b.

(* k occurs at two different positions of l *)
Definition repeated {K : Type} (k : K) (l : list K) : Prop :=
  exists i j, i <> j /\ nth_error l i = Some k /\ nth_error l j = Some k.
