(* Specification vocabulary of properties C19 (dependency graph) and C20 (Miro board).
   Everything here is stated over the abstract schema / graph / request types of Model/Graph.v and
   Model/Board.v but is independent of how the models compute. *)
From Coq Require Import List Arith ZArith Bool Relations.
From OIS Require Import Model.Graph Model.Board.
Import ListNotations.

(* ================================================================ valid schemas (boolean) *)

Fixpoint nodupb (l : list nat) : bool :=
  match l with
  | [] => true
  | x :: l' => negb (existsb (Nat.eqb x) l') && nodupb l'
  end.

Definition all_deps (s : schema) : list dep := flat_map c_deps (s_cps s).

(* dependency objects with the same key are the same object *)
Definition dep_key_consistent (d d' : dep) : bool :=
  match d, d' with
  | DCmp k l r, DCmp k' l' r' =>
    negb (Nat.eqb k k')
    || (match l, l' with Some x, Some y => Nat.eqb x y | None, None => true | _, _ => false end
        && match r, r' with Some x, Some y => Nat.eqb x y | None, None => true | _, _ => false end)
  | _, _ => true
  end.

(* a checkpoint with >= 2 dependencies has a gate type; with one dependency it has none and the
   dependency is a comparison; there is at least one dependency *)
Definition cp_shape_ok (c : checkpoint) : bool :=
  match c_deps c with
  | [] => false
  | [DCmp _ _ _] => match c_gate c with None => true | Some _ => false end
  | [DRef _] => false
  | _ :: _ :: _ => match c_gate c with Some _ => true | None => false end
  end.

(* Acyclicity and existence of everything referenced below checkpoint j, decided by bounded descent:
   from a checkpoint one may step to a nested checkpoint, or through a compared action to that action's
   own depends_on checkpoint.  [cp_ok s fuel j] = every such descent from j stays inside the schema and
   has fewer than [fuel] steps.  With fuel > number of checkpoints this holds iff no descent repeats a
   checkpoint, i.e. iff checkpoint nesting and the action dependency relation are acyclic. *)
Fixpoint cp_ok (s : schema) (fuel : nat) (j : nat) : bool :=
  match fuel with
  | 0 => false
  | S f =>
    match nth_error (s_cps s) j with
    | None => false
    | Some c =>
      forallb (fun d =>
        match d with
        | DRef k => cp_ok s f k
        | DCmp _ l r =>
          let op (o : option nat) :=
            match o with
            | None => true
            | Some b =>
              match find_action s b with
              | None => false
              | Some act => match a_dep act with None => true | Some j' => cp_ok s f j' end
              end
            end in
          op l && op r
        end) (c_deps c)
    end
  end.

Definition action_ok (s : schema) (a : action) : bool :=
  match a_dep a with None => true | Some j => Nat.ltb j (length (s_cps s)) end
  && match a_party a with None => true | Some p => Nat.ltb p (length (s_parties s)) end.

Definition wf (s : schema) : bool :=
  nodupb (map a_id (s_actions s))
  && nodupb (map c_key (s_cps s))
  && forallb (action_ok s) (s_actions s)
  && forallb cp_shape_ok (s_cps s)
  && forallb (fun d => forallb (dep_key_consistent d) (all_deps s)) (all_deps s)
  && forallb (cp_ok s (build_fuel s)) (seq 0 (length (s_cps s))).

(* ================================================================ C19 *)

Definition cp_at (s : schema) (j : nat) (c : checkpoint) : Prop := nth_error (s_cps s) j = Some c.

Definition names (d : dep) (b : nat) : Prop :=
  match d with DCmp _ l r => l = Some b \/ r = Some b | DRef _ => False end.

(* checkpoint k is checkpoint j or is referenced from j through nested checkpoint references *)
Inductive Nested (s : schema) : nat -> nat -> Prop :=
  | nested_refl j : Nested s j j
  | nested_step j c k k' : cp_at s j c -> In (DRef k) (c_deps c) -> Nested s k k' -> Nested s j k'.

(* b is named by an operand of a comparison anywhere in a's depends_on checkpoint, through nested
   checkpoint references *)
Inductive Dep_explicit (s : schema) : nat -> nat -> Prop :=
  | dep_explicit a j k c d b :
      In a (s_actions s) -> a_dep a = Some j -> Nested s j k -> cp_at s k c -> In d (c_deps c) -> names d b ->
      Dep_explicit s (a_id a) b.

(* a checkpoint in use: reachable from some action's depends_on *)
Definition in_use (s : schema) (k : nat) : Prop :=
  exists a j, In a (s_actions s) /\ a_dep a = Some j /\ Nested s j k.

Definition multi (c : checkpoint) : Prop := 2 <= length (c_deps c).

Definition edge (g : graph) (x y : node) : Prop := In (x, y) (g_edges g).

(* reachability over edge tuples (through gates and actions alike) *)
Definition Reach (g : graph) : node -> node -> Prop := clos_trans node (edge g).

(* one node per action, one gate node per multi-dependency checkpoint in use, each with its gate type *)
Definition nodes_ok (s : schema) (g : graph) : Prop :=
  g_actions g = map a_id (s_actions s)
  /\ NoDup (g_nodes g)
  /\ (forall j t, In (j, t) (g_gates g) <->
                  exists c, cp_at s j c /\ multi c /\ in_use s j /\ c_gate c = Some t)
  /\ (forall x y, edge g x y -> In x (g_nodes g) /\ In y (g_nodes g)).

(* ================================================================ C20 *)

(* a conversation cut into consecutive pieces, one per element of a list *)
Inductive chunked {A : Type} (R : A -> log -> Prop) : list A -> log -> Prop :=
  | chunked_nil : chunked R [] []
  | chunked_cons a l c lg : R a c -> chunked R l lg -> chunked R (a :: l) (c ++ lg).

Definition is_shape (q : request) : bool := match q with Shape _ _ _ _ _ => true | _ => false end.
Definition is_link (q : request) : bool :=
  match q with Elbow _ _ | Connector _ _ _ _ => true | _ => false end.

(* the acting party's colour code; white when the party declares none or the action names no party;
   a gate carries the colour of its gate type *)
Inductive fill_spec (s : schema) (g : graph) : node -> colour -> Prop :=
  | fill_no_party a : In a (s_actions s) -> a_party a = None -> fill_spec s g (NAct (a_id a)) White
  | fill_no_code a p : In a (s_actions s) -> a_party a = Some p -> nth_error (s_parties s) p = Some None ->
      fill_spec s g (NAct (a_id a)) White
  | fill_code a p c : In a (s_actions s) -> a_party a = Some p -> nth_error (s_parties s) p = Some (Some c) ->
      fill_spec s g (NAct (a_id a)) (Hex c)
  | fill_gate j t : In (j, t) (g_gates g) -> fill_spec s g (NGate j) (GateColour t).

(* gates are labelled with their gate type *)
Inductive label_spec (g : graph) : node -> content -> Prop :=
  | label_action id : label_spec g (NAct id) (CAction id)
  | label_gate j t : In (j, t) (g_gates g) -> label_spec g (NGate j) (CGate t).

(* the layout coordinate of n is (x, y) with y given as the integer 2*y: scaled by x_coord_factor = 400
   and y_coord_factor = 100 *)
Definition scaled (coords : node -> Z * Z) (n : node) (px py : Z) : Prop :=
  (px = x_coord_factor * fst (coords n) /\ 2 * py = y_coord_factor * snd (coords n))%Z.

Definition shape_spec (s : schema) (g : graph) (coords : node -> Z * Z) (n : node) (q : request) : Prop :=
  exists px py fill cont,
    q = Shape n px py fill cont /\ scaled coords n px py /\ fill_spec s g n fill /\ label_spec g n cont.

(* exactly one shape per action and per gate: the Shape requests of the conversation, in order, are
   one per node of the graph (the node list has no repetitions, [nodes_ok]) *)
Definition shapes_ok (s : schema) (g : graph) (coords : node -> Z * Z) (l : log) : Prop :=
  Forall2 (shape_spec s g coords) (g_nodes g) (filter is_shape (map fst l)).

(* the item the service returned for the shape of node n *)
Definition shape_id (l : log) (n : node) (i : item) : Prop :=
  exists px py f c, In (Shape n px py f c, ROk i) l.

Definition count_tuple (es : list (node * node)) (t : node * node) : nat := length (filter (tuple_eqb t) es).

(* the distinct tuples, each with the number of times it occurs *)
Definition tuple_table (es : list (node * node)) (tc : list ((node * node) * nat)) : Prop :=
  NoDup (map fst tc) /\ forall t k, In (t, k) tc <-> (k = count_tuple es t /\ 1 <= k).

(* the captions of the occurrences of tuple t, in order of occurrence *)
Definition caps_spec (g : graph) (t : node * node) : list cap :=
  map snd (filter (fun e => tuple_eqb (fst e) t) (g_ledges g)).

(* intermediate point of strand i of k between f and t: midway in x; in y spaced by strand_spacing = 1/2
   around the mean of the two y coordinates (coordinates: (x, 2y)) *)
Definition strand_point (coords : node -> Z * Z) (f t : node) (k i : nat) (px py : Z) : Prop :=
  (2 * px = x_coord_factor * (fst (coords f) + fst (coords t))
   /\ 4 * py = y_coord_factor * (snd (coords f) + snd (coords t) - (Z.of_nat k - 1) + 2 * Z.of_nat i))%Z.

(* strand i of a fanned connection: an invisible elbow shape and two connector segments through it;
   the caption of the i-th occurrence sits on the first segment of even strands, on the second of odd *)
Definition strand_spec (g : graph) (coords : node -> Z * Z) (sid : node -> item) (t : node * node) (k : nat)
           (i : nat) (c : log) : Prop :=
  exists px py e i1 i2 cp,
    strand_point coords (fst t) (snd t) k i px py /\
    nth_error (caps_spec g t) i = Some cp /\
    c = [(Elbow px py, ROk e);
         (Connector (sid (fst t)) e (if Nat.even i then Some cp else None) true, ROk i1);
         (Connector e (sid (snd t)) (if Nat.even i then None else Some cp) false, ROk i2)].

(* the chains drawn for a tuple occurring k times *)
Definition chain_spec (g : graph) (coords : node -> Z * Z) (sid : node -> item) (tk : (node * node) * nat)
           (c : log) : Prop :=
  (snd tk = 1 /\ exists cp i, caps_spec g (fst tk) = [cp] /\
                 c = [(Connector (sid (fst (fst tk))) (sid (snd (fst tk))) (Some cp) false, ROk i)])
  \/ (2 <= snd tk /\ chunked (strand_spec g coords sid (fst tk) (snd tk)) (seq 0 (snd tk)) c).

(* for every graph edge, with multiplicity, one connector chain from the dependent's shape to the
   dependency's shape, and no other connectors or elbows *)
Definition connectors_ok (g : graph) (coords : node -> Z * Z) (l : log) : Prop :=
  exists sid tc,
    (forall n, In n (g_nodes g) -> shape_id l n (sid n)) /\
    tuple_table (g_edges g) tc /\
    chunked (chain_spec g coords sid) tc (filter (fun qr => is_link (fst qr)) l).

(* what the board emission needs from the graph (established for graphs of valid schemas in
   Proofs/GraphProofs.v) *)
Definition board_pre (s : schema) (g : graph) : Prop :=
  g_actions g = map a_id (s_actions s)
  /\ NoDup (g_nodes g)
  /\ (forall a, In a (s_actions s) -> party_colour s a <> None)
  /\ (forall j t, In (j, t) (g_gates g) -> nth_error (s_cps s) j <> None)
  /\ (forall x y, edge g x y -> In x (g_nodes g) /\ In y (g_nodes g))
  /\ (forall t, caps_of g t = caps_spec g t).
