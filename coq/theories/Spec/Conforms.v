(* The declarative specification of the schema language: [Conforms tbl s].

   Everything here is stated with [In], [exists], [forall], [find_X s i = Some e], [NoDup], the relations of
   Spec/DepRel.v ([Encloses], [Mentions], [HoldsAction], [HoldsGroup], [Dep], [Anc], [Acyclic], [Nests]),
   [Rooted] (Proofs/DepLemmas.v), the path typing [PathType]/[RefPathType]/[BaseType] and the visibility relation
   [Sees] of Proofs/TypingSpec.v, and [Comparable] of Spec/Compare.v.  No [forallb], [existsb], fuel or search
   function of Model/Rules.v occurs: in particular not [is_ancestor], [creators], [fulfiller], [has_cycle],
   [guaranteed_ancestor], [guar_cp], [has_access], [scope], [ctx_sees], [action_cps], [mentions], [operand_type],
   [var_type], [promise_path_type], [settable], [is_dependee].  Because [PromisePathType], [VarType], [OperandType]
   of Proofs/TypingSpec.v are phrased with [fulfiller] and [ctx_sees], and [GuarCp] of Spec/DepRel.v with
   [action_cps], search-free counterparts are defined here ([PromisePath], [VarTy], [OperandTy], [Guar]); their
   equivalence with the originals on schemas satisfying the ground clauses is proved in Proofs/ConformsIff.v.
   What is used of Model/Rules.v are only data projections and finite tables: [ctx_group] (the thread group a
   context reference names), [operand_action], [find_type_ref], [field_item], [lit_ty], [ty_of_tdet],
   [incl_list], [last], [default_fits tbl] (the default-value table).  The composite uniqueness key of checkpoints
   is declarative too: [SameKey c1 c2] = same gate and dependency lists equal as multisets ([Permutation]) up to
   [DepSame] (literals compared by the JSON value they denote); no two checkpoints at different positions
   ([ForallOrdPairs]) have the same key.

   [Conforms] is a record with one clause per collection (plus the two global acyclicity clauses); the clause of
   an entity is itself a record whose fields are named after the property they belong to:
     uniqueness (ids, names, milestones, composite keys), object types well formed,
     *_refs (C01), dk_typing (C04), *_SC1 ... gk_SC7 (C05), pk_lifecycle / ak_operation edit branch (C06),
     ak_operation OP1 - OP4 (C07), ck_gate, ck_referenced, cf_acyclic / cf_nesting (C02).
   Proofs/ConformsIff.v proves [conforms tbl s = true <-> Conforms tbl s]. *)
From Coq Require Import List Bool Arith Relations Permutation.
From OIS Require Import Base.Types Base.PipeTypes Spec.Compare Model.Schema Model.Rules Spec.DepRel.
From OIS Require Import Proofs.DepLemmas Proofs.TypingSpec.
Import ListNotations.

(* ================================================================== references (C01) *)
Definition Declared (s : schema) (k : rkind) (i : nat) : Prop :=
  match k with
  | RParty => exists e, find_party s i = Some e
  | RType => exists e, find_type s i = Some e
  | RPromise => exists e, find_promise s i = Some e
  | RAction => exists e, find_action s i = Some e
  | RCheckpoint => exists e, find_checkpoint s i = Some e
  | RGroup => exists e, find_group s i = Some e
  end.

(* reference r has kind k and names a declared entity of that kind *)
Definition RefTo (s : schema) (k : rkind) (r : ref) : Prop := r_kind r = k /\ Declared s k (r_id r).
Definition ORefTo (s : schema) (k : rkind) (o : option ref) : Prop := forall r, o = Some r -> RefTo s k r.

(* ================================================================== uniqueness *)
(* two literals denote the same JSON value: the renderer derives the value from shape and tag; null, [] and the
   non-scalar shapes carry no further value, booleans use the parity of the tag *)
Definition LitSame (x y : lit) : Prop :=
  l_shape x = l_shape y /\
  match l_shape x with
  | SNull | SEmpty | SMixed | SNulls | SNested | SObj => True
  | SBool | SBools => Nat.even (l_tag x) = Nat.even (l_tag y)
  | _ => l_tag x = l_tag y
  end.

Inductive OperandSame : operand -> operand -> Prop :=
| OS_act : forall a p, OperandSame (OAct a p) (OAct a p)
| OS_var : forall g p, OperandSame (OVar g p) (OVar g p)
| OS_lit : forall x y, LitSame x y -> OperandSame (OLit x) (OLit y).

Inductive DepSame : dep -> dep -> Prop :=
| DS_cmp : forall l o r l' r', OperandSame l l' -> OperandSame r r' -> DepSame (DCmp l o r) (DCmp l' o r')
| DS_ref : forall c, DepSame (DRef c) (DRef c).

(* the composite key of checkpoints: the gate type and the multiset of dependencies *)
Definition SameKey (c1 c2 : checkpoint) : Prop :=
  cp_gate c1 = cp_gate c2 /\ exists l, Permutation (cp_deps c2) l /\ Forall2 DepSame (cp_deps c1) l.

Record UniqueIds (s : schema) : Prop := {
  uq_party_id : NoDup (map pa_id (parties s));
  uq_party_name : NoDup (map pa_name (parties s));
  uq_type_id : NoDup (map ot_id (otypes s));
  uq_type_name : NoDup (map ot_name (otypes s));
  uq_promise_id : NoDup (map pr_id (promises s));
  uq_promise_name : NoDup (map pr_name (promises s));
  uq_action_id : NoDup (map a_id (actions s));
  uq_action_name : NoDup (map a_name (actions s));
  uq_milestones : NoDup (flat_map a_milestones (actions s));
  uq_checkpoint_id : NoDup (map cp_id (checkpoints s));
  uq_checkpoint_alias : NoDup (map cp_alias (checkpoints s));
  (* no two checkpoints (at different positions of the list) have the same composite key *)
  uq_composite : ForallOrdPairs (fun c1 c2 => ~ SameKey c1 c2) (checkpoints s);
  uq_group_id : NoDup (map g_id (groups s));
  uq_group_name : NoDup (map g_name (groups s))
}.

(* ================================================================== object types *)
Definition AttrOk (s : schema) (a : attr) : Prop :=
  match at_kind a with
  | KField t => exists li, field_item t = Some li          (* one of the six field types *)
  | KEdge tgt | KEdgeColl tgt => RefTo s RType tgt          (* C01: attribute type reference *)
  end.

Record TypeOk (s : schema) (t : otype) : Prop := {
  tk_nonempty : ot_attrs t <> [];
  tk_names : NoDup (map at_name (ot_attrs t));
  tk_attrs : forall a, In a (ot_attrs t) -> AttrOk s a
}.

(* ================================================================== lifecycle (C06) *)
(* a is an action on promise p *)
Definition ActsOn (s : schema) (p : nat) (a : action) : Prop := In a (actions s) /\ a_promise a = Ref RPromise p.

(* f creates (fulfils) promise p: it acts on p and none of its ancestors does *)
Definition Creator (s : schema) (p : nat) (f : action) : Prop :=
  ActsOn s p f /\ forall b, ActsOn s p b -> a_id b <> a_id f -> ~ Anc s (a_id f) (a_id b).

Record PromiseOk (s : schema) (p : promise) : Prop := {
  pk_type_ref : RefTo s RType (pr_type p);                                  (* C01 *)
  pk_ctx_ref : ORefTo s RGroup (pr_ctx p);                                  (* C01 *)
  pk_lifecycle : exists f, Creator s (pr_id p) f /\                         (* C06: exactly one creator ... *)
                           (forall f', Creator s (pr_id p) f' -> f' = f) /\
                           ctx_group (pr_ctx p) = ctx_group (a_ctx f)       (* ... in the promise's declared context *)
}.

(* ================================================================== typing (C04; used by C05/SC4 and C07/OP4) *)
(* object_promise:<p>.<path> observed from thread context [from]: as [PromisePathType] of Proofs/TypingSpec.v,
   with the creator given by [Creator] and visibility by [Sees] *)
Definition PromisePath (s : schema) (from : option nat) (p : nat) (path : list nat) (td : tdet) : Prop :=
  exists pr f base, find_promise s p = Some pr /\ Creator s p f /\ BaseType s (pr_type pr) path base /\
    ((Sees s from (ctx_group (a_ctx f)) /\ td = base) \/
     (~ Sees s from (ctx_group (a_ctx f)) /\ td_list base = false /\ td = TD true (td_item base) (td_obj base))).

(* the variable of a thread group has the item type of the group's list-valued spawn source (C05/SC4) *)
Inductive VarTy (s : schema) : nat -> tdet -> Prop :=
| VY_promise : forall g tg p path td,
    find_group s g = Some tg -> g_src tg = SpPromise p path -> r_kind p = RPromise ->
    PromisePath s (ctx_group (g_ctx tg)) (r_id p) path td -> td_list td = true ->
    VarTy s g (TD false (td_item td) (td_obj td))
| VY_variable : forall g tg g' path vt tr td,
    find_group s g = Some tg -> g_src tg = SpVar g' path -> g' <> g -> Encloses s g' g ->
    VarTy s g' vt -> td_item vt = IObject -> td_obj vt = Some tr ->
    RefPathType s tr path td -> td_list td = true ->
    VarTy s g (TD false (td_item td) (td_obj td)).

Inductive OperandTy (s : schema) (cctx : option nat) : operand -> ty -> Prop :=
| OY_literal : forall l t, lit_ty l = Some t -> OperandTy s cctx (OLit l) t
| OY_action : forall a path act p td,
    r_kind a = RAction -> find_action s (r_id a) = Some act -> a_promise act = Ref RPromise p ->
    PromisePath s cctx p path td -> OperandTy s cctx (OAct a path) (ty_of_tdet td)
| OY_variable : forall g cg vt,
    cctx = Some cg -> Encloses s g cg -> VarTy s g vt -> OperandTy s cctx (OVar g []) (ty_of_tdet vt)
| OY_variable_path : forall g cg path vt tr td,
    cctx = Some cg -> Encloses s g cg -> VarTy s g vt -> path <> [] ->
    td_item vt = IObject -> td_obj vt = Some tr -> RefPathType s tr path td ->
    OperandTy s cctx (OVar g path) (ty_of_tdet td).

(* ================================================================== guaranteed ancestry (C07) *)
(* [GuarCp] of Spec/DepRel.v with "checkpoint c holds action act" written [HoldsAction] instead of
   [In c (action_cps s act)] *)
Inductive Guar (s : schema) (b : nat) : nat -> Prop :=
| GU_or : forall c cp, find_checkpoint s c = Some cp -> cp_gate cp = Some G_OR ->
                       (forall d, In d (cp_deps cp) -> GuarD s b d) -> Guar s b c
| GU_any : forall c cp d, find_checkpoint s c = Some cp -> cp_gate cp <> Some G_OR ->
                          In d (cp_deps cp) -> GuarD s b d -> Guar s b c
with GuarD (s : schema) (b : nat) : dep -> Prop :=
| GUD_direct : forall l o r, In b (operand_action l ++ operand_action r) -> GuarD s b (DCmp l o r)
| GUD_via : forall l o r x act c, In x (operand_action l ++ operand_action r) -> find_action s x = Some act ->
                                  HoldsAction s act c -> Guar s b c -> GuarD s b (DCmp l o r)
| GUD_ref : forall r, r_kind r = RCheckpoint -> Guar s b (r_id r) -> GuarD s b (DRef r).

(* action a is guaranteed to run after b: some checkpoint holding a guarantees b *)
Definition GuaranteedAfter (s : schema) (a : action) (b : nat) : Prop := exists c, HoldsAction s a c /\ Guar s b c.

(* ================================================================== operations (C07) *)
Definition HasAttr (t : otype) (n : nat) : Prop := exists a, find_attr t n = Some a.

(* attribute n of object type t is made settable by operation op *)
Inductive SettableBy (t : otype) (op : operation) (n : nat) : Prop :=
| SB_include : forall l, op_incl op = Include (Some l) -> In n l -> HasAttr t n -> SettableBy t op n
| SB_exclude_none : op_incl op = Exclude None -> HasAttr t n -> SettableBy t op n
| SB_exclude : forall l, op_incl op = Exclude (Some l) -> ~ In n l -> HasAttr t n -> SettableBy t op n
| SB_default : forall sh, In (n, sh) (op_defaults op) -> HasAttr t n -> SettableBy t op n
| SB_edge : forall q a tgt, In (n, q) (op_edges op) -> find_attr t n = Some a -> at_kind a = KEdge tgt -> SettableBy t op n.

(* ... by the operation of some action on promise p *)
Definition Settable (s : schema) (p : nat) (n : nat) : Prop :=
  exists pr t a, find_promise s p = Some pr /\ find_type_ref s (pr_type pr) = Some t /\ ActsOn s p a /\
                 SettableBy t (a_op a) n.

(* no checkpoint compares action a *)
Definition NotDependee (s : schema) (a : nat) : Prop :=
  forall cp l o r, In cp (checkpoints s) -> In (DCmp l o r) (cp_deps cp) -> ~ In a (operand_action l ++ operand_action r).

(* OP2 - OP4 for the creating action of promise p (declared as pr, of object type t) *)
Record CreateOk (tbl : list (ishape * ty * bool)) (s : schema) (a : action) (pr : promise) (t : otype) : Prop := {
  (* OP2: default values only for field attributes, with a value of the attribute's type *)
  co_defaults : forall n sh, In (n, sh) (op_defaults (a_op a)) ->
    exists at_ ft, find_attr t n = Some at_ /\ at_kind at_ = KField ft /\ default_fits tbl sh ft = true;
  (* OP3: default edges only for edge attributes, to a promise of the edge's object type created by an ancestor *)
  co_edges : forall n q, In (n, q) (op_edges (a_op a)) ->
    exists at_ pq fq, find_attr t n = Some at_ /\ at_kind at_ = KEdge (pr_type pq) /\
      RefTo s RPromise q /\ find_promise s (r_id q) = Some pq /\
      Creator s (r_id q) fq /\ Anc s (a_id a) (a_id fq);
  (* OP4: appends_objects_to *)
  co_appends : forall q path, op_appends (a_op a) = Some (q, path) ->
    RefTo s RPromise q /\ NotDependee s (a_id a) /\ ~ Settable s (r_id q) (last path 0) /\
    exists fq td, Creator s (r_id q) fq /\ GuaranteedAfter s a (a_id fq) /\
      PromisePath s (ctx_group (a_ctx a)) (r_id q) path td /\
      td_list td = true /\ td_item td = IObject /\ td_obj td = Some (pr_type pr) /\
      ctx_group (a_ctx a) = ctx_group (a_ctx fq)
}.

(* C06 (LC3, LC4) + C07: an action that is not the creator only edits: no defaults, edges or appends, the creator
   is among its ancestors and runs in the same thread context *)
Record EditOk (s : schema) (a f : action) : Prop := {
  eo_defaults : op_defaults (a_op a) = [];
  eo_edges : op_edges (a_op a) = [];
  eo_appends : op_appends (a_op a) = None;
  eo_after_creator : Anc s (a_id a) (a_id f);
  eo_context : ctx_group (a_ctx a) = ctx_group (a_ctx f)
}.

Record ActionOk (tbl : list (ishape * ty * bool)) (s : schema) (a : action) : Prop := {
  ak_party_ref : RefTo s RParty (a_party a);                                (* C01 *)
  ak_ctx_ref : ORefTo s RGroup (a_ctx a);                                   (* C01 *)
  ak_dep_ref : ORefTo s RCheckpoint (a_dep a);                              (* C01 *)
  (* C05/SC1: the checkpoint an action depends on is visible from the action's thread context *)
  ak_SC1 : forall r cp, a_dep a = Some r -> find_checkpoint s (r_id r) = Some cp ->
                        Sees s (ctx_group (a_ctx a)) (ctx_group (cp_ctx cp));
  (* C01 (promise reference), C06, C07 *)
  ak_operation : exists p pr t f,
    a_promise a = Ref RPromise p /\ find_promise s p = Some pr /\ find_type_ref s (pr_type pr) = Some t /\
    Creator s p f /\
    (forall n, In n (incl_list (op_incl (a_op a))) -> HasAttr t n) /\       (* OP1 *)
    ((a = f /\ CreateOk tbl s a pr t) \/ (a <> f /\ EditOk s a f))
}.

(* ================================================================== checkpoints (C01, C04, C05) *)
Definition OperandRefs (s : schema) (o : operand) : Prop :=
  match o with OAct a _ => RefTo s RAction a | _ => True end.

(* C05/SC2: a compared action's thread context is visible from the checkpoint's *)
Definition OperandScope (s : schema) (cctx : option nat) (o : operand) : Prop :=
  match o with
  | OAct a _ => forall act, find_action s (r_id a) = Some act -> Sees s cctx (ctx_group (a_ctx act))
  | _ => True
  end.

Record ComparisonOk (s : schema) (cctx : option nat) (l : operand) (o : cop) (r : operand) : Prop := {
  dk_refs : OperandRefs s l /\ OperandRefs s r;                             (* C01 *)
  dk_not_literals : ~ (exists x y, l = OLit x /\ r = OLit y);               (* C04 *)
  dk_distinct : l <> r;                                                     (* C04 *)
  (* C04 (and C05/SC3: [OperandTy] of a thread variable requires the variable's group to enclose the context) *)
  dk_typing : exists tl tr, OperandTy s cctx l tl /\ OperandTy s cctx r tr /\ Comparable tl o tr;
  dk_SC2 : OperandScope s cctx l /\ OperandScope s cctx r                   (* C05/SC2 *)
}.

Definition DepOk (s : schema) (cp : checkpoint) (d : dep) : Prop :=
  match d with
  | DCmp l o r => ComparisonOk s (ctx_group (cp_ctx cp)) l o r
  | DRef c => RefTo s RCheckpoint c /\                                       (* C01 *)
              forall c', find_checkpoint s (r_id c) = Some c' ->             (* C05/SC1 *)
                         Sees s (ctx_group (cp_ctx cp)) (ctx_group (cp_ctx c'))
  end.

(* a single comparison without gate, or at least two dependencies under a gate *)
Definition GateShape (cp : checkpoint) : Prop :=
  (exists l o r, cp_deps cp = [DCmp l o r] /\ cp_gate cp = None) \/
  (exists d1 d2 rest g, cp_deps cp = d1 :: d2 :: rest /\ cp_gate cp = Some g).

(* checkpoint c is the depends_on of an action or thread group, or nested in a checkpoint *)
Definition Referenced (s : schema) (c : nat) : Prop :=
  (exists a r, In a (actions s) /\ a_dep a = Some r /\ r_kind r = RCheckpoint /\ r_id r = c) \/
  (exists g r, In g (groups s) /\ g_dep g = Some r /\ r_kind r = RCheckpoint /\ r_id r = c) \/
  (exists cp r, In cp (checkpoints s) /\ In (DRef r) (cp_deps cp) /\ r_kind r = RCheckpoint /\ r_id r = c).

Record CheckpointOk (s : schema) (cp : checkpoint) : Prop := {
  ck_gate : GateShape cp;
  ck_ctx_ref : ORefTo s RGroup (cp_ctx cp);                                 (* C01 *)
  ck_deps : forall d, In d (cp_deps cp) -> DepOk s cp d;
  ck_referenced : Referenced s (cp_id cp)
}.

(* ================================================================== thread groups (C01, C05) *)
(* action b is an ancestor of thread group g: a checkpoint holding g mentions it or one of its descendants *)
Definition GroupAncestor (s : schema) (g b : nat) : Prop :=
  exists c, HoldsGroup s g c /\ (Mentions s c b \/ exists x, Mentions s c x /\ Anc s x b).

(* C05/SC6: some action or thread group lives directly in thread group g *)
Definition GroupUsed (s : schema) (g : nat) : Prop :=
  (exists a, In a (actions s) /\ ctx_group (a_ctx a) = Some g) \/
  (exists h, In h (groups s) /\ ctx_group (g_ctx h) = Some g).

Record GroupOk (s : schema) (g : tgroup) : Prop := {
  gk_ctx_ref : ORefTo s RGroup (g_ctx g);                                   (* C01 *)
  gk_dep_ref : ORefTo s RCheckpoint (g_dep g);                              (* C01 *)
  (* the chain of enclosing contexts ends, through declared thread groups, in a top-level group *)
  gk_rooted : Rooted s (g_id g);
  gk_SC1 : forall r cp, g_dep g = Some r -> find_checkpoint s (r_id r) = Some cp ->
                        Sees s (ctx_group (g_ctx g)) (ctx_group (cp_ctx cp));
  gk_SC6 : GroupUsed s (g_id g);
  (* C05/SC5: a spawning promise is created by an ancestor of the group *)
  gk_SC5 : forall p path, g_src g = SpPromise p path ->
             RefTo s RPromise p /\ exists f, Creator s (r_id p) f /\ GroupAncestor s (g_id g) (a_id f);
  (* C05/SC4 (+ SC5 for a spawning variable: [VY_variable] requires its group to strictly enclose g) *)
  gk_SC4 : exists vt, VarTy s (g_id g) vt;
  (* C05/SC7: no variable name repeats along a nesting chain *)
  gk_SC7 : forall g' h, Encloses s g' (g_id g) -> g' <> g_id g -> find_group s g' = Some h -> g_var h <> g_var g
}.

(* ================================================================== acyclicity (C02) *)
(* checkpoint nesting has no cycle at or below checkpoint c *)
Definition NestAcyclicBelow (s : schema) (c : nat) : Prop := forall c', c' = c \/ Nests s c c' -> ~ Nests s c' c'.

(* ================================================================== the specification *)
Record Conforms (tbl : list (ishape * ty * bool)) (s : schema) : Prop := {
  cf_unique : UniqueIds s;
  cf_types : forall t, In t (otypes s) -> TypeOk s t;
  cf_promises : forall p, In p (promises s) -> PromiseOk s p;
  cf_actions : forall a, In a (actions s) -> ActionOk tbl s a;
  cf_checkpoints : forall c, In c (checkpoints s) -> CheckpointOk s c;
  cf_groups : forall g, In g (groups s) -> GroupOk s g;
  (* C02: the dependency relation is acyclic ... *)
  cf_acyclic : Acyclic s;
  (* ... and so is checkpoint nesting wherever an action can reach it *)
  cf_nesting : forall a c, In a (actions s) -> HoldsAction s a c -> NestAcyclicBelow s c
}.
