(* Declarative typing rules of aggregation pipelines (property C08), independent of the implementation's tables. *)
From Coq Require Import List Bool.
From OIS Require Import Base.Types Base.PipeTypes.
Import ListNotations.

(* --- how a source of type r may be combined into a variable of type l ---------------------------------
   first operation on a null-initialised variable: SET, of exactly the variable's type;
   afterwards never SET; scalars combine with their own kind (strings concatenate, numbers do arithmetic,
   booleans and/or); a list takes a list of the same type (CONCAT) or one item (APPEND / PREPEND). *)
Definition Combine (l : ptype) (m : meth) (r : ptype) (left_is_null : bool) : bool :=
  if left_is_null then
    match m with M_SET => ptype_eqb l r | _ => false end
  else
    match m with
    | M_SET => false
    | M_CONCAT =>
        ptype_eqb l r &&
        (match pt_item l with INull => false | _ => true end) &&
        (pt_list l || item_eqb (pt_item l) IString)
    | M_ADD | M_SUBTRACT | M_MULTIPLY | M_DIVIDE => ptype_eqb l (PT false INumeric) && ptype_eqb r (PT false INumeric)
    | M_AND | M_OR => ptype_eqb l (PT false IBoolean) && ptype_eqb r (PT false IBoolean)
    | M_APPEND | M_PREPEND =>
        pt_list l && negb (pt_list r) && item_eqb (pt_item l) (pt_item r) &&
        (match pt_item l with INull => false | _ => true end)
    end.

(* --- aggregation of a list source: which operators fit the item type, and the result type ----------- *)
Definition Aggregate (src : ptype) (a : agg) : option ptype :=
  if negb (pt_list src) then None else
  match pt_item src, a with
  | INull, _ => None
  | _, A_COUNT => Some (PT false INumeric)
  | IBoolean, (A_AND | A_OR) => Some (PT false IBoolean)
  | (IString | INumeric | IObject) as it, (A_FIRST | A_LAST) => Some (PT false it)
  | INumeric, (A_SUM | A_AVERAGE | A_MIN | A_MAX) => Some (PT false INumeric)
  | _, _ => None
  end.

(* --- does the JSON shape of an initial value fit the declared variable type (lists are never null) -- *)
Definition InitOk (sh : ishape) (t : ty) : bool :=
  match sh, t with
  | SNull, (STRING | NUMERIC | BOOLEAN | OBJECT) => true
  | SStr, STRING | SInt, NUMERIC | SFloat, NUMERIC | SBool, BOOLEAN | SObj, OBJECT => true
  | SEmpty, (STRING_LIST | NUMERIC_LIST | BOOLEAN_LIST | OBJECT_LIST) => true
  | SStrs, STRING_LIST | SNums, NUMERIC_LIST | SBools, BOOLEAN_LIST => true
  | _, _ => false
  end.

(* --- does the JSON shape of a default value fit a field attribute (C07) ------------------------------ *)
Definition DefaultOk (sh : ishape) (t : ty) : bool :=
  match sh, t with
  | SStr, STRING | SInt, NUMERIC | SFloat, NUMERIC | SBool, BOOLEAN => true
  | SEmpty, (STRING_LIST | NUMERIC_LIST | BOOLEAN_LIST) => true
  | SStrs, STRING_LIST | SNums, NUMERIC_LIST | SBools, BOOLEAN_LIST => true
  | _, _ => false
  end.
