(* Declarative relations of the schema language, with no algorithmic content: which actions a checkpoint
   mentions, which thread groups enclose which, which checkpoints an action or thread group is held by,
   the dependency relation between actions, ancestry, guaranteed ancestry. *)
From Coq Require Import List Bool Arith Relations.
From OIS Require Import Base.Types Base.PipeTypes Model.Schema Model.Rules.
Import ListNotations.

Section DepRel.
Variable s : schema.

(* action b is compared somewhere in checkpoint c, through nested checkpoint references *)
Inductive Mentions : nat -> nat -> Prop :=
| M_cmp : forall c cp l o r b,
    find_checkpoint s c = Some cp -> In (DCmp l o r) (cp_deps cp) ->
    In b (operand_action l ++ operand_action r) -> Mentions c b
| M_ref : forall c cp r b,
    find_checkpoint s c = Some cp -> In (DRef r) (cp_deps cp) -> r_kind r = RCheckpoint ->
    Mentions (r_id r) b -> Mentions c b.

(* checkpoint c' is referenced (directly or transitively) from checkpoint c *)
Inductive Nests : nat -> nat -> Prop :=
| N_step : forall c cp r, find_checkpoint s c = Some cp -> In (DRef r) (cp_deps cp) -> r_kind r = RCheckpoint -> Nests c (r_id r)
| N_trans : forall c c' c'', Nests c c' -> Nests c' c'' -> Nests c c''.

(* g' is g itself or one of the thread groups enclosing it *)
Inductive Encloses : nat -> nat -> Prop :=      (* Encloses g' g : g' encloses (or is) g *)
| E_self : forall g tg, find_group s g = Some tg -> Encloses g g
| E_up : forall g tg r g', find_group s g = Some tg -> g_ctx tg = Some r -> r_kind r = RGroup ->
                           Encloses g' (r_id r) -> Encloses g' g.

(* checkpoint c holds thread group g: it is the depends_on of g or of a group enclosing g *)
Definition HoldsGroup (g c : nat) : Prop :=
  exists g' tg r, Encloses g' g /\ find_group s g' = Some tg /\ g_dep tg = Some r /\ r_kind r = RCheckpoint /\ r_id r = c.

(* checkpoint c holds action a: own depends_on, or it holds the thread group a runs in *)
Definition HoldsAction (a : action) (c : nat) : Prop :=
  (exists r, a_dep a = Some r /\ r_kind r = RCheckpoint /\ r_id r = c)
  \/ (exists r, a_ctx a = Some r /\ r_kind r = RGroup /\ HoldsGroup (r_id r) c).

(* the dependency relation of property C02 *)
Definition Dep (a b : nat) : Prop :=
  exists act c, find_action s a = Some act /\ HoldsAction act c /\ Mentions c b.

Definition Anc : nat -> nat -> Prop := clos_trans nat Dep.
Definition Acyclic : Prop := forall a, ~ Anc a a.
Definition NestingAcyclic : Prop := forall c, ~ Nests c c.

(* guaranteed ancestry (property C07): every branch of an OR gate leads to b; some dependency of any other gate *)
Inductive GuarCp (b : nat) : nat -> Prop :=
| G_or : forall c cp, find_checkpoint s c = Some cp -> cp_gate cp = Some G_OR ->
                      (forall d, In d (cp_deps cp) -> GuarDep b d) -> GuarCp b c
| G_any : forall c cp d, find_checkpoint s c = Some cp -> cp_gate cp <> Some G_OR ->
                         In d (cp_deps cp) -> GuarDep b d -> GuarCp b c
with GuarDep (b : nat) : dep -> Prop :=
| GD_direct : forall l o r, In b (operand_action l ++ operand_action r) -> GuarDep b (DCmp l o r)
| GD_via : forall l o r x act c, In x (operand_action l ++ operand_action r) -> find_action s x = Some act ->
                                 In c (action_cps s act) -> GuarCp b c -> GuarDep b (DCmp l o r)
| GD_ref : forall r, r_kind r = RCheckpoint -> GuarCp b (r_id r) -> GuarDep b (DRef r).

End DepRel.
