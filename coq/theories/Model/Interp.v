(* The structural layer of validation/schema_validator.py as an interpreter of specification DATA.

   [spec] mirrors the dict-literal specification language of validation/obj_specs.py and
   validation/pipeline_obj_specs.py (the features in use; tools/gen_specs.py refuses anything else), and
   [interp E fuel s d = true] iff the generic interpreter (_validate_field / _validate_object / _validate_array /
   _validate_enum / _validate_ref / _validate_scalar ... ) reports NO structural error for document [d]
   against [s].  "Structural" = everything except reference resolution, uniqueness and the semantic
   validation_functions; validate_singular_dependency is structural and is included ([ChkSingularDependency]).

   Verdict conventions
   - An exception raised by the implementation is "not accepted" ([false]).  The only structural raise that is
     not also an ordinary rejection is len() of a null/boolean/number in a LESS_THAN-length conditional
     ([ALenLt] returns None); gen_specs.py checks that no such conditional sits under an alternative, where
     "raise" and "this alternative fails" would differ.
   - Objects are association lists with distinct keys; the verdict does not depend on key order.
   - Fuel bounds document depth plus named-spec unfolding; exhausted fuel is [false].

   No proofs here: see Proofs/InterpProofs.v. *)
From Coq Require Import List String ZArith Bool Ascii Arith.
From OIS Require Import Base.Json Model.Regex.
Import ListNotations.
Open Scope string_scope.

Inductive prim := PInteger | PDecimal | PBoolean | PScalar.

(* one obj_spec condition ("property", "operator", "value"[, "attribute"]) *)
Inductive atom :=
  | ALenLt (path : list string) (n : nat)          (* attribute: length, operator: LESS_THAN *)
  | AOneOf (path : list string) (vals : list string) (* operator: ONE_OF, value: list of strings *)
  | ANoKey (prop key : string)                     (* operator: DOES_NOT_CONTAIN_KEY *)
  | ANoMatch (path : list string) (p : pat).       (* operator: DOES_NOT_MATCH_PATTERN *)

Inductive cond :=
  | CAtom (a : atom)
  | CAny (l : list atom)     (* "conditions" + gate_type OR *)
  | CAll (l : list atom).    (* "conditions" + gate_type AND *)

(* structural validation_functions *)
Inductive check := ChkSingularDependency.

Inductive spec :=
  | SPrim (p : prim)
  | SString (pats : list pat)
  | SEnum (vals : list string)
  | SRef (kinds : list string)
  | SArray (item : spec) (minlen : nat)
  | SObject (props : list (string * spec))
            (optional forbidden mutex : list string)
            (* "if": condition, replacement of constraints.forbidden.properties, added/overridden properties *)
            (conds : list (cond * option (list string) * list (string * spec)))
            (checks : list check)
  | SMap (kpats : list pat) (vals : spec)          (* "keys"/"values" objects *)
  | SNamed (name : string)                         (* obj_spec_name *)
  | SAlt (alts : list spec)                        (* "types" and "any_of_specs" *)
  | SNullable (s : spec).

Record env := mkEnv {
  env_specs : list (string * spec);     (* named specifications *)
  env_reserved : list string;           (* obj_specs.RESERVED_KEYWORDS *)
  env_ref_types : list string           (* enums.ref_types *)
}.

Definition lookup {A} (k : string) (l : list (string * A)) : option A :=
  match find (fun p => String.eqb (fst p) k) l with Some p => Some (snd p) | None => None end.

(* ---------------------------------------------------------------- scalars *)
Definition is_number (j : json) : bool := match j with JInt _ | JFloat _ => true | _ => false end.
Definition is_str (j : json) : bool := match j with JStr _ => true | _ => false end.
Definition is_bool (j : json) : bool := match j with JBool _ => true | _ => false end.

Definition prim_ok (p : prim) (j : json) : bool :=
  match p with
  | PInteger => match j with JInt _ => true | _ => false end
  | PDecimal => is_number j
  | PBoolean => is_bool j
  | PScalar =>
      match j with
      | JNull | JStr _ | JInt _ | JFloat _ | JBool _ => true
      | JArr l => forallb is_str l || forallb is_number l || forallb is_bool l
      | JObj _ => false
      end
  end.

(* ---------------------------------------------------------------- conditions *)
(* _get_field(path, obj, throw_on_invalid_path=True) restricted to plain keys; None = the path leads nowhere *)
Fixpoint get_path (path : list string) (j : json) : option json :=
  match path with
  | [] => Some j
  | k :: r => match j with
              | JObj kv => match get k kv with Some v => get_path r v | None => None end
              | _ => None
              end
  end.

(* Some b = the condition evaluates to b; None = the implementation raises *)
Definition eval_atom (a : atom) (kv : list (string * json)) : option bool :=
  match a with
  | ALenLt path n =>
      match get_path path (JObj kv) with
      | None => Some false                                   (* try/except: return False *)
      | Some (JStr s) => Some (Nat.ltb (String.length s) n)
      | Some (JArr l) => Some (Nat.ltb (List.length l) n)
      | Some (JObj o) => Some (Nat.ltb (List.length o) n)
      | Some _ => None                                       (* len() of None / bool / number *)
      end
  | AOneOf path vals =>
      match get_path path (JObj kv) with
      | Some (JStr s) => Some (mems s vals)
      | _ => Some false
      end
  | ANoKey prop key =>
      match get prop kv with
      | Some (JObj o) => Some (negb (has_key key o))
      | _ => Some true
      end
  | ANoMatch path p =>
      match get_path path (JObj kv) with
      | None => Some false
      | Some (JStr s) => Some (negb (match_pat p s))
      | Some _ => Some true
      end
  end.

Fixpoint eval_any (l : list atom) kv : option bool :=
  match l with
  | [] => Some false
  | a :: r => match eval_atom a kv with
              | None => None | Some true => Some true | Some false => eval_any r kv end
  end.

Fixpoint eval_all (l : list atom) kv : option bool :=
  match l with
  | [] => Some true
  | a :: r => match eval_atom a kv with
              | None => None | Some false => Some false | Some true => eval_all r kv end
  end.

Definition eval_cond (c : cond) kv : option bool :=
  match c with CAtom a => eval_atom a kv | CAny l => eval_any l kv | CAll l => eval_all l kv end.

(* _evaluate_obj_spec_conditionals + _apply_obj_spec_conditionals: later conditionals win; a property
   override shadows the earlier entry of the same name (lookup finds the first) *)
Fixpoint apply_conds {S : Type} (kv : list (string * json))
         (conds : list (cond * option (list string) * list (string * S)))
         (props : list (string * S)) (forb : list string)
  : option (list (string * S) * list string) :=
  match conds with
  | [] => Some (props, forb)
  | (c, fo, po) :: r =>
      match eval_cond c kv with
      | None => None
      | Some true => apply_conds kv r (po ++ props) (match fo with Some l => l | None => forb end)
      | Some false => apply_conds kv r props forb
      end
  end.

(* ---------------------------------------------------------------- checks *)
Definition singular_dependency_ok (kv : list (string * json)) : bool :=
  match get "dependencies" kv with
  | Some (JArr [JObj d]) => has_key "compare" d || negb (has_key "checkpoint" d)
  | _ => true
  end.

Definition check_ok (c : check) kv : bool :=
  match c with ChkSingularDependency => singular_dependency_ok kv end.

(* ---------------------------------------------------------------- objects *)
(* _validate_mutually_exclusive_properties: exactly one, or none when all of them are optional;
   the ones that are not given become forbidden (hence not required) *)
Definition mutex_ok (mutex optional : list string) kv : bool :=
  match List.length (filter (fun k => has_key k kv) mutex) with
  | 0 => forallb (fun k => mems k optional) mutex
  | 1 => true
  | _ => false
  end.

Definition obj_ok {S : Type} (reserved : list string) (rec : S -> json -> bool)
           (props : list (string * S)) (optional forbidden mutex : list string)
           (conds : list (cond * option (list string) * list (string * S)))
           (checks : list check) (kv : list (string * json)) : bool :=
  match apply_conds kv conds props forbidden with
  | None => false
  | Some (props', forb') =>
      mutex_ok mutex optional kv
      (* required = every known property that is neither optional nor forbidden *)
      && forallb (fun p => has_key (fst p) kv || mems (fst p) optional
                           || mems (fst p) forb' || mems (fst p) mutex) props'
      && forallb (fun k => negb (has_key k kv)) forb'
      && forallb (fun c => check_ok c kv) checks
      (* known properties validate; unknown ones are ignored unless reserved *)
      && forallb (fun q => match lookup (fst q) props' with
                           | Some sp => rec sp (snd q)
                           | None => negb (mems (fst q) reserved)
                           end) kv
  end.

Fixpoint interp (E : env) (fuel : nat) (s : spec) (j : json) {struct fuel} : bool :=
  match fuel with
  | 0 => false
  | S f =>
    match s with
    | SPrim p => prim_ok p j
    | SString pats => match j with JStr x => forallb (fun p => match_pat p x) pats | _ => false end
    | SEnum vals => match j with JStr x => mems x vals | _ => false end
    | SRef kinds => match j with JStr x => ref_ok (env_ref_types E) kinds x | _ => false end
    | SArray item m =>
        match j with
        | JArr l => Nat.leb m (List.length l) && forallb (interp E f item) l
        | _ => false
        end
    | SObject props optional forbidden mutex conds checks =>
        match j with
        | JObj kv => obj_ok (env_reserved E) (interp E f) props optional forbidden mutex conds checks kv
        | _ => false
        end
    | SMap kpats vs =>
        match j with
        | JObj kv => forallb (fun q => forallb (fun p => match_pat p (fst q)) kpats && interp E f vs (snd q)) kv
        | _ => false
        end
    | SNamed n => match lookup n (env_specs E) with Some sp => interp E f sp j | None => false end
    | SAlt alts => existsb (fun a => interp E f a j) alts
    | SNullable s' => match j with JNull => true | _ => interp E f s' j end
    end
  end.

(* enough for every shipped schema many times over; the harness and the property theorems quantify over it *)
Definition default_fuel : nat := 200.
