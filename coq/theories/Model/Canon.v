(* Executable model of the uniqueness machinery behind property C10.  No proofs here (see Proofs/CanonProofs.v).

   Code modelled (read in full):
     /repo/utils.py                          recursive_sort, _normalize_type, hash_sorted_object, objects_are_identical
     /repo/validation/schema_validator.py    _validate_unique, _bypass_validation_of_object
                                             (callers: _validate_array -- only when the items produced no errors --
                                              and _validate_constraints)

   TWO models of  hash_sorted_object x == hash_sorted_object y  are given:

   (T) `canon` / `canon_eqb`: the TYPED canonical form.  A dict becomes the list of (key, canon value) sorted by key,
       a list becomes the sorted multiset of the canon of its items, a scalar keeps its JSON type (this abstracts
       "_normalize_type replaces the scalar by its JSON text": the texts of scalars of different JSON types are
       different -- null / true,false / -?digits / a float repr, which always has '.', 'e', 'inf' or 'nan' / a quoted
       string).  Python sorts lists by the serialised text of the items; ANY total order on canonical forms induces
       the same equality of sorted lists, so the structural order `ccompare` is used, which is easy to reason about.
       All theorems are about this model.

   (S) `ser` / `impl_eqb`: the very TEXT  json.dumps(recursive_sort(x))  (for ints, and for strings made of printable
       ASCII; floats by their repr).  This one is exact also where the implementation is coarser than (T):
       recursive_sort turns a dict into a list of (key, value) tuples and json.dumps prints a tuple like a list, so the
       KIND of a container is lost:  {} and [] get the same hash, as do {"1": 2} and [[1, 2]]  (see CanonProofs.v,
       `impl_confuses_*`, and harness/corr/canon.py kind "confuse").  On values in which corresponding positions hold
       containers of the same kind -- every value that passed the obj_spec validation of a checkpoint, which is when
       _validate_array evaluates uniqueness -- (T) and (S) agree; CanonProofs.v proves canon_eqb -> impl_eqb for
       all values with distinct keys (the implementation never misses a duplicate the typed model sees), the converse direction is
       exercised by the correspondence harness only.

   Modelling assumptions (both models):
     * SHA-1 is treated as injective on the serialised texts, and (for T) json.dumps as injective on canonical forms.
     * Top-level scalars: recursive_sort returns them unchanged (NOT normalised) and json.dumps prints their JSON text,
       which again separates exactly the typed scalars; `canon` maps a top-level scalar to the same `CS` it uses inside
       containers and `ser` prints the plain (not doubly quoted) text.  hash_sorted_object is only ever applied to dicts
       (the unique_obj of a composite key, comparison operands); nothing depends on the treatment of top-level scalars.
     * dict keys are distinct (json.loads output); `keys_distinct` is the corresponding precondition of the theorems.
     * sorted() of the (key, value) tuples of a dict never compares two values because the keys differ. *)
From Coq Require Import List String ZArith Bool Ascii DecimalString OrdersEx.
From OIS Require Import Base.Json.
Import ListNotations.
Open Scope string_scope.

(* ------------------------------------------------------------------ generic insertion sort *)
Section ISort.
  Context {A : Type} (leb : A -> A -> bool).
  Fixpoint insert (x : A) (l : list A) : list A :=
    match l with
    | [] => [x]
    | y :: r => if leb x y then x :: l else y :: insert x r
    end.
  Definition isort (l : list A) : list A := fold_right insert [] l.
End ISort.

(* ------------------------------------------------------------------ typed canonical forms *)
Inductive scalar :=
  | SNull
  | SBool (b : bool)
  | SInt (z : Z)
  | SFloat (repr : string)
  | SStr (s : string).

Inductive cjson :=
  | CS (s : scalar)
  | CArr (l : list cjson)                 (* sorted by cleb *)
  | CObj (kv : list (string * cjson)).    (* sorted by key *)

(* scalars are ordered through an injective code (rank of the JSON type, integer payload, text payload) *)
Definition scode (s : scalar) : Z * Z * string :=
  match s with
  | SNull => (0, 0, "")
  | SBool b => (1, if b then 1 else 0, "")
  | SInt z => (2, z, "")
  | SFloat r => (3, 0, r)
  | SStr s => (4, 0, s)
  end%Z.

Definition lexc2 (c : comparison) (d : comparison) : comparison :=
  match c with Eq => d | _ => c end.

Definition scompare (a b : scalar) : comparison :=
  let '(t, z, s) := scode a in
  let '(t', z', s') := scode b in
  lexc2 (Z.compare t t') (lexc2 (Z.compare z z') (String_as_OT.compare s s')).

(* lexicographic comparison of lists, shorter prefix first *)
Section LexList.
  Context {A : Type} (cmp : A -> A -> comparison).
  Fixpoint lexlist (l l' : list A) {struct l} : comparison :=
    match l, l' with
    | [], [] => Eq
    | [], _ :: _ => Lt
    | _ :: _, [] => Gt
    | x :: r, y :: r' => lexc2 (cmp x y) (lexlist r r')
    end.
End LexList.

Definition crank (c : cjson) : Z :=
  match c with CS _ => 0 | CArr _ => 1 | CObj _ => 2 end%Z.

(* structural total order on cjson: scalars < arrays < objects, then componentwise *)
Fixpoint ccompare (a b : cjson) {struct a} : comparison :=
  match a, b with
  | CS s, CS s' => scompare s s'
  | CArr l, CArr l' => lexlist ccompare l l'
  | CObj kv, CObj kv' =>
      lexlist (fun (p q : string * cjson) =>
                 lexc2 (String_as_OT.compare (fst p) (fst q)) (ccompare (snd p) (snd q))) kv kv'
  | _, _ => Z.compare (crank a) (crank b)
  end.

Definition is_gt (c : comparison) : bool := match c with Gt => true | _ => false end.
Definition is_eq (c : comparison) : bool := match c with Eq => true | _ => false end.

Definition cleb (a b : cjson) : bool := negb (is_gt (ccompare a b)).
Definition cjson_eqb (a b : cjson) : bool := is_eq (ccompare a b).

(* order of the (key, value) tuples of a dict: by key (code point order = byte order for ASCII) *)
Definition kleb {V : Type} (p q : string * V) : bool :=
  negb (is_gt (String_as_OT.compare (fst p) (fst q))).

Definition csort : list cjson -> list cjson := isort cleb.
Definition ksort {V : Type} : list (string * V) -> list (string * V) := isort kleb.

Definition scalar_of (j : json) : scalar :=
  match j with
  | JNull => SNull
  | JBool b => SBool b
  | JInt z => SInt z
  | JFloat r => SFloat r
  | JStr s => SStr s
  | _ => SNull (* not used *)
  end.

Fixpoint canon (j : json) : cjson :=
  match j with
  | JArr l => CArr (csort (map canon l))
  | JObj kv => CObj (ksort (map (fun p => (fst p, canon (snd p))) kv))
  | s => CS (scalar_of s)
  end.

(* hash_sorted_object x == hash_sorted_object y, typed model *)
Definition canon_eqb (x y : json) : bool := cjson_eqb (canon x) (canon y).

(* ------------------------------------------------------------------ the serialised text itself *)
Definition dquote : ascii := """"%char.
Definition bslash : ascii := "\"%char.

(* json.dumps escaping of a str, restricted to printable ASCII input (control characters and non-ASCII would need
   \n, \uXXXX ...; the harness only generates printable ASCII) *)
Fixpoint escape (s : string) : string :=
  match s with
  | EmptyString => EmptyString
  | String c r =>
      if Ascii.eqb c dquote then String bslash (String dquote (escape r))
      else if Ascii.eqb c bslash then String bslash (String bslash (escape r))
      else String c (escape r)
  end.

Definition dq (s : string) : string := String dquote (escape s ++ String dquote EmptyString).

Definition z_text (z : Z) : string := NilZero.string_of_int (Z.to_int z).

(* json.dumps of a scalar *)
Definition scalar_text (j : json) : string :=
  match j with
  | JNull => "null"
  | JBool true => "true"
  | JBool false => "false"
  | JInt z => z_text z
  | JFloat r => r
  | JStr s => dq s
  | _ => ""
  end.

Definition sleb (a b : string) : bool := negb (is_gt (String_as_OT.compare a b)).
Definition ssort : list string -> list string := isort sleb.

Definition brackets (items : list string) : string := "[" ++ String.concat ", " items ++ "]".

(* the text of a value in NESTED position: recursive_sort(_normalize_type(v)) printed by the enclosing json.dumps.
   A scalar was replaced by its JSON text, which is then printed as a JSON string (quoted once more).
   A list is sorted by the text of its items (sorted(..., key=json.dumps)); sorting the texts and joining them is the
   same thing.  A dict is the list of its [key, value] pairs sorted by key. *)
Fixpoint serN (j : json) : string :=
  match j with
  | JArr l => brackets (ssort (map serN l))
  | JObj kv =>
      brackets (map (fun p : string * string => brackets [dq (fst p); snd p])
                    (ksort (map (fun p => (fst p, serN (snd p))) kv)))
  | s => dq (scalar_text s)
  end.

(* json.dumps(recursive_sort(x)): a top-level scalar is returned as is by recursive_sort *)
Definition ser (j : json) : string :=
  match j with
  | JArr _ | JObj _ => serN j
  | s => scalar_text s
  end.

(* hash_sorted_object x == hash_sorted_object y, text model (SHA-1 treated as injective) *)
Definition impl_eqb (x y : json) : bool := String.eqb (ser x) (ser y).

(* ------------------------------------------------------------------ duplicate detection of _validate_unique *)
(* unique_values is a Python dict (insertion ordered):   unique_values[key] = key not in unique_values
   Assigning to an existing key keeps its position (and the original key object). *)
Section Dups.
  Context {K : Type} (eqb : K -> K -> bool).

  Fixpoint dict_mem (k : K) (d : list (K * bool)) : bool :=
    match d with
    | [] => false
    | (k', _) :: r => eqb k k' || dict_mem k r
    end.

  Fixpoint dict_set (k : K) (v : bool) (d : list (K * bool)) : list (K * bool) :=
    match d with
    | [] => [(k, v)]
    | (k', v') :: r => if eqb k k' then (k', v) :: r else (k', v') :: dict_set k v r
    end.

  Definition uv_step (d : list (K * bool)) (k : K) : list (K * bool) :=
    dict_set k (negb (dict_mem k d)) d.

  Definition unique_values (l : list K) : list (K * bool) := fold_left uv_step l [].

  (* one error per key whose final flag is False, in dict order *)
  Definition dups (l : list K) : list K :=
    map fst (filter (fun p => negb (snd p)) (unique_values l)).
End Dups.

(* Keys of the simple `unique` fields are Python values used as dict keys.  Python identifies True == 1 == 1.0 as
   dict keys; ids are validated as integers (bool rejected by _validate_integer) and names/aliases/refs/milestones as
   strings BEFORE uniqueness runs (_validate_array evaluates the constraint only when the items produced no errors).
   PRECONDITION of the simple-field model: every key is an int, a string, a bool or null; bool is folded into int
   exactly as Python does; floats and containers are outside the model (`pykey_of` = None; containers would raise
   TypeError: unhashable). *)
Inductive pykey :=
  | PNone
  | PInt (z : Z)
  | PStr (s : string).

Definition pykey_eqb (a b : pykey) : bool :=
  match a, b with
  | PNone, PNone => true
  | PInt x, PInt y => Z.eqb x y
  | PStr x, PStr y => String.eqb x y
  | _, _ => false
  end.

Definition pykey_of (j : json) : option pykey :=
  match j with
  | JNull => Some PNone
  | JBool b => Some (PInt (if b then 1 else 0))
  | JInt z => Some (PInt z)
  | JStr s => Some (PStr s)
  | _ => None
  end.

Fixpoint filter_map {A B : Type} (f : A -> option B) (l : list A) : list B :=
  match l with
  | [] => []
  | x :: r => match f x with Some y => y :: filter_map f r | None => filter_map f r end
  end.

(* the values inserted for a simple field name f, in insertion order:
     elif field_name in item:  a list value contributes every element (milestones), anything else itself;
   items lacking the field are skipped (is_path(f) is false for every field name of the C10 domains). *)
Definition field_values (f : string) (items : list json) : list json :=
  flat_map (fun it =>
              match it with
              | JObj kv => match get f kv with
                           | Some (JArr l) => l
                           | Some v => [v]
                           | None => []
                           end
              | _ => []
              end) items.

Definition field_keys (f : string) (items : list json) : list pykey :=
  filter_map pykey_of (field_values f items).

Definition simple_dups (f : string) (items : list json) : list pykey :=
  dups pykey_eqb (field_keys f items).

(* unique_obj = {prop: item[prop] for prop in props if prop in item} *)
Definition unique_obj (props : list string) (it : json) : json :=
  match it with
  | JObj kv => JObj (filter_map (fun p => match get p kv with Some v => Some (p, v) | None => None end) props)
  | _ => JObj []
  end.

(* Items for which _bypass_validation_of_object holds are skipped (psuedo-checkpoints).  The implementation's
   criterion is object IDENTITY with one of the checkpoint dicts the validator generated itself
   (self._generated_checkpoints: thread-group psuedo-checkpoints and import stitching) -- before commit 0604108 it was
   "alias in self._psuedo_checkpoints or alias.startswith('_stitch_')".  Identity is not a function of the JSON value,
   so the bypass is a boolean predicate on the POSITION of the item in the array and a parameter of the model. *)
Definition unbypassed (bypass : nat -> bool) (items : list json) : list json :=
  map snd (filter (fun p => negb (bypass (fst p))) (combine (seq 0 (List.length items)) items)).

Definition composite_objs (props : list string) (bypass : nat -> bool) (items : list json) : list json :=
  map (unique_obj props) (unbypassed bypass items).

(* typed model: keys are canonical forms *)
Definition composite_dups (props : list string) (bypass : nat -> bool) (items : list json) : list cjson :=
  dups cjson_eqb (map canon (composite_objs props bypass items)).

(* text model: keys are the serialised texts (standing for their SHA-1 digests) *)
Definition composite_dups_text (props : list string) (bypass : nat -> bool) (items : list json) : list string :=
  dups String.eqb (map ser (composite_objs props bypass items)).

Definition no_bypass (i : nat) : bool := false.
Definition bypass_positions (ps : list nat) (i : nat) : bool := existsb (Nat.eqb i) ps.

(* number of error messages produced by _validate_unique for constraints
   {"unique": fields, "unique_composites": composites}  (no "unique_if_not_null" in the C10 domains) *)
Definition unique_errors (fields : list string) (composites : list (list string)) (bypass : nat -> bool)
           (items : list json) : nat :=
  fold_right (fun f n => List.length (simple_dups f items) + n)
             (fold_right (fun ps n => List.length (composite_dups ps bypass items) + n) 0 composites)
             fields.

Definition unique_errors_text (fields : list string) (composites : list (list string)) (bypass : nat -> bool)
           (items : list json) : nat :=
  fold_right (fun f n => List.length (simple_dups f items) + n)
             (fold_right (fun ps n => List.length (composite_dups_text ps bypass items) + n) 0 composites)
             fields.

(* the constraint data of the C10 uniqueness domains (validation/obj_specs.py, pipeline_obj_specs.py) *)
Definition uq_id_name : list string := ["id"; "name"].                      (* parties, object_types, object_promises, thread_groups *)
Definition uq_actions : list string := ["id"; "name"; "milestones"].
Definition uq_checkpoints : list string := ["id"; "alias"].
Definition uc_checkpoints : list (list string) := [["gate_type"; "dependencies"]].
Definition uq_pipelines : list string := ["id"; "name"; "object_promise"].
Definition uq_imports : list string := ["file_name"].
Definition uq_connections : list string := ["to_ref"].
Definition uq_attributes : list string := ["name"].
Definition uq_traverse : list string := ["ref"].
