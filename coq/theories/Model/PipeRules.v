(* Aggregation pipelines: abstract syntax and the validator's verdict on them (properties C08, C09).
   Names are natural numbers: a pipeline variable [n] and the thread variable of a thread group with
   [g_var = n] are both rendered "$v<n>" -- one name space, as in the code.
   A pipeline is flattened into the sequence of steps the validator performs (declarations, loop
   variables, applications, outputs, in the validator's order); the verdict folds a store of variable
   states over that sequence.  A traversal scope is the list of traversal indices from the pipeline's root
   (the code's "0.3.10" is [3; 10]); a declaration is visible where its scope is a PREFIX of the scope of use. *)
From Coq Require Import List Bool Arith.
From OIS Require Import Base.Types Base.PipeTypes Spec.Compare Spec.PipelineSpec Model.Schema Model.Rules.
Import ListNotations.

(* ------------------------------------------------------------------ abstract syntax *)
Record pvardecl := { vd_name : nat; vd_type : ty; vd_init : ishape }.

(* where a traversal / an application reads from *)
Inductive psrc :=
  | PProm (p : ref) (path : list nat)      (* object_promise:<p>.<path> *)
  | PVar (v : nat) (path : list nat)       (* $v<v>.<path>: pipeline, loop or thread variable *)
  | PLocal (path : list nat).              (* $_object.<path>: the object the pipeline writes *)

(* filter operands *)
Inductive foperand :=
  | FItem (bare : bool) (path : list nat)  (* the filter variable: {"ref": "$_item.<path>"}, or the bare string *)
  | FVar (v : nat) (path : list nat)       (* {"ref": "$v<v>.<path>"} *)
  | FProm (p : ref) (path : list nat)      (* {"ref": "object_promise:<p>.<path>"} *)
  | FLocal (path : list nat)               (* {"ref": "$_object.<path>"} *)
  | FLit (l : lit).                        (* a scalar *)

Inductive fclause :=
  | FCmp (l : foperand) (o : cop) (r : foperand)
  | FNest (cs : list fclause).             (* nested filter query *)

Inductive aggfield := AItem | AField (path : list nat).

Inductive pstep :=
  | StNone
  | StAgg (f : aggfield) (a : agg)
  | StFilter (cs : list fclause)
  | StSort (keys : list (list nat))
  | StSelect (path : list nat).

Record papply := { ap_src : psrc; ap_step : pstep; ap_meth : meth; ap_to : nat }.

Inductive ptrav :=
  | Trav (src : psrc) (as_ : nat) (vars : list pvardecl) (subs : list ptrav) (apps : list papply).

Record pipeline := {
  pl_id : nat; pl_name : nat; pl_promise : ref;
  pl_vars : list pvardecl; pl_trav : list ptrav; pl_apply : list papply;
  pl_out : list (nat * nat)                (* (variable, attribute written) *)
}.

Record pschema := { base : schema; pipelines : list pipeline }.

(* ------------------------------------------------------------------ scopes *)
Fixpoint prefixb (a b : list nat) : bool :=
  match a, b with
  | [], _ => true
  | x :: a', y :: b' => Nat.eqb x y && prefixb a' b'
  | _ :: _, [] => false
  end.

(* a declaration made in scope [d] is visible in scope [u] *)
Definition visible (d u : list nat) : bool := prefixb d u.

(* ------------------------------------------------------------------ flattening: the validator's order *)
Inductive instr :=
  | IDecl (sc : list nat) (top : bool) (d : pvardecl)   (* declare a variable in scope sc *)
  | ITrav (sc : list nat) (src : psrc) (as_ : nat)      (* enter the traversal whose scope is sc: bind its loop variable *)
  | IApp (sc : list nat) (a : papply)
  | IOut (v attr : nat).

Fixpoint flatten_trav (parent : list nat) (i : nat) (t : ptrav) : list instr :=
  match t with
  | Trav src as_ vars subs apps =>
    let sc := parent ++ [i] in
    ITrav sc src as_ :: map (IDecl sc false) vars
      ++ (fix loop (j : nat) (l : list ptrav) : list instr :=
            match l with [] => [] | t' :: l' => flatten_trav sc j t' ++ loop (S j) l' end) 0 subs
      ++ map (IApp sc) apps
  end.

Fixpoint flatten_travs (parent : list nat) (j : nat) (l : list ptrav) : list instr :=
  match l with [] => [] | t :: l' => flatten_trav parent j t ++ flatten_travs parent (S j) l' end.

Definition flatten (pl : pipeline) : list instr :=
  map (IDecl [] true) (pl_vars pl) ++ flatten_travs [] 0 (pl_trav pl)
  ++ map (IApp []) (pl_apply pl) ++ map (fun o => IOut (fst o) (snd o)) (pl_out pl).

(* ------------------------------------------------------------------ the store of pipeline variables *)
Record pvar := {
  pv_scope : list nat; pv_name : nat; pv_td : tdet;
  pv_null : bool;                (* declared with initial value null *)
  pv_assigned : bool; pv_loop : bool;
  pv_trav : list (list nat)      (* scopes of the traversals that iterate over this variable *)
}.
Definition store := list pvar.

(* Pipeline.get_variable: the innermost visible declaration of the name *)
Definition better (best : option pvar) (e : pvar) : option pvar :=
  match best with
  | Some b => if Nat.ltb (length (pv_scope b)) (length (pv_scope e)) then Some e else best
  | None => Some e
  end.
Definition get_var (st : store) (v : nat) (sc : list nat) : option pvar :=
  fold_left (fun best e => if Nat.eqb (pv_name e) v && visible (pv_scope e) sc then better best e else best) st None.

Definition same_var (a b : pvar) : bool := Nat.eqb (pv_name a) (pv_name b) && list_nat_eqb (pv_scope a) (pv_scope b).
Definition put_var (st : store) (e : pvar) : store := map (fun x => if same_var x e then e else x) st.

(* thread variables visible from thread context ctx: innermost group of the chain declaring the name *)
Definition thread_var (s : schema) (ctx : option nat) (v : nat) : option tdet :=
  match ctx with
  | None => None
  | Some g =>
    match scope s g with
    | None => None
    | Some l =>
      match find (fun g' => match find_group s g' with Some tg => Nat.eqb (g_var tg) v | None => false end) l with
      | Some g' => match var_type s (fuel_of s) g' with TOk t => Some t | _ => None end
      | None => None
      end
    end
  end.

(* ------------------------------------------------------------------ typing *)
Definition pt_of (t : tdet) : ptype := PT (td_list t) (td_item t).

Definition oref_eqb (a b : option ref) : bool :=
  match a, b with Some x, Some y => ref_eqb x y | None, None => true | _, _ => false end.
Definition tdet_eqb (a b : tdet) : bool :=
  Bool.eqb (td_list a) (td_list b) && item_eqb (td_item a) (td_item b) && oref_eqb (td_obj a) (td_obj b).

(* the type a declared variable has *)
Definition tdet_of_ty (t : ty) : option tdet :=
  match t with
  | STRING => Some (TD false IString None) | NUMERIC => Some (TD false INumeric None) | BOOLEAN => Some (TD false IBoolean None)
  | STRING_LIST => Some (TD true IString None) | NUMERIC_LIST => Some (TD true INumeric None)
  | BOOLEAN_LIST => Some (TD true IBoolean None)
  | OBJECT => Some (TD false IObject None) | OBJECT_LIST => Some (TD true IObject None)
  | _ => None
  end.

(* structural rule: an initial value is a scalar or an array of scalars *)
Definition scalar_shape (sh : ishape) : bool :=
  match sh with SNested | SObj => false | _ => true end.

(* a path of attributes from an object of type tr; [lst]: we start from a list of such objects *)
Definition path_from (s : schema) (lst : bool) (tr : ref) (path : list nat) : tres :=
  match find_type_ref s tr with
  | None => TNone
  | Some d => walk s (Some d) (TD lst IObject (Some tr)) path
  end.

(* $var.<path> *)
Definition var_path_type (s : schema) (vt : tdet) (path : list nat) : tres :=
  match path with
  | [] => TOk vt
  | _ =>
    match td_item vt, td_obj vt with
    | IObject, Some tr => path_from s (td_list vt) tr path
    | IObject, None => TNone
    | _, _ => TRaise
    end
  end.

Definition var_ref_type (s : schema) (ctx : option nat) (st : store) (sc : list nat) (v : nat) (path : list nat) : tres :=
  match get_var st v sc with
  | Some e => var_path_type s (pv_td e) path
  | None => match thread_var s ctx v with
            | Some t => var_path_type s t path
            | None => TNone
            end
  end.

(* the type of what an application / a traversal reads; the pipeline's own object is never a source *)
Definition src_type (s : schema) (ctx : option nat) (own : nat) (st : store) (sc : list nat) (src : psrc) : tres :=
  match src with
  | PProm p path =>
    if ref_ok s RPromise p && negb (Nat.eqb (r_id p) own) then promise_path_type s ctx (r_id p) path else TNone
  | PVar v path => var_ref_type s ctx st sc v path
  | PLocal _ => TNone
  end.

(* filter operands; r = type of the collection being filtered *)
Definition fop_type (s : schema) (ctx : option nat) (own : nat) (st : store) (sc : list nat) (r : tdet) (o : foperand) : option ty :=
  let of_tres (x : tres) := match x with TOk t => Some (ty_of_tdet t) | _ => None end in
  match o with
  | FItem _ [] => Some (ty_of_tdet (TD false (td_item r) (td_obj r)))
  | FItem _ path => match td_obj r with Some tr => of_tres (path_from s false tr path) | None => None end
  | FVar v path => of_tres (var_ref_type s ctx st sc v path)
  | FProm p path =>
    if ref_ok s RPromise p && negb (Nat.eqb (r_id p) own)
    then of_tres (promise_path_type s ctx (r_id p) path) else None
  | FLocal _ => None
  | FLit l => lit_ty l
  end.

Definition is_item_ref (o : foperand) : bool := match o with FItem false _ => true | _ => false end.

(* one comparison: one side is the filter variable (written as an object), both sides typed, comparable *)
Definition fcmp_ok (cmp : ty -> cop -> ty -> bool) (s : schema) (ctx : option nat) (own : nat) (st : store) (sc : list nat)
                   (r : tdet) (l : foperand) (o : cop) (rr : foperand) : bool :=
  (is_item_ref l || is_item_ref rr) &&
  match fop_type s ctx own st sc r l, fop_type s ctx own st sc r rr with
  | Some tl, Some tr => cmp tl o tr
  | _, _ => false
  end.

Fixpoint clause_ok (chk : foperand -> cop -> foperand -> bool) (c : fclause) : bool :=
  match c with
  | FCmp l o r => chk l o r
  | FNest cs => Nat.leb 2 (length cs) && forallb (clause_ok chk) cs
  end.

(* all comparisons of a clause tree *)
Fixpoint clause_cmps (c : fclause) : list (foperand * cop * foperand) :=
  match c with
  | FCmp l o r => [(l, o, r)]
  | FNest cs => flat_map clause_cmps cs
  end.

Definition is_first_last (a : agg) : bool := match a with A_FIRST | A_LAST => true | _ => false end.

(* the type of the source after its step (determine_right_operand_type); None = rejected *)
Definition step_type (cmp : ty -> cop -> ty -> bool) (s : schema) (ctx : option nat) (own : nat) (st : store) (sc : list nat)
                     (r : tdet) (stp : pstep) : option tdet :=
  match stp with
  | StNone => Some r
  | StAgg AItem a =>
    match Aggregate (pt_of r) a with
    | Some (PT l it) => Some (TD l it (if is_first_last a then td_obj r else None))
    | None => None
    end
  | StAgg (AField path) a =>
    match td_item r, td_obj r with
    | IObject, Some tr =>
      match path_from s (td_list r) tr path with
      | TOk f =>
        match Aggregate (pt_of f) a with
        | Some (PT l it) =>
          Some (TD l it (if is_first_last a then td_obj f else None))
        | None => None
        end
      | _ => None
      end
    | _, _ => None
    end
  | StFilter cs =>
    if td_list r && Nat.leb 1 (length cs) && forallb (clause_ok (fcmp_ok cmp s ctx own st sc r)) cs then Some r else None
  | StSort _ => if td_list r then Some r else None
  | StSelect path =>
    match td_obj r with
    | Some tr => match path_from s (td_list r) tr path with TOk t => Some t | _ => None end
    | None => None
    end
  end.

(* ------------------------------------------------------------------ one step of the validator *)
Definition declare (st : store) (sc : list nat) (n : nat) (t : tdet) (null assigned loop : bool) : store :=
  st ++ [Build_pvar sc n t null assigned loop []].

Definition left_null (e : pvar) : bool := negb (pv_assigned e) && pv_null e.

(* the variable's object type after an application whose source has type rt; None = clash *)
Definition merge_obj (vt rt : tdet) : option tdet :=
  match td_obj vt with
  | None => match td_item vt, td_obj rt with
            | IObject, Some o => Some (TD (td_list vt) (td_item vt) (Some o))
            | _, _ => Some vt
            end
  | Some o => match td_obj rt with
              | Some o' => if ref_eqb o o' then Some vt else None
              | None => None
              end
  end.

Definition var_types8 (t : ty) : bool := match tdet_of_ty t with Some _ => true | None => false end.

Definition step (cmp : ty -> cop -> ty -> bool) (s : schema) (ctx : option nat) (own : nat) (st : store) (i : instr) : option store :=
  match i with
  | IDecl sc top d =>
    match tdet_of_ty (vd_type d) with
    | None => None
    | Some t =>
      if negb (isSome (get_var st (vd_name d) sc))
         && negb (isSome (thread_var s ctx (vd_name d)))
         && InitOk (vd_init d) (vd_type d) && scalar_shape (vd_init d)
      then Some (declare st sc (vd_name d) t (ishape_eqb (vd_init d) SNull) false false)
      else None
    end
  | ITrav sc src as_ =>
    match src_type s ctx own st sc src with
    | TOk t =>
      (* the traversed variable records the traversal's scope *)
      let st1 := match src with
                 | PVar v _ => match get_var st v sc with
                               | Some e => put_var st (Build_pvar (pv_scope e) (pv_name e) (pv_td e) (pv_null e) (pv_assigned e)
                                                                  (pv_loop e) (sc :: pv_trav e))
                               | None => st end
                 | _ => st end in
      if td_list t && negb (isSome (get_var st1 as_ sc)) && negb (isSome (thread_var s ctx as_))
      then Some (declare st1 sc as_ (TD false (td_item t) (td_obj t)) false true true)
      else None
    | _ => None
    end
  | IApp sc a =>
    match src_type s ctx own st sc (ap_src a), get_var st (ap_to a) sc with
    | TOk r, Some e =>
      if pv_loop e || existsb (fun tsc => visible tsc sc) (pv_trav e) then None
      else
        match step_type cmp s ctx own st sc r (ap_step a) with
        | Some rt =>
          if Combine (pt_of (pv_td e)) (ap_meth a) (pt_of rt) (left_null e)
          then match merge_obj (pv_td e) rt with
               | Some t' => Some (put_var st (Build_pvar (pv_scope e) (pv_name e) t' (pv_null e) true (pv_loop e) (pv_trav e)))
               | None => None
               end
          else None
        | None => None
        end
    | _, _ => None
    end
  | IOut v attr =>
    match get_var st v [], find_promise s own with
    | Some e, Some pr =>
      match resolve_path s (pr_type pr) [attr] with
      | TOk ft => if tdet_eqb ft (pv_td e) && negb (mem_nat attr (settable s own)) then Some st else None
      | _ => None
      end
    | _, _ => None
    end
  end.

Fixpoint run (cmp : ty -> cop -> ty -> bool) (s : schema) (ctx : option nat) (own : nat) (st : store) (l : list instr) : option store :=
  match l with
  | [] => Some st
  | i :: l' => match step cmp s ctx own st i with Some st' => run cmp s ctx own st' l' | None => None end
  end.

(* ------------------------------------------------------------------ structural rules *)
Definition psrc_eqb (a b : psrc) : bool :=
  match a, b with
  | PProm p x, PProm p' y => ref_eqb p p' && list_nat_eqb x y
  | PVar v x, PVar v' y => Nat.eqb v v' && list_nat_eqb x y
  | PLocal x, PLocal y => list_nat_eqb x y
  | _, _ => false
  end.
Definition trav_src (t : ptrav) : psrc := match t with Trav src _ _ _ _ => src end.

(* sibling traversals read from different sources *)
Fixpoint trav_struct_ok (t : ptrav) : bool :=
  match t with
  | Trav _ _ _ subs _ => nodup_by psrc_eqb (map trav_src subs) && forallb trav_struct_ok subs
  end.

(* the thread context of a pipeline = the context in which its promise is fulfilled *)
Definition pipe_ctx (s : schema) (p : nat) : option nat :=
  match promise_context s p with Some c => c | None => None end.

Definition pipeline_ok (cmp : ty -> cop -> ty -> bool) (s : schema) (pl : pipeline) : bool :=
  ref_ok s RPromise (pl_promise pl) &&
  Nat.leb 1 (length (pl_out pl)) &&
  nodup_by psrc_eqb (map trav_src (pl_trav pl)) && forallb trav_struct_ok (pl_trav pl) &&
  isSome (run cmp s (pipe_ctx s (r_id (pl_promise pl))) (r_id (pl_promise pl)) [] (flatten pl)).

Definition pipelines_ok (cmp : ty -> cop -> ty -> bool) (ps : pschema) : bool :=
  nodup_nat (map pl_id (pipelines ps)) && nodup_nat (map pl_name (pipelines ps)) &&
  nodup_nat (map (fun pl => r_id (pl_promise pl)) (pipelines ps)) &&
  forallb (pipeline_ok cmp (base ps)) (pipelines ps).

(* attributes written by the pipelines on promise p *)
Definition aggregated (ps : pschema) (p : nat) : list nat :=
  flat_map (fun pl => if Nat.eqb (r_id (pl_promise pl)) p then map snd (pl_out pl) else []) (pipelines ps).

(* no checkpoint compares <action>.object_promise.<attr> when a pipeline writes attr of the action's promise *)
Definition operand_not_aggregated (ps : pschema) (o : operand) : bool :=
  match o with
  | OAct a [n] =>
    match (if rkind_eqb (r_kind a) RAction then find_action (base ps) (r_id a) else None) with
    | Some act => match promise_of act with
                  | Some p => negb (mem_nat n (aggregated ps p))
                  | None => true end
    | None => true
    end
  | _ => true
  end.

Definition no_compare_on_aggregated (ps : pschema) : bool :=
  forallb (fun cp => forallb (fun d => match d with
                                       | DCmp l _ r => operand_not_aggregated ps l && operand_not_aggregated ps r
                                       | DRef _ => true end) (cp_deps cp)) (checkpoints (base ps)).

(* ------------------------------------------------------------------ the verdict *)
Definition conforms_p_with (cmp : ty -> cop -> ty -> bool) (tbl : list (ishape * ty * bool)) (ps : pschema) : bool :=
  conforms_with cmp tbl (base ps) && pipelines_ok cmp ps && no_compare_on_aggregated ps.

(* the specification's verdict *)
Definition conforms_p := conforms_p_with Cmp.
(* the current implementation: specification + recorded known findings *)
Definition conforms_p_kf := conforms_p_with Cmp_kf.
