(* The validator's verdict on abstract schemas, rule by rule.  Algorithms that the implementation
   realises as searches (ancestry, guaranteed ancestry, cycle detection, scope membership) are written
   here as the same searches on explicit fuel; Proofs/*.v relate them to declarative relations. *)
From Coq Require Import List Bool Arith.
From OIS Require Import Base.Types Base.PipeTypes Spec.Compare Model.Schema.
Import ListNotations.

(* ------------------------------------------------------------------ sizes / fuel *)
Definition fuel_of (s : schema) : nat :=
  S (length (actions s) + length (checkpoints s) + length (groups s)).

(* ------------------------------------------------------------------ references *)
Definition ref_ok (s : schema) (k : rkind) (r : ref) : bool := rkind_eqb (r_kind r) k && denotes s r.
Definition oref_ok (s : schema) (k : rkind) (r : option ref) : bool :=
  match r with None => true | Some r => ref_ok s k r end.

(* ------------------------------------------------------------------ thread scopes *)
(* [chain s fuel g] = g, its parent, grandparent, ... ; None when some context does not resolve *)
Fixpoint chain (s : schema) (fuel : nat) (g : nat) : option (list nat) :=
  match fuel with
  | 0 => None
  | S f =>
    match find_group s g with
    | None => None
    | Some tg =>
      match g_ctx tg with
      | None => Some [g]
      | Some r =>
        if rkind_eqb (r_kind r) RGroup then
          match chain s f (r_id r) with Some l => Some (g :: l) | None => None end
        else None
      end
    end
  end.

Definition scope (s : schema) (g : nat) : option (list nat) := chain s (fuel_of s) g.

(* ThreadGroup.has_access_to_context: g' is g or encloses it *)
Definition has_access (s : schema) (g g' : nat) : bool :=
  match scope s g with Some l => mem_nat g' l | None => false end.

Definition ctx_group (c : option ref) : option nat :=
  match c with
  | Some r => if rkind_eqb (r_kind r) RGroup then Some (r_id r) else None
  | None => None
  end.

(* may something living in context [from] use something bound to thread context [target]? *)
Definition ctx_sees (s : schema) (from target : option nat) : bool :=
  match target with
  | None => true
  | Some g' => match from with Some g => has_access s g g' | None => false end
  end.

(* ------------------------------------------------------------------ dependency structure *)
Definition own_cp (r : option ref) : list nat :=
  match r with Some r => if rkind_eqb (r_kind r) RCheckpoint then [r_id r] else [] | None => [] end.

(* checkpoints of the enclosing thread groups (innermost first) *)
Definition group_cps (s : schema) (g : option nat) : list nat :=
  match g with
  | None => []
  | Some g =>
    match scope s g with
    | Some l => flat_map (fun g' => match find_group s g' with Some tg => own_cp (g_dep tg) | None => [] end) l
    | None => []
    end
  end.

(* effective checkpoints of an action / of a thread group: its own and those of every enclosing group *)
Definition action_cps (s : schema) (a : action) : list nat := own_cp (a_dep a) ++ group_cps s (ctx_group (a_ctx a)).
Definition group_eff_cps (s : schema) (g : nat) : list nat := group_cps s (Some g).

Definition operand_action (o : operand) : list nat :=
  match o with OAct a _ => if rkind_eqb (r_kind a) RAction then [r_id a] else [] | _ => [] end.

(* actions compared anywhere in checkpoint c, through nested checkpoint references *)
Fixpoint mentions (s : schema) (fuel : nat) (c : nat) : list nat :=
  match fuel with
  | 0 => []
  | S f =>
    match find_checkpoint s c with
    | None => []
    | Some cp =>
      flat_map (fun d => match d with
                         | DCmp l _ r => operand_action l ++ operand_action r
                         | DRef r => if rkind_eqb (r_kind r) RCheckpoint then mentions s f (r_id r) else []
                         end) (cp_deps cp)
    end
  end.

(* direct dependencies of an action *)
Definition succ (s : schema) (a : nat) : list nat :=
  match find_action s a with
  | None => []
  | Some act => flat_map (mentions s (fuel_of s)) (action_cps s act)
  end.

(* ------------------------------------------------------------------ cycle search (shared visited set, copied path) *)
Fixpoint explore (s : schema) (fuel : nat) (a : nat) (visited path : list nat) : bool * list nat :=
  match fuel with
  | 0 => (true, visited)          (* out of fuel: only on cyclic input; reported as a cycle *)
  | S f =>
    if mem_nat a path then (true, visited)
    else if mem_nat a visited then (false, visited)
    else
      (fix loop (l : list nat) (vis : list nat) : bool * list nat :=
         match l with
         | [] => (false, vis)
         | b :: l' => match explore s f b vis (a :: path) with
                      | (true, v) => (true, v)
                      | (false, v) => loop l' v
                      end
         end) (succ s a) (a :: visited)
  end.

Fixpoint explore_all (s : schema) (roots : list nat) (visited : list nat) : bool :=
  match roots with
  | [] => false
  | a :: r => match explore s (S (length (actions s))) a visited [] with
              | (true, _) => true
              | (false, v) => explore_all s r v
              end
  end.

(* nested checkpoint references must not be cyclic where an action can reach them *)
Fixpoint cp_nesting_cyclic (s : schema) (fuel : nat) (stack : list nat) (c : nat) : bool :=
  match fuel with
  | 0 => true
  | S f =>
    if mem_nat c stack then true
    else match find_checkpoint s c with
         | None => false
         | Some cp => existsb (fun d => match d with
                                        | DRef r => if rkind_eqb (r_kind r) RCheckpoint then cp_nesting_cyclic s f (c :: stack) (r_id r) else false
                                        | _ => false end) (cp_deps cp)
         end
  end.

Definition has_cycle (s : schema) : bool :=
  explore_all s (map a_id (actions s)) []
  || existsb (fun a => existsb (cp_nesting_cyclic s (S (length (checkpoints s))) []) (action_cps s a)) (actions s).

(* ------------------------------------------------------------------ ancestry search *)
(* ancestors of an action: closure of the direct dependencies, computed by iterating
   acc := acc U succ(acc) a fixed number of times (|actions| rounds reach every ancestor) *)
Fixpoint union_nat (a b : list nat) : list nat :=
  match b with
  | [] => a
  | x :: r => if mem_nat x a then union_nat a r else union_nat (a ++ [x]) r
  end.

Fixpoint close (s : schema) (rounds : nat) (acc : list nat) : list nat :=
  match rounds with
  | 0 => acc
  | S r => close s r (union_nat acc (flat_map (succ s) acc))
  end.

Definition ancestors (s : schema) (a : nat) : list nat :=
  close s (length (actions s)) (union_nat [] (succ s a)).

Definition is_ancestor (s : schema) (a b : nat) : bool := mem_nat b (ancestors s a).

(* ancestors of a thread group: through the checkpoints of the group and of every enclosing group *)
Definition group_ancestors (s : schema) (g : nat) : list nat :=
  close s (length (actions s)) (union_nat [] (flat_map (mentions s (fuel_of s)) (group_eff_cps s g))).

(* guaranteed ancestry: every branch of an OR gate must lead to b *)
Fixpoint guar_cp (s : schema) (fuel : nat) (b : nat) (c : nat) : bool :=
  match fuel with
  | 0 => false
  | S f =>
    match find_checkpoint s c with
    | None => false
    | Some cp =>
      let dep_ok (d : dep) :=
        match d with
        | DCmp l _ r =>
          existsb (fun x => Nat.eqb x b ||
                            match find_action s x with
                            | Some act => existsb (guar_cp s f b) (action_cps s act)
                            | None => false end) (operand_action l ++ operand_action r)
        | DRef r => if rkind_eqb (r_kind r) RCheckpoint then guar_cp s f b (r_id r) else false
        end in
      match cp_gate cp with
      | Some G_OR => forallb dep_ok (cp_deps cp)
      | _ => existsb dep_ok (cp_deps cp)
      end
    end
  end.

Definition guaranteed_ancestor (s : schema) (a : action) (b : nat) : bool :=
  existsb (guar_cp s (S (length (actions s) + length (checkpoints s))) b) (action_cps s a).

(* ------------------------------------------------------------------ object-promise lifecycle *)
Definition promise_of (a : action) : option nat :=
  if rkind_eqb (r_kind (a_promise a)) RPromise then Some (r_id (a_promise a)) else None.

Definition actions_on (s : schema) (p : nat) : list action :=
  filter (fun a => match promise_of a with Some q => Nat.eqb q p | None => false end) (actions s).

(* candidates for fulfilling p: actions on p none of whose ancestors acts on p *)
Definition creators (s : schema) (p : nat) : list action :=
  let acts := actions_on s p in
  filter (fun a => negb (existsb (fun b => negb (Nat.eqb (a_id b) (a_id a)) && is_ancestor s (a_id a) (a_id b)) acts)) acts.

Definition fulfiller (s : schema) (p : nat) : option action := hd_error (creators s p).

Definition opt_nat_eqb (a b : option nat) : bool :=
  match a, b with Some x, Some y => Nat.eqb x y | None, None => true | _, _ => false end.

Definition promise_ok (s : schema) (p : promise) : bool :=
  match creators s (pr_id p) with
  | [f] => opt_nat_eqb (ctx_group (pr_ctx p)) (ctx_group (a_ctx f))
           && match pr_ctx p with Some _ => isSome (ctx_group (pr_ctx p)) | None => true end
  | _ => false
  end.

(* the thread context in which promise p is fulfilled: None = unknown promise / no fulfiller *)
Definition promise_context (s : schema) (p : nat) : option (option nat) :=
  match fulfiller s p with Some f => Some (ctx_group (a_ctx f)) | None => None end.

(* ------------------------------------------------------------------ typing of paths and operands *)
Record tdet := TD { td_list : bool; td_item : item; td_obj : option ref }.
Inductive tres := TNone | TRaise | TOk (t : tdet).

Definition field_item (t : ty) : option (bool * item) :=
  match t with
  | STRING => Some (false, IString) | NUMERIC => Some (false, INumeric) | BOOLEAN => Some (false, IBoolean)
  | STRING_LIST => Some (true, IString) | NUMERIC_LIST => Some (true, INumeric) | BOOLEAN_LIST => Some (true, IBoolean)
  | _ => None
  end.

Definition find_type_ref (s : schema) (r : ref) : option otype :=
  if rkind_eqb (r_kind r) RType then find_type s (r_id r) else None.

Fixpoint walk (s : schema) (def : option otype) (td : tdet) (path : list nat) : tres :=
  match path with
  | [] => TOk td
  | seg :: rest =>
    match def with
    | None => TNone
    | Some d =>
      match find_attr d seg with
      | None => TNone
      | Some a =>
        match at_kind a with
        | KField t =>
          match rest with
          | _ :: _ => TNone
          | [] => match field_item t with
                  | Some (true, it) => if td_list td then TRaise else TOk (TD true it None)
                  | Some (false, it) => TOk (TD (td_list td) it None)
                  | None => TNone
                  end
          end
        | KEdge tgt =>
          if rkind_eqb (r_kind tgt) RType
          then walk s (find_type s (r_id tgt)) (TD (td_list td) IObject (Some tgt)) rest
          else TRaise
        | KEdgeColl tgt =>
          if rkind_eqb (r_kind tgt) RType
          then (if td_list td then TRaise else walk s (find_type s (r_id tgt)) (TD true IObject (Some tgt)) rest)
          else TRaise
        end
      end
    end
  end.

Definition resolve_path (s : schema) (tr : ref) (path : list nat) : tres :=
  match find_type_ref s tr with
  | None => TNone
  | Some d => walk s (Some d) (TD false IObject (Some tr)) path
  end.

(* type of object_promise:<p>.<path> seen from thread context [from] *)
Definition promise_path_type (s : schema) (from : option nat) (p : nat) (path : list nat) : tres :=
  match find_promise s p, promise_context s p with
  | Some pr, Some pctx =>
    let many := match pctx with
                | None => false
                | Some g' => negb (match from with Some g => has_access s g g' | None => false end)
                end in
    match path with
    | [] => if rkind_eqb (r_kind (pr_type pr)) RType then TOk (TD many IObject (Some (pr_type pr))) else TRaise
    | _ =>
      match resolve_path s (pr_type pr) path with
      | TOk td => if many then (if td_list td then TRaise else TOk (TD true (td_item td) (td_obj td))) else TOk td
      | r => r
      end
    end
  | _, _ => TNone
  end.

(* thread variables: the variable of group g has the de-listified type of g's spawn source *)
Fixpoint var_type (s : schema) (fuel : nat) (g : nat) : tres :=
  match fuel with
  | 0 => TNone
  | S f =>
    match find_group s g with
    | None => TNone
    | Some tg =>
      let parent := ctx_group (g_ctx tg) in
      let src :=
        match g_src tg with
        | SpPromise p path =>
          if rkind_eqb (r_kind p) RPromise then promise_path_type s parent (r_id p) path else TNone
        | SpVar g' path =>
          (* visible only if g' encloses g *)
          if negb (Nat.eqb g' g) && has_access s g g' then
            match var_type s f g' with
            | TOk vt =>
              match td_item vt, td_obj vt with
              | IObject, Some tr => resolve_path s tr path
              | _, _ => match path with [] => TOk vt | _ => TRaise end
              end
            | r => r
            end
          else TNone
        end in
      match src with
      | TOk td => if td_list td then TOk (TD false (td_item td) (td_obj td)) else TNone
      | r => r
      end
    end
  end.

Definition ty_of_tdet (t : tdet) : ty := ty_of_ptype (PT (td_list t) (td_item t)).

Definition lit_ty (l : lit) : option ty :=
  match l_shape l with
  | SNull => Some TNULL | SStr => Some STRING | SInt | SFloat => Some NUMERIC | SBool => Some BOOLEAN
  | SEmpty => Some TLIST | SStrs => Some STRING_LIST | SNums => Some NUMERIC_LIST | SBools => Some BOOLEAN_LIST
  | _ => None     (* not a scalar: rejected structurally *)
  end.

(* type of a comparison operand inside a checkpoint bound to thread context [cctx] *)
Definition operand_type (s : schema) (cctx : option nat) (o : operand) : option ty :=
  match o with
  | OLit l => lit_ty l
  | OAct a path =>
    match (if rkind_eqb (r_kind a) RAction then find_action s (r_id a) else None) with
    | Some act =>
      match promise_of act with
      | Some p => match promise_path_type s cctx p path with TOk td => Some (ty_of_tdet td) | _ => None end
      | None => None
      end
    | None => None
    end
  | OVar g path =>
    match cctx with
    | Some cg =>
      if has_access s cg g then
        match var_type s (fuel_of s) g with
        | TOk vt =>
          match path with
          | [] => Some (ty_of_tdet vt)
          | _ => match td_item vt, td_obj vt with
                 | IObject, Some tr => match resolve_path s tr path with TOk td => Some (ty_of_tdet td) | _ => None end
                 | _, _ => None
                 end
          end
        | _ => None
        end
      else None
    | None => None
    end
  end.

Definition is_lit (o : operand) : bool := match o with OLit _ => true | _ => false end.

Definition list_nat_eqb (a b : list nat) : bool :=
  Nat.eqb (length a) (length b) && forallb (fun p => Nat.eqb (fst p) (snd p)) (combine a b).

(* do two literals denote the same JSON value?  (the renderer derives the value from shape and tag:
   null and [] ignore the tag, booleans use its parity) *)
Definition lit_same_value (x y : lit) : bool :=
  ishape_eqb (l_shape x) (l_shape y) &&
  match l_shape x with
  | SNull | SEmpty | SMixed | SNulls | SNested | SObj => true
  | SBool | SBools => Bool.eqb (Nat.even (l_tag x)) (Nat.even (l_tag y))
  | _ => Nat.eqb (l_tag x) (l_tag y)
  end.

Definition operand_eqb (a b : operand) : bool :=
  match a, b with
  | OAct x p, OAct y q => ref_eqb x y && list_nat_eqb p q
  | OVar x p, OVar y q => Nat.eqb x y && list_nat_eqb p q
  | OLit x, OLit y => lit_same_value x y
  | _, _ => false
  end.

Definition dep_eqb (a b : dep) : bool :=
  match a, b with
  | DCmp l o r, DCmp l' o' r' => operand_eqb l l' && cop_eqb o o' && operand_eqb r r'
  | DRef c, DRef c' => ref_eqb c c'
  | _, _ => false
  end.

(* equality of dependency lists as multisets *)
Fixpoint remove_first (d : dep) (l : list dep) : option (list dep) :=
  match l with
  | [] => None
  | x :: r => if dep_eqb d x then Some r else match remove_first d r with Some r' => Some (x :: r') | None => None end
  end.
Fixpoint msub (a b : list dep) : bool :=
  match a with
  | [] => true
  | x :: r => match remove_first x b with Some b' => msub r b' | None => false end
  end.
Definition deps_same (a b : list dep) : bool := Nat.eqb (length a) (length b) && msub a b.

Definition gate_opt_eqb (a b : option gate) : bool :=
  match a, b with Some x, Some y => gate_eqb x y | None, None => true | _, _ => false end.

(* the composite uniqueness key of checkpoints: gate type and the SET of dependencies *)
Definition composite_eqb (c1 c2 : checkpoint) : bool :=
  gate_opt_eqb (cp_gate c1) (cp_gate c2) && deps_same (cp_deps c1) (cp_deps c2).

Fixpoint nodup_by {A} (eqb : A -> A -> bool) (l : list A) : bool :=
  match l with [] => true | x :: r => negb (existsb (eqb x) r) && nodup_by eqb r end.

Definition comparison_ok (cmp : ty -> cop -> ty -> bool) (s : schema) (cctx : option nat) (l : operand) (o : cop) (r : operand) : bool :=
  negb (is_lit l && is_lit r) && negb (operand_eqb l r) &&
  match operand_type s cctx l, operand_type s cctx r with
  | Some tl, Some tr => cmp tl o tr
  | _, _ => false
  end.

(* ------------------------------------------------------------------ checkpoints *)
Definition operand_refs_ok (s : schema) (o : operand) : bool :=
  match o with OAct a _ => ref_ok s RAction a | _ => true end.

Definition operand_scope_ok (s : schema) (cctx : option nat) (o : operand) : bool :=
  match o with
  | OAct a _ => match find_action s (r_id a) with
                | Some act => ctx_sees s cctx (ctx_group (a_ctx act))
                | None => true end
  | _ => true
  end.

Definition dep_ok (cmp : ty -> cop -> ty -> bool) (s : schema) (cp : checkpoint) (d : dep) : bool :=
  let cctx := ctx_group (cp_ctx cp) in
  match d with
  | DCmp l o r =>
    operand_refs_ok s l && operand_refs_ok s r &&
    comparison_ok cmp s cctx l o r &&
    operand_scope_ok s cctx l && operand_scope_ok s cctx r
  | DRef c =>
    ref_ok s RCheckpoint c &&
    match find_checkpoint s (r_id c) with
    | Some c' => ctx_sees s cctx (ctx_group (cp_ctx c'))
    | None => true end
  end.

Definition cp_referenced (s : schema) (c : nat) : bool :=
  existsb (fun a => mem_nat c (own_cp (a_dep a))) (actions s)
  || existsb (fun g => mem_nat c (own_cp (g_dep g))) (groups s)
  || existsb (fun cp => existsb (fun d => match d with DRef r => mem_nat c (own_cp (Some r)) | _ => false end) (cp_deps cp)) (checkpoints s).

Definition gate_shape_ok (cp : checkpoint) : bool :=
  match cp_deps cp, cp_gate cp with
  | [], _ => false
  | [DRef _], _ => false
  | [_], None => true
  | [_], Some _ => false
  | _ :: _ :: _, Some _ => true
  | _ :: _ :: _, None => false
  end.

Definition checkpoint_ok (cmp : ty -> cop -> ty -> bool) (s : schema) (cp : checkpoint) : bool :=
  gate_shape_ok cp &&
  oref_ok s RGroup (cp_ctx cp) &&
  forallb (dep_ok cmp s cp) (cp_deps cp) &&
  cp_referenced s (cp_id cp).

(* ------------------------------------------------------------------ depends_on scope (actions and thread groups) *)
Definition depends_scope_ok (s : schema) (holder_ctx : option nat) (d : option ref) : bool :=
  match d with
  | None => true
  | Some r =>
    match find_checkpoint s (r_id r) with
    | Some cp => ctx_sees s holder_ctx (ctx_group (cp_ctx cp))
    | None => true
    end
  end.

(* ------------------------------------------------------------------ operations *)
Definition type_of_promise (s : schema) (p : nat) : option otype :=
  match find_promise s p with Some pr => find_type_ref s (pr_type pr) | None => None end.

Definition attr_names (t : otype) : list nat := map at_name (ot_attrs t).

Definition incl_list (i : inclusion) : list nat :=
  match i with Include (Some l) | Exclude (Some l) => l | _ => [] end.

(* attributes an operation makes settable *)
Definition settable_by (t : otype) (op : operation) : list nat :=
  (match op_incl op with
   | Include (Some l) => filter (fun n => mem_nat n (attr_names t)) l
   | Include None => []
   | Exclude None => attr_names t
   | Exclude (Some l) => filter (fun n => negb (mem_nat n l)) (attr_names t)
   end)
  ++ filter (fun n => mem_nat n (attr_names t)) (map fst (op_defaults op))
  ++ filter (fun n => match find_attr t n with Some a => match at_kind a with KEdge _ => true | _ => false end | None => false end)
            (map fst (op_edges op)).

Definition settable (s : schema) (p : nat) : list nat :=
  match type_of_promise s p with
  | None => []
  | Some t => flat_map (fun a => settable_by t (a_op a)) (actions_on s p)
  end.

Definition is_dependee (s : schema) (a : nat) : bool :=
  existsb (fun cp => existsb (fun d => match d with DCmp l _ r => mem_nat a (operand_action l ++ operand_action r) | _ => false end) (cp_deps cp))
          (checkpoints s).

(* does the JSON shape of a default value fit a field attribute of type t ?  (table from the code, T1) *)
Definition default_fits (tbl : list (ishape * ty * bool)) (sh : ishape) (t : ty) : bool :=
  existsb (fun e => let '(sh', t', b) := e in ishape_eqb sh sh' && ty_eqb t t' && b) tbl.

Definition action_op_ok (tbl : list (ishape * ty * bool)) (s : schema) (a : action) : bool :=
  match promise_of a with
  | None => true
  | Some p =>
    match type_of_promise s p with
    | None => true            (* reported by the reference rules *)
    | Some t =>
      let op := a_op a in
      forallb (fun n => mem_nat n (attr_names t)) (incl_list (op_incl op)) &&
      match fulfiller s p with
      | None => true          (* reported by the lifecycle rule *)
      | Some f =>
        if Nat.eqb (a_id f) (a_id a) then
          (* CREATE *)
          forallb (fun d => match find_attr t (fst d) with
                            | Some at_ => match at_kind at_ with
                                          | KField ft => default_fits tbl (snd d) ft
                                          | _ => false end
                            | None => false end) (op_defaults op) &&
          forallb (fun e => match find_attr t (fst e) with
                            | Some at_ =>
                              match at_kind at_ with
                              | KEdge tgt =>
                                ref_ok s RPromise (snd e) &&
                                match find_promise s (r_id (snd e)) with
                                | Some q =>
                                  ref_eqb (pr_type q) tgt &&
                                  match fulfiller s (pr_id q) with
                                  | Some fq => is_ancestor s (a_id a) (a_id fq)
                                  | None => false end
                                | None => false end
                              | _ => false end
                            | None => false end) (op_edges op) &&
          match op_appends op with
          | None => true
          | Some (q, path) =>
            ref_ok s RPromise q &&
            match fulfiller s (r_id q) with
            | Some fq => guaranteed_ancestor s a (a_id fq)
            | None => false end &&
            match promise_path_type s (ctx_group (a_ctx a)) (r_id q) path with
            | TOk td => td_list td && item_eqb (td_item td) IObject &&
                        match td_obj td, find_promise s p with
                        | Some tr, Some pr => ref_eqb tr (pr_type pr)
                        | _, _ => false end
            | _ => false end &&
            negb (mem_nat (last path 0) (settable s (r_id q))) &&
            negb (is_dependee s (a_id a)) &&
            match promise_context s (r_id q) with
            | Some qc => opt_nat_eqb (ctx_group (a_ctx a)) qc
            | None => opt_nat_eqb (ctx_group (a_ctx a)) None
            end
          end
        else
          (* EDIT *)
          match op_defaults op, op_edges op, op_appends op with
          | [], [], None => true
          | _, _, _ => false
          end &&
          is_ancestor s (a_id a) (a_id f) &&
          opt_nat_eqb (ctx_group (a_ctx a)) (ctx_group (a_ctx f))
      end
    end
  end.

Definition action_ok (tbl : list (ishape * ty * bool)) (s : schema) (a : action) : bool :=
  ref_ok s RParty (a_party a) &&
  ref_ok s RPromise (a_promise a) &&
  oref_ok s RGroup (a_ctx a) &&
  oref_ok s RCheckpoint (a_dep a) &&
  depends_scope_ok s (ctx_group (a_ctx a)) (a_dep a) &&
  action_op_ok tbl s a.

(* ------------------------------------------------------------------ thread groups *)
Definition group_used (s : schema) (g : nat) : bool :=
  existsb (fun a => opt_nat_eqb (ctx_group (a_ctx a)) (Some g)) (actions s)
  || existsb (fun h => opt_nat_eqb (ctx_group (g_ctx h)) (Some g)) (groups s).

(* groups strictly nested inside g *)
Definition nested_in (s : schema) (g : nat) : list tgroup :=
  filter (fun h => negb (Nat.eqb (g_id h) g) && has_access s (g_id h) g) (groups s).

Definition group_ok (s : schema) (g : tgroup) : bool :=
  oref_ok s RGroup (g_ctx g) &&
  oref_ok s RCheckpoint (g_dep g) &&
  isSome (scope s (g_id g)) &&
  depends_scope_ok s (ctx_group (g_ctx g)) (g_dep g) &&
  group_used s (g_id g) &&
  (* spawn source: list-valued, and fulfilled by an ancestor / provided by an enclosing variable *)
  match g_src g with
  | SpPromise p _ =>
    ref_ok s RPromise p &&
    match fulfiller s (r_id p) with
    | Some f => mem_nat (a_id f) (group_ancestors s (g_id g))
    | None => false end
  | SpVar _ _ => true
  end &&
  match var_type s (fuel_of s) (g_id g) with TOk _ => true | _ => false end &&
  (* no variable name repeats along a nesting chain *)
  match scope s (g_id g) with
  | Some l => negb (existsb (fun g' => negb (Nat.eqb g' (g_id g)) &&
                                       match find_group s g' with Some h => Nat.eqb (g_var h) (g_var g) | None => false end) l)
  | None => false
  end.

(* ------------------------------------------------------------------ object types, parties *)
Definition attr_ok (s : schema) (a : attr) : bool :=
  match at_kind a with
  | KField t => isSome (field_item t)
  | KEdge tgt | KEdgeColl tgt => ref_ok s RType tgt
  end.

Definition otype_ok (s : schema) (t : otype) : bool :=
  negb (Nat.eqb (length (ot_attrs t)) 0) && nodup_nat (attr_names t) && forallb (attr_ok s) (ot_attrs t).

Definition promise_refs_ok (s : schema) (p : promise) : bool :=
  ref_ok s RType (pr_type p) && oref_ok s RGroup (pr_ctx p).

(* ------------------------------------------------------------------ uniqueness of identifiers *)
Definition unique_ids (s : schema) : bool :=
  nodup_nat (map pa_id (parties s)) && nodup_nat (map pa_name (parties s)) &&
  nodup_nat (map ot_id (otypes s)) && nodup_nat (map ot_name (otypes s)) &&
  nodup_nat (map pr_id (promises s)) && nodup_nat (map pr_name (promises s)) &&
  nodup_nat (map a_id (actions s)) && nodup_nat (map a_name (actions s)) &&
  nodup_nat (flat_map a_milestones (actions s)) &&
  nodup_nat (map cp_id (checkpoints s)) && nodup_nat (map cp_alias (checkpoints s)) &&
  nodup_by composite_eqb (checkpoints s) &&
  nodup_nat (map g_id (groups s)) && nodup_nat (map g_name (groups s)).

(* ------------------------------------------------------------------ the verdict *)
Definition conforms_with (cmp : ty -> cop -> ty -> bool) (tbl : list (ishape * ty * bool)) (s : schema) : bool :=
  unique_ids s &&
  forallb (otype_ok s) (otypes s) &&
  forallb (fun p => promise_refs_ok s p && promise_ok s p) (promises s) &&
  forallb (action_ok tbl s) (actions s) &&
  forallb (checkpoint_ok cmp s) (checkpoints s) &&
  forallb (group_ok s) (groups s) &&
  negb (has_cycle s).

(* the specification's verdict *)
Definition conforms := conforms_with Cmp.

(* known finding C04-string-contains-string: the implementation additionally accepts substring containment *)
Definition Cmp_kf (l : ty) (o : cop) (r : ty) : bool :=
  Cmp l o r || (ty_eqb l STRING && ty_eqb r STRING && match o with CONTAINS | DOES_NOT_CONTAIN => true | _ => false end).
Definition conforms_kf := conforms_with Cmp_kf.
