(* Imports (property C16).
   An importing schema consists of a native schema and a list of imports; each import names a file whose
   schema is validated in isolation, and connections that add a native checkpoint to the dependencies of an
   imported action or checkpoint.  Namespacing is modelled as an injective renumbering: the entities of the
   k-th import live in the id range [base_k, base_k + OFF), and the native schema refers to them by those
   shifted ids (the renderer writes `schema:{file}.kind:id`).  [combine] is the model of
   _namespace_imported_references + _stitch_imported_schemas: the combined schema on which the semantic
   rules and the cycle search run. *)
From Coq Require Import List Bool Arith.
From OIS Require Import Base.Types Base.PipeTypes Spec.Compare Model.Schema Model.Rules.
Import ListNotations.

Definition OFF : nat := 1000.

(* ------------------------------------------------------------------ shifting a schema by d *)
Definition sh_ref (d : nat) (r : ref) : ref := Ref (r_kind r) (d + r_id r).
Definition sh_oref (d : nat) (r : option ref) : option ref := option_map (sh_ref d) r.

Definition sh_akind (d : nat) (k : akind) : akind :=
  match k with KField t => KField t | KEdge r => KEdge (sh_ref d r) | KEdgeColl r => KEdgeColl (sh_ref d r) end.

Definition sh_operand (d : nat) (o : operand) : operand :=
  match o with
  | OAct a p => OAct (sh_ref d a) p
  | OVar g p => OVar (d + g) p
  | OLit l => OLit l
  end.

Definition sh_dep (d : nat) (x : dep) : dep :=
  match x with DCmp l o r => DCmp (sh_operand d l) o (sh_operand d r) | DRef c => DRef (sh_ref d c) end.

Definition sh_op (d : nat) (o : operation) : operation :=
  {| op_incl := op_incl o; op_defaults := op_defaults o;
     op_edges := map (fun e => (fst e, sh_ref d (snd e))) (op_edges o);
     op_appends := option_map (fun a => (sh_ref d (fst a), snd a)) (op_appends o) |}.

Definition sh_src (d : nat) (x : spawn_src) : spawn_src :=
  match x with SpPromise p path => SpPromise (sh_ref d p) path | SpVar g path => SpVar (d + g) path end.

Definition shift (d : nat) (s : schema) : schema :=
  {| parties := map (fun p => {| pa_id := d + pa_id p; pa_name := d + pa_name p |}) (parties s);
     otypes := map (fun t => {| ot_id := d + ot_id t; ot_name := d + ot_name t;
                                ot_attrs := map (fun a => {| at_name := at_name a; at_kind := sh_akind d (at_kind a) |}) (ot_attrs t) |}) (otypes s);
     promises := map (fun p => {| pr_id := d + pr_id p; pr_name := d + pr_name p; pr_type := sh_ref d (pr_type p); pr_ctx := sh_oref d (pr_ctx p) |}) (promises s);
     actions := map (fun a => {| a_id := d + a_id a; a_name := d + a_name a; a_party := sh_ref d (a_party a); a_promise := sh_ref d (a_promise a);
                                 a_ctx := sh_oref d (a_ctx a); a_dep := sh_oref d (a_dep a); a_op := sh_op d (a_op a);
                                 a_milestones := [] (* milestones are unique per schema file, not across imports *) |}) (actions s);
     checkpoints := map (fun c => {| cp_id := d + cp_id c; cp_alias := d + cp_alias c; cp_gate := cp_gate c;
                                     cp_deps := map (sh_dep d) (cp_deps c); cp_ctx := sh_oref d (cp_ctx c) |}) (checkpoints s);
     groups := map (fun g => {| g_id := d + g_id g; g_name := d + g_name g; g_ctx := sh_oref d (g_ctx g); g_dep := sh_oref d (g_dep g);
                                g_src := sh_src d (g_src g); g_var := d + g_var g |}) (groups s) |}.

(* ------------------------------------------------------------------ connections *)
Record conn := { cn_to : ref;      (* action or checkpoint of the imported schema (its own, unshifted id) *)
                 cn_add : ref }.   (* checkpoint of the native schema *)
Record import := { im_base : nat;  (* id range of this import: a positive multiple of OFF, distinct per import *)
                   im_readable : bool; (* the file exists and parses *)
                   im_schema : schema; im_conns : list conn }.

Definition union (a b : schema) : schema :=
  {| parties := parties a ++ parties b; otypes := otypes a ++ otypes b; promises := promises a ++ promises b;
     actions := actions a ++ actions b; checkpoints := checkpoints a ++ checkpoints b; groups := groups a ++ groups b |}.

Definition set_action_dep (s : schema) (a : nat) (d : ref) : schema :=
  {| parties := parties s; otypes := otypes s; promises := promises s;
     actions := map (fun x => if Nat.eqb (a_id x) a then
                                {| a_id := a_id x; a_name := a_name x; a_party := a_party x; a_promise := a_promise x; a_ctx := a_ctx x;
                                   a_dep := Some d; a_op := a_op x; a_milestones := a_milestones x |} else x) (actions s);
     checkpoints := checkpoints s; groups := groups s |}.

Definition add_checkpoint (s : schema) (c : checkpoint) : schema :=
  {| parties := parties s; otypes := otypes s; promises := promises s; actions := actions s;
     checkpoints := checkpoints s ++ [c]; groups := groups s |}.

Definition set_checkpoint (s : schema) (i : nat) (gate : option gate) (deps : list dep) : schema :=
  {| parties := parties s; otypes := otypes s; promises := promises s; actions := actions s;
     checkpoints := map (fun c => if Nat.eqb (cp_id c) i then
                                    {| cp_id := cp_id c; cp_alias := cp_alias c; cp_gate := gate; cp_deps := deps; cp_ctx := cp_ctx c |} else c) (checkpoints s);
     groups := groups s |}.

(* fresh ids for stitched checkpoints: above everything in use *)
Definition STITCH : nat := 900.

(* apply one connection of import [im]; [n] numbers the stitched checkpoints *)
Definition stitch_one (base : nat) (s : schema) (n : nat) (c : conn) : schema :=
  let target := base + r_id (cn_to c) in
  let fresh := base + STITCH + n in
  match r_kind (cn_to c) with
  | RAction =>
    match find_action s target with
    | None => s
    | Some a =>
      match a_dep a with
      | None => set_action_dep s target (cn_add c)
      | Some old =>
        let s1 := add_checkpoint s {| cp_id := fresh; cp_alias := fresh; cp_gate := Some G_AND;
                                      cp_deps := [DRef (cn_add c); DRef old]; cp_ctx := None |} in
        set_action_dep s1 target (Ref RCheckpoint fresh)
      end
    end
  | RCheckpoint =>
    match find_checkpoint s target with
    | None => s
    | Some t =>
      let s1 := add_checkpoint s {| cp_id := fresh; cp_alias := fresh; cp_gate := cp_gate t; cp_deps := cp_deps t; cp_ctx := None |} in
      set_checkpoint s1 target (Some G_AND) [DRef (Ref RCheckpoint fresh); DRef (cn_add c)]
    end
  | _ => s
  end.

Fixpoint stitch_all (base : nat) (s : schema) (n : nat) (cs : list conn) : schema :=
  match cs with [] => s | c :: r => stitch_all base (stitch_one base s n c) (S n) r end.

Definition combine (native : schema) (ims : list import) : schema :=
  fold_left (fun s im => stitch_all (im_base im) (union s (shift (im_base im) (im_schema im))) 0 (im_conns im)) ims native.

(* ------------------------------------------------------------------ verdict *)
Definition conn_ok (native : schema) (im : import) (c : conn) : bool :=
  (* the target is an action or a checkpoint of the imported schema *)
  match r_kind (cn_to c) with
  | RAction => isSome (find_action (im_schema im) (r_id (cn_to c)))
  | RCheckpoint => isSome (find_checkpoint (im_schema im) (r_id (cn_to c)))
  | _ => false
  end &&
  (* the added dependency is a checkpoint of the native schema *)
  rkind_eqb (r_kind (cn_add c)) RCheckpoint && isSome (find_checkpoint native (r_id (cn_add c))).

Definition import_ok (cmp : ty -> cop -> ty -> bool) (tbl : list (ishape * ty * bool)) (native : schema) (im : import) : bool :=
  im_readable im &&
  conforms_with cmp tbl (im_schema im) &&
  forallb (conn_ok native im) (im_conns im) &&
  nodup_by ref_eqb (map cn_to (im_conns im)).

Definition bases_ok (ims : list import) : bool :=
  nodup_nat (map im_base ims) && forallb (fun im => negb (Nat.eqb (im_base im) 0) && Nat.eqb (Nat.modulo (im_base im) OFF) 0) ims.

Definition conforms_i_with (cmp : ty -> cop -> ty -> bool) (tbl : list (ishape * ty * bool)) (native : schema) (ims : list import) : bool :=
  bases_ok ims &&
  forallb (import_ok cmp tbl native) ims &&
  conforms_with cmp tbl (combine native ims).

Definition conforms_i := conforms_i_with Cmp.
Definition conforms_i_kf := conforms_i_with Cmp_kf.
