(* Abstract syntax of workflow schemas ("scenarios").
   Entities are identified by natural numbers; a reference names a kind and an id.  How a reference is
   spelled in the JSON document (by id or by alias), in which order arrays are listed, which optional
   descriptive properties are present and how names look are choices of the renderer
   (harness/render.py), invisible here: the model's verdict cannot depend on them, which is what
   properties C14 and C15 require of the implementation. *)
From Coq Require Import List Bool Arith.
From OIS Require Import Base.Types Base.PipeTypes.
Import ListNotations.

Inductive rkind := RParty | RType | RPromise | RAction | RCheckpoint | RGroup.
Definition rkind_eqb (a b : rkind) : bool :=
  match a, b with
  | RParty, RParty | RType, RType | RPromise, RPromise | RAction, RAction
  | RCheckpoint, RCheckpoint | RGroup, RGroup => true
  | _, _ => false end.
Lemma rkind_eqb_eq a b : rkind_eqb a b = true <-> a = b.
Proof. destruct a, b; simpl; split; congruence. Qed.

Record ref := Ref { r_kind : rkind; r_id : nat }.
Definition ref_eqb (a b : ref) : bool := rkind_eqb (r_kind a) (r_kind b) && Nat.eqb (r_id a) (r_id b).
Lemma ref_eqb_eq a b : ref_eqb a b = true <-> a = b.
Proof.
  destruct a as [ka ia], b as [kb ib]; unfold ref_eqb; simpl.
  rewrite andb_true_iff, rkind_eqb_eq, Nat.eqb_eq. split; [intros [-> ->]; reflexivity | intros H; inversion H; auto].
Qed.

Inductive gate := G_AND | G_OR | G_XOR | G_NAND | G_NOR.
Definition gate_eqb (a b : gate) : bool :=
  match a, b with G_AND, G_AND | G_OR, G_OR | G_XOR, G_XOR | G_NAND, G_NAND | G_NOR, G_NOR => true | _, _ => false end.

(* attributes: a field of one of the six field types, an edge, or an edge collection *)
Inductive akind := KField (t : ty) | KEdge (target : ref) | KEdgeColl (target : ref).
Record attr := { at_name : nat; at_kind : akind }.
Record otype := { ot_id : nat; ot_name : nat; ot_attrs : list attr }.
Record party := { pa_id : nat; pa_name : nat }.
Record promise := { pr_id : nat; pr_name : nat; pr_type : ref; pr_ctx : option ref }.

(* literal operands: JSON shape plus a tag distinguishing different values of one shape *)
Record lit := Lit { l_shape : ishape; l_tag : nat }.

Inductive operand :=
  | OAct (a : ref) (path : list nat)      (* action:<a>.object_promise.<path> *)
  | OVar (g : nat) (path : list nat)      (* the thread variable declared by thread group g, then a path *)
  | OLit (l : lit).

Inductive dep :=
  | DCmp (l : operand) (o : cop) (r : operand)
  | DRef (c : ref).

Record checkpoint := { cp_id : nat; cp_alias : nat; cp_gate : option gate; cp_deps : list dep; cp_ctx : option ref }.

Inductive inclusion := Include (l : option (list nat)) | Exclude (l : option (list nat)).
Record operation := {
  op_incl : inclusion;
  op_defaults : list (nat * ishape);          (* default_values: attribute name -> shape of the value *)
  op_edges : list (nat * ref);                (* default_edges: attribute name -> object promise *)
  op_appends : option (ref * list nat)        (* appends_objects_to: object promise + path *)
}.

Record action := {
  a_id : nat; a_name : nat; a_party : ref; a_promise : ref; a_ctx : option ref; a_dep : option ref;
  a_op : operation; a_milestones : list nat
}.

(* spawn source of a thread group *)
Inductive spawn_src :=
  | SpPromise (p : ref) (path : list nat)     (* object_promise:<p>.<path> *)
  | SpVar (g : nat) (path : list nat).        (* $var of group g, then a path *)

Record tgroup := {
  g_id : nat; g_name : nat; g_ctx : option ref; g_dep : option ref; g_src : spawn_src; g_var : nat (* variable name *)
}.

Record schema := {
  parties : list party;
  otypes : list otype;
  promises : list promise;
  actions : list action;
  checkpoints : list checkpoint;
  groups : list tgroup
}.

(* ------------------------------------------------------------------ lookups (first match, as the code) *)
Definition find_type (s : schema) (i : nat) := find (fun t => Nat.eqb (ot_id t) i) (otypes s).
Definition find_promise (s : schema) (i : nat) := find (fun p => Nat.eqb (pr_id p) i) (promises s).
Definition find_action (s : schema) (i : nat) := find (fun a => Nat.eqb (a_id a) i) (actions s).
Definition find_checkpoint (s : schema) (i : nat) := find (fun c => Nat.eqb (cp_id c) i) (checkpoints s).
Definition find_group (s : schema) (i : nat) := find (fun g => Nat.eqb (g_id g) i) (groups s).
Definition find_party (s : schema) (i : nat) := find (fun p => Nat.eqb (pa_id p) i) (parties s).
Definition find_attr (t : otype) (n : nat) := find (fun a => Nat.eqb (at_name a) n) (ot_attrs t).

Definition isSome {A} (o : option A) : bool := match o with Some _ => true | None => false end.

(* does a reference denote an entity of its kind? *)
Definition denotes (s : schema) (r : ref) : bool :=
  match r_kind r with
  | RParty => isSome (find_party s (r_id r))
  | RType => isSome (find_type s (r_id r))
  | RPromise => isSome (find_promise s (r_id r))
  | RAction => isSome (find_action s (r_id r))
  | RCheckpoint => isSome (find_checkpoint s (r_id r))
  | RGroup => isSome (find_group s (r_id r))
  end.

Definition mem_nat (x : nat) (l : list nat) : bool := existsb (Nat.eqb x) l.
Fixpoint nodup_nat (l : list nat) : bool :=
  match l with [] => true | x :: r => negb (mem_nat x r) && nodup_nat r end.
