(* Executable model of visualization/dependency_chart_layout.py
   (DependencyChartLayout.from_graph_data, with _apply_depth_offsets = False, which is the only value the
   class ever gives it).  No proofs here: see Proofs/LayoutDepth.v, Proofs/LayoutPlace.v.

   Modelling decisions (each one is exercised by the correspondence generator harness/corr/layout.py):
   - node ids are [nat] (the caller uses strings; only equality of ids is ever used by the algorithm);
   - the input is [nodes] (node_ids) and [edges] (edge_tuples); edge_dict is DERIVED exactly as
     DependencyGraph._add_edge builds it:  edge_dict[n] = [b for (a,b) in edge_tuples if a == n]  ([succs]);
     "n in edge_dict" is then "succs n <> []", and iterating an empty list is a no-op, so the test is dropped;
   - python dicts keep insertion order and an assignment to an existing key keeps its position:
     node_depths is the association list [dmap] with [dset] = update in place / append;
     node_coordinates is the association list [coords]; the nodes of a column are fresh keys and the
     [while True] loop re-assigns the same keys in the same order, so one iteration's assignments are
     "previous coordinates ++ place column";
   - [columns = {depth: [] for depth in set(node_depths.values())}]: a CPython set of small non-negative
     ints iterates in ascending order (an int hashes to itself and the table is larger than the largest
     element here since the depths present are 0..max); modelled as ascending order of the depths present;
     [reversed(columns.items())] therefore runs from the deepest column to depth 0;
   - [sorted(column, key=score)] is a stable sort: stable insertion sort [sort_by];
   - y coordinates are floats that are always multiples of 0.5: modelled as the integer 2*y (Z);
     x = -depth is an int: modelled as Z;
   - node_height = 2 and node_spacing = 1 (the defaults, which are also what DependencyGraph passes) are
     FIXED in the model as the constants [node_height], [node_spacing];
   - the recursion of _calculate_node_depths_recursive is modelled with fuel = recursion depth
     (fuel S (length nodes); proved sufficient on acyclic graphs);  python's own recursion limit
     (about 1000 frames) is not modelled;
   - the [while True] offset loop is modelled with fuel S (number of (node, dependency) pairs of the
     column) (proved sufficient);
   - score: the python loop adds to score[node] the y of the first node d, scanning the already placed
     columns from the most recent one backwards and each column in its stored order, such that
     d in edge_dict[node]; nodes are then removed from not_weighted, so nothing else is ever added:
     score node = y (first such d) or 0;
   - node_coordinates[d] for a d that has no coordinate would raise KeyError in python; the model returns
     y = 0 ([ycoord] default).  This is unreachable whenever the depth computation terminates (every
     dependency of a placed node lies in a deeper, earlier placed column; proved in LayoutPlace.v). *)
From Coq Require Import List Arith ZArith Bool Lia.
Import ListNotations.

Definition node_height : Z := 2%Z.
Definition node_spacing : Z := 1%Z.

Definition memb (x : nat) (l : list nat) : bool := existsb (Nat.eqb x) l.

(* ---------------------------------------------------------------- graph input *)
(* edge_dict[n] *)
Definition succs (edges : list (nat * nat)) (n : nat) : list nat :=
  map snd (filter (fun e => Nat.eqb (fst e) n) edges).

(* _find_exit_nodes *)
Definition exit_nodes (nodes : list nat) (edges : list (nat * nat)) : list nat :=
  filter (fun n => negb (memb n (map snd edges))) nodes.

(* ---------------------------------------------------------------- node_depths *)
Definition dmap := list (nat * nat).

Fixpoint dget (m : dmap) (k : nat) : option nat :=
  match m with
  | [] => None
  | (k', v) :: m' => if Nat.eqb k k' then Some v else dget m' k
  end.

Fixpoint dset (m : dmap) (k v : nat) : dmap :=
  match m with
  | [] => [(k, v)]
  | (k', v') :: m' => if Nat.eqb k k' then (k', v) :: m' else (k', v') :: dset m' k v
  end.

(* _calculate_node_depths_recursive(node_id, depth): fuel bounds the recursion depth *)
Fixpoint depths_rec (edges : list (nat * nat)) (fuel : nat) (node depth : nat) (m : dmap) : option dmap :=
  match fuel with
  | 0 => None
  | S f =>
    (fix loop (l : list nat) (m : dmap) : option dmap :=
       match l with
       | [] => Some m
       | e :: l' =>
         let go := match dget m e with None => true | Some de => Nat.ltb de (S depth) end in
         if go then
           match depths_rec edges f e (S depth) (dset m e (S depth)) with
           | None => None
           | Some m' => loop l' m'
           end
         else loop l' m
       end) (succs edges node) m
  end.

(* the inner loop, named (convertible with the nested fix above) *)
Definition depths_loop (edges : list (nat * nat)) (f : nat) (depth : nat) :=
  fix loop (l : list nat) (m : dmap) : option dmap :=
    match l with
    | [] => Some m
    | e :: l' =>
      let go := match dget m e with None => true | Some de => Nat.ltb de (S depth) end in
      if go then
        match depths_rec edges f e (S depth) (dset m e (S depth)) with
        | None => None
        | Some m' => loop l' m'
        end
      else loop l' m
    end.

(* _calculate_node_depths: for exit_node in exit_nodes: node_depths[exit_node] = 0; recurse *)
Fixpoint depths_from (edges : list (nat * nat)) (fuel : nat) (exits : list nat) (m : dmap) : option dmap :=
  match exits with
  | [] => Some m
  | e :: es =>
    match depths_rec edges fuel e 0 (dset m e 0) with
    | None => None
    | Some m' => depths_from edges fuel es m'
    end
  end.

Definition node_depths (nodes : list nat) (edges : list (nat * nat)) : option dmap :=
  depths_from edges (S (length nodes)) (exit_nodes nodes edges) [].

(* ---------------------------------------------------------------- columns *)
Definition max_depth (m : dmap) : nat := fold_right Nat.max 0 (map snd m).

Definition column_of (m : dmap) (d : nat) : list nat :=
  map fst (filter (fun kv => Nat.eqb (snd kv) d) m).

Definition is_nil {A} (l : list A) : bool := match l with [] => true | _ => false end.

(* columns.items(), ascending depth; only depths that occur *)
Definition columns (m : dmap) : list (nat * list nat) :=
  filter (fun c => negb (is_nil (snd c)))
         (map (fun d => (d, column_of m d)) (seq 0 (S (max_depth m)))).

(* ---------------------------------------------------------------- node_coordinates *)
Definition coords := list (nat * (Z * Z)).

Fixpoint cget (c : coords) (k : nat) : option (Z * Z) :=
  match c with
  | [] => None
  | (k', v) :: c' => if Nat.eqb k k' then Some v else cget c' k
  end.

Definition ycoord (c : coords) (k : nat) : Z :=
  match cget c k with Some (_, y) => y | None => 0%Z end.

(* ---------------------------------------------------------------- _sort_column_by_dependents *)
Definition score (edges : list (nat * nat)) (prev : list (list nat)) (c : coords) (n : nat) : Z :=
  match find (fun d => memb d (succs edges n)) (concat (rev prev)) with
  | Some d => ycoord c d
  | None => 0%Z
  end.

Fixpoint insert_by (key : nat -> Z) (x : nat) (l : list nat) : list nat :=
  match l with
  | [] => [x]
  | y :: l' => if Z.leb (key x) (key y) then x :: y :: l' else y :: insert_by key x l'
  end.

(* stable: an element is inserted before the elements to its right that have an equal key *)
Fixpoint sort_by (key : nat -> Z) (l : list nat) : list nat :=
  match l with
  | [] => []
  | x :: l' => insert_by key x (sort_by key l')
  end.

Definition sort_column (edges : list (nat * nat)) (prev : list (list nat)) (c : coords)
           (column : list nat) : list nat :=
  if Nat.ltb (length column) 2 then column
  else sort_by (score edges prev c) column.

(* ---------------------------------------------------------------- _has_definite_edge_overlap *)
Definition has_overlap (edges : list (nat * nat)) (prev : list (list nat)) (col : list nat)
           (c : coords) : bool :=
  if Nat.ltb (length prev) 2 then false
  else
    existsb (fun n =>
      existsb (fun d =>
        negb (memb d (last prev []))
        && Z.eqb (ycoord c d) (ycoord c n)
        && existsb (fun cl =>
             negb (memb d cl) && existsb (fun x => Z.eqb (ycoord c x) (ycoord c d)) cl) prev)
        (succs edges n)) col.

(* ---------------------------------------------------------------- placing one column *)
(* for node_id in sorted_column: node_coordinates[node_id] = (-depth, y); y += node_height + node_spacing
   (y counted in halves, hence the factor 2) *)
Fixpoint place (depth : nat) (col : list nat) (y : Z) : coords :=
  match col with
  | [] => []
  | n :: col' => (n, ((- Z.of_nat depth)%Z, y)) :: place depth col' (y + 2 * (node_height + node_spacing))%Z
  end.

(* while True: y = -column_height / 2 + column_offset; place; if overlap: column_offset += node_spacing *)
Fixpoint offset_loop (fuel : nat) (edges : list (nat * nat)) (prev : list (list nat)) (col : list nat)
         (depth : nat) (c : coords) (column_height off : Z) : option (Z * coords) :=
  match fuel with
  | 0 => None
  | S f =>
    let c' := c ++ place depth col (- column_height + 2 * off)%Z in
    if has_overlap edges prev col c'
    then offset_loop f edges prev col depth c column_height (off + node_spacing)%Z
    else Some (off, c')
  end.

(* state of the main loop: sorted_columns, column_offset, node_coordinates *)
Definition lstate := (list (list nat) * Z * coords)%type.

Definition adjust_offset (node_count prev_count : nat) (off : Z) : Z :=
  if Nat.ltb 1 node_count && Nat.ltb 1 prev_count
     && Nat.eqb (Nat.modulo node_count 2) (Nat.modulo prev_count 2)
  then (if Z.eqb off 0 then node_spacing else (- off)%Z)
  else off.

Definition pairs_count (edges : list (nat * nat)) (col : list nat) : nat :=
  length (flat_map (succs edges) col).

Definition layout_step (edges : list (nat * nat)) (st : lstate) (dc : nat * list nat) : option lstate :=
  let '(prev, off, c) := st in
  let (depth, column) := dc in
  let scol := sort_column edges prev c column in
  let n := Z.of_nat (length column) in
  let column_height := (node_height * n + node_spacing * (n - 1))%Z in
  let off1 := adjust_offset (length column) (length (last prev [])) off in
  match offset_loop (S (pairs_count edges scol)) edges prev scol depth c column_height off1 with
  | None => None
  | Some (off2, c') => Some (prev ++ [scol], off2, c')
  end.

Fixpoint layout_cols (edges : list (nat * nat)) (cols : list (nat * list nat)) (st : lstate) : option lstate :=
  match cols with
  | [] => Some st
  | dc :: cols' =>
    match layout_step edges st dc with
    | None => None
    | Some st' => layout_cols edges cols' st'
    end
  end.

Definition layout_of_depths (edges : list (nat * nat)) (m : dmap) : option coords :=
  match layout_cols edges (rev (columns m)) ([], 0%Z, []) with
  | None => None
  | Some (_, _, c) => Some c
  end.

(* from_graph_data: for each node (x, 2*y), in node_coordinates insertion order *)
Definition layout (nodes : list nat) (edges : list (nat * nat)) : option (list (nat * (Z * Z))) :=
  match node_depths nodes edges with
  | None => None
  | Some m => layout_of_depths edges m
  end.
