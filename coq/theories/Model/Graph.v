(* Executable model of the schema -> dependency graph extraction of visualization/dependency_graph.py
   (DependencyGraph.__init__, _json_schema_to_graph, _explore_edges_recursive, _add_edge, _resolve_ref,
   _set_node_coordinates up to the call of the layout).  No proofs here: see Proofs/GraphProofs.v.

   Input: an ABSTRACT schema (no strings).  harness/corr/graph.py renders an abstract schema into a full
   JSON document (every reference spelled by id or by alias at random), runs the real code on it and
   compares everything this model computes.

   Modelling decisions
   - an action is identified by its "id" (a_id); the graph node of an action is str(id): [NAct id];
   - a checkpoint is identified by its POSITION in schema["checkpoints"]; the graph node of a
     multi-dependency checkpoint is its alias: [NGate position] (aliases are unique in a valid schema,
     obj_specs root.checkpoints "unique": ["id","alias"]).  The code keeps both kinds of node in ONE string
     namespace (an alias may be spelled like an action id, e.g. alias "8" in small_example_schema.json);
     the model keeps them apart, the renderer never produces an alias that is the decimal spelling of an
     action id (reported separately as an observation about the implementation);
   - _resolve_ref(ref, collection, alias_field): a reference written by id or by alias resolves to the
     first object of the collection carrying that id / alias, and raises if there is none.  In the
     abstract schema a reference IS the thing referred to (checkpoint position, action id, party
     position); an unresolvable reference is a position / id that does not exist: outcome [Raise];
   - an operand of a comparison is [Some id] when action_ref_from_dependency_ref returns an action
     reference and [None] otherwise (literal, thread variable);
   - hash_sorted_object(obj): equality of hashes = equality of canonical forms.  [key] of a DCmp identifies
     the dependency OBJECT (two deps carry the same key iff their JSON objects are identical), [c_key] the
     checkpoint object.  A checkpoint object (has "alias","dependencies") is never identical to a
     dependency object (has "compare"): constructors [HCp] / [HDep];
   - dependency_hashes is a dict  dependent -> list of hashes  that is only ever tested for membership:
     modelled as the flat list [st_hashes] of (dependent, hash) pairs in insertion order;
   - self.actions / self.checkpoints / self.gates are dicts iterated in insertion order: lists;  a_id are
     distinct in a valid schema, so the dict  str(id) -> action  is the action list itself;
   - edge_tuples is modelled as the LABELLED list [st_edges] : (from, to, caption) where caption is the
     caption _add_edge appends to edge_captions[(from,to)] at that call (edge_tuples = map fst).  Every
     call of _add_edge in the code passes either a comparison (which always has left/right/operator in a
     schema the validator accepts) or a checkpoint (whose "description" is a required property):
     exactly one caption is appended per call.  The caption text is opaque: [CapDep key] / [CapCp c_key];
   - edge_dict and edge_captions are ALSO kept explicitly ([st_edict], [st_caps]: association lists with
     python dict semantics), filled exactly as _add_edge does;
   - a single-dependency checkpoint whose dependency is a checkpoint reference (rejected by
     validate_singular_dependency): the code records the hash of the reference object and adds nothing.
     That hash can only ever be compared with itself, again without effect: modelled as "no effect";
   - the recursion is modelled with fuel = number of nested calls allowed ([Fuel] outcome when exhausted);
     [build] gives S (number of checkpoints), which suffices whenever checkpoint nesting / action
     dependencies are acyclic (Proofs/GraphProofs.v);
   - supporting_info of actions / checkpoints only matters for the board: flags a_info / c_info. *)
From Coq Require Import List Arith Bool.
Import ListNotations.

Inductive gate := GAnd | GOr | GXor | GNand | GNor.

Record action := { a_id : nat; a_dep : option nat; a_party : option nat; a_info : bool }.

Inductive dep :=
  | DCmp (key : nat) (l r : option nat)
  | DRef (cp : nat).

Record checkpoint := { c_key : nat; c_gate : option gate; c_deps : list dep; c_info : bool }.

(* parties: [Some c] = declares hex_code number c, [None] = no hex_code *)
Record schema := { s_actions : list action; s_cps : list checkpoint; s_parties : list (option nat) }.

Inductive node := NAct (id : nat) | NGate (cp : nat).
Inductive hash := HCp (k : nat) | HDep (k : nat).
Inductive cap := CapDep (k : nat) | CapCp (k : nat).

Inductive outcome (A : Type) := Ok (a : A) | Raise | Fuel.
Arguments Ok {A} a.
Arguments Raise {A}.
Arguments Fuel {A}.

Definition bind {A B} (m : outcome A) (f : A -> outcome B) : outcome B :=
  match m with Ok a => f a | Raise => Raise | Fuel => Fuel end.

(* ---------------------------------------------------------------- decidable equalities *)
Definition gate_eqb (a b : gate) : bool :=
  match a, b with
  | GAnd, GAnd | GOr, GOr | GXor, GXor | GNand, GNand | GNor, GNor => true
  | _, _ => false
  end.

Definition node_eqb (a b : node) : bool :=
  match a, b with
  | NAct x, NAct y => Nat.eqb x y
  | NGate x, NGate y => Nat.eqb x y
  | _, _ => false
  end.

Definition hash_eqb (a b : hash) : bool :=
  match a, b with
  | HCp x, HCp y => Nat.eqb x y
  | HDep x, HDep y => Nat.eqb x y
  | _, _ => false
  end.

Definition cap_eqb (a b : cap) : bool :=
  match a, b with
  | CapDep x, CapDep y => Nat.eqb x y
  | CapCp x, CapCp y => Nat.eqb x y
  | _, _ => false
  end.

Definition tuple_eqb (a b : node * node) : bool :=
  node_eqb (fst a) (fst b) && node_eqb (snd a) (snd b).

(* ---------------------------------------------------------------- python dicts as association lists *)
Section Dict.
  Context {K V : Type} (keqb : K -> K -> bool).

  Fixpoint dget (m : list (K * V)) (k : K) : option V :=
    match m with
    | [] => None
    | (k', v) :: m' => if keqb k k' then Some v else dget m' k
    end.

  (* m[k] = v : an existing key keeps its position *)
  Fixpoint dset (m : list (K * V)) (k : K) (v : V) : list (K * V) :=
    match m with
    | [] => [(k, v)]
    | (k', v') :: m' => if keqb k k' then (k', v) :: m' else (k', v') :: dset m' k v
    end.
End Dict.

(* if k not in m: m[k] = [] ; m[k].append(x) *)
Definition dappend {K X} (keqb : K -> K -> bool) (m : list (K * list X)) (k : K) (x : X) : list (K * list X) :=
  match dget keqb m k with
  | None => dset keqb m k [x]
  | Some l => dset keqb m k (l ++ [x])
  end.

(* ---------------------------------------------------------------- state of the exploration *)
Record state := {
  st_hashes : list (node * hash);               (* dependency_hashes *)
  st_gates  : list (nat * gate);                (* gates: alias -> gate_type *)
  st_edges  : list (node * node * cap);         (* edge_tuples, each with the caption added by the same call *)
  st_edict  : list (node * list node);          (* edge_dict *)
  st_caps   : list ((node * node) * list cap)   (* edge_captions *)
}.

Definition st0 : state := {| st_hashes := []; st_gates := []; st_edges := []; st_edict := []; st_caps := [] |}.

Definition pair_eqb (a b : node * hash) : bool := node_eqb (fst a) (fst b) && hash_eqb (snd a) (snd b).

(* is_duplicate_dependency: membership test ... *)
Definition is_dup (d : node) (h : hash) (st : state) : bool :=
  existsb (pair_eqb (d, h)) (st_hashes st).

(* ... and, when absent, the append *)
Definition add_hash (d : node) (h : hash) (st : state) : state :=
  {| st_hashes := st_hashes st ++ [(d, h)]; st_gates := st_gates st; st_edges := st_edges st;
     st_edict := st_edict st; st_caps := st_caps st |}.

(* _add_edge *)
Definition add_edge (f t : node) (c : cap) (st : state) : state :=
  {| st_hashes := st_hashes st; st_gates := st_gates st;
     st_edges := st_edges st ++ [(f, t, c)];
     st_edict := dappend node_eqb (st_edict st) f t;
     st_caps := dappend tuple_eqb (st_caps st) (f, t) c |}.

(* self.gates[alias] = gate_type *)
Definition set_gate (j : nat) (g : gate) (st : state) : state :=
  {| st_hashes := st_hashes st; st_gates := dset Nat.eqb (st_gates st) j g; st_edges := st_edges st;
     st_edict := st_edict st; st_caps := st_caps st |}.

(* _action_id_from_ref / self.actions[id] *)
Definition find_action (s : schema) (id : nat) : option action :=
  find (fun a => Nat.eqb (a_id a) id) (s_actions s).

(* the "for operand in [left, right]" loop of the gate branch: an edge gate -> action per action operand *)
Definition gate_operand_edge (s : schema) (g : node) (key : nat) (o : option nat) (st : state) : outcome state :=
  match o with
  | None => Ok st
  | Some b =>
    match find_action s b with
    | None => Raise
    | Some _ => Ok (add_edge g (NAct b) (CapDep key) st)
    end
  end.

(* one operand of the standalone (single dependency) branch: edge dependent -> action, then the
   recursion into that action's own depends_on; [rec] is the recursive call *)
Definition single_operand (s : schema) (rec : node -> nat -> state -> outcome state)
           (d : node) (key : nat) (o : option nat) (st : state) : outcome state :=
  match o with
  | None => Ok st
  | Some b =>
    match find_action s b with
    | None => Raise
    | Some act =>
      let st1 := add_edge d (NAct b) (CapDep key) st in
      match a_dep act with
      | None => Ok st1
      | Some j' => rec (NAct b) j' st1
      end
    end
  end.

(* "for dep in checkpoint["dependencies"]" of the gate branch; [rec] is the recursive call *)
Definition gate_loop (s : schema) (rec : node -> nat -> state -> outcome state) (j : nat)
  : list dep -> state -> outcome state :=
  fix loop (ds : list dep) (st : state) {struct ds} : outcome state :=
    match ds with
    | [] => Ok st
    | DCmp key l r :: ds' =>
      if is_dup (NGate j) (HDep key) st then loop ds' st
      else
        bind (bind (gate_operand_edge s (NGate j) key l (add_hash (NGate j) (HDep key) st))
                   (gate_operand_edge s (NGate j) key r))
             (loop ds')
    | DRef k :: ds' =>
      bind (rec (NGate j) k st) (loop ds')
    end.

(* _explore_edges_recursive(dependent_id, checkpoint_alias) *)
Fixpoint explore (s : schema) (fuel : nat) (d : node) (j : nat) (st : state) {struct fuel} : outcome state :=
  match fuel with
  | 0 => Fuel
  | S f =>
    match nth_error (s_cps s) j with
    | None => Raise
    | Some c =>
      match c_deps c with
      | [] => Ok st
      | [DRef _] => Ok st
      | [DCmp key l r] =>
        if is_dup d (HDep key) st then Ok st
        else
          bind (single_operand s (explore s f) d key l (add_hash d (HDep key) st))
               (single_operand s (explore s f) d key r)
      | _ :: _ :: _ =>
        if is_dup d (HCp (c_key c)) st then Ok st
        else
          let st1 := add_edge d (NGate j) (CapCp (c_key c)) (add_hash d (HCp (c_key c)) st) in
          match c_gate c with
          | None => Raise
          | Some g => gate_loop s (explore s f) j (c_deps c) (set_gate j g st1)
          end
      end
    end
  end.

(* the loop of _json_schema_to_graph over self.actions *)
Fixpoint explore_actions (s : schema) (fuel : nat) (acts : list action) (st : state) : outcome state :=
  match acts with
  | [] => Ok st
  | a :: acts' =>
    match a_dep a with
    | None => explore_actions s fuel acts' st
    | Some j => bind (explore s fuel (NAct (a_id a)) j st) (explore_actions s fuel acts')
    end
  end.

Definition build_fuel (s : schema) : nat := S (length (s_cps s)).

(* the object after __init__, before the layout is computed *)
Record graph := {
  g_actions : list nat;                          (* self.actions.keys() *)
  g_gates   : list (nat * gate);                 (* self.gates *)
  g_ledges  : list (node * node * cap);          (* edge_tuples with captions *)
  g_edict   : list (node * list node);           (* edge_dict *)
  g_caps    : list ((node * node) * list cap)    (* edge_captions *)
}.

Definition graph_of (s : schema) (st : state) : graph :=
  {| g_actions := map a_id (s_actions s); g_gates := st_gates st; g_ledges := st_edges st;
     g_edict := st_edict st; g_caps := st_caps st |}.

(* _json_schema_to_graph *)
Definition build (s : schema) : outcome graph :=
  bind (explore_actions s (build_fuel s) (s_actions s) st0) (fun st => Ok (graph_of s st)).

(* DependencyGraph(schema_dict=s, validate_schema=validate): the validator is a separate component,
   [validator s = true] means "validate() returned no errors" *)
Definition dependency_graph (validator : schema -> bool) (validate : bool) (s : schema) : outcome graph :=
  if validate && negb (validator s) then Raise else build s.

(* edge_tuples *)
Definition g_edges (g : graph) : list (node * node) := map fst (g_ledges g).

(* nodes = list(self.actions.keys()) + list(self.gates.keys()), the node list handed to the layout *)
Definition g_nodes (g : graph) : list node := map NAct (g_actions g) ++ map (fun p => NGate (fst p)) (g_gates g).

(* ---------------------------------------------------------------- comparison helpers (correspondence) *)
Fixpoint list_eqb {A} (e : A -> A -> bool) (a b : list A) : bool :=
  match a, b with
  | [], [] => true
  | x :: a', y :: b' => e x y && list_eqb e a' b'
  | _, _ => false
  end.

Definition ledge_eqb (a b : node * node * cap) : bool :=
  tuple_eqb (fst a) (fst b) && cap_eqb (snd a) (snd b).

Definition graph_eqb (a b : graph) : bool :=
  list_eqb Nat.eqb (g_actions a) (g_actions b)
  && list_eqb (fun x y => Nat.eqb (fst x) (fst y) && gate_eqb (snd x) (snd y)) (g_gates a) (g_gates b)
  && list_eqb ledge_eqb (g_ledges a) (g_ledges b)
  && list_eqb (fun x y => node_eqb (fst x) (fst y) && list_eqb node_eqb (snd x) (snd y)) (g_edict a) (g_edict b)
  && list_eqb (fun x y => tuple_eqb (fst x) (fst y) && list_eqb cap_eqb (snd x) (snd y)) (g_caps a) (g_caps b).
