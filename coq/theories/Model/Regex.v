(* Gallina recognisers for the regular expressions of validation/patterns.py that the structural layer uses,
   and for the lexical form of global references (validation/utils.py: is_global_ref, parse_ref_type).

   Scope and conventions
   - Inputs are ASCII strings (one Coq [ascii] per Python character).  For non-ASCII text the byte-wise
     reading below still coincides with Python for every character class used here except [\d], which in
     Python also matches non-ASCII decimal digits; the correspondence harness therefore only feeds ASCII.
   - Python applies the expressions with [re.match] (anchored at the start only) and without re.MULTILINE:
       [.]  matches any character except "\n" (code 10);
       [$]  matches at the very end, or just before a "\n" that is the last character.
     Both are modelled ([strip_nl] removes that one optional trailing newline).
     A negated class such as [^\.] does match "\n".
   - Each expression of patterns.py is named by one constructor of [pat]; tools/gen_specs.py maps the exact
     regex source text to the constructor and refuses to generate on an unknown expression.  *)
From Coq Require Import List String Ascii Bool Arith.
Import ListNotations.
Open Scope string_scope.

Definition nl : ascii := "010"%char.
Definition ch (s : string) : ascii := match s with String c _ => c | EmptyString => "000"%char end.

Definition is_chr (c d : ascii) : bool := Ascii.eqb c d.
Definition chr_in (c : ascii) (l : list ascii) : bool := existsb (Ascii.eqb c) l.

Definition between (lo n hi : nat) : bool := Nat.leb lo n && Nat.leb n hi.
Definition is_digit (c : ascii) : bool := between 48 (nat_of_ascii c) 57.
Definition is_hex (c : ascii) : bool :=
  let n := nat_of_ascii c in between 48 n 57 || between 65 n 70 || between 97 n 102.
Definition not_nl (c : ascii) : bool := negb (is_chr c nl).

(* the part of the subject that an expression ending in [$] has to consume *)
Fixpoint strip_nl (l : list ascii) : list ascii :=
  match l with
  | [] => []
  | [c] => if is_chr c nl then [] else [c]
  | c :: r => c :: strip_nl r
  end.

Definition nonempty {A} (l : list A) : bool := match l with [] => false | _ => true end.

(* [.+$] *)
Definition dot_plus_end (l : list ascii) : bool :=
  let b := strip_nl l in nonempty b && forallb not_nl b.

Definition brace_l : ascii := ch "{".
Definition brace_r : ascii := ch "}".
Definition colon : ascii := ch ":".
Definition dot : ascii := ch ".".
Definition underscore : ascii := ch "_".
Definition dollar : ascii := ch "$".
Definition hash : ascii := ch "#".

(* alias = "^([^_\{\}:\.])[^\{\}:\.]*$"  (the classes contain "\n", so [$] adds nothing) *)
Definition alias_l (l : list ascii) : bool :=
  match l with
  | [] => false
  | c :: r => negb (chr_in c [underscore; brace_l; brace_r; colon; dot])
              && forallb (fun x => negb (chr_in x [brace_l; brace_r; colon; dot])) r
  end.

(* dotless = "^[^\.]*$" *)
Definition dotless_l (l : list ascii) : bool := forallb (fun x => negb (is_chr x dot)) l.

(* variable = "^\$(?![_\.]).+$" *)
Definition variable_l (l : list ascii) : bool :=
  match l with
  | c :: r => is_chr c dollar
              && match r with x :: _ => negb (chr_in x [underscore; dot]) | [] => true end
              && dot_plus_end r
  | [] => false
  end.

(* local_variable = "^\$_.+$" *)
Definition local_variable_l (l : list ascii) : bool :=
  match l with
  | c :: d :: r => is_chr c dollar && is_chr d underscore && dot_plus_end r
  | _ => false
  end.

(* filter_ref = "^\$_item(\..+)?"   -- no [$]: with re.match this is a prefix test, the group may be empty *)
Definition filter_ref_l (l : list ascii) : bool :=
  String.prefix "$_item" (string_of_list_ascii l).

(* hex_code = "^#(?:[0-9a-fA-F]{3}){1,2}$" *)
Definition hex_code_l (l : list ascii) : bool :=
  match strip_nl l with
  | c :: r => is_chr c hash && forallb is_hex r
              && (Nat.eqb (List.length r) 3 || Nat.eqb (List.length r) 6)
  | [] => false
  end.

Inductive pat := PAlias | PDotless | PVariable | PLocalVariable | PFilterRef | PHexCode.

Definition pat_eqb (a b : pat) : bool :=
  match a, b with
  | PAlias, PAlias | PDotless, PDotless | PVariable, PVariable
  | PLocalVariable, PLocalVariable | PFilterRef, PFilterRef | PHexCode, PHexCode => true
  | _, _ => false
  end.

Lemma pat_eqb_eq a b : pat_eqb a b = true <-> a = b.
Proof. destruct a, b; simpl; split; intros H; try reflexivity; try discriminate. Qed.

Definition match_pat (p : pat) (s : string) : bool :=
  let l := list_ascii_of_string s in
  match p with
  | PAlias => alias_l l
  | PDotless => dotless_l l
  | PVariable => variable_l l
  | PLocalVariable => local_variable_l l
  | PFilterRef => filter_ref_l l
  | PHexCode => hex_code_l l
  end.

(* ------------------------------------------------------------------------------------------------
   Global references.  utils.is_global_ref(value):
       first_segment = value.split(".")[0]; ref_type, *rest = first_segment.split(":"); ref_id = ":".join(rest)
       ref_type in enums.ref_types and (re.match("^{.+}$", ref_id) or re.match("^\d+$", ref_id))           *)

(* split at the first occurrence of [d]: (before, Some after) or (everything, None) *)
Fixpoint cut (d : ascii) (l : list ascii) : list ascii * option (list ascii) :=
  match l with
  | [] => ([], None)
  | c :: r => if is_chr c d then ([], Some r)
              else let '(a, b) := cut d r in (c :: a, b)
  end.

(* "^\d+$" *)
Definition digits_end (l : list ascii) : bool :=
  let b := strip_nl l in nonempty b && forallb is_digit b.

(* "^{.+}$" : "{", at least one non-newline character, and "}" as the last consumed character *)
Definition braced_end (l : list ascii) : bool :=
  match strip_nl l with
  | c :: r => is_chr c brace_l
              && match rev r with
                 | e :: m => is_chr e brace_r && nonempty m && forallb not_nl m
                 | [] => false
                 end
  | [] => false
  end.

Definition mems (k : string) (l : list string) : bool := existsb (String.eqb k) l.

(* one dot-free segment "type:id" *)
Definition seg_type (seg : list ascii) : string := string_of_list_ascii (fst (cut colon seg)).
Definition is_gref_seg (ref_types : list string) (seg : list ascii) : bool :=
  match cut colon seg with
  | (t, Some id) => mems (string_of_list_ascii t) ref_types && (braced_end id || digits_end id)
  | (_, None) => false
  end.

Definition is_global_ref (ref_types : list string) (s : string) : bool :=
  is_gref_seg ref_types (fst (cut dot (list_ascii_of_string s))).

(* utils.parse_ref_type on a value for which is_global_ref holds:
   "schema:<id>.<type>:<id>..." (an import reference) has the type of its second segment, anything else the
   type of its first segment. *)
Definition ref_kind (ref_types : list string) (s : string) : string :=
  match cut dot (list_ascii_of_string s) with
  | (seg0, Some rest) =>
      let seg1 := fst (cut dot rest) in
      if String.eqb (seg_type seg0) "schema" && is_gref_seg ref_types seg1
      then seg_type seg1 else seg_type seg0
  | (seg0, None) => seg_type seg0
  end.

Definition is_local_variable (s : string) : bool := match_pat PLocalVariable s.
Definition is_filter_ref (s : string) : bool := match_pat PFilterRef s.

(* is the entity reference followed by an attribute path?  (len(truncate_schema_id(ref).split(".")) > 1:
   for an import reference "schema:<id>.<type>:<id>..." the schema segment is dropped first) *)
Definition ref_has_path (ref_types : list string) (s : string) : bool :=
  match cut dot (list_ascii_of_string s) with
  | (seg0, Some rest) =>
      let '(seg1, after) := cut dot rest in
      if is_gref_seg ref_types seg0 && is_gref_seg ref_types seg1 && String.eqb (seg_type seg0) "schema"
      then match after with Some _ => true | None => false end
      else true
  | (_, None) => false
  end.

(* parties, object types, checkpoints and thread groups have no attributes to follow *)
Definition pathless_kinds : list string := ["party"; "object_type"; "checkpoint"; "thread_group"].

(* _validate_ref, structural part (resolution of the referenced object is semantic and not modelled) *)
Definition ref_ok (ref_types kinds : list string) (s : string) : bool :=
  (mems "local_ref" kinds && is_local_variable s)
  || (mems "filter_ref" kinds && is_filter_ref s)
  || (is_global_ref ref_types s && mems (ref_kind ref_types s) kinds
      && negb (mems (ref_kind ref_types s) pathless_kinds && ref_has_path ref_types s)).
