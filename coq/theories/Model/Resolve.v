(* Kernel model of the STRING layer of reference handling:

     validation/utils.py         is_global_ref, is_import_ref, parse_ref_type, parse_ref_id, parse_schema_id,
                                 truncate_schema_id, reduce_ref, as_ref, prepend_schema_id
     validation/schema_validator.py   SchemaValidator._resolve_global_ref, _normalize_ref, _ref_has_path
     validation/patterns.py      global_ref_identifier, global_ref_alias, global_alias_ref

   The scenario model (Model/Schema.v, Model/Rules.v) works on abstract references (kind, id); everything the
   validator does with the TEXT of a reference is mirrored here, function by function, and compared with the real
   functions by harness/corr/resolve.py.  Proofs: Proofs/ResolveProofs.v, theorems: Properties/C15_resolve.v.

   Conventions
   - a reference is an ASCII string; internally a list of characters ([txt]).  Python's [re.match], [.] (not a
     newline) and [$] (also before one final newline) are modelled as in Model/Regex.v, whose recognisers for
     "^\d+$", "^{.+}$" and for one "type:id" segment are reused ([is_gref_seg], [cut], [strip_nl]).
   - an entity is what resolution looks at: the optional fields "id" (an integer), "name" and "alias" (strings).
     Python compares [str(item[field]) == ref_id]; [dec] is [str] on integers.
   - the environment is the document held by the validator: the native collections, and the loaded imported
     schemas (file name -> collections; a Python dict, so file names are distinct and looked up by equality).
     A kind without an entry in [colls] is a document without that array ([_get_field] returns None).
     Imported schema documents carry no "imported_schemas" key of their own.
   - [Raise InvalidRef] is [Exception("Invalid ref: ...")] of parse_ref_id on a string that is not a global
     reference; [Raise NotADict] is the TypeError of [item[ref_field]] when a reference of kind "schema" is
     resolved: the collection is then the DICT of loaded schemas, iteration yields file names, [ref_field not in
     item] is a substring test, and a file name containing "id" (reference by number) or "file_name" (reference
     by alias) is indexed with a string.  No position of a schema allows the kind "schema", so validate() never
     gets there with a document that passed the kind check.  *)
From Coq Require Import List String Ascii Bool Arith ZArith.
From Coq Require DecimalString.
From OIS Require Import Model.Regex.
Import ListNotations.
Open Scope string_scope.
Open Scope list_scope.

Definition txt := list ascii.
Definition lst (s : string) : txt := list_ascii_of_string s.
Definition str (t : txt) : string := string_of_list_ascii t.

(* enums.ref_types, in the order of the source (the order is irrelevant: each use is a membership test) *)
Definition ref_types : list string :=
  ["schema"; "party"; "object_type"; "object_promise"; "action"; "checkpoint"; "thread_group"].

(* ---------------------------------------------------------------------------------------------- lexing *)

(* one dot-free segment "type:id" with type in ref_types and id matching "^{.+}$" or "^\d+$" *)
Definition gref (seg : txt) : bool := is_gref_seg ref_types seg.

(* utils.is_global_ref: only the first dot-separated segment is looked at *)
Definition is_global_ref_t (l : txt) : bool := gref (fst (cut dot l)).

(* utils.is_import_ref: "schema:<id>.<type>:<id>[.path]" *)
Definition is_import_t (l : txt) : bool :=
  match cut dot l with
  | (s0, Some r) => gref s0 && gref (fst (cut dot r)) && String.eqb (seg_type s0) "schema"
  | (_, None) => false
  end.

(* utils.truncate_schema_id *)
Definition truncate_t (l : txt) : txt :=
  if is_import_t l then match snd (cut dot l) with Some r => r | None => l end else l.

(* the segment that names the entity: the second one of an import reference, else the first *)
Definition entity_seg (l : txt) : txt := fst (cut dot (truncate_t l)).

(* the raw text after the entity segment: None = no path, Some [] = a trailing dot *)
Definition path_text (l : txt) : option txt := snd (cut dot (truncate_t l)).

(* SchemaValidator._ref_has_path *)
Definition ref_has_path_t (l : txt) : bool := match path_text l with Some _ => true | None => false end.

Fixpoint split_on (d : ascii) (fuel : nat) (l : txt) : list txt :=
  match fuel with
  | 0 => [l]
  | S f => match cut d l with
           | (a, None) => [a]
           | (a, Some r) => a :: split_on d f r
           end
  end.
(* value.split(".") *)
Definition split_dots (l : txt) : list txt := split_on dot (List.length l) l.

Definition path_segments (l : txt) : list string :=
  match path_text l with Some p => map str (split_dots p) | None => [] end.

Definition after_colon (seg : txt) : txt := match cut colon seg with (_, Some r) => r | (_, None) => [] end.

(* x[1:-1] if x[0] == "{" and x[-1] == "}" else x *)
Definition unbrace (x : txt) : txt :=
  match x with
  | c :: r => if is_chr c brace_l
              then match rev r with
                   | e :: m => if is_chr e brace_r then rev m else x
                   | [] => x
                   end
              else x
  | [] => x
  end.

(* utils.parse_ref_id (on a global reference) *)
Definition ref_id_t (l : txt) : txt := unbrace (after_colon (entity_seg l)).

(* utils.parse_ref_type (on a global reference) *)
Definition ref_kind_t (l : txt) : string := seg_type (entity_seg l).

(* utils.parse_schema_id: value.split(".")[0].split(":")[1], braces removed -- the SECOND colon-separated piece,
   whereas is_global_ref joins all pieces after the first: "schema:{a:b}" is a reference whose schema id is "{a" *)
Definition schema_id_t (l : txt) : option string :=
  if is_import_t l then Some (str (unbrace (fst (cut colon (after_colon (fst (cut dot l)))))))
  else None.

(* utils.reduce_ref *)
Definition reduce_ref_t (l : txt) : txt :=
  match cut dot l with
  | (s0, None) => s0
  | (s0, Some r) => if is_import_t l then s0 ++ dot :: fst (cut dot r) else s0
  end.

(* re.match(patterns.global_alias_ref, x): the expression is, in words,
     start, an optional group [schema:], one or more digits, a dot; then one of the ref_types, [:{], one or more
     characters, [}]; then one optional character and any characters up to the end ([.] is not a newline, the end is
     also before one final newline).  harness/corr/resolve.py compares the source text of the expression.  *)
Fixpoint strip_prefix (p l : txt) : option txt :=
  match p, l with
  | [], _ => Some l
  | a :: p', b :: l' => if Ascii.eqb a b then strip_prefix p' l' else None
  | _ :: _, [] => None
  end.

(* what follows "{": at least one character, then a "}", then anything; no newline anywhere except one final one *)
Definition tail_ok (s : txt) : bool :=
  let b := strip_nl s in
  forallb not_nl b && match b with [] => false | _ :: r => existsb (fun c => is_chr c brace_r) r end.

Definition typed_brace (l : txt) : bool :=
  existsb (fun t => match strip_prefix (lst t ++ lst ":{") l with Some s => tail_ok s | None => false end) ref_types.

Fixpoint drop_digits (l : txt) : txt :=
  match l with
  | c :: r => if is_digit c then drop_digits r else l
  | [] => []
  end.

Definition alias_re (l : txt) : bool :=
  typed_brace l ||
  match strip_prefix (lst "schema:") l with
  | Some (c :: r) => is_digit c && match drop_digits r with
                                   | d :: r' => is_chr d dot && typed_brace r'
                                   | [] => false
                                   end
  | _ => false
  end.

(* is the reference written by alias, as _resolve_global_ref and _normalize_ref decide it: the expression is
   applied to the WHOLE reference without its schema qualifier, path included *)
Definition by_alias_t (l : txt) : bool := alias_re (truncate_t l).

(* the parse of a reference string: schema qualifier, kind, spelling, identifier or alias, path segments *)
Record parsed := mkParsed {
  p_schema : option string;
  p_kind : string;
  p_by_alias : bool;
  p_ident : string;
  p_path : list string }.

Definition parse_t (l : txt) : option parsed :=
  if is_global_ref_t l
  then Some (mkParsed (schema_id_t l) (ref_kind_t l) (by_alias_t l) (str (ref_id_t l)) (path_segments l))
  else None.

(* ---------------------------------------------------------------------------------------------- printing *)

(* str(int) *)
Definition dec (z : Z) : string := DecimalString.NilEmpty.string_of_int (Z.to_int z).

(* utils.as_ref(value, ref_type, value_is_id) for ref_type in ref_types *)
Definition as_ref_id (k : string) (z : Z) : string := (k ++ ":" ++ dec z)%string.
Definition as_ref_alias (k : string) (a : string) : string := (k ++ ":{" ++ a ++ "}")%string.
(* utils.prepend_schema_id(schema_id, ref) with schema_id not None *)
Definition prepend_schema_id (f : string) (r : string) : string := ("schema:{" ++ f ++ "}." ++ r)%string.
Definition with_path (r p : string) : string := (r ++ "." ++ p)%string.

(* ---------------------------------------------------------------------------------------------- environment *)

Record ent := mkEnt { e_id : option Z; e_name : option string; e_alias : option string }.

Definition colls := list (string * list ent).
Record env := mkEnv { native : colls; imported : list (string * colls) }.

Fixpoint assoc {A : Type} (k : string) (l : list (string * A)) : option A :=
  match l with
  | [] => None
  | (k', v) :: r => if String.eqb k k' then Some v else assoc k r
  end.

Inductive afield := FName | FAlias.
Definition get_field (f : afield) (e : ent) : option string :=
  match f with FName => e_name e | FAlias => e_alias e end.

(* obj_specs.<kind>["ref_config"]["alias_field"] for the six entity kinds *)
Definition alias_field (k : string) : afield := if String.eqb k "checkpoint" then FAlias else FName.

(* the text an item is found by *)
Definition ent_key (by_alias : bool) (k : string) (e : ent) : option string :=
  if by_alias then get_field (alias_field k) e else option_map dec (e_id e).

Definition key_matches (by_alias : bool) (k : string) (rid : string) (e : ent) : bool :=
  match ent_key by_alias k e with Some s => String.eqb s rid | None => false end.

(* first item satisfying p, with its position *)
Fixpoint find_from (p : ent -> bool) (c : list ent) (i : nat) : option (nat * ent) :=
  match c with
  | [] => None
  | e :: r => if p e then Some (i, e) else find_from p r (Datatypes.S i)
  end.

Inductive err := InvalidRef | NotADict.
Inductive res (A : Type) := Val (a : A) | Raise (e : err).
Arguments Val {A} a.
Arguments Raise {A} e.

(* identity of an entity: the schema it lives in (None = native), its kind, its position in the collection *)
Definition eref := (option string * string * nat)%type.

Fixpoint substr_at (p l : txt) : bool :=
  match p, l with
  | [], _ => true
  | a :: p', b :: l' => Ascii.eqb a b && substr_at p' l'
  | _ :: _, [] => false
  end.
Fixpoint substr (p l : txt) : bool :=
  substr_at p l || match l with [] => false | _ :: r => substr p r end.

Definition schemas_of (E : env) (sid : option string) : option colls :=
  match sid with None => Some (native E) | Some f => assoc f (imported E) end.

(* SchemaValidator._resolve_global_ref, with the entity found *)
Definition resolve_ent (E : env) (l : txt) : res (option (eref * ent)) :=
  if negb (is_global_ref_t l) then Raise InvalidRef
  else
    let sid := schema_id_t l in
    let a := by_alias_t l in
    let rid := str (ref_id_t l) in
    let k := ref_kind_t l in
    if String.eqb k "schema"
    then match sid with
         | None => Val None          (* the keys of the loaded schemas are file names, not objects: nothing matches *)
         | Some _ => Val None
         end
    else match schemas_of E sid with
         | None => Val None                                  (* schema not loaded *)
         | Some cs =>
             match assoc k cs with
             | None => Val None                              (* no such array *)
             | Some c => Val (option_map (fun ie => ((sid, k, fst ie), snd ie))
                                         (find_from (key_matches a k rid) c 0))
             end
         end.

Definition map_res {A B : Type} (f : A -> B) (r : res A) : res B :=
  match r with Val a => Val (f a) | Raise e => Raise e end.

Definition resolve_t (E : env) (l : txt) : res (option eref) := map_res (option_map fst) (resolve_ent E l).

(* SchemaValidator._normalize_ref(ref, to_alias, alias_attribute_name) *)
Definition normalize_t (E : env) (to_alias : bool) (attr : afield) (l : txt) : res txt :=
  if negb (is_global_ref_t l) then Val l
  else match resolve_ent E l with
       | Raise e => Raise e
       | Val None => Val l
       | Val (Some (_, e)) =>
           let a := by_alias_t l in
           let rid := str (ref_id_t l) in
           let k := ref_kind_t l in
           let new :=
             if to_alias
             then match get_field attr e with
                  | None => None
                  | Some nm => if a && String.eqb rid nm then None else Some (lst (as_ref_alias k nm))
                  end
             else match e_id e with
                  | None => None
                  | Some z => if negb a && String.eqb rid (dec z) then None else Some (lst (as_ref_id k z))
                  end in
           match new with
           | None => Val l
           | Some n => Val (if is_import_t l then fst (cut dot l) ++ dot :: n else n)
           end
       end.

(* ---------------------------------------------------------------------------------------------- on strings *)

Definition is_global_ref (s : string) : bool := is_global_ref_t (lst s).
Definition is_import_ref (s : string) : bool := is_import_t (lst s).
Definition truncate_schema_id (s : string) : string := str (truncate_t (lst s)).
Definition parse_schema_id (s : string) : option string := schema_id_t (lst s).
Definition parse_ref_type (s : string) : res string :=
  if is_global_ref s then Val (ref_kind_t (lst s)) else Raise InvalidRef.
Definition parse_ref_id (s : string) : res string :=
  if is_global_ref s then Val (str (ref_id_t (lst s))) else Raise InvalidRef.
Definition ref_has_path (s : string) : bool := ref_has_path_t (lst s).
Definition reduce_ref (s : string) : string := str (reduce_ref_t (lst s)).
Definition parse (s : string) : option parsed := parse_t (lst s).
Definition resolve (E : env) (s : string) : res (option eref) := resolve_t E (lst s).
Definition normalize_attr (E : env) (to_alias : bool) (attr : afield) (s : string) : res string :=
  map_res str (normalize_t E to_alias attr (lst s)).
(* the default alias_attribute_name="name" of the implementation *)
Definition normalize (E : env) (to_alias : bool) (s : string) : res string := normalize_attr E to_alias FName s.

(* the entity an identity denotes *)
Definition entity_at (E : env) (r : eref) : option ent :=
  match r with
  | (sid, k, i) => match schemas_of E sid with
                   | Some cs => match assoc k cs with Some c => nth_error c i | None => None end
                   | None => None
                   end
  end.

(* ---------------------------------------------------------------------------------------------- decidable equalities for the case files *)
Definition opt_eqb {A} (eqb : A -> A -> bool) (x y : option A) : bool :=
  match x, y with Some a, Some b => eqb a b | None, None => true | _, _ => false end.
Definition eref_eqb (x y : eref) : bool :=
  match x, y with (s, k, i), (s', k', i') => opt_eqb String.eqb s s' && String.eqb k k' && Nat.eqb i i' end.
Definition err_eqb (x y : err) : bool :=
  match x, y with InvalidRef, InvalidRef | NotADict, NotADict => true | _, _ => false end.
Definition res_eqb {A} (eqb : A -> A -> bool) (x y : res A) : bool :=
  match x, y with Val a, Val b => eqb a b | Raise e, Raise e' => err_eqb e e' | _, _ => false end.
