(* Import trees (property C16, import depth > 1), built from the functions of Model/Imports.v.

   An imported schema may itself import schemas.  [INode im kids] is one import ENTRY: the file it names
   ([im_schema im], readable or not), the connections the entry lists ([im_conns im]) and the entries of that file's
   own "imports" array ([kids]).  Everything is written relative to the importer:

   * [im_base im] is the id range of the imported file RELATIVE to its importer: the importer refers to entity i
     of the file by the id [im_base im + i] (the renderer writes `schema:{file}.kind:i`), and to entity i of a
     file that file imports with relative base b' by [im_base im + b' + i].  The absolute id range of a file is the
     sum of the relative bases on the way down ([pb + im_base im] below), so namespacing is the [shift] of
     Model/Imports.v by that sum; a file that is reached on several ways (a diamond) has the same sum on each
     (the harness assigns the ranges per file, importers before imported).
   * the target of a connection is an entity of the imported file (its own id); the added dependency is a
     checkpoint of the IMPORTER (its own id): [conn_ok parent_schema im c].  It is stitched shifted by the
     importer's absolute base ([sh_conn pb]).

   The file behind an entry is loaded once: the first entry (in document order, depth first -- the order of
   _load_imports_recursive and of _stitch_imported_schemas) that names it contributes the schema and the file's own
   entries; a later entry for the same file contributes its connections only.  A tree spells the file out at every
   entry; [ds_seen] keeps the absolute bases already loaded.  Stitching order is the implementation's: an entry's
   nested entries first, then its own connections.  Stitched checkpoints of a first entry are numbered from 0
   (as in [combine]); those of later entries for an already loaded file continue from a running count, which keeps
   their ids apart.

   An imported file is valid "in isolation" iff the deep verdict holds of (its schema, its own entries): the
   implementation validates it with a fresh validator, which loads that file's imports again. *)
From Coq Require Import List Bool Arith.
From OIS Require Import Base.Types Base.PipeTypes Spec.Compare Model.Schema Model.Rules Model.Imports.
Import ListNotations.

Inductive itree := INode (im : import) (kids : list itree).

Definition t_im (t : itree) : import := match t with INode im _ => im end.
Definition t_kids (t : itree) : list itree := match t with INode _ k => k end.
Definition leaf (im : import) : itree := INode im [].

(* a connection listed by an importer that lives at absolute base [pb] *)
Definition sh_conn (pb : nat) (c : conn) : conn := {| cn_to := cn_to c; cn_add := sh_ref pb (cn_add c) |}.

Record dstate := { ds_schema : schema;      (* combined so far *)
                   ds_seen : list nat;      (* absolute bases of the files loaded so far *)
                   ds_n : nat }.            (* connections stitched so far *)

Fixpoint stitch_tree (pb : nat) (t : itree) (st : dstate) : dstate :=
  match t with
  | INode im kids =>
    let b := pb + im_base im in
    let conns := map (sh_conn pb) (im_conns im) in
    if mem_nat b (ds_seen st) then
      (* the file is loaded already: only this entry's connections *)
      {| ds_schema := stitch_all b (ds_schema st) (ds_n st) conns; ds_seen := ds_seen st; ds_n := ds_n st + length conns |}
    else
      let st1 := {| ds_schema := union (ds_schema st) (shift b (im_schema im)); ds_seen := b :: ds_seen st; ds_n := ds_n st |} in
      let st2 := fold_left (fun acc k => stitch_tree b k acc) kids st1 in
      {| ds_schema := stitch_all b (ds_schema st2) 0 conns; ds_seen := ds_seen st2; ds_n := ds_n st2 + length conns |}
  end.

Definition stitch_forest (pb : nat) (kids : list itree) (st : dstate) : dstate :=
  fold_left (fun acc k => stitch_tree pb k acc) kids st.

Definition dstate0 (native : schema) : dstate := {| ds_schema := native; ds_seen := []; ds_n := 0 |}.

(* the model of _load_imports_recursive + _namespace_imported_references + _stitch_imported_schemas *)
Definition combine_deep (native : schema) (kids : list itree) : schema :=
  ds_schema (stitch_forest 0 kids (dstate0 native)).

(* ------------------------------------------------------------------ verdict *)
(* what validate_import_connections and the uniqueness constraint check of one entry, given the importer *)
Definition entry_ok (parent : schema) (im : import) : bool :=
  im_readable im && forallb (conn_ok parent im) (im_conns im) && nodup_by ref_eqb (map cn_to (im_conns im)).

(* the verdict on a combined schema, deciding the cycle search first (conforms_with ends with it; under vm_compute
   && is strict and some of the other searches are exponential on cyclic graphs) *)
Definition verdict_on (cmp : ty -> cop -> ty -> bool) (tbl : list (ishape * ty * bool)) (s : schema) : bool :=
  if has_cycle s then false else conforms_with cmp tbl s.

Fixpoint tree_ok (cmp : ty -> cop -> ty -> bool) (tbl : list (ishape * ty * bool)) (parent : schema) (t : itree) : bool :=
  match t with
  | INode im kids =>
    if entry_ok parent im then
      (* valid in isolation, with its own imports *)
      if bases_ok (map t_im kids) then
        if forallb (tree_ok cmp tbl (im_schema im)) kids then verdict_on cmp tbl (combine_deep (im_schema im) kids)
        else false
      else false
    else false
  end.

Definition conforms_deep_with (cmp : ty -> cop -> ty -> bool) (tbl : list (ishape * ty * bool)) (native : schema) (kids : list itree) : bool :=
  if bases_ok (map t_im kids) then
    if forallb (tree_ok cmp tbl native) kids then verdict_on cmp tbl (combine_deep native kids)
    else false
  else false.

Definition conforms_deep := conforms_deep_with Cmp.
Definition conforms_deep_kf := conforms_deep_with Cmp_kf.
