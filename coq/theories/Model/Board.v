(* Executable model of the Miro board emission of visualization/dependency_graph.py
   (generate_miro_board, _generate_miro_shapes, _generate_miro_connectors) with services/miro.py
   (MiroBoard.create / create_shape / create_invisible_shape / create_connector / _miro_api_request)
   as the request builder.  No proofs here: see Proofs/BoardProofs.v.

   Modelling decisions
   - the board service is a SCRIPT of responses ([list response]); every request consumes the next
     response.  _miro_api_request returns response["id"] or raises on {"type": "error"}: [ROk id] / [RErr].
     The conversation is recorded as the list of (request, response it received) pairs; the request list
     is [map fst].  [Starved] = the script ran out (an artefact of a finite script, not a behaviour of
     the code); a request that gets no response is not recorded;
   - a request keeps what the property talks about:
       CreateBoard                          MiroBoard.create (only when no board_id was given: [create])
       Shape n x y fill content             create_shape(ACTION | GATE ...) for graph node n
       Support n x y                        create_shape(SUPPORTING_INFO ...) next to node n
       Elbow x y                            create_invisible_shape
       Connector from to caption nocap      create_connector(from_id, to_id, caption, end_stroke_cap="none"?)
     [n] in Shape/Support is a label for the reader of the model (which node the shape is drawn for); the
     real payload carries position, fill colour and content only.  Items are the ids the service returned;
   - UNITS: the layout gives x = -depth (an int) and y (a float that is a multiple of 0.5); a coordinate is
     the pair (x, 2*y) of integers ([coords : node -> Z * Z], a total function: every node has a layout
     coordinate, C19 / C17).  Requests carry final board units, which are integers:
       shape    x*400,  y*100 = (2y)*50
       support  x*400 + 1*400/5,  y*100 - 2*100/2
       elbow    ((x_f + x_t)/2)*400 = (x_f+x_t)*200
                (y_center - column_height/2 + i*0.5)*100 = ((2y_f + 2y_t) - (k-1) + 2i)*25
     (strand_spacing = layout.node_spacing/2 = 0.5; all these floats are exact in binary);
   - fill colours: [White] = "#ffffff" (the default), [Hex c] = the party's declared hex_code number c,
     [GateColour g] = gate_colors[g]; content: action description / gate type, opaque;
   - KeyError raised by shape_dict[...] / party_colors[...] / an unresolvable party reference: [Raised]
     at the point where python evaluates the expression (arguments before the request is sent);
   - captions: edge_captions[(f,t)] as kept by the graph model ([g_caps]). *)
From Coq Require Import List Arith ZArith Bool.
From OIS Require Import Model.Graph.
Import ListNotations.
Local Open Scope Z_scope.

Inductive colour := White | Hex (c : nat) | GateColour (g : gate).
Inductive content := CAction (id : nat) | CGate (g : gate).
Definition item := Z.

Inductive request :=
  | CreateBoard
  | Shape (n : node) (x y : Z) (fill : colour) (c : content)
  | Support (n : node) (x y : Z)
  | Elbow (x y : Z)
  | Connector (from to : item) (caption : option cap) (end_cap_none : bool).

Inductive response := ROk (id : item) | RErr.

Inductive result (A : Type) := Done (a : A) | Raised | Starved.
Arguments Done {A} a.
Arguments Raised {A}.
Arguments Starved {A}.

Definition log := list (request * response).

(* a computation talking to the service: script -> (conversation, result, rest of the script) *)
Definition M (A : Type) := list response -> log * result A * list response.

Definition ret {A} (a : A) : M A := fun rs => ([], Done a, rs).

Definition raise {A} : M A := fun rs => ([], Raised, rs).

Definition mbind {A B} (m : M A) (f : A -> M B) : M B :=
  fun rs =>
    match m rs with
    | (l1, Done a, rs1) =>
      match f a rs1 with (l2, r, rs2) => (l1 ++ l2, r, rs2) end
    | (l1, Raised, rs1) => (l1, Raised, rs1)
    | (l1, Starved, rs1) => (l1, Starved, rs1)
    end.

(* _miro_api_request *)
Definition send (q : request) : M item :=
  fun rs =>
    match rs with
    | [] => ([], Starved, [])
    | ROk i :: rs' => ([(q, ROk i)], Done i, rs')
    | RErr :: rs' => ([(q, RErr)], Raised, rs')
    end.

(* a python for loop threading a state *)
Fixpoint forM {A S} (f : A -> S -> M S) (l : list A) (st : S) : M S :=
  match l with
  | [] => ret st
  | a :: l' => mbind (f a st) (forM f l')
  end.

(* d[k] with KeyError *)
Definition lookup {K V} (e : K -> K -> bool) (m : list (K * V)) (k : K) : M V :=
  match dget e m k with Some v => ret v | None => raise end.

(* ---------------------------------------------------------------- constants *)
Definition x_coord_factor : Z := 400.
Definition y_coord_factor : Z := 100.

Definition shape_x (c : Z * Z) : Z := fst c * 400.
Definition shape_y (c : Z * Z) : Z := snd c * 50.
Definition support_x (c : Z * Z) : Z := shape_x c + 80.
Definition support_y (c : Z * Z) : Z := shape_y c - 100.
Definition elbow_x (cf ct : Z * Z) : Z := (fst cf + fst ct) * 200.
Definition elbow_y (cf ct : Z * Z) (k i : nat) : Z :=
  (snd cf + snd ct - (Z.of_nat k - 1) + 2 * Z.of_nat i) * 25.

(* ---------------------------------------------------------------- shapes *)
Definition shape_dict := list (node * item).

(* self.party_colors[self._resolve_ref(node["party"], "parties", "name")["name"]] if "party" in node
   else self._default_node_color *)
Definition party_colour (s : schema) (a : action) : option colour :=
  match a_party a with
  | None => Some White
  | Some p =>
    match nth_error (s_parties s) p with
    | None => None
    | Some None => Some White
    | Some (Some c) => Some (Hex c)
    end
  end.

Definition support_if (info : bool) (n : node) (c : Z * Z) : M unit :=
  if info then mbind (send (Support n (support_x c) (support_y c))) (fun _ => ret tt) else ret tt.

Definition action_shape (s : schema) (coords : node -> Z * Z) (a : action) (sd : shape_dict) : M shape_dict :=
  let n := NAct (a_id a) in
  let c := coords n in
  match party_colour s a with
  | None => raise
  | Some fill =>
    mbind (send (Shape n (shape_x c) (shape_y c) fill (CAction (a_id a)))) (fun i =>
    mbind (support_if (a_info a) n c) (fun _ =>
    ret (dset node_eqb sd n i)))
  end.

Definition gate_shape (s : schema) (coords : node -> Z * Z) (jg : nat * gate) (sd : shape_dict) : M shape_dict :=
  let n := NGate (fst jg) in
  let c := coords n in
  mbind (send (Shape n (shape_x c) (shape_y c) (GateColour (snd jg)) (CGate (snd jg)))) (fun i =>
  match nth_error (s_cps s) (fst jg) with
  | None => raise
  | Some cp =>
    mbind (support_if (c_info cp) n c) (fun _ =>
    ret (dset node_eqb sd n i))
  end).

(* _generate_miro_shapes *)
Definition shapes (s : schema) (g : graph) (coords : node -> Z * Z) : M shape_dict :=
  mbind (forM (action_shape s coords) (s_actions s) []) (forM (gate_shape s coords) (g_gates g)).

(* ---------------------------------------------------------------- connectors *)
(* tuple_occurences *)
Definition incr (m : list ((node * node) * nat)) (t : node * node) : list ((node * node) * nat) :=
  match dget tuple_eqb m t with
  | None => dset tuple_eqb m t 1%nat
  | Some n => dset tuple_eqb m t (S n)
  end.

Definition tuple_counts (es : list (node * node)) : list ((node * node) * nat) := fold_left incr es [].

Definition caps_of (g : graph) (t : node * node) : list cap :=
  match dget tuple_eqb (g_caps g) t with Some l => l | None => [] end.

(* one strand of a fanned connection *)
Definition strand (g : graph) (coords : node -> Z * Z) (sd : shape_dict) (t : node * node) (k : nat)
           (i : nat) (_ : unit) : M unit :=
  let cf := coords (fst t) in
  let ct := coords (snd t) in
  mbind (send (Elbow (elbow_x cf ct) (elbow_y cf ct k i))) (fun e =>
  let caption := nth_error (caps_of g t) i in
  mbind (lookup node_eqb sd (fst t)) (fun sf =>
  mbind (send (Connector sf e (if Nat.even i then caption else None) true)) (fun _ =>
  mbind (lookup node_eqb sd (snd t)) (fun stt =>
  mbind (send (Connector e stt (if Nat.even i then None else caption) false)) (fun _ =>
  ret tt))))).

Definition connect (g : graph) (coords : node -> Z * Z) (sd : shape_dict) (tk : (node * node) * nat)
           (_ : unit) : M unit :=
  let t := fst tk in
  let k := snd tk in
  if Nat.eqb k 1 then
    mbind (lookup node_eqb sd (fst t)) (fun sf =>
    mbind (lookup node_eqb sd (snd t)) (fun stt =>
    let caption := match caps_of g t with [c] => Some c | _ => None end in
    mbind (send (Connector sf stt caption false)) (fun _ => ret tt)))
  else
    forM (strand g coords sd t k) (seq 0 k) tt.

(* _generate_miro_connectors *)
Definition connectors (g : graph) (coords : node -> Z * Z) (sd : shape_dict) : M unit :=
  forM (connect g coords sd) (tuple_counts (g_edges g)) tt.

(* generate_miro_board: [create] = "board_id is None" (a board name being given) *)
Definition generate (s : schema) (g : graph) (coords : node -> Z * Z) (create : bool) : M unit :=
  mbind (if create then mbind (send CreateBoard) (fun _ => ret tt) else ret tt) (fun _ =>
  mbind (shapes s g coords) (fun sd =>
  connectors g coords sd)).

Inductive status := Finished | Aborted | OutOfScript.

Definition status_of {A} (r : result A) : status :=
  match r with Done _ => Finished | Raised => Aborted | Starved => OutOfScript end.

(* the conversation and how it ended *)
Definition emit_log (s : schema) (g : graph) (coords : node -> Z * Z) (create : bool) (rs : list response)
  : log * status :=
  match generate s g coords create rs with (l, r, _) => (l, status_of r) end.

(* the requests sent and how generation ended *)
Definition emit (s : schema) (g : graph) (coords : node -> Z * Z) (create : bool) (rs : list response)
  : list request * status :=
  (map fst (fst (emit_log s g coords create rs)), snd (emit_log s g coords create rs)).

(* ---------------------------------------------------------------- comparison helpers (correspondence) *)
Definition colour_eqb (a b : colour) : bool :=
  match a, b with
  | White, White => true
  | Hex x, Hex y => Nat.eqb x y
  | GateColour x, GateColour y => gate_eqb x y
  | _, _ => false
  end.

Definition content_eqb (a b : content) : bool :=
  match a, b with
  | CAction x, CAction y => Nat.eqb x y
  | CGate x, CGate y => gate_eqb x y
  | _, _ => false
  end.

Definition ocap_eqb (a b : option cap) : bool :=
  match a, b with
  | None, None => true
  | Some x, Some y => cap_eqb x y
  | _, _ => false
  end.

Definition request_eqb (a b : request) : bool :=
  match a, b with
  | CreateBoard, CreateBoard => true
  | Shape n x y f c, Shape n' x' y' f' c' =>
    node_eqb n n' && Z.eqb x x' && Z.eqb y y' && colour_eqb f f' && content_eqb c c'
  | Support n x y, Support n' x' y' => node_eqb n n' && Z.eqb x x' && Z.eqb y y'
  | Elbow x y, Elbow x' y' => Z.eqb x x' && Z.eqb y y'
  | Connector f t c e, Connector f' t' c' e' => Z.eqb f f' && Z.eqb t t' && ocap_eqb c c' && Bool.eqb e e'
  | _, _ => false
  end.

Definition status_eqb (a b : status) : bool :=
  match a, b with
  | Finished, Finished | Aborted, Aborted | OutOfScript, OutOfScript => true
  | _, _ => false
  end.

(* coordinates given as an association list (what the layout returned); absent = (0,0) *)
Definition coords_of (l : list (node * (Z * Z))) (n : node) : Z * Z :=
  match dget node_eqb l n with Some c => c | None => (0, 0) end.
