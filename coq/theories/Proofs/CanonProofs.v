(* Lemmas about the model OIS.Model.Canon (uniqueness machinery of property C10).

   Contents
     A. dups: the dict-based duplicate detection reports exactly the keys occurring at two positions
        (`In_dups_iff`, `dups_nil_iff_NoDup`, `dups_perm`, ...)
     B. insertion sort: sorting two permutations of a list with an order that is total, transitive and
        antisymmetric on the elements gives the same list (`isort_perm_eq`)
     C. `ccompare` is a total order on canonical forms (reflexive, Eq -> equal, antisymmetric, transitive)
     D. `canon_eq`: canon_eqb x y = true <-> same_modulo_order x y
     E. corollaries: insensitive to array order and key order, sensitive to the JSON type
     F. the text model: same_modulo_order x y -> ser x = ser y, hence canon_eqb -> impl_eqb;
        the converse fails where a container changes its kind (`impl_confuses_*`)
     G. same_modulo_order on objects with distinct keys, said with `get` *)
From Coq Require Import List String ZArith Bool Ascii Lia Permutation Sorting.Sorted OrdersEx Arith RelationClasses.
From OIS Require Import Base.Json Model.Canon Spec.UniqueSpec.
Import ListNotations.
Open Scope string_scope.
Open Scope list_scope.

(* ====================================================================================================== A. dups *)
Lemma NoDup_snoc : forall {A : Type} (l : list A) (x : A), NoDup l -> ~ In x l -> NoDup (l ++ [x]).
Proof.
  induction l as [|y r IH]; intros x ND Hn; cbn.
  - constructor; [tauto | constructor].
  - inversion ND as [|? ? Hy ND']; subst. constructor.
    + rewrite in_app_iff. cbn. intros [H|[H|[]]]; [contradiction|]. subst. apply Hn. left. reflexivity.
    + apply IH; [exact ND'|]. intro H. apply Hn. right. exact H.
Qed.

Section DupsProofs.
  Context {K : Type} (eqb : K -> K -> bool).
  Hypothesis eqb_spec : forall a b, eqb a b = true <-> a = b.

  Lemma eqb_refl' : forall a, eqb a a = true.
  Proof. intro a. apply eqb_spec. reflexivity. Qed.

  Lemma eqb_false_iff' : forall a b, eqb a b = false <-> a <> b.
  Proof.
    intros a b. split.
    - intros H E. apply eqb_spec in E. congruence.
    - intro H. destruct (eqb a b) eqn:E; [apply eqb_spec in E; contradiction | reflexivity].
  Qed.

  Fixpoint lookup (k : K) (d : list (K * bool)) : option bool :=
    match d with
    | [] => None
    | (k', v) :: r => if eqb k k' then Some v else lookup k r
    end.

  (* number of positions of l holding k *)
  Fixpoint count (k : K) (l : list K) : nat :=
    match l with
    | [] => 0
    | x :: r => (if eqb k x then 1 else 0) + count k r
    end.

  Lemma dict_mem_lookup : forall k d,
    dict_mem eqb k d = match lookup k d with Some _ => true | None => false end.
  Proof.
    induction d as [|[k' v] r IH]; cbn; [reflexivity|].
    destruct (eqb k k'); cbn; [reflexivity | exact IH].
  Qed.

  Lemma lookup_set : forall k v d k',
    lookup k' (dict_set eqb k v d) = if eqb k' k then Some v else lookup k' d.
  Proof.
    induction d as [|[k2 v2] r IH]; intro k'; cbn.
    - destruct (eqb k' k); reflexivity.
    - destruct (eqb k k2) eqn:E; cbn.
      + apply eqb_spec in E. subst k2. destruct (eqb k' k); reflexivity.
      + rewrite IH. destruct (eqb k' k2) eqn:E2; [|reflexivity].
        apply eqb_spec in E2. subst k2.
        destruct (eqb k' k) eqn:E3; [|reflexivity].
        apply eqb_spec in E3. subst k'. rewrite eqb_refl' in E. discriminate.
  Qed.

  Lemma keys_set : forall k v d,
    map fst (dict_set eqb k v d) = if dict_mem eqb k d then map fst d else map fst d ++ [k].
  Proof.
    induction d as [|[k2 v2] r IH]; cbn; [reflexivity|].
    destruct (eqb k k2) eqn:E; cbn; [reflexivity|].
    rewrite IH. destruct (dict_mem eqb k r); reflexivity.
  Qed.

  Lemma lookup_None_notin : forall k d, lookup k d = None -> ~ In k (map fst d).
  Proof.
    induction d as [|[k2 v2] r IH]; cbn; [tauto|].
    destruct (eqb k k2) eqn:E; [discriminate|].
    intros H [H1|H1]; [subst k2; rewrite eqb_refl' in E; discriminate | exact (IH H H1)].
  Qed.

  Lemma In_lookup : forall k b d, NoDup (map fst d) -> (In (k, b) d <-> lookup k d = Some b).
  Proof.
    induction d as [|[k2 v2] r IH]; cbn; intro ND.
    - split; [tauto | discriminate].
    - inversion ND as [|? ? Hn ND']; subst.
      destruct (eqb k k2) eqn:E.
      + apply eqb_spec in E. subst k2. split.
        * intros [H|H]; [congruence|]. exfalso. apply Hn. apply in_map_iff. exists (k, b). split; [reflexivity|exact H].
        * intro H. left. congruence.
      + rewrite <- (IH ND'). split; [|tauto].
        intros [H|H]; [|exact H]. inversion H; subst. rewrite eqb_refl' in E. discriminate.
  Qed.

  Lemma count_app : forall k l l', count k (l ++ l') = count k l + count k l'.
  Proof. induction l; intro l'; cbn; [reflexivity|]. rewrite IHl. lia. Qed.

  Lemma count_pos_iff : forall k l, 1 <= count k l <-> In k l.
  Proof.
    induction l as [|x r IH]; cbn; [split; [lia|tauto]|].
    destruct (eqb k x) eqn:E.
    - apply eqb_spec in E. subst. split; [auto | lia].
    - apply eqb_false_iff' in E. cbn. rewrite IH. split; [auto|]. intros [H|H]; [congruence|exact H].
  Qed.

  Lemma NoDup_count : forall l, NoDup l <-> (forall k, count k l <= 1).
  Proof.
    induction l as [|x r IH].
    - split; [cbn; lia | constructor].
    - split.
      + intros ND k. inversion ND as [|? ? Hn ND']; subst. cbn.
        destruct (eqb k x) eqn:E.
        * apply eqb_spec in E. subst.
          assert (count x r = 0). { destruct (count x r) eqn:C; [reflexivity|]. exfalso. apply Hn, count_pos_iff. lia. }
          lia.
        * cbn. apply IH. exact ND'.
      + intro H. constructor.
        * intro Hin. apply count_pos_iff in Hin. specialize (H x). cbn in H. rewrite eqb_refl' in H. lia.
        * apply IH. intro k. specialize (H k). cbn in H. lia.
  Qed.

  Lemma count_perm : forall k l l', Permutation l l' -> count k l = count k l'.
  Proof.
    induction 1; cbn; try lia.
  Qed.

  (* the state of the dict after the keys of l0 have been inserted *)
  Definition uv_inv (l0 : list K) (d : list (K * bool)) : Prop :=
    NoDup (map fst d) /\
    forall k, lookup k d = match count k l0 with 0 => None | 1 => Some true | _ => Some false end.

  Lemma uv_step_inv : forall l0 d x, uv_inv l0 d -> uv_inv (l0 ++ [x]) (uv_step eqb d x).
  Proof.
    intros l0 d x [ND Hl]. unfold uv_step. split.
    - rewrite keys_set. rewrite dict_mem_lookup.
      destruct (lookup x d) eqn:L; [exact ND|].
      apply NoDup_snoc; [exact ND | apply lookup_None_notin; exact L].
    - intro k. rewrite lookup_set, count_app. cbn. rewrite dict_mem_lookup.
      destruct (eqb k x) eqn:E.
      + apply eqb_spec in E. subst k. rewrite Hl.
        destruct (count x l0) as [|[|n]]; cbn; reflexivity.
      + rewrite Hl. replace (count k l0 + (0 + 0)) with (count k l0) by lia. reflexivity.
  Qed.

  Lemma uv_fold_inv : forall l l0 d, uv_inv l0 d -> uv_inv (l0 ++ l) (fold_left (uv_step eqb) l d).
  Proof.
    induction l as [|x r IH]; intros l0 d H; cbn.
    - rewrite app_nil_r. exact H.
    - replace (l0 ++ x :: r) with ((l0 ++ [x]) ++ r) by (rewrite <- app_assoc; reflexivity).
      apply IH. apply uv_step_inv. exact H.
  Qed.

  Lemma unique_values_inv : forall l, uv_inv l (unique_values eqb l).
  Proof.
    intro l. unfold unique_values. apply (uv_fold_inv l [] []).
    split; [constructor | intro k; reflexivity].
  Qed.

  (* a key is reported exactly when it was inserted at least twice *)
  Lemma In_dups_iff : forall k l, In k (dups eqb l) <-> 2 <= count k l.
  Proof.
    intros k l. destruct (unique_values_inv l) as [ND Hl]. unfold dups.
    rewrite in_map_iff. split.
    - intros [[k' b] [E Hin]]. cbn in E. subst k'. apply filter_In in Hin. destruct Hin as [Hin Hb].
      cbn in Hb. destruct b; [discriminate|].
      apply (In_lookup k false _ ND) in Hin. rewrite Hl in Hin.
      destruct (count k l) as [|[|n]]; try discriminate. lia.
    - intro H. exists (k, false). split; [reflexivity|]. apply filter_In. split; [|reflexivity].
      apply (In_lookup k false _ ND). rewrite Hl.
      destruct (count k l) as [|[|n]]; try lia. reflexivity.
  Qed.

  (* every duplicate is reported once *)
  Lemma NoDup_dups : forall l, NoDup (dups eqb l).
  Proof.
    intro l. destruct (unique_values_inv l) as [ND _]. unfold dups.
    revert ND. generalize (unique_values eqb l). induction l0 as [|[k b] r IH]; cbn; intro ND; [constructor|].
    inversion ND as [|? ? Hn ND']; subst.
    destruct b; cbn; [exact (IH ND')|].
    constructor; [|exact (IH ND')].
    intro H. apply Hn. apply in_map_iff in H. destruct H as [p [E Hp]]. apply filter_In in Hp.
    apply in_map_iff. exists p. tauto.
  Qed.

  (* MAIN: no error is produced exactly when the keys are pairwise distinct *)
  Theorem dups_nil_iff_NoDup : forall l, dups eqb l = [] <-> NoDup l.
  Proof.
    intro l. rewrite NoDup_count. split.
    - intros H k. destruct (le_lt_dec 2 (count k l)) as [H2|H2]; [|lia].
      apply In_dups_iff in H2. rewrite H in H2. destruct H2.
    - intro H. destruct (dups eqb l) as [|k r] eqn:E; [reflexivity|].
      assert (Hin : In k (dups eqb l)) by (rewrite E; left; reflexivity).
      apply In_dups_iff in Hin. specialize (H k). lia.
  Qed.

  (* the reported keys do not depend on the order of the items (as a set, and the verdict in particular) *)
  Theorem dups_perm_Permutation : forall l l', Permutation l l' -> Permutation (dups eqb l) (dups eqb l').
  Proof.
    intros l l' P. apply NoDup_Permutation; try apply NoDup_dups.
    intro k. rewrite !In_dups_iff. rewrite (count_perm k l l' P). tauto.
  Qed.

  Theorem dups_perm : forall l l', Permutation l l' -> (dups eqb l = [] <-> dups eqb l' = []).
  Proof.
    intros l l' P. rewrite !dups_nil_iff_NoDup. split; apply Permutation_NoDup; [exact P | symmetry; exact P].
  Qed.

  (* positions *)
  Lemma NoDup_iff_distinct_positions : forall l : list K, NoDup l <-> distinct_at_all_positions l.
  Proof.
    intro l. rewrite NoDup_nth_error. unfold distinct_at_all_positions. split.
    - intros H i j a b Hi Hj Hne E. subst b. apply Hne. apply H.
      + apply nth_error_Some. congruence.
      + congruence.
    - intros H i j Hlt E. destruct (Nat.eq_dec i j) as [|Hne]; [assumption|]. exfalso.
      destruct (nth_error l i) as [a|] eqn:Hi; [|apply nth_error_Some in Hlt; congruence].
      exact (H i j a a Hi (eq_sym E) Hne eq_refl).
  Qed.

  Lemma repeated_cons : forall k x (r : list K), repeated k (x :: r) <-> (k = x /\ In k r) \/ repeated k r.
  Proof.
    intros k x r. unfold repeated. split.
    - intros [i [j [Hne [Hi Hj]]]]. destruct i as [|i], j as [|j]; cbn in *.
      + congruence.
      + left. split; [congruence | eapply nth_error_In; eassumption].
      + left. split; [congruence | eapply nth_error_In; eassumption].
      + right. exists i, j. repeat split; auto.
    - intros [[E Hin]|[i [j [Hne [Hi Hj]]]]].
      + subst x. apply In_nth_error in Hin. destruct Hin as [n Hn]. exists 0, (S n). repeat split; auto.
      + exists (S i), (S j). repeat split; auto.
  Qed.

  Lemma repeated_iff_count : forall k l, repeated k l <-> 2 <= count k l.
  Proof.
    induction l as [|x r IH].
    - cbn. split; [|lia]. intros [i [j [_ [Hi _]]]]. destruct i; discriminate.
    - rewrite repeated_cons, IH. cbn. destruct (eqb k x) eqn:E.
      + apply eqb_spec in E. subst x. rewrite <- count_pos_iff. split; [intros [[_ H]|H]; lia|].
        intro H. left. split; [reflexivity|lia].
      + apply eqb_false_iff' in E. cbn. split; [intros [[H _]|H]; [contradiction|exact H] | auto].
  Qed.

  (* a key is reported exactly when it sits at two different positions, wherever they are *)
  Theorem In_dups_iff_repeated : forall k l, In k (dups eqb l) <-> repeated k l.
  Proof. intros. rewrite In_dups_iff, repeated_iff_count. tauto. Qed.
End DupsProofs.

(* the key types of the model have correct boolean equalities *)
Lemma pykey_eqb_spec : forall a b, pykey_eqb a b = true <-> a = b.
Proof.
  intros [|x|x] [|y|y]; cbn; try (split; [discriminate | congruence]).
  - tauto.
  - rewrite Z.eqb_eq. split; congruence.
  - rewrite String.eqb_eq. split; congruence.
Qed.

(* ====================================================================================================== B. sorting *)
Section ISortProofs.
  Context {A : Type} (leb : A -> A -> bool).
  Let le (a b : A) : Prop := leb a b = true.

  Lemma insert_perm : forall x l, Permutation (insert leb x l) (x :: l).
  Proof.
    induction l as [|y r IH]; cbn; [apply Permutation_refl|].
    destruct (leb x y); [apply Permutation_refl|].
    eapply perm_trans; [apply perm_skip, IH | apply perm_swap].
  Qed.

  Lemma isort_perm : forall l, Permutation (isort leb l) l.
  Proof.
    induction l as [|x r IH]; cbn; [constructor|].
    eapply perm_trans; [apply insert_perm | apply perm_skip, IH].
  Qed.

  Hypothesis leb_total : forall a b, leb a b = true \/ leb b a = true.
  Hypothesis leb_trans : forall a b c, leb a b = true -> leb b c = true -> leb a c = true.

  Lemma insert_sorted : forall x l, StronglySorted le l -> StronglySorted le (insert leb x l).
  Proof.
    induction l as [|y r IH]; cbn; intro S.
    - constructor; constructor.
    - apply StronglySorted_inv in S. destruct S as [S Hy].
      destruct (leb x y) eqn:E.
      + constructor; [constructor; assumption|].
        constructor; [exact E|]. eapply Forall_impl; [|exact Hy]. intros z Hz. exact (leb_trans _ _ _ E Hz).
      + constructor; [exact (IH S)|].
        eapply Permutation_Forall; [symmetry; apply insert_perm|].
        constructor; [|exact Hy]. destruct (leb_total x y) as [H|H]; [congruence|exact H].
  Qed.

  Lemma isort_sorted : forall l, StronglySorted le (isort leb l).
  Proof. induction l; cbn; [constructor | apply insert_sorted; assumption]. Qed.

  Lemma sorted_perm_eq : forall l l',
    StronglySorted le l -> StronglySorted le l' -> Permutation l l' ->
    (forall x y, In x l -> In y l -> le x y -> le y x -> x = y) ->
    l = l'.
  Proof.
    induction l as [|x r IH]; intros l' S S' P Anti.
    - apply Permutation_nil in P. congruence.
    - destruct l' as [|y r']; [apply Permutation_sym, Permutation_nil in P; discriminate|].
      apply StronglySorted_inv in S. destruct S as [S Hx].
      apply StronglySorted_inv in S'. destruct S' as [S' Hy].
      assert (E : x = y).
      { assert (Hxin : In x (y :: r')) by (eapply Permutation_in; [exact P | left; reflexivity]).
        assert (Hyin : In y (x :: r)) by (eapply Permutation_in; [symmetry; exact P | left; reflexivity]).
        destruct Hxin as [Hxin|Hxin]; [congruence|].
        destruct Hyin as [Hyin|Hyin]; [congruence|].
        apply Anti; [left; reflexivity | right; exact Hyin | |].
        - rewrite Forall_forall in Hx. exact (Hx _ Hyin).
        - rewrite Forall_forall in Hy. exact (Hy _ Hxin). }
      subst y. f_equal. apply IH; try assumption.
      + eapply Permutation_cons_inv. exact P.
      + intros a b Ha Hb. apply Anti; right; assumption.
  Qed.

  (* sorting is a function of the multiset, provided the order is antisymmetric on the elements *)
  Lemma isort_perm_eq : forall l l',
    Permutation l l' ->
    (forall x y, In x l -> In y l -> le x y -> le y x -> x = y) ->
    isort leb l = isort leb l'.
  Proof.
    intros l l' P Anti. apply sorted_perm_eq; try apply isort_sorted.
    - eapply perm_trans; [apply isort_perm|]. eapply perm_trans; [exact P|]. symmetry. apply isort_perm.
    - intros x y Hx Hy. apply Anti; (eapply Permutation_in; [apply isort_perm|]); assumption.
  Qed.
End ISortProofs.

(* ====================================================================================================== C. the order *)
Lemma CompOpp_Eq : forall c, CompOpp c = Eq -> c = Eq.
Proof. destruct c; cbn; congruence. Qed.

(* strings *)
Lemma str_lt_irrefl : forall s, ~ String_as_OT.lt s s.
Proof. exact (StrictOrder_Irreflexive (R := String_as_OT.lt)). Qed.
Lemma str_lt_trans : forall s t u, String_as_OT.lt s t -> String_as_OT.lt t u -> String_as_OT.lt s u.
Proof. exact (StrictOrder_Transitive (R := String_as_OT.lt)). Qed.

Lemma str_compare_refl : forall s, String_as_OT.compare s s = Eq.
Proof.
  intro s. destruct (String_as_OT.compare_spec s s) as [_|H|H]; [reflexivity| |];
    exfalso; exact (str_lt_irrefl s H).
Qed.

Lemma str_compare_eq : forall s t, String_as_OT.compare s t = Eq -> s = t.
Proof. intros s t H. destruct (String_as_OT.compare_spec s t) as [E|E|E]; [exact E | discriminate | discriminate]. Qed.

Lemma str_compare_antisym : forall s t, String_as_OT.compare t s = CompOpp (String_as_OT.compare s t).
Proof.
  intros s t.
  destruct (String_as_OT.compare_spec s t) as [E|H|H], (String_as_OT.compare_spec t s) as [E'|H'|H']; cbn;
    try reflexivity; unfold String_as_OT.eq in *; subst; exfalso;
    first [ eapply str_lt_irrefl; eassumption | eapply str_lt_irrefl; eapply str_lt_trans; eassumption ].
Qed.

Lemma str_compare_trans : forall s t u,
  String_as_OT.compare s t = Lt -> String_as_OT.compare t u = Lt -> String_as_OT.compare s u = Lt.
Proof. exact str_lt_trans. Qed.

(* what a good three-way comparison satisfies at a point a *)
Definition cmp_refl {A} (cmp : A -> A -> comparison) (a : A) : Prop := cmp a a = Eq.
Definition cmp_eq {A} (cmp : A -> A -> comparison) (a : A) : Prop := forall b, cmp a b = Eq -> a = b.
Definition cmp_anti {A} (cmp : A -> A -> comparison) (a : A) : Prop := forall b, cmp b a = CompOpp (cmp a b).
Definition cmp_trans {A} (cmp : A -> A -> comparison) (a : A) : Prop :=
  forall b c, cmp a b = Lt -> cmp b c = Lt -> cmp a c = Lt.

(* lexicographic product of two comparisons *)
Section LexPair.
  Context {A B : Type} (ca : A -> A -> comparison) (cb : B -> B -> comparison).
  Definition pcmp (p q : A * B) : comparison := lexc2 (ca (fst p) (fst q)) (cb (snd p) (snd q)).

  Lemma pcmp_refl : forall p, cmp_refl ca (fst p) -> cmp_refl cb (snd p) -> cmp_refl pcmp p.
  Proof. intros p H1 H2. unfold cmp_refl, pcmp in *. rewrite H1. exact H2. Qed.

  Lemma pcmp_eq : forall p, cmp_eq ca (fst p) -> cmp_eq cb (snd p) -> cmp_eq pcmp p.
  Proof.
    intros [a b] H1 H2 [a' b']. unfold pcmp. cbn in *. destruct (ca a a') eqn:E; cbn; try discriminate.
    intro H. f_equal; [apply H1; exact E | apply H2; exact H].
  Qed.

  Lemma pcmp_anti : forall p, cmp_anti ca (fst p) -> cmp_anti cb (snd p) -> cmp_anti pcmp p.
  Proof.
    intros [a b] H1 H2 [a' b']. unfold pcmp. cbn in *. rewrite H1, H2.
    destruct (ca a a'); reflexivity.
  Qed.

  Lemma pcmp_trans : (forall a a', ca a a' = Eq -> a = a') ->
    forall p, cmp_trans ca (fst p) -> cmp_trans cb (snd p) -> cmp_trans pcmp p.
  Proof.
    intros Ea [a b] H1 H2 [a' b'] [a'' b'']. unfold pcmp. cbn in *.
    destruct (ca a a') eqn:E1; cbn; try discriminate; destruct (ca a' a'') eqn:E2; cbn; try discriminate.
    - pose proof (Ea _ _ E1). pose proof (Ea _ _ E2). subst. rewrite E1. cbn. apply H2.
    - apply Ea in E1. subst. rewrite E2. cbn. reflexivity.
    - apply Ea in E2. subst. rewrite E1. cbn. reflexivity.
    - rewrite (H1 _ _ E1 E2). reflexivity.
  Qed.
End LexPair.

Section LexListProofs.
  Context {A : Type} (cmp : A -> A -> comparison).

  Lemma lexlist_refl : forall l, Forall (cmp_refl cmp) l -> lexlist cmp l l = Eq.
  Proof. induction 1 as [|x r Hx _ IH]; cbn; [reflexivity|]. rewrite Hx. exact IH. Qed.

  Lemma lexlist_eq : forall l, Forall (cmp_eq cmp) l -> forall l', lexlist cmp l l' = Eq -> l = l'.
  Proof.
    induction 1 as [|x r Hx _ IH]; intros [|y r']; cbn; try discriminate; [reflexivity|].
    destruct (cmp x y) eqn:E; cbn; try discriminate. intro H. f_equal; [apply Hx; exact E | apply IH; exact H].
  Qed.

  Lemma lexlist_anti : forall l, Forall (cmp_anti cmp) l -> forall l', lexlist cmp l' l = CompOpp (lexlist cmp l l').
  Proof.
    induction 1 as [|x r Hx _ IH]; intros [|y r']; cbn; try reflexivity.
    rewrite Hx, IH. destruct (cmp x y); reflexivity.
  Qed.

  Lemma lexlist_trans : (forall a b, cmp a b = Eq -> a = b) ->
    forall l, Forall (cmp_trans cmp) l ->
    forall l' l'', lexlist cmp l l' = Lt -> lexlist cmp l' l'' = Lt -> lexlist cmp l l'' = Lt.
  Proof.
    intros Ea. induction 1 as [|x r Hx _ IH]; intros [|y r'] [|z r'']; cbn; try discriminate; try reflexivity.
    destruct (cmp x y) eqn:E1; cbn; try discriminate; destruct (cmp y z) eqn:E2; cbn; try discriminate.
    - pose proof (Ea _ _ E1). pose proof (Ea _ _ E2). subst. rewrite E1. cbn. apply IH.
    - apply Ea in E1. subst. rewrite E2. reflexivity.
    - apply Ea in E2. subst. rewrite E1. reflexivity.
    - rewrite (Hx _ _ E1 E2). reflexivity.
  Qed.
End LexListProofs.

(* scalars *)
Lemma scode_inj : forall a b, scode a = scode b -> a = b.
Proof.
  intros [|[|]|x|x|x] [|[|]|y|y|y]; cbn; intro H; inversion H; reflexivity.
Qed.

Definition tcmp : (Z * Z * string) -> (Z * Z * string) -> comparison :=
  pcmp (pcmp Z.compare Z.compare) String_as_OT.compare.

Lemma scompare_tcmp : forall a b, scompare a b = tcmp (scode a) (scode b).
Proof.
  intros a b. unfold scompare, tcmp, pcmp. destruct (scode a) as [[t z] s], (scode b) as [[t' z'] s']. cbn.
  destruct (Z.compare t t'); reflexivity.
Qed.

Lemma Z_cmp_refl : forall z, cmp_refl Z.compare z. Proof. exact Z.compare_refl. Qed.
Lemma Z_cmp_eq : forall z, cmp_eq Z.compare z. Proof. intros z b. apply Z.compare_eq. Qed.
Lemma Z_cmp_anti : forall z, cmp_anti Z.compare z. Proof. intros z b. apply Z.compare_antisym. Qed.
Lemma Z_cmp_trans : forall z, cmp_trans Z.compare z.
Proof. intros z b c. rewrite !Z.compare_lt_iff. lia. Qed.

Lemma tcmp_refl : forall t, cmp_refl tcmp t.
Proof. intros [[a b] c]. apply pcmp_refl; [apply pcmp_refl; apply Z_cmp_refl | apply str_compare_refl]. Qed.
Lemma tcmp_eq : forall t, cmp_eq tcmp t.
Proof. intros [[a b] c]. apply pcmp_eq; [apply pcmp_eq; apply Z_cmp_eq | exact (str_compare_eq c)]. Qed.
Lemma tcmp_anti : forall t, cmp_anti tcmp t.
Proof. intros [[a b] c]. apply pcmp_anti; [apply pcmp_anti; apply Z_cmp_anti | exact (str_compare_antisym c)]. Qed.
Lemma tcmp_trans : forall t, cmp_trans tcmp t.
Proof.
  intros [[a b] c]. apply pcmp_trans.
  - intros p q. apply (pcmp_eq Z.compare Z.compare p); apply Z_cmp_eq.
  - apply pcmp_trans; [exact Z.compare_eq | apply Z_cmp_trans | apply Z_cmp_trans].
  - exact (str_compare_trans c).
Qed.

Lemma scompare_refl : forall s, cmp_refl scompare s.
Proof. intro s. unfold cmp_refl. rewrite scompare_tcmp. apply tcmp_refl. Qed.
Lemma scompare_eq : forall s, cmp_eq scompare s.
Proof. intros s b. rewrite scompare_tcmp. intro H. apply scode_inj. apply tcmp_eq. exact H. Qed.
Lemma scompare_anti : forall s, cmp_anti scompare s.
Proof. intros s b. rewrite !scompare_tcmp. apply tcmp_anti. Qed.
Lemma scompare_trans : forall s, cmp_trans scompare s.
Proof. intros s b c. rewrite !scompare_tcmp. apply tcmp_trans. Qed.

(* nested induction principle for canonical forms *)
Section CjsonInd.
  Variable P : cjson -> Prop.
  Hypothesis Hs : forall s, P (CS s).
  Hypothesis Harr : forall l, Forall P l -> P (CArr l).
  Hypothesis Hobj : forall kv, Forall (fun p => P (snd p)) kv -> P (CObj kv).
  Fixpoint cjson_ind' (c : cjson) : P c :=
    match c with
    | CS s => Hs s
    | CArr l => Harr l ((fix go (l : list cjson) : Forall P l :=
                           match l with [] => Forall_nil _ | x :: r => Forall_cons _ (cjson_ind' x) (go r) end) l)
    | CObj kv => Hobj kv ((fix go (kv : list (string * cjson)) : Forall (fun p => P (snd p)) kv :=
                             match kv with [] => Forall_nil _ | (k, v) :: r => Forall_cons (k, v) (cjson_ind' v) (go r) end) kv)
    end.
End CjsonInd.

(* the comparison of (key, value) entries used inside ccompare *)
Definition ecmp : (string * cjson) -> (string * cjson) -> comparison := pcmp String_as_OT.compare ccompare.

Lemma ccompare_obj : forall kv kv', ccompare (CObj kv) (CObj kv') = lexlist ecmp kv kv'.
Proof. reflexivity. Qed.
Lemma ccompare_arr : forall l l', ccompare (CArr l) (CArr l') = lexlist ccompare l l'.
Proof. reflexivity. Qed.

Lemma ccompare_refl : forall a, ccompare a a = Eq.
Proof.
  induction a as [s|l IH|kv IH] using cjson_ind'.
  - apply scompare_refl.
  - rewrite ccompare_arr. apply lexlist_refl. exact IH.
  - rewrite ccompare_obj. apply lexlist_refl. eapply Forall_impl; [|exact IH].
    intros p Hp. apply pcmp_refl; [apply str_compare_refl | exact Hp].
Qed.

Lemma ccompare_eq : forall a b, ccompare a b = Eq -> a = b.
Proof.
  induction a as [s|l IH|kv IH] using cjson_ind'; intros [s'|l'|kv']; try (cbn; discriminate).
  - cbn. intro H. f_equal. apply scompare_eq. exact H.
  - rewrite ccompare_arr. intro H. f_equal. eapply lexlist_eq; [|exact H]. exact IH.
  - rewrite ccompare_obj. intro H. f_equal. eapply lexlist_eq; [|exact H].
    eapply Forall_impl; [|exact IH]. intros p Hp. apply pcmp_eq; [exact (str_compare_eq (fst p)) | exact Hp].
Qed.

Lemma ccompare_anti : forall a b, ccompare b a = CompOpp (ccompare a b).
Proof.
  induction a as [s|l IH|kv IH] using cjson_ind'; intros [s'|l'|kv']; try reflexivity.
  - cbn. apply scompare_anti.
  - rewrite !ccompare_arr. apply lexlist_anti. exact IH.
  - rewrite !ccompare_obj. apply lexlist_anti.
    eapply Forall_impl; [|exact IH]. intros p Hp. apply pcmp_anti; [exact (str_compare_antisym (fst p)) | exact Hp].
Qed.

Lemma ecmp_eq : forall p q, ecmp p q = Eq -> p = q.
Proof. intros p. apply pcmp_eq; [exact (str_compare_eq (fst p)) | exact (ccompare_eq (snd p))]. Qed.

Lemma ccompare_trans : forall a b c, ccompare a b = Lt -> ccompare b c = Lt -> ccompare a c = Lt.
Proof.
  induction a as [s|l IH|kv IH] using cjson_ind'; intros [s'|l'|kv'] [s''|l''|kv'']; try (cbn; congruence).
  - cbn. apply scompare_trans.
  - rewrite !ccompare_arr. apply lexlist_trans; [exact ccompare_eq | exact IH].
  - rewrite !ccompare_obj. apply lexlist_trans; [exact ecmp_eq|].
    eapply Forall_impl; [|exact IH]. intros p Hp.
    apply pcmp_trans; [exact str_compare_eq | exact (str_compare_trans (fst p)) | exact Hp].
Qed.

(* the boolean order used by csort *)
Lemma cleb_total : forall a b, cleb a b = true \/ cleb b a = true.
Proof.
  intros a b. unfold cleb. rewrite (ccompare_anti a b). destruct (ccompare a b); cbn; auto.
Qed.

Lemma cleb_trans : forall a b c, cleb a b = true -> cleb b c = true -> cleb a c = true.
Proof.
  intros a b c. unfold cleb.
  destruct (ccompare a b) eqn:E1; cbn; try discriminate; destruct (ccompare b c) eqn:E2; cbn; try discriminate; intros _ _.
  - apply ccompare_eq in E1. subst. rewrite E2. reflexivity.
  - apply ccompare_eq in E1. subst. rewrite E2. reflexivity.
  - apply ccompare_eq in E2. subst. rewrite E1. reflexivity.
  - rewrite (ccompare_trans _ _ _ E1 E2). reflexivity.
Qed.

Lemma cleb_antisym : forall a b, cleb a b = true -> cleb b a = true -> a = b.
Proof.
  intros a b. unfold cleb. rewrite (ccompare_anti a b).
  destruct (ccompare a b) eqn:E; cbn; try discriminate; intros _ _. apply ccompare_eq. exact E.
Qed.

Lemma cjson_eqb_spec : forall a b, cjson_eqb a b = true <-> a = b.
Proof.
  intros a b. unfold cjson_eqb. split.
  - destruct (ccompare a b) eqn:E; cbn; try discriminate. intros _. apply ccompare_eq. exact E.
  - intros ->. rewrite ccompare_refl. reflexivity.
Qed.

(* csort is a function of the multiset *)
Lemma csort_perm_eq : forall l l', Permutation l l' -> csort l = csort l'.
Proof.
  intros l l' P. apply isort_perm_eq; [exact cleb_total | exact cleb_trans | exact P|].
  intros x y _ _. apply cleb_antisym.
Qed.

(* the order of dict entries *)
Lemma kleb_total : forall {V} (p q : string * V), kleb p q = true \/ kleb q p = true.
Proof.
  intros V p q. unfold kleb. rewrite (str_compare_antisym (fst p) (fst q)).
  destruct (String_as_OT.compare (fst p) (fst q)); cbn; auto.
Qed.

Lemma kleb_trans : forall {V} (p q r : string * V), kleb p q = true -> kleb q r = true -> kleb p r = true.
Proof.
  intros V p q r. unfold kleb.
  destruct (String_as_OT.compare (fst p) (fst q)) eqn:E1; cbn; try discriminate;
    destruct (String_as_OT.compare (fst q) (fst r)) eqn:E2; cbn; try discriminate; intros _ _.
  - apply str_compare_eq in E1. rewrite E1, E2. reflexivity.
  - apply str_compare_eq in E1. rewrite E1, E2. reflexivity.
  - apply str_compare_eq in E2. rewrite <- E2, E1. reflexivity.
  - rewrite (str_compare_trans _ _ _ E1 E2). reflexivity.
Qed.

Lemma kleb_antisym_keys : forall {V} (p q : string * V), kleb p q = true -> kleb q p = true -> fst p = fst q.
Proof.
  intros V p q. unfold kleb. rewrite (str_compare_antisym (fst p) (fst q)).
  destruct (String_as_OT.compare (fst p) (fst q)) eqn:E; cbn; try discriminate; intros _ _.
  apply str_compare_eq. exact E.
Qed.

Lemma NoDup_keys_inj : forall {V} (l : list (string * V)) p q,
  NoDup (map fst l) -> In p l -> In q l -> fst p = fst q -> p = q.
Proof.
  induction l as [|x r IH]; intros p q ND Hp Hq E; [destruct Hp|].
  cbn in ND. inversion ND as [|? ? Hn ND']; subst.
  destruct Hp as [Hp|Hp], Hq as [Hq|Hq]; subst.
  - reflexivity.
  - exfalso. apply Hn. rewrite E. apply in_map. exact Hq.
  - exfalso. apply Hn. rewrite <- E. apply in_map. exact Hp.
  - apply IH; assumption.
Qed.

(* ksort is a function of the set of entries when the keys are distinct *)
Lemma ksort_perm_eq : forall {V} (l l' : list (string * V)),
  NoDup (map fst l) -> Permutation l l' -> ksort l = ksort l'.
Proof.
  intros V l l' ND P. apply isort_perm_eq; [exact kleb_total | exact kleb_trans | exact P|].
  intros x y Hx Hy H1 H2. apply (NoDup_keys_inj l); try assumption. apply kleb_antisym_keys; assumption.
Qed.

(* ====================================================================================================== D. canon_eq *)
Lemma canon_arr : forall l, canon (JArr l) = CArr (csort (map canon l)).
Proof. reflexivity. Qed.
Lemma canon_obj : forall kv, canon (JObj kv) = CObj (ksort (map (fun p => (fst p, canon (snd p))) kv)).
Proof. reflexivity. Qed.

(* Soundness, for any canonicaliser of the same shape as `canon` (instantiated with `canon` and with `serN`):
   arrays are mapped and sorted with an order that is total, transitive and antisymmetric, objects are mapped and
   sorted by key. *)
Lemma map_eq_of_Forall2 : forall {A B} (F : A -> B) (R : A -> A -> Prop) l l',
  Forall2 R l l' -> Forall (fun x => forall y, R x y -> F x = F y) l -> map F l = map F l'.
Proof.
  induction 1 as [|a b r r' Hab _ IH]; intro H; [reflexivity|].
  inversion H; subst. cbn. f_equal; auto.
Qed.

Section Canonicaliser.
  Context {T : Type} (F : json -> T) (lebT : T -> T -> bool) (GA : list T -> T) (GO : list (string * T) -> T).
  Hypothesis lebT_total : forall a b, lebT a b = true \/ lebT b a = true.
  Hypothesis lebT_trans : forall a b c, lebT a b = true -> lebT b c = true -> lebT a c = true.
  Hypothesis lebT_antisym : forall a b, lebT a b = true -> lebT b a = true -> a = b.
  Hypothesis F_arr : forall l, F (JArr l) = GA (isort lebT (map F l)).
  Hypothesis F_obj : forall kv, F (JObj kv) = GO (ksort (map (fun p => (fst p, F (snd p))) kv)).

  Lemma smo_sound_gen : forall x, keys_distinct x -> forall y, same_modulo_order x y -> F x = F y.
  Proof.
    induction x as [| | | | |l IH|kv IH] using json_ind'; intros Hkd y Hs; inversion Hs; subst; try reflexivity.
    - (* arrays *)
      inversion Hkd as [| | | | |? Hl|]; subst.
      assert (Hmap : map F l = map F l'').
      { eapply map_eq_of_Forall2; [eassumption|].
        rewrite Forall_forall in *. intros a Ha b Hab. apply IH; auto. }
      rewrite !F_arr. f_equal. rewrite Hmap.
      apply isort_perm_eq; try assumption.
      + apply Permutation_map. assumption.
      + intros a b _ _. apply lebT_antisym.
    - (* objects *)
      inversion Hkd as [| | | | | |? Hnd Hl]; subst.
      assert (Hmap : map (fun p => (fst p, F (snd p))) kv = map (fun p => (fst p, F (snd p))) kv'').
      { eapply map_eq_of_Forall2; [eassumption|].
        rewrite Forall_forall in *. intros p Hp q [Hk Hpq]. cbn. rewrite Hk. f_equal. apply IH; auto. }
      rewrite !F_obj. f_equal. rewrite Hmap. apply ksort_perm_eq.
      + rewrite <- Hmap. rewrite map_map. cbn. exact Hnd.
      + apply Permutation_map. assumption.
  Qed.
End Canonicaliser.

Lemma smo_sound : forall x y, keys_distinct x -> same_modulo_order x y -> canon x = canon y.
Proof.
  intros x y Hkd Hs.
  exact (smo_sound_gen canon cleb CArr CObj cleb_total cleb_trans cleb_antisym canon_arr canon_obj x Hkd y Hs).
Qed.

Lemma Forall2_of_map_eq : forall {A B} (F : A -> B) (R : A -> A -> Prop) l l',
  Forall (fun x => forall y, F x = F y -> R x y) l -> map F l = map F l' -> Forall2 R l l'.
Proof.
  induction l as [|x r IH]; intros [|y r'] H E; try discriminate; [constructor|].
  inversion H; subst. cbn in E. inversion E. constructor; auto.
Qed.

Lemma csort_eq_perm : forall l l', csort l = csort l' -> Permutation l l'.
Proof.
  intros l l' E. eapply perm_trans; [symmetry; apply (isort_perm cleb)|]. fold (csort l). rewrite E. apply isort_perm.
Qed.

Lemma ksort_eq_perm : forall {V} (l l' : list (string * V)), ksort l = ksort l' -> Permutation l l'.
Proof.
  intros V l l' E. eapply perm_trans; [symmetry; apply (isort_perm kleb)|]. fold (ksort l). rewrite E. apply isort_perm.
Qed.

(* Completeness needs no hypothesis on the keys *)
Lemma smo_complete : forall x y, canon x = canon y -> same_modulo_order x y.
Proof.
  induction x as [|b|z|r|s|l IH|kv IH] using json_ind'; intros y Hc;
    destruct y as [|b'|z'|r'|s'|l'|kv']; try discriminate Hc; try (inversion Hc; subst; constructor).
  - rewrite !canon_arr in Hc. injection Hc as Hc. apply csort_eq_perm in Hc.
    apply Permutation_map_inv in Hc. destruct Hc as [l3 [E P]].
    apply smo_arr with (l'' := l3); [|symmetry; exact P].
    eapply Forall2_of_map_eq; [exact IH | exact E].
  - rewrite !canon_obj in Hc. injection Hc as Hc. apply ksort_eq_perm in Hc.
    apply Permutation_map_inv in Hc. destruct Hc as [l3 [E P]].
    apply smo_obj with (kv'' := l3); [|symmetry; exact P].
    clear P. revert l3 E. induction IH as [|p r Hp _ IHr]; intros [|q r'] E; try discriminate; [constructor|].
    cbn in E. inversion E. constructor; [split; [assumption | apply Hp; assumption] | apply IHr; assumption].
Qed.

Lemma canon_eqb_true_iff : forall x y, canon_eqb x y = true <-> canon x = canon y.
Proof. intros. apply cjson_eqb_spec. Qed.

(* MAIN *)
Theorem canon_eq : forall x y, keys_distinct x -> keys_distinct y ->
  (canon_eqb x y = true <-> same_modulo_order x y).
Proof.
  intros x y Hx _. rewrite canon_eqb_true_iff. split; [apply smo_complete | apply smo_sound; exact Hx].
Qed.

(* slightly stronger than asked: only the left value needs distinct keys, and only for <- *)
Theorem canon_eq_left : forall x y, keys_distinct x -> (canon_eqb x y = true <-> same_modulo_order x y).
Proof.
  intros x y Hx. rewrite canon_eqb_true_iff. split; [apply smo_complete | apply smo_sound; exact Hx].
Qed.

(* ====================================================================================================== E. corollaries *)
(* insensitive to the order of an array (top level, no hypothesis) *)
Theorem canon_perm : forall l l', Permutation l l' -> canon_eqb (JArr l) (JArr l') = true.
Proof.
  intros l l' P. apply canon_eqb_true_iff. rewrite !canon_arr. f_equal. apply csort_perm_eq.
  apply Permutation_map. exact P.
Qed.

(* insensitive to the order of the keys *)
Theorem canon_key_order : forall kv kv', NoDup (map fst kv) -> Permutation kv kv' ->
  canon_eqb (JObj kv) (JObj kv') = true.
Proof.
  intros kv kv' ND P. apply canon_eqb_true_iff. rewrite !canon_obj. f_equal. apply ksort_perm_eq.
  - rewrite map_map. cbn. exact ND.
  - apply Permutation_map. exact P.
Qed.

Lemma smo_refl : forall x, same_modulo_order x x.
Proof. intro x. apply smo_complete. reflexivity. Qed.

Lemma smo_sym : forall x y, keys_distinct x -> same_modulo_order x y -> same_modulo_order y x.
Proof. intros x y Hx H. apply smo_complete. symmetry. apply smo_sound; assumption. Qed.

Lemma smo_trans : forall x y z, keys_distinct x -> keys_distinct y ->
  same_modulo_order x y -> same_modulo_order y z -> same_modulo_order x z.
Proof.
  intros x y z Hx Hy H1 H2. apply smo_complete.
  rewrite (smo_sound x y Hx H1). apply smo_sound; assumption.
Qed.

(* reordering at ANY depth: every array shuffled and every key order permuted *)
Theorem canon_deep_reorder : forall x y, keys_distinct x -> same_modulo_order x y -> canon_eqb x y = true.
Proof. intros x y Hx H. apply canon_eqb_true_iff. apply smo_sound; assumption. Qed.

(* sensitive to the JSON type: values of different JSON types are never identified, at top level ... *)
Theorem canon_type_sensitive : forall x y, jtype_of x <> jtype_of y -> canon_eqb x y = false.
Proof.
  intros x y H. destruct (canon_eqb x y) eqn:E; [|reflexivity]. exfalso. apply H.
  apply canon_eqb_true_iff in E. destruct x, y; try reflexivity; discriminate E.
Qed.

(* ... scalars of the same type only when equal ... *)
Theorem canon_scalar_eq : forall x y, is_scalar x -> canon_eqb x y = true -> x = y.
Proof.
  intros x y Hs E. apply canon_eqb_true_iff in E.
  destruct x, y; try discriminate E; try (destruct Hs); inversion E; reflexivity.
Qed.

(* ... and at any depth.  First a cancellation property of multisets: *)
Lemma perm_replace_inv : forall {A} (eqb : A -> A -> bool), (forall a b, eqb a b = true <-> a = b) ->
  forall l1 l2 (a b : A), Permutation (l1 ++ a :: l2) (l1 ++ b :: l2) -> a = b.
Proof.
  intros A eqb Hspec l1 l2 a b P. pose proof (count_perm eqb a _ _ P) as C.
  rewrite !count_app in C. cbn in C. rewrite (eqb_refl' eqb Hspec) in C.
  destruct (eqb a b) eqn:E; [apply Hspec; exact E | lia].
Qed.

Definition entry_eqb (p q : string * cjson) : bool := String.eqb (fst p) (fst q) && cjson_eqb (snd p) (snd q).
Lemma entry_eqb_spec : forall p q, entry_eqb p q = true <-> p = q.
Proof.
  intros [k v] [k' v']. unfold entry_eqb. cbn. rewrite andb_true_iff, String.eqb_eq, cjson_eqb_spec.
  split; [intros [-> ->]; reflexivity | intro H; inversion H; auto].
Qed.

(* replacing one element of an array / one value of an object changes the canonical form exactly when the canonical
   form of that element / value changes *)
Lemma canon_replace_elem : forall l1 v v' l2,
  canon_eqb (JArr (l1 ++ v :: l2)) (JArr (l1 ++ v' :: l2)) = canon_eqb v v'.
Proof.
  intros l1 v v' l2. apply eq_true_iff_eq. rewrite !canon_eqb_true_iff. split.
  - intro E.
    assert (E' : csort (map canon (l1 ++ v :: l2)) = csort (map canon (l1 ++ v' :: l2))) by (rewrite !canon_arr in E; congruence).
    apply csort_eq_perm in E'. rewrite !map_app in E'. cbn [map] in E'.
    exact (perm_replace_inv cjson_eqb cjson_eqb_spec _ _ _ _ E').
  - intro E. rewrite !canon_arr, !map_app. cbn [map]. rewrite E. reflexivity.
Qed.

Lemma canon_replace_field : forall kv1 k v v' kv2,
  canon_eqb (JObj (kv1 ++ (k, v) :: kv2)) (JObj (kv1 ++ (k, v') :: kv2)) = canon_eqb v v'.
Proof.
  intros kv1 k v v' kv2. apply eq_true_iff_eq. rewrite !canon_eqb_true_iff. split.
  - intro E.
    assert (E' : ksort (map (fun p => (fst p, canon (snd p))) (kv1 ++ (k, v) :: kv2)) =
                 ksort (map (fun p => (fst p, canon (snd p))) (kv1 ++ (k, v') :: kv2)))
      by (rewrite !canon_obj in E; congruence).
    apply ksort_eq_perm in E'. rewrite !map_app in E'. cbn [map fst snd] in E'.
    pose proof (perm_replace_inv entry_eqb entry_eqb_spec _ _ _ _ E') as H. congruence.
  - intro E. rewrite !canon_obj, !map_app. cbn [map fst snd]. rewrite E. reflexivity.
Qed.

(* x and y differ at exactly one place, where values of different JSON types stand (in particular: a scalar was
   replaced by a scalar with the same text but another JSON type, 1 / "1", null / "None", true / "True" / 1) *)
Theorem canon_retyped : forall x y, retyped_once x y -> canon_eqb x y = false.
Proof.
  induction 1 as [v v' Ht | l1 v v' l2 _ IH | kv1 k v v' kv2 _ IH].
  - apply canon_type_sensitive. exact Ht.
  - rewrite canon_replace_elem. exact IH.
  - rewrite canon_replace_field. exact IH.
Qed.

(* ... also when the retyped value is reordered (arrays shuffled, keys permuted, at any depth) afterwards *)
Theorem canon_retyped_reordered : forall x y' y,
  retyped_once x y' -> keys_distinct y' -> same_modulo_order y' y -> canon_eqb x y = false.
Proof.
  intros x y' y Hr Hkd Hs. pose proof (canon_retyped x y' Hr) as H.
  unfold canon_eqb in *. rewrite <- (smo_sound y' y Hkd Hs). exact H.
Qed.

Example type_int_str : canon_eqb (JInt 1) (JStr "1") = false. Proof. vm_compute. reflexivity. Qed.
Example type_null_None : canon_eqb JNull (JStr "None") = false. Proof. vm_compute. reflexivity. Qed.
Example type_null_null : canon_eqb JNull (JStr "null") = false. Proof. vm_compute. reflexivity. Qed.
Example type_true_True : canon_eqb (JBool true) (JStr "True") = false. Proof. vm_compute. reflexivity. Qed.
Example type_true_1 : canon_eqb (JBool true) (JInt 1) = false. Proof. vm_compute. reflexivity. Qed.
Example type_int_float : canon_eqb (JInt 1) (JFloat "1.0") = false. Proof. vm_compute. reflexivity. Qed.
Example type_nested :
  canon_eqb (JObj [("gate_type", JStr "AND"); ("dependencies", JArr [JObj [("value", JInt 1)]; JObj [("value", JNull)]])])
            (JObj [("gate_type", JStr "AND"); ("dependencies", JArr [JObj [("value", JStr "1")]; JObj [("value", JNull)]])]) = false.
Proof. vm_compute. reflexivity. Qed.
Example reorder_nested :
  canon_eqb (JObj [("gate_type", JStr "AND"); ("dependencies", JArr [JObj [("value", JInt 1); ("k", JNull)]; JObj [("checkpoint", JStr "checkpoint:1")]])])
            (JObj [("dependencies", JArr [JObj [("checkpoint", JStr "checkpoint:1")]; JObj [("k", JNull); ("value", JInt 1)]]); ("gate_type", JStr "AND")]) = true.
Proof. vm_compute. reflexivity. Qed.

(* ====================================================================================================== F. text model *)
Lemma sleb_total : forall a b, sleb a b = true \/ sleb b a = true.
Proof. intros a b. exact (kleb_total (a, tt) (b, tt)). Qed.
Lemma sleb_trans : forall a b c, sleb a b = true -> sleb b c = true -> sleb a c = true.
Proof. intros a b c. exact (kleb_trans (a, tt) (b, tt) (c, tt)). Qed.
Lemma sleb_antisym : forall a b, sleb a b = true -> sleb b a = true -> a = b.
Proof. intros a b. exact (kleb_antisym_keys (a, tt) (b, tt)). Qed.

Definition ser_entries (kvs : list (string * string)) : string :=
  brackets (map (fun p : string * string => brackets [dq (fst p); snd p]) kvs).

Lemma serN_arr : forall l, serN (JArr l) = brackets (isort sleb (map serN l)).
Proof. reflexivity. Qed.
Lemma serN_obj : forall kv, serN (JObj kv) = ser_entries (ksort (map (fun p => (fst p, serN (snd p))) kv)).
Proof. reflexivity. Qed.

Lemma serN_sound : forall x y, keys_distinct x -> same_modulo_order x y -> serN x = serN y.
Proof.
  intros x y Hkd Hs.
  exact (smo_sound_gen serN sleb brackets ser_entries sleb_total sleb_trans sleb_antisym serN_arr serN_obj x Hkd y Hs).
Qed.

(* the serialised text -- hence the hash -- of two values that are the same up to order is the same *)
Theorem ser_sound : forall x y, keys_distinct x -> same_modulo_order x y -> ser x = ser y.
Proof.
  intros x y Hkd Hs. pose proof (serN_sound x y Hkd Hs) as H.
  inversion Hs; subst; try reflexivity; exact H.
Qed.

(* whatever the typed model identifies, the implementation (text model) identifies: no duplicate is missed *)
Theorem canon_eqb_impl_eqb : forall x y, keys_distinct x -> canon_eqb x y = true -> impl_eqb x y = true.
Proof.
  intros x y Hkd H. unfold impl_eqb. apply String.eqb_eq. apply ser_sound; [exact Hkd|].
  apply smo_complete. apply canon_eqb_true_iff. exact H.
Qed.

(* The converse does NOT hold in general: a dict is serialised as the list of its [key, value] pairs, so the text
   does not record whether a container was a dict or a list.  Known deviation of the implementation from
   same_modulo_order; it needs containers of different kinds at corresponding positions, which obj_spec validation
   of checkpoints excludes (dependencies: array of objects; operands: objects; "value": scalar or list of scalars). *)
Example impl_confuses_empty : impl_eqb (JObj []) (JArr []) = true /\ canon_eqb (JObj []) (JArr []) = false.
Proof. vm_compute. split; reflexivity. Qed.
Example impl_confuses_empty_nested :
  impl_eqb (JObj [("value", JObj [])]) (JObj [("value", JArr [])]) = true /\
  canon_eqb (JObj [("value", JObj [])]) (JObj [("value", JArr [])]) = false.
Proof. vm_compute. split; reflexivity. Qed.
Example impl_confuses_pairs :
  impl_eqb (JObj [("1", JInt 2)]) (JArr [JArr [JInt 1; JInt 2]]) = true /\
  canon_eqb (JObj [("1", JInt 2)]) (JArr [JArr [JInt 1; JInt 2]]) = false.
Proof. vm_compute. split; reflexivity. Qed.
(* the text model separates the JSON types of scalars like the typed one *)
Example impl_type_int_str : impl_eqb (JObj [("v", JInt 1)]) (JObj [("v", JStr "1")]) = false.
Proof. vm_compute. reflexivity. Qed.
Example impl_type_null_None : impl_eqb (JObj [("v", JNull)]) (JObj [("v", JStr "None")]) = false.
Proof. vm_compute. reflexivity. Qed.
Example impl_type_null_null : impl_eqb (JObj [("v", JNull)]) (JObj [("v", JStr "null")]) = false.
Proof. vm_compute. reflexivity. Qed.
Example impl_type_true_True : impl_eqb (JObj [("v", JBool true)]) (JObj [("v", JStr "true")]) = false.
Proof. vm_compute. reflexivity. Qed.
Example impl_type_true_1 : impl_eqb (JObj [("v", JBool true)]) (JObj [("v", JInt 1)]) = false.
Proof. vm_compute. reflexivity. Qed.

(* ====================================================================================================== G. objects, said with get *)
Definition opt_rel {A} (R : A -> A -> Prop) (a b : option A) : Prop :=
  match a, b with
  | Some x, Some y => R x y
  | None, None => True
  | _, _ => False
  end.

Lemma get_cons : forall k k' v (kv : list (string * json)),
  get k ((k', v) :: kv) = if String.eqb k' k then Some v else get k kv.
Proof. intros. unfold get. cbn. destruct (String.eqb k' k); reflexivity. Qed.

Lemma get_Some_In : forall k v (kv : list (string * json)), get k kv = Some v -> In (k, v) kv.
Proof.
  induction kv as [|[k' v'] r IH]; [discriminate|]. rewrite get_cons.
  destruct (String.eqb k' k) eqn:E; intro H.
  - apply String.eqb_eq in E. inversion H; subst. left. reflexivity.
  - right. apply IH. exact H.
Qed.

Lemma In_get_Some : forall k v (kv : list (string * json)), NoDup (map fst kv) -> In (k, v) kv -> get k kv = Some v.
Proof.
  induction kv as [|[k' v'] r IH]; intros ND Hin; [destruct Hin|]. rewrite get_cons.
  cbn in ND. inversion ND as [|? ? Hn ND']; subst.
  destruct Hin as [Hin|Hin].
  - inversion Hin; subst. rewrite String.eqb_refl. reflexivity.
  - destruct (String.eqb k' k) eqn:E; [|apply IH; assumption].
    apply String.eqb_eq in E. subst. exfalso. apply Hn. apply in_map_iff. exists (k, v). split; [reflexivity|exact Hin].
Qed.

Lemma get_None_iff : forall k (kv : list (string * json)), get k kv = None <-> ~ In k (map fst kv).
Proof.
  induction kv as [|[k' v'] r IH]; [cbn; tauto|]. rewrite get_cons. cbn.
  destruct (String.eqb k' k) eqn:E.
  - apply String.eqb_eq in E. split; [discriminate | intro H; exfalso; apply H; left; exact E].
  - apply String.eqb_neq in E. rewrite IH. tauto.
Qed.

Lemma get_perm : forall k (kv kv' : list (string * json)),
  NoDup (map fst kv) -> Permutation kv kv' -> get k kv = get k kv'.
Proof.
  intros k kv kv' ND P.
  assert (ND' : NoDup (map fst kv')) by (eapply Permutation_NoDup; [apply Permutation_map; exact P | exact ND]).
  destruct (get k kv) as [v|] eqn:G.
  - symmetry. apply In_get_Some; [exact ND'|]. eapply Permutation_in; [exact P|]. apply get_Some_In. exact G.
  - symmetry. apply get_None_iff. apply get_None_iff in G. intro H. apply G.
    eapply Permutation_in; [symmetry; apply Permutation_map; exact P | exact H].
Qed.

(* For objects with distinct keys, same_modulo_order says: the same keys are present and the values under every key
   are related. *)
Theorem smo_obj_get : forall kv kv', NoDup (map fst kv) -> NoDup (map fst kv') ->
  (same_modulo_order (JObj kv) (JObj kv') <->
   forall k, opt_rel same_modulo_order (get k kv) (get k kv')).
Proof.
  intros kv kv' ND ND'. split.
  - intro Hs. inversion Hs as [| | | | | |? kv'' ? HF P]; subst. intro k.
    assert (ND'' : NoDup (map fst kv'')).
    { eapply Permutation_NoDup; [symmetry; apply Permutation_map; exact P | exact ND']. }
    rewrite <- (get_perm k kv'' kv' ND'' P).
    clear - HF. induction HF as [|[k1 v1] [k2 v2] r r' [Hk Hv] _ IH]; [exact I|].
    cbn in Hk. subst k2. rewrite !get_cons. destruct (String.eqb k1 k); [exact Hv | exact IH].
  - intro H.
    (* build kv'': the entries of kv with the related values found in kv' *)
    assert (Hex : exists kv'', Forall2 (fun p q : string * json => fst p = fst q /\ same_modulo_order (snd p) (snd q)) kv kv''
                               /\ forall q, In q kv'' -> In q kv').
    { assert (Hsub : forall p, In p kv -> In p kv) by auto. revert Hsub. generalize kv at 1 3 as sub.
      induction sub as [|[k v] r IH]; intro Hsub.
      - exists []. split; [constructor | intros q []].
      - destruct IH as [r'' [HF Hin]]; [intros p Hp; apply Hsub; right; exact Hp|].
        assert (G : get k kv = Some v) by (apply In_get_Some; [exact ND | apply Hsub; left; reflexivity]).
        specialize (H k). rewrite G in H. destruct (get k kv') as [v'|] eqn:G'; [|destruct H].
        exists ((k, v') :: r''). split.
        + constructor; [split; [reflexivity | exact H] | exact HF].
        + intros q [Hq|Hq]; [subst q; apply get_Some_In; exact G' | apply Hin; exact Hq]. }
    destruct Hex as [kv'' [HF Hin]].
    assert (Hkeys : map fst kv'' = map fst kv).
    { clear - HF. induction HF as [|p q r r' [Hk _] _ IH]; [reflexivity|]. cbn. rewrite IH, Hk. reflexivity. }
    apply smo_obj with (kv'' := kv''); [exact HF|].
    apply NoDup_Permutation.
    + eapply NoDup_map_inv. rewrite Hkeys. exact ND.
    + eapply NoDup_map_inv. exact ND'.
    + intros [k v']. split; [apply Hin|]. intro Hq.
      assert (G' : get k kv' = Some v') by (apply In_get_Some; assumption).
      specialize (H k). rewrite G' in H. destruct (get k kv) as [v|] eqn:G; [|destruct H].
      assert (Hk : In k (map fst kv'')).
      { rewrite Hkeys. apply in_map_iff. exists (k, v). split; [reflexivity | apply get_Some_In; exact G]. }
      apply in_map_iff in Hk. destruct Hk as [[k2 v2] [Hk2 Hin2]]. cbn in Hk2. subst k2.
      assert (v2 = v').
      { pose proof (In_get_Some k v2 kv' ND' (Hin _ Hin2)) as G2. congruence. }
      subst v2. exact Hin2.
Qed.

(* ====================================================================================================== H. the model of _validate_unique *)
Lemma length_zero_iff_nil' : forall {A} (l : list A), List.length l = 0 <-> l = [].
Proof. intros A [|x r]; cbn; split; congruence. Qed.

Lemma fold_sum_zero : forall {A} (g : A -> nat) (l : list A) (n0 : nat),
  fold_right (fun a n => g a + n) n0 l = 0 <-> (forall a, In a l -> g a = 0) /\ n0 = 0.
Proof.
  induction l as [|x r IH]; intro n0; cbn.
  - split; [intro H; split; [intros a []|exact H] | tauto].
  - split.
    + intro H. assert (H1 : g x = 0) by lia. assert (H2 : fold_right (fun a n => g a + n) n0 r = 0) by lia.
      apply IH in H2. destruct H2 as [H2 H3]. split; [|exact H3]. intros a [Ha|Ha]; [subst; exact H1 | apply H2; exact Ha].
    + intros [H H0]. rewrite (H x (or_introl eq_refl)). cbn. apply IH. split; [|exact H0]. intros a Ha. apply H. right. exact Ha.
  Qed.

(* _validate_unique returns no error exactly when, for every unique field, the inserted keys are pairwise distinct and,
   for every composite key, the canonical forms of the unique_objs of the unbypassed items are pairwise distinct *)
Theorem unique_errors_zero_iff : forall fields composites bypass items,
  unique_errors fields composites bypass items = 0 <->
  (forall f, In f fields -> NoDup (field_keys f items)) /\
  (forall ps, In ps composites -> NoDup (map canon (composite_objs ps bypass items))).
Proof.
  intros fields composites bypass items. unfold unique_errors.
  rewrite (fold_sum_zero (fun f => List.length (simple_dups f items))).
  rewrite (fold_sum_zero (fun ps => List.length (composite_dups ps bypass items))).
  split.
  - intros [H1 [H2 _]]. split.
    + intros f Hf. apply (dups_nil_iff_NoDup pykey_eqb pykey_eqb_spec). apply length_zero_iff_nil'. exact (H1 f Hf).
    + intros ps Hps. apply (dups_nil_iff_NoDup cjson_eqb cjson_eqb_spec). apply length_zero_iff_nil'. exact (H2 ps Hps).
  - intros [H1 H2]. split; [|split; [|reflexivity]].
    + intros f Hf. apply length_zero_iff_nil'. apply (dups_nil_iff_NoDup pykey_eqb pykey_eqb_spec). exact (H1 f Hf).
    + intros ps Hps. apply length_zero_iff_nil'. apply (dups_nil_iff_NoDup cjson_eqb cjson_eqb_spec). exact (H2 ps Hps).
Qed.

(* the composite key: two objects collide exactly when they are the same up to order *)
Theorem composite_NoDup_iff : forall objs, Forall keys_distinct objs ->
  (NoDup (map canon objs) <->
   forall i j a b, i <> j -> nth_error objs i = Some a -> nth_error objs j = Some b -> ~ same_modulo_order a b).
Proof.
  intros objs Hkd. rewrite (NoDup_iff_distinct_positions (map canon objs)). unfold distinct_at_all_positions. split.
  - intros H i j a b Hne Hi Hj Hs.
    apply (H i j (canon a) (canon b)); try assumption.
    + rewrite nth_error_map, Hi. reflexivity.
    + rewrite nth_error_map, Hj. reflexivity.
    + apply smo_sound; [|exact Hs]. rewrite Forall_forall in Hkd. apply Hkd. eapply nth_error_In. exact Hi.
  - intros H i j ca cb Hi Hj Hne E. rewrite nth_error_map in Hi, Hj.
    destruct (nth_error objs i) as [a|] eqn:Ai; [|discriminate]. destruct (nth_error objs j) as [b|] eqn:Bj; [|discriminate].
    cbn in Hi, Hj. apply (H i j a b Hne Ai Bj). apply smo_complete. congruence.
Qed.

(* a duplicate composite key is reported exactly when two unbypassed items have the same unique_obj up to order *)
Theorem composite_dups_nil_iff : forall props bypass items,
  Forall keys_distinct (composite_objs props bypass items) ->
  (composite_dups props bypass items = [] <->
   forall i j a b, i <> j ->
     nth_error (composite_objs props bypass items) i = Some a ->
     nth_error (composite_objs props bypass items) j = Some b -> ~ same_modulo_order a b).
Proof.
  intros props bypass items Hkd. unfold composite_dups.
  rewrite (dups_nil_iff_NoDup cjson_eqb cjson_eqb_spec). apply composite_NoDup_iff. exact Hkd.
Qed.

(* invariance of the verdict under reordering of the items *)
Lemma filter_map_perm : forall {A B} (f : A -> option B) l l',
  Permutation l l' -> Permutation (filter_map f l) (filter_map f l').
Proof.
  induction 1 as [|x l l' _ IH|x y l|l l' l'' _ IH1 _ IH2]; cbn.
  - constructor.
  - destruct (f x); [apply perm_skip|]; exact IH.
  - destruct (f x), (f y); try apply Permutation_refl. apply perm_swap.
  - eapply perm_trans; eassumption.
Qed.

Lemma field_keys_perm : forall f items items', Permutation items items' ->
  Permutation (field_keys f items) (field_keys f items').
Proof.
  intros f items items' P. unfold field_keys, field_values. apply filter_map_perm. apply Permutation_flat_map. exact P.
Qed.

Lemma combine_seq_snd : forall {A} (l : list A) n, map snd (combine (seq n (List.length l)) l) = l.
Proof. induction l as [|x r IH]; intro n; cbn; [reflexivity|]. rewrite IH. reflexivity. Qed.

Lemma filter_all : forall {A} (f : A -> bool) l, (forall x, f x = true) -> filter f l = l.
Proof. induction l as [|x r IH]; intro H; cbn; [reflexivity|]. rewrite H, IH; auto. Qed.

Lemma unbypassed_no_bypass : forall items, unbypassed no_bypass items = items.
Proof.
  intro items. unfold unbypassed.
  rewrite filter_all; [apply combine_seq_snd|]. intro p. reflexivity.
Qed.

Theorem unique_errors_perm : forall fields composites items items', Permutation items items' ->
  (unique_errors fields composites no_bypass items = 0 <-> unique_errors fields composites no_bypass items' = 0).
Proof.
  assert (Hdir : forall fields composites items items', Permutation items items' ->
            unique_errors fields composites no_bypass items = 0 -> unique_errors fields composites no_bypass items' = 0).
  { intros fields composites items items' P. rewrite !unique_errors_zero_iff. intros [H1 H2]. split.
    - intros f Hf. eapply Permutation_NoDup; [apply field_keys_perm; exact P | exact (H1 f Hf)].
    - intros ps Hps. specialize (H2 ps Hps). unfold composite_objs in *. rewrite unbypassed_no_bypass in *.
      eapply Permutation_NoDup; [|exact H2]. apply Permutation_map. apply Permutation_map. exact P. }
  intros fields composites items items' P. split; apply Hdir; [exact P | symmetry; exact P].
Qed.

(* The text model (the implementation's own hash key) reports a duplicate composite key whenever the typed model does:
   no pair of checkpoints that are the same up to order is missed.  (The converse holds where container kinds
   agree -- see section F.) *)
Theorem composite_text_never_misses : forall props bypass items,
  Forall keys_distinct (composite_objs props bypass items) ->
  composite_dups_text props bypass items = [] -> composite_dups props bypass items = [].
Proof.
  intros props bypass items Hkd. unfold composite_dups_text, composite_dups.
  rewrite (dups_nil_iff_NoDup String.eqb String.eqb_eq), (dups_nil_iff_NoDup cjson_eqb cjson_eqb_spec).
  generalize dependent (composite_objs props bypass items). intros objs Hkd.
  rewrite (NoDup_iff_distinct_positions (map ser objs)), (NoDup_iff_distinct_positions (map canon objs)).
  unfold distinct_at_all_positions. intros H i j ca cb Hi Hj Hne E. rewrite nth_error_map in Hi, Hj.
  destruct (nth_error objs i) as [a|] eqn:Ai; [|discriminate]. destruct (nth_error objs j) as [b|] eqn:Bj; [|discriminate].
  cbn in Hi, Hj.
  apply (H i j (ser a) (ser b)); try assumption.
  - rewrite nth_error_map, Ai. reflexivity.
  - rewrite nth_error_map, Bj. reflexivity.
  - apply ser_sound.
    + rewrite Forall_forall in Hkd. apply Hkd. eapply nth_error_In. exact Ai.
    + apply smo_complete. congruence.
Qed.

Lemma impl_exact_refuted : ~ (forall x y, impl_eqb x y = true -> canon_eqb x y = true).
Proof.
  intro H. specialize (H (JObj []) (JArr []) (proj1 impl_confuses_empty)).
  rewrite (proj2 impl_confuses_empty) in H. discriminate.
Qed.
