(* Lemmas behind Properties/C08_pipeline.v and Properties/C09.v: what acceptance by Model/PipeRules.v guarantees. *)
From Coq Require Import List Bool Arith Lia.
From OIS Require Import Base.Types Base.PipeTypes Spec.Compare Spec.PipelineSpec Model.Schema Model.Rules Model.PipeRules.
Import ListNotations.

(* ================================================================== scopes: visibility is the prefix order *)
Lemma prefixb_iff a : forall b, prefixb a b = true <-> exists r, b = a ++ r.
Proof.
  induction a as [|x a IH]; intros b.
  - simpl. split; [intros _; exists b; reflexivity | reflexivity].
  - destruct b as [|y b]; cbn [prefixb].
    + split; [discriminate | intros (r & H); discriminate].
    + rewrite andb_true_iff, Nat.eqb_eq, IH. split.
      * intros (-> & r & ->). exists r. reflexivity.
      * intros (r & H). injection H as -> ->. split; [reflexivity | exists r; reflexivity].
Qed.

Lemma prefixb_refl a : prefixb a a = true.
Proof. apply prefixb_iff. exists []. symmetry. apply app_nil_r. Qed.

Lemma prefixb_trans a b c : prefixb a b = true -> prefixb b c = true -> prefixb a c = true.
Proof.
  rewrite !prefixb_iff. intros (r & ->) (r' & ->). exists (r ++ r'). symmetry. apply app_assoc.
Qed.

Lemma prefixb_app a r : prefixb a (a ++ r) = true.
Proof. apply prefixb_iff. exists r. reflexivity. Qed.

Lemma prefixb_antisym a b : prefixb a b = true -> prefixb b a = true -> a = b.
Proof.
  rewrite !prefixb_iff. intros (r & ->) (r' & H).
  rewrite <- app_assoc in H. rewrite <- (app_nil_r a) in H at 1. apply app_inv_head in H.
  symmetry in H. apply app_eq_nil in H. destruct H as [-> _]. symmetry. apply app_nil_r.
Qed.

(* two prefixes of one list are comparable *)
Lemma prefixb_comparable a : forall b c, prefixb a c = true -> prefixb b c = true -> prefixb a b = true \/ prefixb b a = true.
Proof.
  induction a as [|x a IH]; intros b c Ha Hb; [left; reflexivity|].
  destruct b as [|y b]; [right; reflexivity|].
  destruct c as [|z c]; [discriminate|]. cbn [prefixb] in *.
  apply andb_true_iff in Ha. destruct Ha as [E1 Ha]. apply andb_true_iff in Hb. destruct Hb as [E2 Hb].
  apply Nat.eqb_eq in E1. apply Nat.eqb_eq in E2. subst.
  rewrite Nat.eqb_refl. cbn [andb]. eapply IH; eassumption.
Qed.

Lemma prefixb_length a b : prefixb a b = true -> length a <= length b.
Proof. rewrite prefixb_iff. intros (r & ->). rewrite app_length. lia. Qed.

Lemma prefixb_same_length a b : prefixb a b = true -> length a = length b -> a = b.
Proof.
  rewrite prefixb_iff. intros (r & ->) L. rewrite app_length in L.
  destruct r; [symmetry; apply app_nil_r | simpl in L; lia].
Qed.

Lemma list_nat_eqb_eq a : forall b, list_nat_eqb a b = true <-> a = b.
Proof.
  unfold list_nat_eqb. induction a as [|x a IH]; intros [|y b]; simpl; split; try discriminate; try reflexivity.
  - intros H. apply andb_true_iff in H. destruct H as [L H]. apply andb_true_iff in H. destruct H as [E H].
    apply Nat.eqb_eq in E. subst. f_equal. apply IH. simpl. rewrite L. exact H.
  - intros H. injection H as -> ->.
    assert (R := proj2 (IH b) eq_refl). apply andb_true_iff in R. destruct R as [R1 R2].
    rewrite !Nat.eqb_refl. simpl. exact R2.
Qed.

(* ================================================================== the string encoding used by the code *)
(* A scope is written by the code as its decimal indices joined by dots ("0.3.10").  Characters: a digit d < 10,
   or the dot, written 10 here.  [enc l] = every segment followed by a dot = the code's  scope + ".". *)
Definition dot := 10.
Definition digits_ok (seg : list nat) : Prop := Forall (fun d => d < 10) seg.
Definition enc (l : list (list nat)) : list nat := flat_map (fun seg => seg ++ [dot]) l.
Fixpoint join (l : list (list nat)) : list nat :=
  match l with [] => [] | [seg] => seg | seg :: rest => seg ++ dot :: join rest end.

Lemma join_dot l : l <> [] -> join l ++ [dot] = enc l.
Proof.
  induction l as [|seg [|seg' rest] IH]; intros H; [congruence | simpl; rewrite app_nil_r; reflexivity|].
  change (join (seg :: seg' :: rest)) with (seg ++ dot :: join (seg' :: rest)).
  change (enc (seg :: seg' :: rest)) with ((seg ++ [dot]) ++ enc (seg' :: rest)).
  rewrite <- IH by discriminate. rewrite <- !app_assoc. reflexivity.
Qed.

(* the first dots of two encodings line up *)
Lemma prefixb_segment s : forall t x y, digits_ok s -> digits_ok t ->
  prefixb (s ++ dot :: x) (t ++ dot :: y) = true -> s = t /\ prefixb x y = true.
Proof.
  induction s as [|c s IH]; intros t x y Hs Ht H.
  - destruct t as [|d t]; simpl in H.
    + split; [reflexivity | exact H].
    + inversion Ht; subst. unfold dot in H. destruct d as [|[|[|[|[|[|[|[|[|[|d]]]]]]]]]]; simpl in H; try discriminate; lia.
  - inversion Hs; subst. destruct t as [|d t]; simpl in H.
    + unfold dot in H. destruct c as [|[|[|[|[|[|[|[|[|[|c]]]]]]]]]]; simpl in H; try discriminate; lia.
    + apply andb_true_iff in H. destruct H as [E H]. apply Nat.eqb_eq in E. subst.
      inversion Ht; subst. destruct (IH t x y) as [-> P]; auto.
Qed.

Lemma startswith_dot_iff a : forall b, Forall digits_ok a -> Forall digits_ok b ->
  prefixb (enc a) (enc b) = true <-> exists r, b = a ++ r.
Proof.
  induction a as [|s a IH]; intros b Ha Hb.
  - simpl. split; [intros _; exists b; reflexivity | reflexivity].
  - inversion Ha; subst. split.
    + intros H. destruct b as [|t b].
      * simpl in H. destruct s; simpl in H; discriminate.
      * inversion Hb; subst. simpl in H. rewrite <- !app_assoc in H. simpl in H.
        apply prefixb_segment in H; auto. destruct H as [-> H].
        apply IH in H; auto. destruct H as (r & ->). exists r. reflexivity.
    + intros (r & ->). unfold enc. rewrite flat_map_app. apply prefixb_app.
Qed.

(* ================================================================== the store *)
Definition var_match (v : nat) (sc : list nat) (e : pvar) : bool := Nat.eqb (pv_name e) v && visible (pv_scope e) sc.

Lemma get_var_fold st v sc : forall best,
  match fold_left (fun best e => if var_match v sc e then better best e else best) st best with
  | Some e => (best = Some e \/ In e st /\ var_match v sc e = true)
  | None => best = None /\ forall e, In e st -> var_match v sc e = false
  end.
Proof.
  induction st as [|x st IH]; intros best; simpl.
  - destruct best; [left; reflexivity | split; [reflexivity | intros e []]].
  - specialize (IH (if var_match v sc x then better best x else best)).
    destruct (fold_left _ st _) as [e|].
    + destruct IH as [E | [I M]]; [|right; split; [right; exact I | exact M]].
      destruct (var_match v sc x) eqn:Mx; [|left; exact E].
      unfold better in E. destruct best as [b|].
      * destruct (Nat.ltb _ _); [injection E as <-; right; split; [left; reflexivity | exact Mx] | left; exact E].
      * injection E as <-. right. split; [left; reflexivity | exact Mx].
    + destruct IH as [E IH]. destruct (var_match v sc x) eqn:Mx.
      * unfold better in E. destruct best as [b|]; [destruct (Nat.ltb _ _); discriminate | discriminate].
      * split; [exact E|]. intros e [<-|I]; [exact Mx | apply IH; exact I].
Qed.

Lemma get_var_some st v sc e : get_var st v sc = Some e ->
  In e st /\ pv_name e = v /\ visible (pv_scope e) sc = true.
Proof.
  unfold get_var. intro H. assert (F := get_var_fold st v sc None).
  change (fun best e0 => if Nat.eqb (pv_name e0) v && visible (pv_scope e0) sc then better best e0 else best)
    with (fun best e0 => if var_match v sc e0 then better best e0 else best) in H.
  rewrite H in F. destruct F as [F | [I M]]; [discriminate|].
  unfold var_match in M. apply andb_true_iff in M. destruct M as [N V]. apply Nat.eqb_eq in N. auto.
Qed.

Lemma get_var_none st v sc : get_var st v sc = None ->
  forall e, In e st -> pv_name e = v -> visible (pv_scope e) sc = false.
Proof.
  unfold get_var. intros H e I N. assert (F := get_var_fold st v sc None).
  change (fun best e0 => if Nat.eqb (pv_name e0) v && visible (pv_scope e0) sc then better best e0 else best)
    with (fun best e0 => if var_match v sc e0 then better best e0 else best) in H.
  rewrite H in F. destruct F as [_ F]. specialize (F e I). unfold var_match in F.
  rewrite (proj2 (Nat.eqb_eq _ _) N) in F. exact F.
Qed.

Lemma isSome_false {A} (o : option A) : negb (isSome o) = true -> o = None.
Proof. destruct o; simpl; [discriminate | reflexivity]. Qed.

(* ================================================================== the run and its trace *)
(* the stores the validator goes through: (store before the instruction, instruction) *)
Fixpoint trace (cmp : ty -> cop -> ty -> bool) (s : schema) (ctx : option nat) (own : nat) (st : store) (l : list instr) : list (store * instr) :=
  match l with
  | [] => []
  | i :: l' => (st, i) :: match step cmp s ctx own st i with Some st' => trace cmp s ctx own st' l' | None => [] end
  end.

Lemma run_trace cmp s ctx own : forall l st st', run cmp s ctx own st l = Some st' ->
  map snd (trace cmp s ctx own st l) = l /\
  forall st0 i, In (st0, i) (trace cmp s ctx own st l) -> exists st1, step cmp s ctx own st0 i = Some st1.
Proof.
  induction l as [|i l IH]; intros st st' H; simpl in *.
  - split; [reflexivity | intros ? ? []].
  - destruct (step cmp s ctx own st i) as [st1|] eqn:E; [|discriminate].
    destruct (IH _ _ H) as [M A]. split; [simpl; f_equal; exact M|].
    intros st0 i0 [P | I]; [injection P as <- <-; exists st1; exact E | apply A; exact I].
Qed.

(* ================================================================== C08: what an accepted step guarantees *)
(* clause trees *)
Section ClauseInd.
  Variable P : fclause -> Prop.
  Hypothesis Hcmp : forall l o r, P (FCmp l o r).
  Hypothesis Hnest : forall cs, Forall P cs -> P (FNest cs).
  Fixpoint fclause_ind2 (c : fclause) : P c :=
    match c with
    | FCmp l o r => Hcmp l o r
    | FNest cs => Hnest cs ((fix go (l : list fclause) : Forall P l :=
                               match l with [] => Forall_nil P | c' :: l' => Forall_cons c' (fclause_ind2 c') (go l') end) cs)
    end.
End ClauseInd.

Lemma clause_ok_cmps chk c : clause_ok chk c = true -> forall l o r, In (l, o, r) (clause_cmps c) -> chk l o r = true.
Proof.
  induction c as [l o r | cs IH] using fclause_ind2; intros H l' o' r' I.
  - simpl in *. destruct I as [E | []]. injection E as <- <- <-. exact H.
  - cbn [clause_ok clause_cmps] in *. apply andb_true_iff in H. destruct H as [_ H].
    apply in_flat_map in I. destruct I as (c & Ic & I).
    rewrite Forall_forall in IH. rewrite forallb_forall in H. eapply IH; eauto.
Qed.

Lemma clauses_ok_cmps chk cs : forallb (clause_ok chk) cs = true ->
  forall l o r, In (l, o, r) (flat_map clause_cmps cs) -> chk l o r = true.
Proof.
  intros H l o r I. apply in_flat_map in I. destruct I as (c & Ic & I).
  rewrite forallb_forall in H. eapply clause_ok_cmps; eauto.
Qed.

Lemma tdet_eqb_eq a b : tdet_eqb a b = true -> a = b.
Proof.
  destruct a as [la ia oa], b as [lb ib ob]. unfold tdet_eqb. cbn [td_list td_item td_obj].
  intro H. apply andb_true_iff in H. destruct H as [H O]. apply andb_true_iff in H. destruct H as [L I].
  apply Bool.eqb_prop in L. apply item_eqb_eq in I. subst.
  destruct oa as [x|], ob as [y|]; simpl in O; try discriminate; [apply ref_eqb_eq in O; subst|]; reflexivity.
Qed.

(* the typing judgement of one application, as the property states it *)
Definition step_typed (cmp : ty -> cop -> ty -> bool) (s : schema) (ctx : option nat) (own : nat) (st : store) (sc : list nat)
                      (r : tdet) (stp : pstep) (rt : tdet) : Prop :=
  match stp with
  | StNone => rt = r
  | StAgg AItem a => Aggregate (pt_of r) a = Some (pt_of rt)
  | StAgg (AField path) a =>
      exists tr f, td_item r = IObject /\ td_obj r = Some tr /\ path_from s (td_list r) tr path = TOk f /\
                   Aggregate (pt_of f) a = Some (pt_of rt)
  | StFilter cs =>
      rt = r /\ td_list r = true /\
      forall l o rr, In (l, o, rr) (flat_map clause_cmps cs) ->
        exists tl tr, fop_type s ctx own st sc r l = Some tl /\ fop_type s ctx own st sc r rr = Some tr /\ cmp tl o tr = true
  | StSort _ => rt = r /\ td_list r = true
  | StSelect path => exists tr, td_obj r = Some tr /\ path_from s (td_list r) tr path = TOk rt
  end.

Lemma step_type_typed cmp s ctx own st sc r stp rt :
  step_type cmp s ctx own st sc r stp = Some rt -> step_typed cmp s ctx own st sc r stp rt.
Proof.
  destruct stp as [|[|path] a|cs|keys|path]; cbn [step_type step_typed]; intro H.
  - injection H as <-. reflexivity.
  - destruct (Aggregate (pt_of r) a) as [[l it]|]; [|discriminate]. injection H as <-. reflexivity.
  - destruct (td_item r) eqn:I; try discriminate. destruct (td_obj r) as [tr|] eqn:O; [|discriminate].
    destruct (path_from s (td_list r) tr path) as [| |f] eqn:F; try discriminate.
    destruct (Aggregate (pt_of f) a) as [[l it]|] eqn:A; [|discriminate]. injection H as <-.
    exists tr, f. repeat split; auto.
  - destruct (td_list r && Nat.leb 1 (length cs) && forallb _ cs) eqn:E; [|discriminate]. injection H as <-.
    apply andb_true_iff in E. destruct E as [E F]. apply andb_true_iff in E. destruct E as [L _].
    split; [reflexivity|]. split; [exact L|]. intros l o rr I.
    assert (C := clauses_ok_cmps _ _ F l o rr I). unfold fcmp_ok in C.
    apply andb_true_iff in C. destruct C as [_ C].
    destruct (fop_type s ctx own st sc r l) as [tl|]; [|discriminate].
    destruct (fop_type s ctx own st sc r rr) as [tr|]; [|discriminate].
    exists tl, tr. auto.
  - destruct (td_list r) eqn:L; [|discriminate]. injection H as <-. auto.
  - destruct (td_obj r) as [tr|]; [|discriminate].
    destruct (path_from s (td_list r) tr path) as [| |t] eqn:F; try discriminate. injection H as <-.
    exists tr. auto.
Qed.

(* what each accepted instruction guarantees, in terms of the store the validator has built so far *)
Definition instr_typed (cmp : ty -> cop -> ty -> bool) (s : schema) (ctx : option nat) (own : nat) (st : store) (i : instr) : Prop :=
  match i with
  | IDecl sc top d => InitOk (vd_init d) (vd_type d) = true /\ In (vd_type d) [STRING; NUMERIC; BOOLEAN; STRING_LIST; NUMERIC_LIST; BOOLEAN_LIST; OBJECT; OBJECT_LIST]
  | ITrav sc src as_ => exists t, src_type s ctx own st sc src = TOk t /\ td_list t = true
  | IApp sc a =>
      exists r e rt,
        src_type s ctx own st sc (ap_src a) = TOk r /\
        get_var st (ap_to a) sc = Some e /\
        step_typed cmp s ctx own st sc r (ap_step a) rt /\
        Combine (pt_of (pv_td e)) (ap_meth a) (pt_of rt) (left_null e) = true /\
        (* object types: an object-typed variable keeps one object type *)
        (forall o, td_obj (pv_td e) = Some o -> td_obj rt = Some o)
  | IOut v attr =>
      exists e pr, get_var st v [] = Some e /\ find_promise s own = Some pr /\
                   resolve_path s (pr_type pr) [attr] = TOk (pv_td e)
  end.

Lemma step_instr_typed cmp s ctx own st i st' : step cmp s ctx own st i = Some st' -> instr_typed cmp s ctx own st i.
Proof.
  destruct i as [sc top d | sc src as_ | sc a | v attr]; cbn [step instr_typed]; intro H.
  - destruct (tdet_of_ty (vd_type d)) eqn:T; [|discriminate].
    destruct (negb _ && _ && InitOk _ _ && _) eqn:E; [|discriminate].
    apply andb_true_iff in E. destruct E as [E _]. apply andb_true_iff in E. destruct E as [_ E].
    split; [exact E|]. destruct (vd_type d); simpl in T; try discriminate; simpl; tauto.
  - destruct (src_type s ctx own st sc src) as [| |t] eqn:S; try discriminate.
    destruct (td_list t && _ && _) eqn:E; [|discriminate].
    apply andb_true_iff in E. destruct E as [E _]. apply andb_true_iff in E. destruct E as [L _].
    exists t. auto.
  - destruct (src_type s ctx own st sc (ap_src a)) as [| |r] eqn:S; try discriminate.
    destruct (get_var st (ap_to a) sc) as [e|] eqn:G; [|discriminate].
    destruct (pv_loop e || _); [discriminate|].
    destruct (step_type cmp s ctx own st sc r (ap_step a)) as [rt|] eqn:ST; [|discriminate].
    destruct (Combine _ _ _ _) eqn:C; [|discriminate].
    destruct (merge_obj (pv_td e) rt) as [t'|] eqn:M; [|discriminate].
    exists r, e, rt. repeat split; auto using step_type_typed.
    intros o O. unfold merge_obj in M. rewrite O in M.
    destruct (td_obj rt) as [o'|]; [|discriminate]. destruct (ref_eqb o o') eqn:R; [|discriminate].
    apply ref_eqb_eq in R. subst. reflexivity.
  - destruct (get_var st v []) as [e|] eqn:G; [|discriminate].
    destruct (find_promise s own) as [pr|] eqn:P; [|discriminate].
    destruct (resolve_path s (pr_type pr) [attr]) as [| |ft] eqn:R; try discriminate.
    destruct (tdet_eqb ft (pv_td e) && _) eqn:E; [|discriminate].
    apply andb_true_iff in E. destruct E as [E _]. apply tdet_eqb_eq in E. subst.
    exists e, pr. auto.
Qed.

(* SET is required as the first, and only as the first, operation on a null-initialised variable *)
Lemma Combine_set l m r n : Combine l m r n = true -> (n = true <-> m = M_SET).
Proof.
  unfold Combine. destruct n.
  - destruct m; try discriminate. intros _. split; reflexivity.
  - destruct m; try discriminate; intros _; split; discriminate.
Qed.

(* ---- the verdict, unfolded *)
Lemma pipelines_ok_inv cmp ps : pipelines_ok cmp ps = true ->
  forall pl, In pl (pipelines ps) -> pipeline_ok cmp (base ps) pl = true.
Proof.
  unfold pipelines_ok. intro H. apply andb_true_iff in H. destruct H as [_ H]. rewrite forallb_forall in H. exact H.
Qed.

Lemma pipeline_ok_run cmp s pl : pipeline_ok cmp s pl = true ->
  exists final, run cmp s (pipe_ctx s (r_id (pl_promise pl))) (r_id (pl_promise pl)) [] (flatten pl) = Some final.
Proof.
  unfold pipeline_ok. intro H. apply andb_true_iff in H. destruct H as [_ H].
  destruct (run _ _ _ _ _ _) as [f|]; [exists f; reflexivity | discriminate].
Qed.

Lemma conforms_p_parts cmp tbl ps : conforms_p_with cmp tbl ps = true ->
  conforms_with cmp tbl (base ps) = true /\ pipelines_ok cmp ps = true /\ no_compare_on_aggregated ps = true.
Proof.
  unfold conforms_p_with. intro H. apply andb_true_iff in H. destruct H as [H C].
  apply andb_true_iff in H. destruct H as [A B]. auto.
Qed.

(* C08, all clauses at once: every instruction of every pipeline of an accepted schema is well typed in the store
   the validator has built when it reaches it; the instructions reached are all of them *)
Lemma C08_typed_lemma cmp tbl ps : conforms_p_with cmp tbl ps = true ->
  forall pl, In pl (pipelines ps) ->
  let s := base ps in let own := r_id (pl_promise pl) in let ctx := pipe_ctx s own in
  map snd (trace cmp s ctx own [] (flatten pl)) = flatten pl /\
  forall st i, In (st, i) (trace cmp s ctx own [] (flatten pl)) -> instr_typed cmp s ctx own st i.
Proof.
  intros H pl I s own ctx. apply conforms_p_parts in H. destruct H as (_ & H & _).
  apply pipelines_ok_inv with (pl := pl) in H; auto. apply pipeline_ok_run in H. destruct H as [final R].
  destruct (run_trace _ _ _ _ _ _ _ R) as [M A]. split; [exact M|].
  intros st i J. destruct (A _ _ J) as [st1 E]. eapply step_instr_typed; eauto.
Qed.

(* ================================================================== C09: the order of the flattened pipeline *)
Definition iscope (i : instr) : list nat :=
  match i with IDecl sc _ _ | ITrav sc _ _ | IApp sc _ => sc | IOut _ _ => [] end.

(* what must not precede x: nothing of its own scope or below before a traversal starts; nothing from strictly
   below its scope before a declaration *)
Definition cross_ok (x y : instr) : Prop :=
  match x with
  | ITrav d _ _ => prefixb d (iscope y) = false
  | IDecl d _ _ => prefixb d (iscope y) = true -> iscope y = d
  | _ => True
  end.

Definition order_ok (l : list instr) : Prop :=
  forall l1 x l2, l = l1 ++ x :: l2 -> forall y, In y l1 -> cross_ok x y.

Lemma order_ok_nil : order_ok [].
Proof. intros l1 x l2 H. destruct l1; discriminate. Qed.

Lemma order_ok_app A B : order_ok A -> order_ok B -> (forall x y, In x B -> In y A -> cross_ok x y) -> order_ok (A ++ B).
Proof.
  intros HA HB HX l1 x l2 E y Iy.
  apply app_eq_app in E. destruct E as (l & [[E1 E2] | [E1 E2]]).
  - (* x lies in A, or is the head of B *)
    destruct l as [|z l].
    + simpl in E2. rewrite app_nil_r in E1. subst l1. apply HX; [rewrite <- E2; left; reflexivity | exact Iy].
    + injection E2 as <- E2. eapply HA; [exact E1 | exact Iy].
  - subst l1. apply in_app_or in Iy. destruct Iy as [Iy | Iy].
    + apply HX; [rewrite E2; apply in_or_app; right; left; reflexivity | exact Iy].
    + eapply HB; [exact E2 | exact Iy].
Qed.

Lemma order_ok_cons x B : order_ok B -> (forall z, In z B -> cross_ok z x) -> order_ok (x :: B).
Proof.
  intros HB HX. change (x :: B) with ([x] ++ B). apply order_ok_app; auto.
  - intros l1 z l2 E y Iy. destruct l1 as [|a l1]; [destruct Iy|].
    injection E as _ E. destruct l1; discriminate.
  - intros z y Iz [<-|[]]. apply HX. exact Iz.
Qed.

Section TravInd.
  Variable P : ptrav -> Prop.
  Hypothesis H : forall src as_ vars subs apps, Forall P subs -> P (Trav src as_ vars subs apps).
  Fixpoint ptrav_ind2 (t : ptrav) : P t :=
    match t with
    | Trav src as_ vars subs apps =>
      H src as_ vars subs apps ((fix go (l : list ptrav) : Forall P l :=
                                   match l with [] => Forall_nil P | t' :: l' => Forall_cons t' (ptrav_ind2 t') (go l') end) subs)
    end.
End TravInd.

Lemma flatten_trav_eq parent i src as_ vars subs apps :
  flatten_trav parent i (Trav src as_ vars subs apps) =
  ITrav (parent ++ [i]) src as_ :: map (IDecl (parent ++ [i]) false) vars ++ flatten_travs (parent ++ [i]) 0 subs ++ map (IApp (parent ++ [i])) apps.
Proof.
  cbn [flatten_trav]. f_equal. f_equal. f_equal.
  generalize 0. induction subs as [|t l IH]; intros j; [reflexivity|].
  cbn [flatten_travs]. f_equal. apply IH.
Qed.

Lemma prefixb_sibling p j k r : prefixb (p ++ [j]) (p ++ k :: r) = true -> j = k.
Proof.
  induction p as [|x p IH]; simpl.
  - intro H. apply andb_true_iff in H. destruct H as [H _]. apply Nat.eqb_eq in H. exact H.
  - rewrite Nat.eqb_refl. simpl. exact IH.
Qed.

Lemma prefixb_longer p j : prefixb (p ++ [j]) p = false.
Proof. induction p as [|x p IH]; simpl; [reflexivity | rewrite Nat.eqb_refl; exact IH]. Qed.

(* block of one traversal: everything lies at or below its scope, and the order is right *)
Definition block_ok (sc : list nat) (B : list instr) : Prop :=
  (forall y, In y B -> prefixb sc (iscope y) = true /\ (forall v a, y <> IOut v a)) /\ order_ok B.

Lemma flatten_trav_block : forall t parent i, block_ok (parent ++ [i]) (flatten_trav parent i t).
Proof.
  induction t as [src as_ vars subs apps IH] using ptrav_ind2. intros parent i.
  rewrite flatten_trav_eq. set (sc := parent ++ [i]).
  (* the sub-traversals *)
  assert (S : forall j, (forall y, In y (flatten_travs sc j subs) ->
                            (exists k r, j <= k /\ iscope y = sc ++ k :: r) /\ (forall v a, y <> IOut v a))
                        /\ order_ok (flatten_travs sc j subs)).
  { induction subs as [|t l IHl]; intros j.
    - split; [intros y [] | apply order_ok_nil].
    - inversion IH as [|? ? Pt Pl]; subst. specialize (IHl Pl (S j)). destruct IHl as [Sl Ol].
      destruct (Pt sc j) as [St Ot]. cbn [flatten_travs]. split.
      + intros y Iy. apply in_app_or in Iy. destruct Iy as [Iy | Iy].
        * destruct (St y Iy) as [Py Ny]. split; [|exact Ny].
          apply prefixb_iff in Py. destruct Py as (r & Py). exists j, r. split; [lia|].
          rewrite Py, <- app_assoc. reflexivity.
        * destruct (Sl y Iy) as [(k & r & L & E) Ny]. split; [|exact Ny]. exists k, r. split; [lia | exact E].
      + apply order_ok_app; auto. intros x y Ix Iy.
        destruct (Sl x Ix) as [(k & r & L & E) _]. destruct (St y Iy) as [Py _].
        apply prefixb_iff in Py. destruct Py as (r' & Py). rewrite <- app_assoc in Py. simpl in Py.
        assert (F : prefixb (iscope x) (iscope y) = false).
        { destruct (prefixb (iscope x) (iscope y)) eqn:F; [|reflexivity]. exfalso.
          rewrite E, Py in F.
          assert (F' : prefixb (sc ++ [k]) (sc ++ j :: r') = true).
          { eapply prefixb_trans; [|exact F]. replace (sc ++ k :: r) with ((sc ++ [k]) ++ r) by (rewrite <- app_assoc; reflexivity).
            apply prefixb_app. }
          apply prefixb_sibling in F'. lia. }
        destruct x; simpl in *; auto. rewrite F. discriminate. }
  destruct (S 0) as [Ssub Osub]. split.
  - intros y [<- | Iy].
    + simpl. split; [apply prefixb_refl | discriminate].
    + apply in_app_or in Iy. destruct Iy as [Iy | Iy].
      * apply in_map_iff in Iy. destruct Iy as (d & <- & _). simpl. split; [apply prefixb_refl | discriminate].
      * apply in_app_or in Iy. destruct Iy as [Iy | Iy].
        -- destruct (Ssub y Iy) as [(k & r & _ & E) Ny]. split; [|exact Ny]. rewrite E. apply prefixb_app.
        -- apply in_map_iff in Iy. destruct Iy as (a & <- & _). simpl. split; [apply prefixb_refl | discriminate].
  - apply order_ok_cons.
    + apply order_ok_app.
      * (* declarations of this scope *)
        intros l1 x l2 E y Iy.
        assert (Ix : In x (map (IDecl sc false) vars)) by (rewrite E; apply in_or_app; right; left; reflexivity).
        assert (Iy' : In y (map (IDecl sc false) vars)) by (rewrite E; apply in_or_app; left; exact Iy).
        apply in_map_iff in Ix. destruct Ix as (d & <- & _). apply in_map_iff in Iy'. destruct Iy' as (d' & <- & _).
        simpl. reflexivity.
      * apply order_ok_app; auto.
        -- intros l1 x l2 E y Iy.
           assert (Ix : In x (map (IApp sc) apps)) by (rewrite E; apply in_or_app; right; left; reflexivity).
           apply in_map_iff in Ix. destruct Ix as (a & <- & _). exact I.
        -- intros x y Ix Iy. apply in_map_iff in Ix. destruct Ix as (a & <- & _). exact I.
      * (* sub-traversals and applications after the declarations *)
        intros x y Ix Iy. apply in_map_iff in Iy. destruct Iy as (d & <- & _).
        apply in_app_or in Ix. destruct Ix as [Ix | Ix].
        -- destruct (Ssub x Ix) as [(k & r & _ & E) _].
           assert (F : prefixb (iscope x) sc = false).
           { rewrite E. replace (sc ++ k :: r) with ((sc ++ [k]) ++ r) by (rewrite <- app_assoc; reflexivity).
             destruct (prefixb ((sc ++ [k]) ++ r) sc) eqn:F; [|reflexivity]. exfalso.
             assert (F' : prefixb (sc ++ [k]) sc = true) by (eapply prefixb_trans; [apply prefixb_app | exact F]).
             rewrite prefixb_longer in F'. discriminate. }
           destruct x; simpl in *; auto. rewrite F. discriminate.
        -- apply in_map_iff in Ix. destruct Ix as (a & <- & _). exact I.
    + (* everything after the traversal's own first instruction *)
      intros z Iz. apply in_app_or in Iz. destruct Iz as [Iz | Iz].
      * apply in_map_iff in Iz. destruct Iz as (d & <- & _). simpl. reflexivity.
      * apply in_app_or in Iz. destruct Iz as [Iz | Iz].
        -- destruct (Ssub z Iz) as [(k & r & _ & E) _].
           assert (F : prefixb (iscope z) sc = false).
           { rewrite E. replace (sc ++ k :: r) with ((sc ++ [k]) ++ r) by (rewrite <- app_assoc; reflexivity).
             destruct (prefixb ((sc ++ [k]) ++ r) sc) eqn:F; [|reflexivity]. exfalso.
             assert (F' : prefixb (sc ++ [k]) sc = true) by (eapply prefixb_trans; [apply prefixb_app | exact F]).
             rewrite prefixb_longer in F'. discriminate. }
           destruct z; simpl in *; auto. rewrite F. discriminate.
        -- apply in_map_iff in Iz. destruct Iz as (a & <- & _). exact I.
Qed.

Lemma flatten_travs_block sc : forall subs j,
  (forall y, In y (flatten_travs sc j subs) -> exists k r, j <= k /\ iscope y = sc ++ k :: r) /\ order_ok (flatten_travs sc j subs).
Proof.
  induction subs as [|t l IHl]; intros j.
  - split; [intros y [] | apply order_ok_nil].
  - destruct (IHl (S j)) as [Sl Ol]. destruct (flatten_trav_block t sc j) as [St Ot]. cbn [flatten_travs]. split.
    + intros y Iy. apply in_app_or in Iy. destruct Iy as [Iy | Iy].
      * destruct (St y Iy) as [Py _]. apply prefixb_iff in Py. destruct Py as (r & Py). exists j, r. split; [lia|].
        rewrite Py, <- app_assoc. reflexivity.
      * destruct (Sl y Iy) as (k & r & L & E). exists k, r. split; [lia | exact E].
    + apply order_ok_app; auto. intros x y Ix Iy.
      destruct (Sl x Ix) as (k & r & L & E). destruct (St y Iy) as [Py _].
      apply prefixb_iff in Py. destruct Py as (r' & Py). rewrite <- app_assoc in Py. simpl in Py.
      assert (F : prefixb (iscope x) (iscope y) = false).
      { destruct (prefixb (iscope x) (iscope y)) eqn:F; [|reflexivity]. exfalso.
        rewrite E, Py in F.
        assert (F' : prefixb (sc ++ [k]) (sc ++ j :: r') = true).
        { eapply prefixb_trans; [|exact F]. replace (sc ++ k :: r) with ((sc ++ [k]) ++ r) by (rewrite <- app_assoc; reflexivity).
          apply prefixb_app. }
        apply prefixb_sibling in F'. lia. }
      destruct x; simpl in *; auto. rewrite F. discriminate.
Qed.

Lemma flatten_order_ok pl : order_ok (flatten pl).
Proof.
  unfold flatten. destruct (flatten_travs_block [] (pl_trav pl) 0) as [St Ot].
  apply order_ok_app.
  - intros l1 x l2 E y Iy.
    assert (Ix : In x (map (IDecl [] true) (pl_vars pl))) by (rewrite E; apply in_or_app; right; left; reflexivity).
    assert (Iy' : In y (map (IDecl [] true) (pl_vars pl))) by (rewrite E; apply in_or_app; left; exact Iy).
    apply in_map_iff in Ix. destruct Ix as (d & <- & _). apply in_map_iff in Iy'. destruct Iy' as (d' & <- & _).
    simpl. reflexivity.
  - apply order_ok_app; auto.
    + apply order_ok_app.
      * intros l1 x l2 E y Iy.
        assert (Ix : In x (map (IApp []) (pl_apply pl))) by (rewrite E; apply in_or_app; right; left; reflexivity).
        apply in_map_iff in Ix. destruct Ix as (a & <- & _). exact I.
      * intros l1 x l2 E y Iy.
        assert (Ix : In x (map (fun o => IOut (fst o) (snd o)) (pl_out pl))) by (rewrite E; apply in_or_app; right; left; reflexivity).
        apply in_map_iff in Ix. destruct Ix as (a & <- & _). exact I.
      * intros x y Ix Iy. apply in_map_iff in Ix. destruct Ix as (a & <- & _). exact I.
    + intros x y Ix Iy. apply in_app_or in Ix. destruct Ix as [Ix | Ix]; apply in_map_iff in Ix; destruct Ix as (a & <- & _); exact I.
  - intros x y Ix Iy. apply in_map_iff in Iy. destruct Iy as (d & <- & _).
    apply in_app_or in Ix. destruct Ix as [Ix | Ix].
    + destruct (St x Ix) as (k & r & _ & E). simpl in E. destruct x; simpl in *; auto; rewrite E; simpl; [discriminate | reflexivity].
    + apply in_app_or in Ix. destruct Ix as [Ix | Ix]; apply in_map_iff in Ix; destruct Ix as (a & <- & _); exact I.
Qed.

(* ================================================================== C09: the store invariant *)
Definition key := (list nat * nat * bool)%type.
Definition key_of (e : pvar) : key := (pv_scope e, pv_name e, pv_loop e).
Definition decl_keys (i : instr) : list key :=
  match i with IDecl d _ vd => [(d, vd_name vd, false)] | ITrav d _ v => [(d, v, true)] | _ => [] end.

Record Inv (s : schema) (ctx : option nat) (pre : list instr) (st : store) : Prop := {
  (* the store holds exactly the variables declared so far *)
  inv_keys : map key_of st = flat_map decl_keys pre;
  (* no two visible declarations of one name: entries of one name have incomparable scopes *)
  inv_uniq : forall e1 e2, In e1 st -> In e2 st -> pv_name e1 = pv_name e2 ->
             prefixb (pv_scope e1) (pv_scope e2) = true -> e1 = e2;
  (* pipeline variables never carry the name of a thread variable of the context *)
  inv_thread : forall e, In e st -> thread_var s ctx (pv_name e) = None;
  (* a variable a traversal iterates over remembers that traversal's scope *)
  inv_mark : forall tsc v p a, In (ITrav tsc (PVar v p) a) pre ->
             forall e, In e st -> pv_name e = v -> visible (pv_scope e) tsc = true -> In tsc (pv_trav e);
  (* a traversed name resolves: to a pipeline variable visible at the traversal, or to a thread variable *)
  inv_res : forall tsc v p a, In (ITrav tsc (PVar v p) a) pre ->
            (exists e, In e st /\ pv_name e = v /\ visible (pv_scope e) tsc = true) \/ thread_var s ctx v <> None
}.

Lemma Inv_nil s ctx : Inv s ctx [] [].
Proof. constructor; simpl; auto; try (intros; contradiction). Qed.

(* an entry's declaring instruction *)
Lemma key_declared pre k : In k (flat_map decl_keys pre) ->
  exists y, In y pre /\ In k (decl_keys y).
Proof. intro H. apply in_flat_map in H. exact H. Qed.

Lemma decl_keys_scope y d n b : In (d, n, b) (decl_keys y) -> iscope y = d.
Proof. destruct y; simpl; intros H; try contradiction; destruct H as [E|[]]; injection E as <- _ _; reflexivity. Qed.

Lemma entry_declared s ctx pre st e : Inv s ctx pre st -> In e st -> exists y, In y pre /\ In (key_of e) (decl_keys y).
Proof.
  intros I Ie. apply key_declared. rewrite <- (inv_keys _ _ _ _ I). apply in_map. exact Ie.
Qed.

Lemma declared_entry s ctx pre st y k : Inv s ctx pre st -> In y pre -> In k (decl_keys y) -> exists e, In e st /\ key_of e = k.
Proof.
  intros I Iy Ik. assert (H : In k (map key_of st)).
  { rewrite (inv_keys _ _ _ _ I). apply in_flat_map. exists y. auto. }
  apply in_map_iff in H. destruct H as (e & E & Ie). exists e. auto.
Qed.

(* pointwise update of the store that keeps scope, name and loop flag and only adds traversal marks *)
Definition ext (x y : pvar) : Prop :=
  pv_scope y = pv_scope x /\ pv_name y = pv_name x /\ pv_loop y = pv_loop x /\ incl (pv_trav x) (pv_trav y).

Lemma ext_refl x : ext x x.
Proof. repeat split; auto. apply incl_refl. Qed.

Lemma Inv_map s ctx pre st f : Inv s ctx pre st -> (forall x, In x st -> ext x (f x)) -> Inv s ctx pre (map f st).
Proof.
  intros I F. constructor.
  - rewrite <- (inv_keys _ _ _ _ I). rewrite map_map. apply map_ext_in. intros x Ix.
    destruct (F x Ix) as (A & B & C & _). unfold key_of. rewrite A, B, C. reflexivity.
  - intros e1 e2 I1 I2 N P. apply in_map_iff in I1. destruct I1 as (x1 & <- & I1). apply in_map_iff in I2. destruct I2 as (x2 & <- & I2).
    destruct (F x1 I1) as (A1 & B1 & _). destruct (F x2 I2) as (A2 & B2 & _).
    rewrite A1, A2 in P. rewrite B1, B2 in N. f_equal. eapply (inv_uniq _ _ _ _ I); eauto.
  - intros e Ie. apply in_map_iff in Ie. destruct Ie as (x & <- & Ix). destruct (F x Ix) as (_ & B & _). rewrite B.
    apply (inv_thread _ _ _ _ I). exact Ix.
  - intros tsc v p a It e Ie N V. apply in_map_iff in Ie. destruct Ie as (x & <- & Ix).
    destruct (F x Ix) as (A & B & _ & D). apply D. rewrite A in V. rewrite B in N.
    eapply (inv_mark _ _ _ _ I); eauto.
  - intros tsc v p a It. destruct (inv_res _ _ _ _ I tsc v p a It) as [(e & Ie & N & V) | T]; [left | right; exact T].
    exists (f e). destruct (F e Ie) as (A & B & _). split; [apply in_map; exact Ie|]. rewrite A, B. auto.
Qed.

Lemma same_var_iff x e : same_var x e = true <-> pv_name x = pv_name e /\ pv_scope x = pv_scope e.
Proof. unfold same_var. rewrite andb_true_iff, Nat.eqb_eq, list_nat_eqb_eq. tauto. Qed.

(* replacing the entry e (found in the store) by an extension of it *)
Lemma Inv_put s ctx pre st e e' : Inv s ctx pre st -> In e st -> ext e e' -> Inv s ctx pre (put_var st e').
Proof.
  intros I Ie X. unfold put_var. apply Inv_map; auto. intros x Ix.
  destruct (same_var x e') eqn:S; [|apply ext_refl].
  apply same_var_iff in S. destruct S as [N Sc]. destruct X as (A & B & C & D).
  assert (x = e).
  { eapply (inv_uniq _ _ _ _ I); eauto; [congruence|]. rewrite Sc, A. apply prefixb_refl. }
  subst x. repeat split; auto.
Qed.

Lemma put_var_in st e' x : In x st -> In (if same_var x e' then e' else x) (put_var st e').
Proof. intro H. unfold put_var. apply in_map_iff. exists x. auto. Qed.

(* adding a freshly declared entry *)
Lemma Inv_declare s ctx pre st i sc n t null asg loop :
  Inv s ctx pre st ->
  decl_keys i = [(sc, n, loop)] ->
  (forall y, In y pre -> cross_ok i y) ->
  (match i with IDecl _ _ _ | ITrav _ _ _ => True | _ => False end) ->
  get_var st n sc = None -> thread_var s ctx n = None ->
  (* marks of the new instruction, if it is a traversal over a variable, are in place *)
  (forall tsc v p a, i = ITrav tsc (PVar v p) a ->
     (forall e, In e st -> pv_name e = v -> visible (pv_scope e) tsc = true -> In tsc (pv_trav e)) /\
     ((exists e, In e st /\ pv_name e = v /\ visible (pv_scope e) tsc = true) \/ thread_var s ctx v <> None)) ->
  Inv s ctx (pre ++ [i]) (declare st sc n t null asg loop).
Proof.
  intros I K X Kind G T M. unfold declare.
  assert (Isc : iscope i = sc) by (apply (decl_keys_scope i sc n loop); rewrite K; left; reflexivity).
  (* no entry of the same name lies at or below sc, none above *)
  assert (Above : forall e, In e st -> pv_name e = n -> prefixb (pv_scope e) sc = false).
  { intros e Ie N. exact (get_var_none _ _ _ G e Ie N). }
  assert (Below : forall e, In e st -> pv_name e = n -> prefixb sc (pv_scope e) = false).
  { intros e Ie N. destruct (prefixb sc (pv_scope e)) eqn:P; [|reflexivity]. exfalso.
    destruct (entry_declared _ _ _ _ _ I Ie) as (y & Iy & Ky). unfold key_of in Ky. apply decl_keys_scope in Ky.
    specialize (X y Iy). destruct i; try contradiction; simpl in X, Isc; rewrite Isc in X.
    - rewrite Ky in X. specialize (X P). assert (A := Above e Ie N). rewrite X, prefixb_refl in A. discriminate.
    - rewrite Ky, P in X. discriminate. }
  constructor.
  - rewrite map_app, flat_map_app, (inv_keys _ _ _ _ I). simpl. rewrite K, app_nil_r. reflexivity.
  - intros e1 e2 I1 I2 N P. apply in_app_or in I1. apply in_app_or in I2.
    destruct I1 as [I1 | [<-|[]]], I2 as [I2 | [<-|[]]]; auto.
    + eapply (inv_uniq _ _ _ _ I); eauto.
    + simpl in *. rewrite (Above e1 I1 N) in P. discriminate.
    + simpl in *. rewrite (Below e2 I2 (eq_sym N)) in P. discriminate.
  - intros e Ie. apply in_app_or in Ie. destruct Ie as [Ie | [<-|[]]]; [apply (inv_thread _ _ _ _ I); exact Ie | exact T].
  - intros tsc v p a It e Ie N V. apply in_app_or in It. apply in_app_or in Ie. destruct It as [It | [It|[]]].
    + destruct Ie as [Ie | [<-|[]]]; [eapply (inv_mark _ _ _ _ I); eauto|].
      (* the new entry would be visible at an earlier traversal that iterates over its name *)
      exfalso. simpl in N, V. subst v.
      assert (C := X _ It). destruct i; try contradiction; simpl in C, Isc; subst.
      * (* declaration at sc, sc a prefix of tsc *)
        destruct (inv_res _ _ _ _ I _ _ _ _ It) as [(e0 & I0 & N0 & V0) | Th]; [|congruence].
        unfold visible in *. destruct (prefixb_comparable _ _ _ V0 V) as [P | P].
        -- rewrite (Above e0 I0 N0) in P. discriminate.
        -- rewrite (Below e0 I0 N0) in P. discriminate.
      * unfold visible in V. rewrite V in C. discriminate.
    + subst i. destruct Ie as [Ie | [<-|[]]].
      * destruct (M _ _ _ _ eq_refl) as [M1 _]. auto.
      * exfalso. simpl in N, V, K. injection K as -> -> _. subst v.
        destruct (M _ _ _ _ eq_refl) as [_ [(e0 & I0 & N0 & V0) | Th]]; [|congruence].
        unfold visible in V0. rewrite (Above e0 I0 N0) in V0. discriminate.
  - intros tsc v p a It. apply in_app_or in It.
    assert (R : (exists e, In e st /\ pv_name e = v /\ visible (pv_scope e) tsc = true) \/ thread_var s ctx v <> None).
    { destruct It as [It | [It|[]]]; [eapply (inv_res _ _ _ _ I); eauto | subst i; destruct (M _ _ _ _ eq_refl) as [_ R]; exact R]. }
    destruct R as [(e & Ie & N & V) | Th]; [left | right; exact Th].
    exists e. split; [apply in_or_app; left; exact Ie | auto].
Qed.

Lemma Inv_snoc s ctx pre st i : Inv s ctx pre st -> decl_keys i = [] -> Inv s ctx (pre ++ [i]) st.
Proof.
  intros I K.
  assert (NT : forall tsc v p a, In (ITrav tsc (PVar v p) a) (pre ++ [i]) -> In (ITrav tsc (PVar v p) a) pre).
  { intros tsc v p a H. apply in_app_or in H. destruct H as [H | [H|[]]]; [exact H | subst i; discriminate]. }
  constructor.
  - rewrite flat_map_app. simpl. rewrite K, !app_nil_r. apply (inv_keys _ _ _ _ I).
  - apply (inv_uniq _ _ _ _ I).
  - apply (inv_thread _ _ _ _ I).
  - intros tsc v p a It. apply NT in It. eapply (inv_mark _ _ _ _ I); eauto.
  - intros tsc v p a It. apply NT in It. eapply (inv_res _ _ _ _ I); eauto.
Qed.

Lemma var_ref_type_resolves s ctx st sc v p t : var_ref_type s ctx st sc v p = TOk t ->
  (exists e, get_var st v sc = Some e) \/ (get_var st v sc = None /\ thread_var s ctx v <> None).
Proof.
  unfold var_ref_type. destruct (get_var st v sc) as [e|]; [left; exists e; reflexivity|].
  destruct (thread_var s ctx v); [intros _; right; split; [reflexivity | discriminate] | discriminate].
Qed.

Lemma step_Inv cmp s ctx own pre st i st' :
  Inv s ctx pre st -> (forall y, In y pre -> cross_ok i y) -> step cmp s ctx own st i = Some st' -> Inv s ctx (pre ++ [i]) st'.
Proof.
  intros I X H. destruct i as [sc top d | sc src as_ | sc a | v attr]; cbn [step] in H.
  - destruct (tdet_of_ty (vd_type d)) as [t|]; [|discriminate].
    destruct (negb (isSome (get_var st (vd_name d) sc)) && negb (isSome (thread_var s ctx (vd_name d))) && InitOk _ _ && _) eqn:E; [|discriminate].
    injection H as <-.
    apply andb_true_iff in E. destruct E as [E _]. apply andb_true_iff in E. destruct E as [E _].
    apply andb_true_iff in E. destruct E as [G T]. apply isSome_false in G. apply isSome_false in T.
    eapply Inv_declare; eauto; try reflexivity; try exact Logic.I; try (intros; discriminate).
  - destruct (src_type s ctx own st sc src) as [| |t] eqn:S; try discriminate.
    set (st1 := match src with
                | PVar v _ => match get_var st v sc with
                              | Some e => put_var st (Build_pvar (pv_scope e) (pv_name e) (pv_td e) (pv_null e) (pv_assigned e) (pv_loop e) (sc :: pv_trav e))
                              | None => st end
                | _ => st end) in *.
    destruct (td_list t && negb (isSome (get_var st1 as_ sc)) && negb (isSome (thread_var s ctx as_))) eqn:E; [|discriminate].
    injection H as <-.
    apply andb_true_iff in E. destruct E as [E T]. apply andb_true_iff in E. destruct E as [_ G].
    apply isSome_false in G. apply isSome_false in T.
    assert (I1 : Inv s ctx pre st1).
    { subst st1. destruct src as [p path | v path | path]; auto.
      destruct (get_var st v sc) as [e|] eqn:Ge; auto.
      apply get_var_some in Ge. destruct Ge as (Ie & _ & _).
      eapply Inv_put; eauto. repeat split; simpl; auto. intros x Hx. right. exact Hx. }
    eapply Inv_declare; eauto; try reflexivity; try exact Logic.I.
    intros tsc v p a Eq. injection Eq as <- -> <-.
    cbn [src_type] in S. subst st1. destruct (var_ref_type_resolves _ _ _ _ _ _ _ S) as [(e0 & Ge) | (Ge & Th)].
    + rewrite Ge in *. destruct (get_var_some _ _ _ _ Ge) as (I0 & N0 & V0).
      set (e' := Build_pvar (pv_scope e0) (pv_name e0) (pv_td e0) (pv_null e0) (pv_assigned e0) (pv_loop e0) (sc :: pv_trav e0)) in *.
      assert (Se : same_var e0 e' = true) by (apply same_var_iff; simpl; auto).
      split.
      * intros e Ie N V. unfold put_var in Ie. apply in_map_iff in Ie. destruct Ie as (x & Ex & Ix).
        assert (x = e0).
        { assert (Nx : pv_name x = v) by (destruct (same_var x e') eqn:Sx; [apply same_var_iff in Sx; destruct Sx as [Sx _]; simpl in Sx; congruence | congruence]).
          assert (Vx : visible (pv_scope x) sc = true).
          { destruct (same_var x e') eqn:Sx; [apply same_var_iff in Sx; destruct Sx as [_ Sx]; simpl in Sx; rewrite Sx; exact V0 | subst e; exact V]. }
          unfold visible in *. destruct (prefixb_comparable _ _ _ Vx V0) as [P | P].
          - eapply (inv_uniq _ _ _ _ I); eauto. congruence.
          - symmetry. eapply (inv_uniq _ _ _ _ I); eauto. congruence. }
        subst x. rewrite Se in Ex. subst e. simpl. left. reflexivity.
      * left. exists e'. split; [|simpl; auto].
        assert (J := put_var_in st e' e0 I0). rewrite Se in J. exact J.
    + rewrite Ge in *. split; [|right; exact Th].
      intros e Ie N V. rewrite (get_var_none _ _ _ Ge e Ie N) in V. discriminate.
  - destruct (src_type s ctx own st sc (ap_src a)) as [| |r]; try discriminate.
    destruct (get_var st (ap_to a) sc) as [e|] eqn:G; [|discriminate].
    destruct (pv_loop e || _); [discriminate|].
    destruct (step_type cmp s ctx own st sc r (ap_step a)) as [rt|]; [|discriminate].
    destruct (Combine _ _ _ _); [|discriminate].
    destruct (merge_obj (pv_td e) rt) as [t'|]; [|discriminate]. injection H as <-.
    apply get_var_some in G. destruct G as (Ie & _ & _).
    apply Inv_snoc; [|reflexivity]. eapply Inv_put; eauto. repeat split; simpl; auto. apply incl_refl.
  - destruct (get_var st v []) as [e|]; [|discriminate]. destruct (find_promise s own) as [pr|]; [|discriminate].
    destruct (resolve_path s (pr_type pr) [attr]) as [| |ft]; try discriminate.
    destruct (tdet_eqb ft (pv_td e) && _); [|discriminate]. injection H as <-.
    apply Inv_snoc; [exact I | reflexivity].
Qed.

(* every instruction of an accepted run is reached in a store satisfying the invariant *)
Lemma run_points cmp s ctx own : forall l pre st fin,
  Inv s ctx pre st -> order_ok (pre ++ l) -> run cmp s ctx own st l = Some fin ->
  forall l1 i l2, l = l1 ++ i :: l2 ->
  exists st0 st1, Inv s ctx (pre ++ l1) st0 /\ step cmp s ctx own st0 i = Some st1 /\ Inv s ctx (pre ++ l1 ++ [i]) st1.
Proof.
  induction l as [|i0 l IH]; intros pre st fin I O R l1 i l2 E.
  - destruct l1; discriminate.
  - cbn [run] in R. destruct (step cmp s ctx own st i0) as [st'|] eqn:S; [|discriminate].
    assert (I' : Inv s ctx (pre ++ [i0]) st').
    { eapply step_Inv; [exact I | | exact S]. intros y Iy. eapply (O pre i0 l); [reflexivity | exact Iy]. }
    destruct l1 as [|j l1].
    + injection E as <- <-. exists st, st'. rewrite app_nil_r. simpl. auto.
    + injection E as <- E.
      assert (O' : order_ok ((pre ++ [i0]) ++ l)) by (rewrite <- app_assoc; exact O).
      destruct (IH _ _ _ I' O' R l1 i l2 E) as (st0 & st1 & A & B & C).
      exists st0, st1. rewrite <- !app_assoc in A, C. simpl in A, C. auto.
Qed.

Lemma pipeline_points cmp s pl : pipeline_ok cmp s pl = true ->
  let own := r_id (pl_promise pl) in let ctx := pipe_ctx s own in
  forall l1 i l2, flatten pl = l1 ++ i :: l2 ->
  exists st0 st1, Inv s ctx l1 st0 /\ step cmp s ctx own st0 i = Some st1 /\ Inv s ctx (l1 ++ [i]) st1.
Proof.
  intros H own ctx l1 i l2 E. apply pipeline_ok_run in H. destruct H as [fin R].
  eapply (run_points cmp s ctx own (flatten pl) [] [] fin); eauto using Inv_nil. apply flatten_order_ok.
Qed.

(* ================================================================== C09: the scoping theorems *)
(* instruction y declares the name n in scope d (as a variable, or as the loop variable of a traversal) *)
Definition declares (y : instr) (d : list nat) (n : nat) : Prop :=
  (exists top vd, y = IDecl d top vd /\ vd_name vd = n) \/ (exists src, y = ITrav d src n).

Lemma key_declares y d n b : In (d, n, b) (decl_keys y) ->
  declares y d n /\ (b = false -> exists top vd, y = IDecl d top vd /\ vd_name vd = n) /\ (b = true -> exists src, y = ITrav d src n).
Proof.
  destruct y as [sc top vd | sc src a | |]; simpl; intros H; try contradiction; destruct H as [E|[]]; injection E as <- <- <-.
  - split; [left; eauto|]. split; [eauto | discriminate].
  - split; [right; eauto|]. split; [discriminate | eauto].
Qed.

Lemma declares_key y d n : declares y d n -> exists b, In (d, n, b) (decl_keys y) /\ iscope y = d.
Proof.
  intros [(top & vd & -> & <-) | (src & ->)]; [exists false | exists true]; simpl; auto.
Qed.

Definition fop_vars (o : foperand) : list nat := match o with FVar v _ => [v] | _ => [] end.
Definition step_vars (st : pstep) : list nat :=
  match st with
  | StFilter cs => flat_map (fun c => fop_vars (fst (fst c)) ++ fop_vars (snd c)) (flat_map clause_cmps cs)
  | _ => []
  end.
Definition src_vars (src : psrc) : list nat := match src with PVar v _ => [v] | _ => [] end.
(* the variables an instruction reads / assigns *)
Definition reads (i : instr) : list nat :=
  match i with
  | IApp _ a => src_vars (ap_src a) ++ step_vars (ap_step a)
  | ITrav _ src _ => src_vars src
  | IOut v _ => [v]
  | IDecl _ _ _ => []
  end.
Definition writes (i : instr) : list nat := match i with IApp _ a => [ap_to a] | _ => [] end.

Lemma resolved_declared s ctx pre st v sc e : Inv s ctx pre st -> get_var st v sc = Some e ->
  exists y, In y pre /\ declares y (pv_scope e) v /\ visible (pv_scope e) sc = true /\
            (pv_loop e = false -> exists top vd, y = IDecl (pv_scope e) top vd /\ vd_name vd = v).
Proof.
  intros I G. apply get_var_some in G. destruct G as (Ie & N & V).
  destruct (entry_declared _ _ _ _ _ I Ie) as (y & Iy & K). unfold key_of in K. rewrite N in K.
  apply key_declares in K. destruct K as (D & F & _). exists y. auto.
Qed.

Lemma fop_var_resolves s ctx own st sc r v p t : fop_type s ctx own st sc r (FVar v p) = Some t ->
  (exists e, get_var st v sc = Some e) \/ (get_var st v sc = None /\ thread_var s ctx v <> None).
Proof.
  cbn [fop_type]. destruct (var_ref_type s ctx st sc v p) eqn:E; try discriminate. intros _.
  eapply var_ref_type_resolves; eauto.
Qed.

Lemma C09_scoped_lemma cmp tbl ps : conforms_p_with cmp tbl ps = true ->
  forall pl, In pl (pipelines ps) ->
  let s := base ps in let own := r_id (pl_promise pl) in let ctx := pipe_ctx s own in
  forall l1 i l2, flatten pl = l1 ++ i :: l2 ->
  (forall v, In v (reads i) ->
     (exists y d, In y l1 /\ declares y d v /\ visible d (iscope i) = true) \/ thread_var s ctx v <> None) /\
  (forall v, In v (writes i) ->
     (exists y d top vd, In y l1 /\ y = IDecl d top vd /\ vd_name vd = v /\ visible d (iscope i) = true) /\
     thread_var s ctx v = None).
Proof.
  intros H pl Ipl s own ctx l1 i l2 E. apply conforms_p_parts in H. destruct H as (_ & H & _).
  apply pipelines_ok_inv with (pl := pl) in H; auto.
  destruct (pipeline_points _ _ _ H l1 i l2 E) as (st0 & st1 & I & S & _). fold s own ctx in I, S.
  assert (RES : forall v sc, ((exists e, get_var st0 v sc = Some e) \/ (get_var st0 v sc = None /\ thread_var s ctx v <> None)) ->
                (exists y d, In y l1 /\ declares y d v /\ visible d sc = true) \/ thread_var s ctx v <> None).
  { intros v sc [(e & G) | (_ & T)]; [left | right; exact T].
    destruct (resolved_declared _ _ _ _ _ _ _ I G) as (y & Iy & D & V & _). exists y, (pv_scope e). auto. }
  destruct i as [sc top d | sc src as_ | sc a | v attr]; cbn [reads writes iscope]; split; try (intros ? Hin; simpl in Hin; contradiction).
  - intros v Iv. destruct src as [p path | v' path | path]; simpl in Iv; try contradiction. destruct Iv as [<-|[]].
    cbn [step] in S. destruct (src_type s ctx own st0 sc (PVar v' path)) as [| |t] eqn:T; try discriminate.
    cbn [src_type] in T. apply RES. eapply var_ref_type_resolves; eauto.
  - intros v Iv. cbn [step] in S.
    destruct (src_type s ctx own st0 sc (ap_src a)) as [| |r] eqn:T; try discriminate.
    destruct (get_var st0 (ap_to a) sc) as [e|] eqn:G; [|discriminate].
    destruct (pv_loop e || _); [discriminate|].
    destruct (step_type cmp s ctx own st0 sc r (ap_step a)) as [rt|] eqn:ST; [|discriminate].
    apply in_app_or in Iv. destruct Iv as [Iv | Iv].
    + destruct (ap_src a) as [p path | v' path | path]; simpl in Iv; try contradiction. destruct Iv as [<-|[]].
      cbn [src_type] in T. apply RES. eapply var_ref_type_resolves; eauto.
    + apply step_type_typed in ST. destruct (ap_step a) as [|f g|cs|keys|path]; simpl in Iv; try contradiction.
      cbn [step_typed] in ST. destruct ST as (_ & _ & ST).
      apply in_flat_map in Iv. destruct Iv as (((l & o) & rr) & Ic & Iv). simpl in Iv.
      destruct (ST l o rr Ic) as (tl & tr & Fl & Fr & _).
      apply in_app_or in Iv. destruct Iv as [Iv | Iv].
      * destruct l; simpl in Iv; try contradiction. destruct Iv as [<-|[]]. apply RES. eapply fop_var_resolves; eauto.
      * destruct rr; simpl in Iv; try contradiction. destruct Iv as [<-|[]]. apply RES. eapply fop_var_resolves; eauto.
  - intros w [<-|[]]. cbn [step] in S.
    destruct (src_type s ctx own st0 sc (ap_src a)) as [| |r]; try discriminate.
    destruct (get_var st0 (ap_to a) sc) as [e|] eqn:G; [|discriminate].
    destruct (pv_loop e) eqn:L; [discriminate|].
    destruct (resolved_declared _ _ _ _ _ _ _ I G) as (y & Iy & D & V & F).
    destruct (F L) as (top & vd & -> & N).
    split; [exists (IDecl (pv_scope e) top vd), (pv_scope e), top, vd; auto|].
    apply get_var_some in G. destruct G as (Ie & <- & _). apply (inv_thread _ _ _ _ I). exact Ie.
  - intros v' [<-|[]]. cbn [step] in S. destruct (get_var st0 v []) as [e|] eqn:G; [|discriminate].
    apply RES. left. exists e. exact G.
Qed.

(* a successful declaring instruction found no visible variable of its name *)
Lemma step_decl_fresh cmp s ctx own pre st y st' d n : Inv s ctx pre st -> step cmp s ctx own st y = Some st' -> declares y d n ->
  thread_var s ctx n = None /\ forall e, In e st -> pv_name e = n -> visible (pv_scope e) d = false.
Proof.
  intros I S [(top & vd & -> & <-) | (src & ->)]; cbn [step] in S.
  - destruct (tdet_of_ty (vd_type vd)); [|discriminate].
    destruct (negb (isSome (get_var st (vd_name vd) d)) && negb (isSome (thread_var s ctx (vd_name vd))) && InitOk _ _ && _) eqn:E; [|discriminate].
    apply andb_true_iff in E. destruct E as [E _]. apply andb_true_iff in E. destruct E as [E _].
    apply andb_true_iff in E. destruct E as [G T]. apply isSome_false in G. apply isSome_false in T.
    split; [exact T|]. intros e Ie N. eapply get_var_none; eauto.
  - destruct (src_type s ctx own st d src) as [| |t]; try discriminate.
    match type of S with context [get_var ?st1 n d] => set (s1 := st1) in * end.
    destruct (td_list t && negb (isSome (get_var s1 n d)) && negb (isSome (thread_var s ctx n))) eqn:E; [|discriminate].
    apply andb_true_iff in E. destruct E as [E T]. apply andb_true_iff in E. destruct E as [_ G].
    apply isSome_false in G. apply isSome_false in T. split; [exact T|].
    intros e Ie N.
    assert (J : exists e', In e' s1 /\ pv_name e' = pv_name e /\ pv_scope e' = pv_scope e).
    { subst s1. destruct src as [p path | v path | path]; try solve [exists e; auto].
      destruct (get_var st v d) as [e0|]; [|exists e; auto].
      match goal with |- context [put_var st ?x] => set (e' := x) end.
      exists (if same_var e e' then e' else e). split; [apply put_var_in; exact Ie|].
      destruct (same_var e e') eqn:Se; [apply same_var_iff in Se; destruct Se; auto | auto]. }
    destruct J as (e' & Ie' & N' & Sc'). rewrite <- Sc'. eapply get_var_none; eauto. congruence.
Qed.

Lemma C09_no_redeclaration_lemma cmp tbl ps : conforms_p_with cmp tbl ps = true ->
  forall pl, In pl (pipelines ps) ->
  let s := base ps in let ctx := pipe_ctx s (r_id (pl_promise pl)) in
  forall l1 x l2 d n, flatten pl = l1 ++ x :: l2 -> declares x d n ->
  thread_var s ctx n = None /\
  forall y d', In y (l1 ++ l2) -> declares y d' n -> visible d' d = false.
Proof.
  intros H pl Ipl s ctx l1 x l2 d n E Dx. apply conforms_p_parts in H. destruct H as (_ & H & _).
  apply pipelines_ok_inv with (pl := pl) in H; auto.
  destruct (pipeline_points _ _ _ H l1 x l2 E) as (st0 & st1 & I & S & I1). fold s ctx in I, S, I1.
  destruct (step_decl_fresh _ _ _ _ _ _ _ _ _ _ I S Dx) as [T Fresh]. split; [exact T|].
  intros y d' Iy Dy. apply in_app_or in Iy. destruct Iy as [Iy | Iy].
  - (* declared earlier: its entry is in the store when x is checked *)
    destruct (declares_key _ _ _ Dy) as (b & Ky & _).
    destruct (declared_entry _ _ _ _ _ _ I Iy Ky) as (e & Ie & Ke). unfold key_of in Ke. injection Ke as Sc N _.
    rewrite <- Sc. apply Fresh; auto.
  - (* declared later: x's entry is in the store when y is checked, and y cannot lie above x *)
    apply in_split in Iy. destruct Iy as (l2a & l2b & ->).
    assert (E' : flatten pl = (l1 ++ x :: l2a) ++ y :: l2b) by (rewrite E, <- app_assoc; reflexivity).
    destruct (pipeline_points _ _ _ H _ _ _ E') as (sy & sy' & Iy & Sy & _). fold s ctx in Iy, Sy.
    destruct (step_decl_fresh _ _ _ _ _ _ _ _ _ _ Iy Sy Dy) as [_ Fy].
    destruct (declares_key _ _ _ Dx) as (b & Kx & Scx).
    assert (Ix : In x (l1 ++ x :: l2a)) by (apply in_or_app; right; left; reflexivity).
    destruct (declared_entry _ _ _ _ _ _ Iy Ix Kx) as (e & Ie & Ke). unfold key_of in Ke. injection Ke as Sc N _.
    specialize (Fy e Ie N). rewrite Sc in Fy. unfold visible in *.
    destruct (prefixb d' d) eqn:P; [|reflexivity]. exfalso.
    assert (C := flatten_order_ok pl _ _ _ E' x Ix).
    destruct Dy as [(top & vd & -> & _) | (src & ->)]; simpl in C; rewrite Scx in C.
    + specialize (C P). subst d'. rewrite prefixb_refl in Fy. discriminate.
    + rewrite P in C. discriminate.
Qed.

Lemma C09_never_assigned_lemma cmp tbl ps : conforms_p_with cmp tbl ps = true ->
  forall pl, In pl (pipelines ps) ->
  let s := base ps in let ctx := pipe_ctx s (r_id (pl_promise pl)) in
  forall l1 sc a l2, flatten pl = l1 ++ IApp sc a :: l2 ->
  (* not a loop variable visible here *)
  (forall d src, In (ITrav d src (ap_to a)) (flatten pl) -> visible d sc = false) /\
  (* not a thread variable of the pipeline's context *)
  thread_var s ctx (ap_to a) = None /\
  (* not a variable that an enclosing (or this) traversal iterates over *)
  (forall tsc p as_, In (ITrav tsc (PVar (ap_to a) p) as_) (flatten pl) -> visible tsc sc = false).
Proof.
  intros H pl Ipl s ctx l1 sc a l2 E. apply conforms_p_parts in H. destruct H as (_ & H & _).
  apply pipelines_ok_inv with (pl := pl) in H; auto.
  destruct (pipeline_points _ _ _ H _ _ _ E) as (st0 & st1 & I & S & _). fold s ctx in I, S.
  cbn [step] in S.
  destruct (src_type s ctx _ st0 sc (ap_src a)) as [| |r]; try discriminate.
  destruct (get_var st0 (ap_to a) sc) as [e|] eqn:G; [|discriminate].
  destruct (pv_loop e) eqn:L; [discriminate|]. cbn [orb] in S.
  destruct (existsb (fun tsc => visible tsc sc) (pv_trav e)) eqn:TR; [discriminate|]. clear S.
  destruct (get_var_some _ _ _ _ G) as (Ie & Ne & Ve).
  destruct (entry_declared _ _ _ _ _ I Ie) as (z & Iz & Kz). unfold key_of in Kz.
  assert (Scz : iscope z = pv_scope e) by (eapply decl_keys_scope; eauto).
  unfold visible in *.
  split; [|split].
  - intros d src Iy. destruct (prefixb d sc) eqn:P; [|reflexivity]. exfalso.
    rewrite E in Iy. apply in_app_or in Iy. destruct Iy as [Iy | [Iy | Iy]]; [| discriminate |].
    + assert (K : In (d, ap_to a, true) (decl_keys (ITrav d src (ap_to a)))) by (left; reflexivity).
      destruct (declared_entry _ _ _ _ _ _ I Iy K) as (e' & Ie' & Ke'). unfold key_of in Ke'. injection Ke' as Sc' N' L'.
      assert (e = e').
      { destruct (prefixb_comparable _ _ _ Ve P) as [Q | Q].
        - eapply (inv_uniq _ _ _ _ I); eauto; congruence.
        - symmetry. eapply (inv_uniq _ _ _ _ I); eauto; congruence. }
      subst e'. congruence.
    + apply in_split in Iy. destruct Iy as (l2a & l2b & ->).
      assert (E' : flatten pl = (l1 ++ IApp sc a :: l2a) ++ ITrav d src (ap_to a) :: l2b) by (rewrite E, <- app_assoc; reflexivity).
      destruct (pipeline_points _ _ _ H _ _ _ E') as (sy & sy' & Iy & Sy & _). fold s ctx in Iy, Sy.
      assert (Dy : declares (ITrav d src (ap_to a)) d (ap_to a)) by (right; eauto).
      destruct (step_decl_fresh _ _ _ _ _ _ _ _ _ _ Iy Sy Dy) as [_ Fy].
      assert (Iz' : In z (l1 ++ IApp sc a :: l2a)) by (apply in_or_app; left; exact Iz).
      destruct (declared_entry _ _ _ _ _ _ Iy Iz' Kz) as (e2 & Ie2 & Ke2). unfold key_of in Ke2. injection Ke2 as Sc2 N2 _.
      specialize (Fy e2 Ie2 (eq_trans N2 Ne)). rewrite Sc2 in Fy. unfold visible in Fy.
      assert (C := flatten_order_ok pl _ _ _ E' z Iz'). simpl in C. rewrite Scz in C.
      destruct (prefixb_comparable _ _ _ Ve P) as [Q | Q]; congruence.
  - rewrite <- Ne. apply (inv_thread _ _ _ _ I). exact Ie.
  - intros tsc p as_ It. destruct (prefixb tsc sc) eqn:P; [|reflexivity]. exfalso.
    rewrite E in It. apply in_app_or in It. destruct It as [It | [It | It]]; [| discriminate |].
    + assert (M : prefixb (pv_scope e) tsc = true -> False).
      { intro Q. assert (J := inv_mark _ _ _ _ I _ _ _ _ It e Ie Ne Q).
        rewrite <- not_true_iff_false in TR. apply TR. apply existsb_exists. exists tsc. auto. }
      destruct (prefixb_comparable _ _ _ Ve P) as [Q | Q]; [exact (M Q)|].
      destruct (inv_res _ _ _ _ I _ _ _ _ It) as [(e1 & I1 & N1 & V1) | Th].
      * assert (e1 = e).
        { eapply (inv_uniq _ _ _ _ I); eauto; [congruence|]. eapply prefixb_trans; eauto. }
        subst e1. exact (M V1).
      * apply Th. rewrite <- Ne. apply (inv_thread _ _ _ _ I). exact Ie.
    + apply in_split in It. destruct It as (l2a & l2b & ->).
      assert (E' : flatten pl = (l1 ++ IApp sc a :: l2a) ++ ITrav tsc (PVar (ap_to a) p) as_ :: l2b) by (rewrite E, <- app_assoc; reflexivity).
      assert (Ia : In (IApp sc a) (l1 ++ IApp sc a :: l2a)) by (apply in_or_app; right; left; reflexivity).
      assert (C := flatten_order_ok pl _ _ _ E' _ Ia). simpl in C. congruence.
Qed.

(* ================================================================== C09: the object a pipeline writes *)
Definition src_not_own (own : nat) (src : psrc) : Prop :=
  match src with PProm p _ => r_id p <> own | PLocal _ => False | PVar _ _ => True end.
Definition fop_not_own (own : nat) (o : foperand) : Prop :=
  match o with FProm p _ => r_id p <> own | FLocal _ => False | _ => True end.
Definition step_cmps (stp : pstep) : list (foperand * cop * foperand) :=
  match stp with StFilter cs => flat_map clause_cmps cs | _ => [] end.

Lemma src_type_not_own s ctx own st sc src t : src_type s ctx own st sc src = TOk t -> src_not_own own src.
Proof.
  destruct src as [p path | v path | path]; cbn [src_type src_not_own]; auto; [|discriminate].
  destruct (ref_ok s RPromise p && negb (Nat.eqb (r_id p) own)) eqn:E; [|discriminate]. intros _.
  apply andb_true_iff in E. destruct E as [_ E]. apply negb_true_iff in E. apply Nat.eqb_neq in E. exact E.
Qed.

Lemma fop_type_not_own s ctx own st sc r o t : fop_type s ctx own st sc r o = Some t -> fop_not_own own o.
Proof.
  destruct o as [b p | v p | p path | p | l]; cbn [fop_type fop_not_own]; auto; [|discriminate].
  destruct (ref_ok s RPromise p && negb (Nat.eqb (r_id p) own)) eqn:E; [|discriminate]. intros _.
  apply andb_true_iff in E. destruct E as [_ E]. apply negb_true_iff in E. apply Nat.eqb_neq in E. exact E.
Qed.

Lemma C09_own_object_lemma cmp tbl ps : conforms_p_with cmp tbl ps = true ->
  forall pl, In pl (pipelines ps) ->
  let own := r_id (pl_promise pl) in
  (forall sc src as_, In (ITrav sc src as_) (flatten pl) -> src_not_own own src) /\
  (forall sc a, In (IApp sc a) (flatten pl) ->
     src_not_own own (ap_src a) /\
     forall l o r, In (l, o, r) (step_cmps (ap_step a)) -> fop_not_own own l /\ fop_not_own own r).
Proof.
  intros H pl Ipl own. destruct (C08_typed_lemma _ _ _ H pl Ipl) as [M A]. fold own in M, A.
  assert (P : forall i, In i (flatten pl) -> exists st, instr_typed cmp (base ps) (pipe_ctx (base ps) own) own st i).
  { intros i Ii. rewrite <- M in Ii. apply in_map_iff in Ii. destruct Ii as ((st & i') & <- & J). exists st. apply A. exact J. }
  split.
  - intros sc src as_ Ii. destruct (P _ Ii) as (st & t & S & _). eapply src_type_not_own; eauto.
  - intros sc a Ii. destruct (P _ Ii) as (st & r & e & rt & S & _ & ST & _). split; [eapply src_type_not_own; eauto|].
    intros l o rr Ic. destruct (ap_step a) as [|f g|cs|keys|path]; simpl in Ic; try contradiction.
    cbn [step_typed] in ST. destruct ST as (_ & _ & ST). destruct (ST l o rr Ic) as (tl & tr & Fl & Fr & _).
    split; eapply fop_type_not_own; eauto.
Qed.

(* outputs: only attributes that no operation of an action on the promise can set *)
Lemma C09_outputs_lemma cmp tbl ps : conforms_p_with cmp tbl ps = true ->
  forall pl v attr, In pl (pipelines ps) -> In (v, attr) (pl_out pl) ->
  ~ In attr (settable (base ps) (r_id (pl_promise pl))).
Proof.
  intros H pl v attr Ipl Io. apply conforms_p_parts in H. destruct H as (_ & H & _).
  apply pipelines_ok_inv with (pl := pl) in H; auto. apply pipeline_ok_run in H. destruct H as [fin R].
  destruct (run_trace _ _ _ _ _ _ _ R) as [M A].
  assert (Ii : In (IOut v attr) (flatten pl)).
  { unfold flatten. apply in_or_app. right. apply in_or_app. right. apply in_or_app. right.
    apply in_map_iff. exists (v, attr). auto. }
  rewrite <- M in Ii. apply in_map_iff in Ii. destruct Ii as ((st & i) & E & J). simpl in E. subst i.
  destruct (A _ _ J) as [st1 S]. cbn [step] in S.
  destruct (get_var st v []) as [e|]; [|discriminate]. destruct (find_promise _ _) as [pr|]; [|discriminate].
  destruct (resolve_path _ _ _) as [| |ft]; try discriminate.
  destruct (tdet_eqb ft (pv_td e) && negb (mem_nat attr (settable (base ps) (r_id (pl_promise pl))))) eqn:E; [|discriminate].
  apply andb_true_iff in E. destruct E as [_ E]. apply negb_true_iff in E.
  intro I. assert (X : mem_nat attr (settable (base ps) (r_id (pl_promise pl))) = true).
  { unfold mem_nat. apply existsb_exists. exists attr. split; [exact I | apply Nat.eqb_refl]. }
  congruence.
Qed.

(* no checkpoint compares <action>.object_promise.<attr> when a pipeline writes attr of the action's promise *)
Lemma C09_no_checkpoint_lemma cmp tbl ps : conforms_p_with cmp tbl ps = true ->
  forall cp l o r a n act pl v,
  In cp (checkpoints (base ps)) -> In (DCmp l o r) (cp_deps cp) -> l = OAct a [n] \/ r = OAct a [n] ->
  r_kind a = RAction -> find_action (base ps) (r_id a) = Some act ->
  In pl (pipelines ps) -> promise_of act = Some (r_id (pl_promise pl)) -> In (v, n) (pl_out pl) -> False.
Proof.
  intros H cp l o r a n act pl v Icp Id Eo Ka Fa Ipl Pa Io. apply conforms_p_parts in H. destruct H as (_ & _ & H).
  unfold no_compare_on_aggregated in H. rewrite forallb_forall in H. specialize (H cp Icp).
  rewrite forallb_forall in H. specialize (H _ Id). cbn in H. apply andb_true_iff in H. destruct H as [Hl Hr].
  assert (X : operand_not_aggregated ps (OAct a [n]) = true) by (destruct Eo as [<- | <-]; assumption).
  unfold operand_not_aggregated in X. rewrite (proj2 (rkind_eqb_eq _ _) Ka), Fa, Pa in X.
  apply negb_true_iff in X.
  assert (Y : mem_nat n (aggregated ps (r_id (pl_promise pl))) = true).
  { unfold mem_nat. apply existsb_exists. exists n. split; [|apply Nat.eqb_refl].
    unfold aggregated. apply in_flat_map. exists pl. split; [exact Ipl|]. rewrite Nat.eqb_refl.
    apply in_map_iff. exists (v, n). auto. }
  congruence.
Qed.

(* ================================================================== never rejected: the verdict is exactly its clauses *)
Lemma run_complete cmp s ctx own : forall l st,
  (forall l1 i l2 st0, l = l1 ++ i :: l2 -> run cmp s ctx own st l1 = Some st0 -> exists st1, step cmp s ctx own st0 i = Some st1) ->
  exists fin, run cmp s ctx own st l = Some fin.
Proof.
  induction l as [|i l IH]; intros st H; [exists st; reflexivity|].
  destruct (H [] i l st eq_refl eq_refl) as [st1 S]. cbn [run]. rewrite S.
  apply IH. intros l1 j l2 st0 E R. apply (H (i :: l1) j l2 st0); [rewrite E; reflexivity|]. cbn [run]. rewrite S. exact R.
Qed.

Lemma conforms_p_complete cmp tbl ps :
  conforms_with cmp tbl (base ps) = true ->
  NoDup (map pl_id (pipelines ps)) -> NoDup (map pl_name (pipelines ps)) -> NoDup (map (fun pl => r_id (pl_promise pl)) (pipelines ps)) ->
  no_compare_on_aggregated ps = true ->
  (forall pl, In pl (pipelines ps) ->
     ref_ok (base ps) RPromise (pl_promise pl) = true /\ pl_out pl <> [] /\
     nodup_by psrc_eqb (map trav_src (pl_trav pl)) = true /\ forallb trav_struct_ok (pl_trav pl) = true /\
     (* every instruction, in the store built by the instructions before it, passes its checks *)
     forall l1 i l2 st0, flatten pl = l1 ++ i :: l2 ->
       run cmp (base ps) (pipe_ctx (base ps) (r_id (pl_promise pl))) (r_id (pl_promise pl)) [] l1 = Some st0 ->
       exists st1, step cmp (base ps) (pipe_ctx (base ps) (r_id (pl_promise pl))) (r_id (pl_promise pl)) st0 i = Some st1) ->
  conforms_p_with cmp tbl ps = true.
Proof.
  intros B N1 N2 N3 C P. unfold conforms_p_with. rewrite B, C. simpl. rewrite andb_true_r.
  unfold pipelines_ok.
  assert (ND : forall l, NoDup l -> nodup_nat l = true).
  { induction l as [|x l IH]; intro H; [reflexivity|]. inversion H; subst. simpl. rewrite IH by assumption. rewrite andb_true_r.
    apply negb_true_iff. destruct (mem_nat x l) eqn:M; [|reflexivity]. exfalso.
    unfold mem_nat in M. apply existsb_exists in M. destruct M as (y & Iy & Ey). apply Nat.eqb_eq in Ey. subst. auto. }
  rewrite !ND by assumption. simpl. apply forallb_forall. intros pl Ipl.
  destruct (P pl Ipl) as (R & O & U & T & S). unfold pipeline_ok. rewrite R, U, T. simpl.
  destruct (pl_out pl) as [|x l]; [congruence|]. simpl.
  destruct (run_complete cmp (base ps) (pipe_ctx (base ps) (r_id (pl_promise pl))) (r_id (pl_promise pl)) (flatten pl) [] S) as [fin F].
  rewrite F. reflexivity.
Qed.

(* ================================================================== scope strings, joined form; the counterexample *)
Lemma startswith_dot_joined a b : a <> [] -> b <> [] -> Forall digits_ok a -> Forall digits_ok b ->
  (prefixb (join a ++ [dot]) (join b ++ [dot]) = true <-> exists r, b = a ++ r).
Proof. intros Na Nb. rewrite (join_dot a Na), (join_dot b Nb). apply startswith_dot_iff. Qed.

Lemma plain_startswith_wrong :
  prefixb (join [[0]; [1]]) (join [[0]; [1; 0]]) = true /\ ~ (exists r, [[0]; [1; 0]] = [[0]; [1]] ++ r).
Proof. split; [reflexivity | intros (r & H); discriminate]. Qed.

(* ================================================================== C08: a variable keeps its declared type *)
(* every non-loop entry of the store has the list-ness and item type of its declaration (only the object type of an
   object-typed variable is learnt from what it receives) and remembers whether it was initialised to null *)
Definition Typ (all : list instr) (st : store) : Prop :=
  forall e, In e st -> pv_loop e = false ->
  exists top vd t0, In (IDecl (pv_scope e) top vd) all /\ vd_name vd = pv_name e /\ tdet_of_ty (vd_type vd) = Some t0 /\
                    pt_of (pv_td e) = pt_of t0 /\ pv_null e = ishape_eqb (vd_init vd) SNull.

Lemma merge_obj_pt vt rt t' : merge_obj vt rt = Some t' -> pt_of t' = pt_of vt.
Proof.
  unfold merge_obj, pt_of. destruct vt as [l it [o|]]; cbn [td_list td_item td_obj].
  - destruct (td_obj rt); [|discriminate]. destruct (ref_eqb o r); [|discriminate]. intro H. injection H as <-. reflexivity.
  - destruct it; destruct (td_obj rt); intro H; injection H as <-; reflexivity.
Qed.

Lemma Typ_put all st e e' : Typ all st -> In e st ->
  pv_scope e' = pv_scope e -> pv_name e' = pv_name e -> pv_loop e' = pv_loop e -> pt_of (pv_td e') = pt_of (pv_td e) -> pv_null e' = pv_null e ->
  Typ all (put_var st e').
Proof.
  intros T Ie A B C D F x Ix L. unfold put_var in Ix. apply in_map_iff in Ix. destruct Ix as (y & <- & Iy).
  destruct (same_var y e'); [|apply T; auto].
  rewrite C in L. destruct (T e Ie L) as (top & vd & t0 & I1 & I2 & I3 & I4 & I5).
  exists top, vd, t0. rewrite A, B, D, F. auto.
Qed.

Lemma step_Typ cmp s ctx own all st i st' : Typ all st -> In i all -> step cmp s ctx own st i = Some st' -> Typ all st'.
Proof.
  intros T Ii H. destruct i as [sc top d | sc src as_ | sc a | v attr]; cbn [step] in H.
  - destruct (tdet_of_ty (vd_type d)) as [t|] eqn:Ty; [|discriminate].
    destruct (negb _ && _ && InitOk _ _ && _); [|discriminate]. injection H as <-.
    intros e Ie L. unfold declare in Ie. apply in_app_or in Ie. destruct Ie as [Ie | [<-|[]]]; [apply T; auto|].
    exists top, d, t. simpl. auto.
  - destruct (src_type s ctx own st sc src) as [| |t]; try discriminate.
    match type of H with context [get_var ?st1 as_ sc] => set (s1 := st1) in * end.
    destruct (td_list t && _ && _); [|discriminate]. injection H as <-.
    assert (T1 : Typ all s1).
    { subst s1. destruct src as [p path | v path | path]; auto.
      destruct (get_var st v sc) as [e|] eqn:G; auto. apply get_var_some in G. destruct G as (Ie & _).
      eapply Typ_put; eauto. }
    intros e Ie L. unfold declare in Ie. apply in_app_or in Ie. destruct Ie as [Ie | [<-|[]]]; [apply T1; auto | discriminate].
  - destruct (src_type s ctx own st sc (ap_src a)) as [| |r]; try discriminate.
    destruct (get_var st (ap_to a) sc) as [e|] eqn:G; [|discriminate].
    destruct (pv_loop e || _); [discriminate|].
    destruct (step_type cmp s ctx own st sc r (ap_step a)) as [rt|]; [|discriminate].
    destruct (Combine _ _ _ _); [|discriminate].
    destruct (merge_obj (pv_td e) rt) as [t'|] eqn:M; [|discriminate]. injection H as <-.
    apply get_var_some in G. destruct G as (Ie & _). eapply Typ_put; eauto. simpl. eapply merge_obj_pt; eauto.
  - destruct (get_var st v []) as [e|]; [|discriminate]. destruct (find_promise s own) as [pr|]; [|discriminate].
    destruct (resolve_path s (pr_type pr) [attr]) as [| |ft]; try discriminate.
    destruct (tdet_eqb ft (pv_td e) && _); [|discriminate]. injection H as <-. exact T.
Qed.

Lemma trace_Typ cmp s ctx own all : forall l st, Typ all st -> incl l all ->
  forall st0 i, In (st0, i) (trace cmp s ctx own st l) -> Typ all st0.
Proof.
  induction l as [|i l IH]; intros st T Inc st0 i0 H; [destruct H|].
  cbn [trace] in H. destruct H as [E | H]; [injection E as <- <-; exact T|].
  destruct (step cmp s ctx own st i) as [st'|] eqn:S; [|destruct H].
  eapply IH; [| |exact H].
  - eapply step_Typ; eauto. apply Inc. left. reflexivity.
  - intros x Ix. apply Inc. right. exact Ix.
Qed.

(* C08: the applications.  In the store the validator has built when it reaches the application: the source has a
   type r; the step turns it into rt as the step's rule says ([step_typed]: Aggregate for aggregations, Cmp for every
   filter clause, ...); the target is a variable declared (visible) with a type t0, and the method may combine rt into t0
   -- SET exactly when the variable was initialised to null and not assigned before; an object-typed variable that
   already holds objects of some object type only receives objects of that type *)
Lemma C08_application_lemma cmp tbl ps : conforms_p_with cmp tbl ps = true ->
  forall pl, In pl (pipelines ps) ->
  let s := base ps in let own := r_id (pl_promise pl) in let ctx := pipe_ctx s own in
  forall st sc a, In (st, IApp sc a) (trace cmp s ctx own [] (flatten pl)) ->
  exists r e rt top vd t0,
    src_type s ctx own st sc (ap_src a) = TOk r /\
    step_typed cmp s ctx own st sc r (ap_step a) rt /\
    get_var st (ap_to a) sc = Some e /\
    In (IDecl (pv_scope e) top vd) (flatten pl) /\ vd_name vd = ap_to a /\ tdet_of_ty (vd_type vd) = Some t0 /\
    Combine (pt_of t0) (ap_meth a) (pt_of rt) (left_null e) = true /\
    (left_null e = true <-> ap_meth a = M_SET) /\
    left_null e = negb (pv_assigned e) && ishape_eqb (vd_init vd) SNull /\
    (forall o, td_obj (pv_td e) = Some o -> td_obj rt = Some o).
Proof.
  intros H pl Ipl s own ctx st sc a J. destruct (C08_typed_lemma _ _ _ H pl Ipl) as [_ A]. fold s own ctx in A.
  destruct (A _ _ J) as (r & e & rt & S & G & ST & C & O).
  assert (T : Typ (flatten pl) st).
  { eapply (trace_Typ cmp s ctx own (flatten pl) (flatten pl) []); eauto; [intros x [] | apply incl_refl]. }
  assert (L : pv_loop e = false).
  { apply conforms_p_parts in H. destruct H as (_ & H & _). apply pipelines_ok_inv with (pl := pl) in H; auto.
    apply pipeline_ok_run in H. destruct H as [fin R]. destruct (run_trace _ _ _ _ _ _ _ R) as [_ B].
    destruct (B _ _ J) as [st1 X]. cbn [step] in X. fold s own ctx in X. rewrite S, G in X.
    destruct (pv_loop e); [discriminate | reflexivity]. }
  destruct (get_var_some _ _ _ _ G) as (Ie & N & _).
  destruct (T e Ie L) as (top & vd & t0 & I1 & I2 & I3 & I4 & I5).
  exists r, e, rt, top, vd, t0. rewrite <- I4. repeat split; auto; try congruence.
  - apply (Combine_set _ _ _ _ C).
  - apply (Combine_set _ _ _ _ C).
  - unfold left_null. rewrite I5. reflexivity.
Qed.

(* C08: initial values and outputs *)
Lemma C08_initial_lemma cmp tbl ps : conforms_p_with cmp tbl ps = true ->
  forall pl sc top d, In pl (pipelines ps) -> In (IDecl sc top d) (flatten pl) ->
  InitOk (vd_init d) (vd_type d) = true /\
  In (vd_type d) [STRING; NUMERIC; BOOLEAN; STRING_LIST; NUMERIC_LIST; BOOLEAN_LIST; OBJECT; OBJECT_LIST] /\
  (is_list_ty (vd_type d) = true -> vd_init d <> SNull).
Proof.
  intros H pl sc top d Ipl Ii. destruct (C08_typed_lemma _ _ _ H pl Ipl) as [M A].
  rewrite <- M in Ii. apply in_map_iff in Ii. destruct Ii as ((st & i) & E & J). simpl in E. subst i.
  destruct (A _ _ J) as [I1 I2]. split; [exact I1|]. split; [exact I2|].
  intros L N. rewrite N in I1. destruct (vd_type d); simpl in L, I1; discriminate.
Qed.

Lemma C08_output_lemma cmp tbl ps : conforms_p_with cmp tbl ps = true ->
  forall pl, In pl (pipelines ps) ->
  let s := base ps in let own := r_id (pl_promise pl) in let ctx := pipe_ctx s own in
  forall v attr, In (v, attr) (pl_out pl) ->
  exists st e pr, In (st, IOut v attr) (trace cmp s ctx own [] (flatten pl)) /\
                  get_var st v [] = Some e /\ find_promise s own = Some pr /\
                  resolve_path s (pr_type pr) [attr] = TOk (pv_td e).
Proof.
  intros H pl Ipl s own ctx v attr Io. destruct (C08_typed_lemma _ _ _ H pl Ipl) as [M A]. fold s own ctx in M, A.
  assert (Ii : In (IOut v attr) (flatten pl)).
  { unfold flatten. apply in_or_app. right. apply in_or_app. right. apply in_or_app. right.
    apply in_map_iff. exists (v, attr). auto. }
  rewrite <- M in Ii. apply in_map_iff in Ii. destruct Ii as ((st & i) & E & J). simpl in E. subst i.
  destruct (A _ _ J) as (e & pr & G & P & R). exists st, e, pr. auto.
Qed.

Lemma C08_traversal_lemma cmp tbl ps : conforms_p_with cmp tbl ps = true ->
  forall pl, In pl (pipelines ps) ->
  let s := base ps in let own := r_id (pl_promise pl) in let ctx := pipe_ctx s own in
  forall st sc src as_, In (st, ITrav sc src as_) (trace cmp s ctx own [] (flatten pl)) ->
  exists t, src_type s ctx own st sc src = TOk t /\ td_list t = true.
Proof.
  intros H pl Ipl s own ctx st sc src as_ J. destruct (C08_typed_lemma _ _ _ H pl Ipl) as [_ A]. exact (A _ _ J).
Qed.

(* ================================================================== the rules, declaratively, and "never rejected" *)
(* shape of a clause tree: a nested query has at least two clauses; in every comparison one operand is the filter
   variable written as a reference object *)
Fixpoint clause_shape (c : fclause) : bool :=
  match c with
  | FCmp l _ r => is_item_ref l || is_item_ref r
  | FNest cs => Nat.leb 2 (length cs) && forallb clause_shape cs
  end.

Lemma clause_ok_iff chk c :
  clause_ok (fun l o r => (is_item_ref l || is_item_ref r) && chk l o r) c = true <->
  clause_shape c = true /\ forall l o r, In (l, o, r) (clause_cmps c) -> chk l o r = true.
Proof.
  induction c as [l o r | cs IH] using fclause_ind2.
  - simpl. rewrite andb_true_iff. split.
    + intros [A B]. split; [exact A|]. intros l' o' r' [E|[]]. injection E as <- <- <-. exact B.
    + intros [A B]. split; [exact A | apply B; left; reflexivity].
  - cbn [clause_ok clause_shape clause_cmps]. rewrite !andb_true_iff, !forallb_forall. rewrite Forall_forall in IH. split.
    + intros [L H]. split; [split; [exact L|]|].
      * intros c Ic. apply (IH c Ic). apply H. exact Ic.
      * intros l o r I. apply in_flat_map in I. destruct I as (c & Ic & I). apply (proj1 (IH c Ic) (H c Ic)). exact I.
    + intros [[L S] H]. split; [exact L|]. intros c Ic. apply (IH c Ic). split; [apply S; exact Ic|].
      intros l o r I. apply H. apply in_flat_map. exists c. auto.
Qed.

Lemma clauses_ok_iff chk cs :
  forallb (clause_ok (fun l o r => (is_item_ref l || is_item_ref r) && chk l o r)) cs = true <->
  forallb clause_shape cs = true /\ forall l o r, In (l, o, r) (flat_map clause_cmps cs) -> chk l o r = true.
Proof.
  rewrite !forallb_forall. split.
  - intro H. split.
    + intros c Ic. apply (clause_ok_iff chk c). apply H. exact Ic.
    + intros l o r I. apply in_flat_map in I. destruct I as (c & Ic & I). apply (proj1 (clause_ok_iff chk c) (H c Ic)). exact I.
  - intros [S H] c Ic. apply clause_ok_iff. split; [apply S; exact Ic|]. intros l o r I. apply H. apply in_flat_map. exists c. auto.
Qed.

(* the rule of each step kind: the type rt of the source (of type r) after its step *)
Definition step_rule (cmp : ty -> cop -> ty -> bool) (s : schema) (ctx : option nat) (own : nat) (st : store) (sc : list nat)
                     (r : tdet) (stp : pstep) (rt : tdet) : Prop :=
  match stp with
  | StNone => rt = r
  | StAgg AItem a =>
      exists l it, Aggregate (pt_of r) a = Some (PT l it) /\ rt = TD l it (if is_first_last a then td_obj r else None)
  | StAgg (AField path) a =>
      exists tr f l it, td_item r = IObject /\ td_obj r = Some tr /\ path_from s (td_list r) tr path = TOk f /\
                        Aggregate (pt_of f) a = Some (PT l it) /\ rt = TD l it (if is_first_last a then td_obj f else None)
  | StFilter cs =>
      rt = r /\ td_list r = true /\ cs <> [] /\ forallb clause_shape cs = true /\
      forall l o rr, In (l, o, rr) (flat_map clause_cmps cs) ->
        exists tl tr, fop_type s ctx own st sc r l = Some tl /\ fop_type s ctx own st sc r rr = Some tr /\ cmp tl o tr = true
  | StSort _ => rt = r /\ td_list r = true
  | StSelect path => exists tr, td_obj r = Some tr /\ path_from s (td_list r) tr path = TOk rt
  end.

Lemma step_type_iff cmp s ctx own st sc r stp rt :
  step_type cmp s ctx own st sc r stp = Some rt <-> step_rule cmp s ctx own st sc r stp rt.
Proof.
  destruct stp as [|[|path] a|cs|keys|path]; cbn [step_type step_rule].
  - split; [intro H; injection H as <-; reflexivity | intros ->; reflexivity].
  - destruct (Aggregate (pt_of r) a) as [[l it]|]; split.
    + intro H. injection H as <-. exists l, it. auto.
    + intros (l' & it' & E & ->). injection E as <- <-. reflexivity.
    + discriminate.
    + intros (l' & it' & E & _). discriminate.
  - split.
    + destruct (td_item r) eqn:I; try discriminate. destruct (td_obj r) as [tr|] eqn:O; [|discriminate].
      destruct (path_from s (td_list r) tr path) as [| |f] eqn:F; try discriminate.
      destruct (Aggregate (pt_of f) a) as [[l it]|] eqn:A; [|discriminate]. intro H. injection H as <-.
      exists tr, f, l, it. auto.
    + intros (tr & f & l & it & I & O & F & A & ->). rewrite I, O, F, A. reflexivity.
  - unfold fcmp_ok. split.
    + destruct (td_list r && Nat.leb 1 (length cs) && forallb _ cs) eqn:E; [|discriminate]. intro H. injection H as <-.
      apply andb_true_iff in E. destruct E as [E F]. apply andb_true_iff in E. destruct E as [L N].
      apply (clauses_ok_iff (fun l o rr => match fop_type s ctx own st sc r l, fop_type s ctx own st sc r rr with
                                          | Some tl, Some tr => cmp tl o tr | _, _ => false end)) in F.
      destruct F as [Sh F]. repeat split; auto.
      * destruct cs; [discriminate | discriminate].
      * intros l o rr I. specialize (F l o rr I).
        destruct (fop_type s ctx own st sc r l) as [tl|]; [|discriminate].
        destruct (fop_type s ctx own st sc r rr) as [tr|]; [|discriminate]. exists tl, tr. auto.
    + intros (-> & L & N & Sh & F). rewrite L.
      assert (N' : Nat.leb 1 (length cs) = true) by (destruct cs; [congruence | reflexivity]). rewrite N'. simpl.
      assert (X : forallb (clause_ok (fun l o rr => (is_item_ref l || is_item_ref rr) &&
                    match fop_type s ctx own st sc r l, fop_type s ctx own st sc r rr with
                    | Some tl, Some tr => cmp tl o tr | _, _ => false end)) cs = true).
      { apply clauses_ok_iff. split; [exact Sh|]. intros l o rr I. destruct (F l o rr I) as (tl & tr & -> & -> & C). exact C. }
      rewrite X. reflexivity.
  - destruct (td_list r); split; try discriminate.
    + intro H. injection H as <-. auto.
    + intros [-> _]. reflexivity.
    + intros [_ H]. discriminate.
  - destruct (td_obj r) as [tr|]; split.
    + destruct (path_from s (td_list r) tr path) as [| |t] eqn:F; try discriminate. intro H. injection H as <-. exists tr. auto.
    + intros (tr' & E & F). injection E as <-. rewrite F. reflexivity.
    + discriminate.
    + intros (tr' & E & _). discriminate.
Qed.

(* the store after a traversal has been entered: the traversed pipeline variable (if any) is marked *)
Definition mark_traversed (st : store) (sc : list nat) (src : psrc) : store :=
  match src with
  | PVar v _ => match get_var st v sc with
                | Some e => put_var st (Build_pvar (pv_scope e) (pv_name e) (pv_td e) (pv_null e) (pv_assigned e) (pv_loop e) (sc :: pv_trav e))
                | None => st end
  | _ => st
  end.

(* the rules of C08 and C09 for one instruction, as a relation between the store before and after *)
Definition instr_rule (cmp : ty -> cop -> ty -> bool) (s : schema) (ctx : option nat) (own : nat) (st : store) (i : instr) (st' : store) : Prop :=
  match i with
  | IDecl sc top d =>
      exists t, tdet_of_ty (vd_type d) = Some t /\
                get_var st (vd_name d) sc = None /\ thread_var s ctx (vd_name d) = None /\
                InitOk (vd_init d) (vd_type d) = true /\ scalar_shape (vd_init d) = true /\
                st' = declare st sc (vd_name d) t (ishape_eqb (vd_init d) SNull) false false
  | ITrav sc src as_ =>
      exists t, src_type s ctx own st sc src = TOk t /\ td_list t = true /\
                get_var (mark_traversed st sc src) as_ sc = None /\ thread_var s ctx as_ = None /\
                st' = declare (mark_traversed st sc src) sc as_ (TD false (td_item t) (td_obj t)) false true true
  | IApp sc a =>
      exists r e rt t',
        src_type s ctx own st sc (ap_src a) = TOk r /\
        get_var st (ap_to a) sc = Some e /\ pv_loop e = false /\
        (forall tsc, In tsc (pv_trav e) -> visible tsc sc = false) /\
        step_rule cmp s ctx own st sc r (ap_step a) rt /\
        Combine (pt_of (pv_td e)) (ap_meth a) (pt_of rt) (left_null e) = true /\
        merge_obj (pv_td e) rt = Some t' /\
        st' = put_var st (Build_pvar (pv_scope e) (pv_name e) t' (pv_null e) true (pv_loop e) (pv_trav e))
  | IOut v attr =>
      exists e pr, get_var st v [] = Some e /\ find_promise s own = Some pr /\
                   resolve_path s (pr_type pr) [attr] = TOk (pv_td e) /\ ~ In attr (settable s own) /\ st' = st
  end.

Lemma opt_none_iff {A} (o : option A) : negb (isSome o) = true <-> o = None.
Proof. destruct o; simpl; split; congruence. Qed.

Lemma tdet_eqb_refl t : tdet_eqb t t = true.
Proof.
  destruct t as [l it o]. unfold tdet_eqb. simpl. rewrite eqb_reflx, (proj2 (item_eqb_eq it it) eq_refl). simpl.
  destruct o; simpl; [apply ref_eqb_eq; reflexivity | reflexivity].
Qed.

Lemma mem_nat_iff x l : mem_nat x l = true <-> In x l.
Proof.
  unfold mem_nat. rewrite existsb_exists. split.
  - intros (y & I & E). apply Nat.eqb_eq in E. subst. exact I.
  - intro I. exists x. split; [exact I | apply Nat.eqb_refl].
Qed.

Lemma step_iff cmp s ctx own st i st' : step cmp s ctx own st i = Some st' <-> instr_rule cmp s ctx own st i st'.
Proof.
  destruct i as [sc top d | sc src as_ | sc a | v attr]; cbn [step instr_rule].
  - destruct (tdet_of_ty (vd_type d)) as [t|]; [|split; [discriminate | intros (t & E & _); discriminate]].
    destruct (negb (isSome (get_var st (vd_name d) sc)) && negb (isSome (thread_var s ctx (vd_name d))) && InitOk (vd_init d) (vd_type d) && scalar_shape (vd_init d)) eqn:E.
    + apply andb_true_iff in E. destruct E as [E Sh]. apply andb_true_iff in E. destruct E as [E In_]. apply andb_true_iff in E. destruct E as [G T].
      apply opt_none_iff in G. apply opt_none_iff in T. split.
      * intro H. injection H as <-. exists t. auto 10.
      * intros (t' & Et & _ & _ & _ & _ & ->). injection Et as <-. reflexivity.
    + split; [discriminate|]. intros (t' & _ & G & T & In_ & Sh & _). rewrite G, T, In_, Sh in E. discriminate.
  - fold (mark_traversed st sc src). destruct (src_type s ctx own st sc src) as [| |t]; try (split; [discriminate | intros (t & E & _); discriminate]).
    destruct (td_list t && negb (isSome (get_var (mark_traversed st sc src) as_ sc)) && negb (isSome (thread_var s ctx as_))) eqn:E.
    + apply andb_true_iff in E. destruct E as [E T]. apply andb_true_iff in E. destruct E as [L G].
      apply opt_none_iff in G. apply opt_none_iff in T. split.
      * intro H. injection H as <-. exists t. auto 10.
      * intros (t' & Et & _ & _ & _ & ->). injection Et as <-. reflexivity.
    + split; [discriminate|]. intros (t' & Et & L & G & T & _). injection Et as <-. rewrite L, G, T in E. discriminate.
  - destruct (src_type s ctx own st sc (ap_src a)) as [| |r]; try (split; [discriminate | intros (r & e & rt & t' & E & _); discriminate]).
    destruct (get_var st (ap_to a) sc) as [e|]; [|split; [discriminate | intros (r' & e & rt & t' & _ & E & _); discriminate]].
    destruct (pv_loop e || existsb (fun tsc => visible tsc sc) (pv_trav e)) eqn:B.
    + split; [discriminate|]. intros (r' & e' & rt & t' & _ & Ee & L & Tr & _). injection Ee as <-.
      rewrite L in B. simpl in B. apply existsb_exists in B. destruct B as (tsc & I & V). rewrite (Tr tsc I) in V. discriminate.
    + apply orb_false_iff in B. destruct B as [L Tr].
      assert (Tr' : forall tsc, In tsc (pv_trav e) -> visible tsc sc = false).
      { intros tsc I. destruct (visible tsc sc) eqn:V; [|reflexivity].
        assert (X : existsb (fun tsc => visible tsc sc) (pv_trav e) = true) by (apply existsb_exists; exists tsc; auto). congruence. }
      destruct (step_type cmp s ctx own st sc r (ap_step a)) as [rt|] eqn:ST.
      * apply step_type_iff in ST.
        destruct (Combine (pt_of (pv_td e)) (ap_meth a) (pt_of rt) (left_null e)) eqn:C.
        -- destruct (merge_obj (pv_td e) rt) as [t'|] eqn:M.
           ++ split.
              ** intro H. injection H as <-. exists r, e, rt, t'. auto 10.
              ** intros (r' & e' & rt' & t'' & Er & Ee & _ & _ & ST' & _ & M' & ->). injection Er as <-. injection Ee as <-.
                 apply step_type_iff in ST. apply step_type_iff in ST'. rewrite ST in ST'. injection ST' as <-.
                 rewrite M in M'. injection M' as <-. reflexivity.
           ++ split; [discriminate|]. intros (r' & e' & rt' & t'' & Er & Ee & _ & _ & ST' & _ & M' & _). injection Er as <-. injection Ee as <-.
              apply step_type_iff in ST. apply step_type_iff in ST'. rewrite ST in ST'. injection ST' as <-. congruence.
        -- split; [discriminate|]. intros (r' & e' & rt' & t'' & Er & Ee & _ & _ & ST' & C' & _). injection Er as <-. injection Ee as <-.
           apply step_type_iff in ST. apply step_type_iff in ST'. rewrite ST in ST'. injection ST' as <-. congruence.
      * split; [discriminate|]. intros (r' & e' & rt' & t'' & Er & Ee & _ & _ & ST' & _). injection Er as <-. injection Ee as <-.
        apply step_type_iff in ST'. congruence.
  - destruct (get_var st v []) as [e|]; [|split; [discriminate | intros (e & pr & E & _); discriminate]].
    destruct (find_promise s own) as [pr|]; [|split; [discriminate | intros (e' & pr & _ & E & _); discriminate]].
    destruct (resolve_path s (pr_type pr) [attr]) as [| |ft] eqn:R;
      try (split; [discriminate | intros (e' & pr' & Ee & Ep & E & _); injection Ep as <-; congruence]).
    destruct (tdet_eqb ft (pv_td e) && negb (mem_nat attr (settable s own))) eqn:E.
    + apply andb_true_iff in E. destruct E as [Eq Ns]. apply tdet_eqb_eq in Eq. apply negb_true_iff in Ns. split.
      * intro H. injection H as <-. exists e, pr. subst ft. repeat split; auto.
        intro I. apply mem_nat_iff in I. congruence.
      * intros (e' & pr' & _ & _ & _ & _ & ->). reflexivity.
    + split; [discriminate|]. intros (e' & pr' & Ee & Ep & Er & Ns & _). injection Ee as <-. injection Ep as <-.
      rewrite R in Er. injection Er as ->. rewrite tdet_eqb_refl in E. simpl in E. apply negb_false_iff in E. apply mem_nat_iff in E. contradiction.
Qed.

(* a run of the rules over the flattened pipeline *)
Inductive Run (cmp : ty -> cop -> ty -> bool) (s : schema) (ctx : option nat) (own : nat) : store -> list instr -> store -> Prop :=
| Run_nil : forall st, Run cmp s ctx own st [] st
| Run_cons : forall st i st1 l st2, instr_rule cmp s ctx own st i st1 -> Run cmp s ctx own st1 l st2 -> Run cmp s ctx own st (i :: l) st2.

Lemma run_iff cmp s ctx own : forall l st fin, run cmp s ctx own st l = Some fin <-> Run cmp s ctx own st l fin.
Proof.
  induction l as [|i l IH]; intros st fin; cbn [run].
  - split; [intro H; injection H as <-; constructor | intro H; inversion H; reflexivity].
  - split.
    + destruct (step cmp s ctx own st i) as [st1|] eqn:S; [|discriminate]. intro H. apply step_iff in S. apply IH in H. econstructor; eauto.
    + intro H. inversion H; subst. match goal with X : instr_rule _ _ _ _ _ _ _ |- _ => apply step_iff in X; rewrite X end. apply IH. assumption.
Qed.

(* the verdict is exactly: the base schema conforms, pipeline ids / names / promises are pairwise different, no checkpoint
   compares a written attribute, and every pipeline names a promise, has an output, has no two sibling traversals over one
   source, and its instructions can be run by the rules *)
Lemma nodup_nat_iff l : nodup_nat l = true <-> NoDup l.
Proof.
  induction l as [|x l IH]; simpl; [split; [constructor | reflexivity]|].
  rewrite andb_true_iff, negb_true_iff, IH. split.
  - intros [M N]. constructor; [|exact N]. intro I. apply mem_nat_iff in I. congruence.
  - intro H. inversion H; subst. split; [|assumption]. destruct (mem_nat x l) eqn:M; [apply mem_nat_iff in M; contradiction | reflexivity].
Qed.

Lemma conforms_p_iff cmp tbl ps :
  conforms_p_with cmp tbl ps = true <->
  conforms_with cmp tbl (base ps) = true /\
  NoDup (map pl_id (pipelines ps)) /\ NoDup (map pl_name (pipelines ps)) /\ NoDup (map (fun pl => r_id (pl_promise pl)) (pipelines ps)) /\
  no_compare_on_aggregated ps = true /\
  forall pl, In pl (pipelines ps) ->
    ref_ok (base ps) RPromise (pl_promise pl) = true /\ pl_out pl <> [] /\
    nodup_by psrc_eqb (map trav_src (pl_trav pl)) = true /\ forallb trav_struct_ok (pl_trav pl) = true /\
    exists fin, Run cmp (base ps) (pipe_ctx (base ps) (r_id (pl_promise pl))) (r_id (pl_promise pl)) [] (flatten pl) fin.
Proof.
  unfold conforms_p_with, pipelines_ok. rewrite !andb_true_iff, !nodup_nat_iff, forallb_forall. split.
  - intros [[B [[[N1 N2] N3] P]] C]. repeat split; auto; specialize (P pl H); unfold pipeline_ok in P;
      rewrite !andb_true_iff in P; destruct P as [[[[R O] U] T] Rn]; auto.
    + destruct (pl_out pl); [discriminate | discriminate].
    + destruct (run _ _ _ _ _ _) as [fin|] eqn:E; [|discriminate]. exists fin. apply run_iff. exact E.
  - intros (B & N1 & N2 & N3 & C & P). repeat split; auto. intros pl Ipl. destruct (P pl Ipl) as (R & O & U & T & fin & Rn).
    unfold pipeline_ok. rewrite R, U, T. apply run_iff in Rn. rewrite Rn. destruct (pl_out pl); [congruence | reflexivity].
Qed.

Lemma conforms_p_rules_accept cmp tbl ps :
  conforms_with cmp tbl (base ps) = true ->
  NoDup (map pl_id (pipelines ps)) -> NoDup (map pl_name (pipelines ps)) -> NoDup (map (fun pl => r_id (pl_promise pl)) (pipelines ps)) ->
  no_compare_on_aggregated ps = true ->
  (forall pl, In pl (pipelines ps) ->
     ref_ok (base ps) RPromise (pl_promise pl) = true /\ pl_out pl <> [] /\
     nodup_by psrc_eqb (map trav_src (pl_trav pl)) = true /\ forallb trav_struct_ok (pl_trav pl) = true /\
     exists fin, Run cmp (base ps) (pipe_ctx (base ps) (r_id (pl_promise pl))) (r_id (pl_promise pl)) [] (flatten pl) fin) ->
  conforms_p_with cmp tbl ps = true.
Proof. intros. apply conforms_p_iff. auto 10. Qed.

(* ================================================================== decimal notation: scopes as the code writes them *)
Fixpoint digits_fuel (fuel n : nat) : list nat :=
  match fuel with
  | 0 => []
  | S f => if Nat.ltb n 10 then [n] else digits_fuel f (n / 10) ++ [n mod 10]
  end.
Definition digits (n : nat) : list nat := digits_fuel (S n) n.
Definition value (l : list nat) : nat := fold_left (fun acc d => 10 * acc + d) l 0.

Lemma value_snoc l d : value (l ++ [d]) = 10 * value l + d.
Proof. unfold value. rewrite fold_left_app. reflexivity. Qed.

Lemma digits_fuel_spec : forall fuel n, n < fuel ->
  value (digits_fuel fuel n) = n /\ digits_ok (digits_fuel fuel n) /\ digits_fuel fuel n <> [].
Proof.
  induction fuel as [|f IH]; intros n L; [lia|]. cbn [digits_fuel].
  destruct (Nat.ltb n 10) eqn:E.
  - apply Nat.ltb_lt in E. split; [unfold value; simpl; lia|]. split; [constructor; [exact E | constructor] | discriminate].
  - apply Nat.ltb_ge in E.
    assert (D : n / 10 < f).
    { assert (n / 10 < n) by (apply Nat.div_lt; lia). lia. }
    destruct (IH _ D) as (V & O & N). split; [|split].
    + rewrite value_snoc, V. symmetry. rewrite Nat.add_comm. rewrite (Nat.div_mod n 10) at 1 by lia. lia.
    + unfold digits_ok in *. apply Forall_app. split; [exact O|]. constructor; [apply Nat.mod_upper_bound; lia | constructor].
    + destruct (digits_fuel f (n / 10)); discriminate.
Qed.

Lemma digits_spec n : value (digits n) = n /\ digits_ok (digits n) /\ digits n <> [].
Proof. apply digits_fuel_spec. lia. Qed.

Lemma digits_inj n m : digits n = digits m -> n = m.
Proof. intro H. rewrite <- (proj1 (digits_spec n)), <- (proj1 (digits_spec m)), H. reflexivity. Qed.

Lemma map_digits_prefix a : forall b, (exists r, map digits b = map digits a ++ r) <-> (exists r, b = a ++ r).
Proof.
  induction a as [|x a IH]; intros b.
  - split; intros _; [exists b | exists (map digits b)]; reflexivity.
  - destruct b as [|y b].
    + split; intros (r & H); discriminate.
    + split.
      * intros (r & H). simpl in H. injection H as Hd H. apply digits_inj in Hd. subst y.
        destruct (proj1 (IH b) (ex_intro _ r H)) as (r' & ->). exists r'. reflexivity.
      * intros (r & H). injection H as -> ->. exists (map digits r). rewrite <- map_app. reflexivity.
Qed.

(* the code's test on the decimal, dot-joined spelling of two scopes decides visibility *)
Lemma startswith_decimal a b : prefixb (enc (map digits a)) (enc (map digits b)) = true <-> visible a b = true.
Proof.
  unfold visible. rewrite (prefixb_iff a b), (startswith_dot_iff (map digits a) (map digits b)).
  - apply map_digits_prefix.
  - apply Forall_forall. intros l I. apply in_map_iff in I. destruct I as (n & <- & _). apply digits_spec.
  - apply Forall_forall. intros l I. apply in_map_iff in I. destruct I as (n & <- & _). apply digits_spec.
Qed.

(* ================================================================== what a thread variable of the context is *)
(* [thread_var s ctx v = Some t]: the pipeline's promise is fulfilled inside thread group g, some thread group g' that is
   g or encloses it (has_access) declares the variable v, and t is the type of that variable (var_type) *)
Lemma thread_var_spec s ctx v t : thread_var s ctx v = Some t ->
  exists g g' tg, ctx = Some g /\ has_access s g g' = true /\ find_group s g' = Some tg /\ g_var tg = v /\
                  var_type s (fuel_of s) g' = TOk t.
Proof.
  unfold thread_var. destruct ctx as [g|]; [|discriminate].
  destruct (scope s g) as [l|] eqn:Sc; [|discriminate].
  destruct (find _ l) as [g'|] eqn:F; [|discriminate].
  destruct (var_type s (fuel_of s) g') as [| |t'] eqn:V; try discriminate. intro H. injection H as <-.
  apply find_some in F. destruct F as [I F].
  destruct (find_group s g') as [tg|] eqn:G; [|discriminate]. apply Nat.eqb_eq in F.
  exists g, g', tg. repeat split; auto.
  unfold has_access. rewrite Sc. apply mem_nat_iff. exact I.
Qed.
