(* Order independence of the verdict (property C14).
   Part A: generic list facts.
   Part B: the cycle search answers "is there a dependency cycle", a question about the edge relation only
           (soundness and completeness of [explore] / [explore_all]; the fuel never runs out).
   Part C: [dep_eqb] is an equivalence and [deps_same] is multiset equality modulo it (hence symmetric and
           invariant under reordering either argument).
   Part D: reordering the six top-level collections ([schema_perm]).  Under [unique_ids] every first-match
           lookup is order independent; the elected fulfiller [hd_error (creators ..)] is order independent
           for every declared promise once [promise_ok] holds for all of them; so acceptance is preserved,
           and by symmetry of [schema_perm] the verdict is the same (also for rejected schemas).
   Parts E, F, G (modules Deps, Attrs, Incl): reordering a checkpoint's dependencies / an object type's
           attributes / an action's include-exclude list and milestones, top-level order kept; exact
           reasoning, one lemma per function of Model/Rules.v.
   Part H: all of them jointly ([schema_reordered]), by composing D-G. *)
From Coq Require Import List Bool Arith Lia Permutation Relations.
From OIS Require Import Base.Types Base.PipeTypes Spec.Compare Model.Schema Model.Rules.
Import ListNotations.

(* ================================================================== Part A: generic facts *)
Lemma bool_eq_iff (a b : bool) : (a = true <-> b = true) -> a = b.
Proof.
  destruct a, b; intros [H1 H2]; try reflexivity.
  - symmetry; apply H1; reflexivity.
  - apply H2; reflexivity.
Qed.

Lemma andb_congr (a a' b b' : bool) : a = a' -> (a = true -> b = b') -> a && b = a' && b'.
Proof. intros <- H. destruct a; [simpl; apply H; reflexivity | reflexivity]. Qed.

Lemma mem_nat_In x l : mem_nat x l = true <-> In x l.
Proof.
  unfold mem_nat. rewrite existsb_exists. split.
  - intros [y [Hy E]]. apply Nat.eqb_eq in E. subst. exact Hy.
  - intros H. exists x. split; [exact H | apply Nat.eqb_refl].
Qed.

Lemma mem_nat_ext x l l' : (forall y, In y l <-> In y l') -> mem_nat x l = mem_nat x l'.
Proof. intros H. apply bool_eq_iff. rewrite !mem_nat_In. apply H. Qed.

Lemma mem_nat_perm x l l' : Permutation l l' -> mem_nat x l = mem_nat x l'.
Proof.
  intros H. apply mem_nat_ext. intros y. split; apply Permutation_in; [exact H | apply Permutation_sym; exact H].
Qed.

Lemma forallb_ext_in {A} (f g : A -> bool) l : (forall x, In x l -> f x = g x) -> forallb f l = forallb g l.
Proof.
  induction l as [|x l IH]; intros H; simpl; [reflexivity|].
  rewrite (H x (or_introl eq_refl)), IH; [reflexivity|]. intros y Hy. apply H. right. exact Hy.
Qed.

Lemma existsb_ext_in {A} (f g : A -> bool) l : (forall x, In x l -> f x = g x) -> existsb f l = existsb g l.
Proof.
  induction l as [|x l IH]; intros H; simpl; [reflexivity|].
  rewrite (H x (or_introl eq_refl)), IH; [reflexivity|]. intros y Hy. apply H. right. exact Hy.
Qed.

Lemma forallb_perm {A} (f : A -> bool) l l' : Permutation l l' -> forallb f l = forallb f l'.
Proof.
  intros H. apply bool_eq_iff. rewrite !forallb_forall. split; intros G x Hx; apply G.
  - eapply Permutation_in; [apply Permutation_sym; exact H | exact Hx].
  - eapply Permutation_in; [exact H | exact Hx].
Qed.

Lemma existsb_incl {A} (f : A -> bool) l l' : (forall x, In x l -> In x l') -> existsb f l = true -> existsb f l' = true.
Proof. intros H. rewrite !existsb_exists. intros [x [Hx E]]. exists x. split; [apply H; exact Hx | exact E]. Qed.

Lemma existsb_same {A} (f : A -> bool) l l' : (forall x, In x l <-> In x l') -> existsb f l = existsb f l'.
Proof. intros H. apply bool_eq_iff. split; apply existsb_incl; intros x; apply H. Qed.

Lemma forallb_same {A} (f : A -> bool) l l' : (forall x, In x l <-> In x l') -> forallb f l = forallb f l'.
Proof. intros H. apply bool_eq_iff. rewrite !forallb_forall. split; intros G x Hx; apply G; apply H; exact Hx. Qed.

Lemma existsb_perm {A} (f : A -> bool) l l' : Permutation l l' -> existsb f l = existsb f l'.
Proof.
  intros H. apply existsb_same. intros x. split; apply Permutation_in; [exact H | apply Permutation_sym; exact H].
Qed.

Lemma Permutation_filter {A} (f : A -> bool) l l' : Permutation l l' -> Permutation (filter f l) (filter f l').
Proof.
  induction 1 as [|x l l' H IH|x y l|l l' l'' H1 IH1 H2 IH2]; simpl.
  - constructor.
  - destruct (f x); [constructor; exact IH | exact IH].
  - destruct (f x), (f y); try apply Permutation_refl. apply perm_swap.
  - eapply Permutation_trans; eassumption.
Qed.

Lemma nodup_nat_NoDup l : nodup_nat l = true <-> NoDup l.
Proof.
  induction l as [|x l IH]; simpl.
  - split; [constructor | reflexivity].
  - rewrite andb_true_iff, negb_true_iff, IH. split.
    + intros [H1 H2]. constructor; [|exact H2]. intros Hin. apply mem_nat_In in Hin. congruence.
    + intros H. inversion H as [|? ? Hn Hd]; subst. split; [|exact Hd].
      destruct (mem_nat x l) eqn:E; [|reflexivity]. apply mem_nat_In in E. contradiction.
Qed.

Lemma nodup_nat_perm l l' : Permutation l l' -> nodup_nat l = nodup_nat l'.
Proof.
  intros H. apply bool_eq_iff. rewrite !nodup_nat_NoDup. split; apply Permutation_NoDup; [exact H | apply Permutation_sym; exact H].
Qed.

(* first-match lookup by a duplicate-free key does not depend on the order *)
Lemma find_perm {A} (key : A -> nat) (i : nat) l l' :
  Permutation l l' -> NoDup (map key l) ->
  find (fun x => Nat.eqb (key x) i) l' = find (fun x => Nat.eqb (key x) i) l.
Proof.
  induction 1 as [|x l l' H IH|x y l|l l' l'' H1 IH1 H2 IH2]; intros ND; simpl.
  - reflexivity.
  - inversion ND; subst. destruct (Nat.eqb (key x) i); [reflexivity | apply IH; assumption].
  - destruct (Nat.eqb (key x) i) eqn:Ex, (Nat.eqb (key y) i) eqn:Ey; try reflexivity.
    apply Nat.eqb_eq in Ex, Ey. simpl in ND. inversion ND as [|? ? Hn _]; subst. exfalso. apply Hn. left. congruence.
  - rewrite IH2, IH1; [reflexivity | exact ND |].
    eapply Permutation_NoDup; [apply Permutation_map; exact H1 | exact ND].
Qed.

Lemma nodup_by_perm {A} (eqb : A -> A -> bool) l l' :
  (forall x y, eqb x y = eqb y x) -> Permutation l l' -> nodup_by eqb l = nodup_by eqb l'.
Proof.
  intros Hs. induction 1 as [|x l l' H IH|x y l|l l' l'' H1 IH1 H2 IH2]; simpl.
  - reflexivity.
  - rewrite IH, (existsb_perm _ _ _ H). reflexivity.
  - rewrite (Hs x y). destruct (eqb y x), (existsb (eqb y) l), (existsb (eqb x) l), (nodup_by eqb l); reflexivity.
  - congruence.
Qed.

Lemma find_In_key {A} (key : A -> nat) i l x : find (fun x => Nat.eqb (key x) i) l = Some x -> In x l /\ key x = i.
Proof. intros H. apply find_some in H. destruct H as [H E]. apply Nat.eqb_eq in E. auto. Qed.

Lemma find_isSome_key {A} (key : A -> nat) l x : In x l -> find (fun y => Nat.eqb (key y) (key x)) l <> None.
Proof. intros H E. apply (find_none _ _ E) in H. rewrite Nat.eqb_refl in H. discriminate. Qed.

(* ================================================================== Part B: the cycle search *)
Section Cycle.
Variable s : schema.
Definition Edge (x y : nat) : Prop := In y (succ s x).

Definition loopf (f : nat) (a : nat) (path : list nat) :=
  fix loop (l : list nat) (vis : list nat) : bool * list nat :=
    match l with
    | [] => (false, vis)
    | b :: l' => match explore s f b vis (a :: path) with
                 | (true, v) => (true, v)
                 | (false, v) => loop l' v
                 end
    end.

Lemma explore_S f a visited path :
  explore s (S f) a visited path =
  if mem_nat a path then (true, visited)
  else if mem_nat a visited then (false, visited)
  else loopf f a path (succ s a) (a :: visited).
Proof. reflexivity. Qed.

Lemma loopf_cons f a path b l vis :
  loopf f a path (b :: l) vis =
  match explore s f b vis (a :: path) with (true, v) => (true, v) | (false, v) => loopf f a path l v end.
Proof. reflexivity. Qed.

Lemma loopf_nil f a path vis : loopf f a path [] vis = (false, vis).
Proof. reflexivity. Qed.

Fixpoint Topo (fin : list nat) : Prop :=
  match fin with [] => True | x :: rest => incl (succ s x) rest /\ Topo rest end.

Lemma Topo_closed fin : Topo fin -> forall u v, In u fin -> Edge u v -> In v fin.
Proof.
  induction fin as [|z rest IH]; simpl; intros T u v Hu He; [tauto|].
  destruct T as [Hi T]. destruct Hu as [->|Hu]; [right; apply Hi; exact He | right; eapply IH; eauto].
Qed.

Lemma Topo_tc_closed fin : Topo fin -> forall u v, In u fin -> clos_trans _ Edge u v -> In v fin.
Proof. intros T u v Hu H. induction H; eauto using Topo_closed. Qed.

Lemma Topo_acyclic fin : Topo fin -> forall x, In x fin -> ~ clos_trans _ Edge x x.
Proof.
  induction fin as [|z rest IH]; simpl; intros T x Hx Hc; [tauto|].
  destruct T as [Hi T].
  assert (Hrest : In x rest -> False) by (intro; eapply IH; eauto).
  destruct Hx as [->|Hx]; [|tauto].
  apply Hrest. apply clos_trans_t1n in Hc. inversion Hc; subst.
  - apply Hi. assumption.
  - apply clos_t1n_trans in H0. eapply Topo_tc_closed; eauto.
Qed.

Definition seteq (a b : list nat) := incl a b /\ incl b a.
Definition Inv (visited path fin : list nat) := seteq visited (path ++ fin) /\ Topo fin.

Lemma explore_complete : forall fuel a visited path fin visited',
  Inv visited path fin ->
  explore s fuel a visited path = (false, visited') ->
  exists fin', Inv visited' path fin' /\ In a fin' /\ incl fin fin'.
Proof.
  induction fuel as [|f IH]; intros a visited path fin visited' HI H; [simpl in H; discriminate|].
  rewrite explore_S in H.
  destruct (mem_nat a path) eqn:Hp; [discriminate|].
  destruct (mem_nat a visited) eqn:Hv.
  - inversion H; subst. exists fin. split; [exact HI|]. split; [|apply incl_refl].
    apply mem_nat_In in Hv. destruct HI as [[H1 _] _]. apply H1 in Hv. apply in_app_or in Hv.
    destruct Hv as [Hv|Hv]; [|exact Hv]. apply mem_nat_In in Hv. congruence.
  - assert (L : forall l vis fin0 vis', Inv vis (a :: path) fin0 -> loopf f a path l vis = (false, vis') ->
                exists fin1, Inv vis' (a :: path) fin1 /\ incl l fin1 /\ incl fin0 fin1).
    { induction l as [|b l IHl]; intros vis fin0 vis' HI0 HL.
      - rewrite loopf_nil in HL. inversion HL; subst. exists fin0. repeat split; try apply HI0; try apply incl_refl. intros x [].
      - rewrite loopf_cons in HL.
        destruct (explore s f b vis (a :: path)) as [[|] v] eqn:E; [discriminate|].
        destruct (IH _ _ _ _ _ HI0 E) as [fin1 [HI1 [Hb Hinc]]].
        destruct (IHl _ _ _ HI1 HL) as [fin2 [HI2 [Hl Hinc2]]].
        exists fin2. split; [exact HI2|]. split.
        + intros x [<-|Hx]; [apply Hinc2; exact Hb | apply Hl; exact Hx].
        + eapply incl_tran; eauto. }
    assert (HI0 : Inv (a :: visited) (a :: path) fin).
    { destruct HI as [[H1 H2] T]. split; [|exact T]. split; intros x Hx; simpl in *.
      - destruct Hx as [->|Hx]; [left; reflexivity | right; apply H1; exact Hx].
      - destruct Hx as [->|Hx]; [left; reflexivity | right; apply H2; exact Hx]. }
    destruct (L _ _ _ _ HI0 H) as [fin1 [[[H1 H2] T] [Hs Hinc]]].
    exists (a :: fin1). split; [split|split].
    + split; intros x Hx.
      * apply H1 in Hx. simpl in Hx. destruct Hx as [->|Hx]; [apply in_or_app; right; left; reflexivity|].
        apply in_app_or in Hx. apply in_or_app. destruct Hx; [left | right; right]; assumption.
      * apply H2. simpl. apply in_app_or in Hx.
        destruct Hx as [Hx|[->|Hx]]; [right; apply in_or_app; left; exact Hx | left; reflexivity | right; apply in_or_app; right; exact Hx].
    + simpl. split; [exact Hs | exact T].
    + left; reflexivity.
    + apply incl_tl. exact Hinc.
Qed.

(* soundness: a reported cycle is real; the fuel never runs out *)
Fixpoint pchain (path : list nat) : Prop :=
  match path with [] => True | x :: rest => match rest with [] => True | y :: _ => Edge y x end /\ pchain rest end.

Lemma pchain_reach : forall path x, pchain path -> In x path -> forall h, hd_error path = Some h -> x = h \/ clos_trans _ Edge x h.
Proof.
  induction path as [|p rest IH]; simpl; intros x C Hx h Hh; [tauto|].
  inversion Hh; subst. destruct Hx as [->|Hx]; [left; reflexivity|]. right.
  destruct rest as [|y r]; [destruct Hx|]. destruct C as [E C].
  destruct (IH x C Hx y eq_refl) as [->|T]; [apply t_step; exact E | eapply t_trans; [exact T | apply t_step; exact E]].
Qed.

Definition ids := map a_id (actions s).

Lemma Edge_src_declared a b : Edge a b -> In a ids.
Proof.
  unfold Edge, succ. destruct (find_action s a) as [act|] eqn:E; [|intros []]. intros _.
  apply find_In_key in E. destruct E as [Hin <-]. unfold ids. apply in_map. exact Hin.
Qed.

Lemma explore_sound : forall fuel a visited path visited',
  pchain path -> (match path with [] => True | h :: _ => Edge h a end) ->
  NoDup path -> incl path ids -> S (length (actions s)) <= length path + fuel ->
  explore s fuel a visited path = (true, visited') -> exists x, clos_trans _ Edge x x.
Proof.
  induction fuel as [|f IH]; intros a visited path visited' C E ND Hin Hf H.
  - exfalso. apply (NoDup_incl_length ND) in Hin. unfold ids in Hin. rewrite map_length in Hin. lia.
  - rewrite explore_S in H. destruct (mem_nat a path) eqn:Hp.
    + apply mem_nat_In in Hp. destruct path as [|h r]; [destruct Hp|].
      destruct (pchain_reach _ _ C Hp h eq_refl) as [->|T].
      * exists h. apply t_step. exact E.
      * exists a. eapply t_trans; [exact T | apply t_step; exact E].
    + destruct (mem_nat a visited); [discriminate|].
      assert (L : forall l vis vis', incl l (succ s a) -> loopf f a path l vis = (true, vis') -> exists x, clos_trans _ Edge x x).
      { induction l as [|b l IHl]; intros vis vis' Hl HL; [rewrite loopf_nil in HL; discriminate|].
        rewrite loopf_cons in HL.
        assert (Hb : Edge a b) by (apply Hl; left; reflexivity).
        destruct (explore s f b vis (a :: path)) as [[|] v] eqn:E2.
        - apply (IH b vis (a :: path) v); [| | | | |exact E2].
          + simpl. split; [|exact C]. destruct path; [exact I | exact E].
          + exact Hb.
          + constructor; [|exact ND]. intros Hc. apply mem_nat_In in Hc. congruence.
          + intros x [<-|Hx]; [eapply Edge_src_declared; exact Hb | apply Hin; exact Hx].
          + simpl. lia.
        - eapply IHl; [|exact HL]. intros x Hx. apply Hl. right; exact Hx. }
      eapply L; [apply incl_refl | exact H].
Qed.

Lemma explore_all_cons a r visited :
  explore_all s (a :: r) visited =
  match explore s (S (length (actions s))) a visited [] with (true, _) => true | (false, v) => explore_all s r v end.
Proof. reflexivity. Qed.

Lemma explore_all_sound : forall roots visited,
  explore_all s roots visited = true -> exists x, clos_trans _ Edge x x.
Proof.
  induction roots as [|a r IH]; intros visited H; [simpl in H; discriminate|].
  rewrite explore_all_cons in H.
  destruct (explore s (S (length (actions s))) a visited []) as [[|] v] eqn:E.
  - apply (explore_sound (S (length (actions s))) a visited [] v); [exact I | exact I | constructor | intros x [] | simpl; lia | exact E].
  - eapply IH; exact H.
Qed.

Lemma explore_all_complete : forall roots visited fin,
  Inv visited [] fin -> explore_all s roots visited = false ->
  exists fin', Topo fin' /\ incl roots fin'.
Proof.
  induction roots as [|a r IH]; intros visited fin HI H.
  - exists fin. split; [apply HI | intros x []].
  - rewrite explore_all_cons in H.
    destruct (explore s (S (length (actions s))) a visited []) as [[|] v] eqn:E; [discriminate|].
    destruct (explore_complete _ _ _ _ _ _ HI E) as [fin1 [HI1 [Ha Hinc]]].
    destruct (IH _ _ HI1 H) as [fin2 [T2 Hr]].
    exists (fin2 ++ fin1). split.
    + clear - T2 HI1. destruct HI1 as [_ T1]. induction fin2 as [|z rest IHf]; simpl; [exact T1|].
      simpl in T2. destruct T2 as [Hi T2]. split; [intros x Hx; apply in_or_app; left; apply Hi; exact Hx | apply IHf; exact T2].
    + intros x [<-|Hx]; apply in_or_app; [right; exact Ha | left; apply Hr; exact Hx].
Qed.

Theorem explore_all_spec :
  explore_all s ids [] = true <-> exists x, clos_trans _ Edge x x.
Proof.
  split; [apply explore_all_sound|].
  intros [x Hx]. destruct (explore_all s ids []) eqn:E; [reflexivity|]. exfalso.
  assert (HI : Inv [] [] []) by (split; [split; intros y [] | exact I]).
  destruct (explore_all_complete _ _ _ HI E) as [fin [T Hr]].
  apply (Topo_acyclic fin T x); [|exact Hx].
  apply Hr. apply clos_trans_t1n in Hx. inversion Hx; subst; eapply Edge_src_declared; eassumption.
Qed.
End Cycle.

Lemma clos_trans_mono {A} (R R' : A -> A -> Prop) : (forall x y, R x y -> R' x y) -> forall x y, clos_trans A R x y -> clos_trans A R' x y.
Proof. intros H x y T. induction T; [apply t_step; auto | eapply t_trans; eauto]. Qed.

(* the answer of the action-level cycle search depends only on the membership of the successor lists *)
Lemma explore_all_same_edges s s' :
  (forall a b, In b (succ s a) <-> In b (succ s' a)) ->
  explore_all s (map a_id (actions s)) [] = explore_all s' (map a_id (actions s')) [].
Proof.
  intros H. apply bool_eq_iff. fold (ids s) (ids s'). rewrite !explore_all_spec.
  split; intros [x Hx]; exists x; revert Hx; apply clos_trans_mono; intros a b; unfold Edge; apply H.
Qed.

(* ================================================================== Part C: [deps_same] is multiset equality modulo [dep_eqb] *)
Lemma list_nat_eqb_eq a b : list_nat_eqb a b = true <-> a = b.
Proof.
  unfold list_nat_eqb. revert b. induction a as [|x a IH]; intros [|y b]; simpl; try (split; [intros H; try discriminate; auto | intros H; try discriminate; auto]; fail).
  specialize (IH b). rewrite andb_true_iff in *. rewrite andb_true_iff. rewrite !Nat.eqb_eq in *. split.
  - intros [Hl [E F]]. f_equal; [exact E|]. apply IH. split; [lia | exact F].
  - intros H. inversion H; subst. destruct IH as [_ IH]. destruct (IH eq_refl) as [Hl F]. repeat split; auto.
Qed.

Lemma lit_same_refl x : lit_same_value x x = true.
Proof.
  destruct x as [sh t]. unfold lit_same_value; simpl.
  replace (ishape_eqb sh sh) with true by (symmetry; apply ishape_eqb_eq; reflexivity).
  destruct sh; simpl; auto using Nat.eqb_refl, Bool.eqb_reflx.
Qed.

Lemma lit_same_sym x y : lit_same_value x y = true -> lit_same_value y x = true.
Proof.
  destruct x as [sx tx], y as [sy ty]. unfold lit_same_value; simpl. rewrite !andb_true_iff.
  intros [E H]. apply ishape_eqb_eq in E. subst sy. split; [apply ishape_eqb_eq; reflexivity|].
  destruct sx; auto; try (apply Nat.eqb_eq in H; apply Nat.eqb_eq; congruence);
    (apply Bool.eqb_prop in H; rewrite H; apply Bool.eqb_reflx).
Qed.

Lemma lit_same_trans x y z : lit_same_value x y = true -> lit_same_value y z = true -> lit_same_value x z = true.
Proof.
  destruct x as [sx tx], y as [sy ty], z as [sz tz]. unfold lit_same_value; simpl. rewrite !andb_true_iff.
  intros [E H] [E' H']. apply ishape_eqb_eq in E, E'. subst sy sz. split; [apply ishape_eqb_eq; reflexivity|].
  destruct sx; auto; try (apply Nat.eqb_eq in H, H'; apply Nat.eqb_eq; congruence);
    (apply Bool.eqb_prop in H, H'; rewrite H, H'; apply Bool.eqb_reflx).
Qed.

Lemma operand_eqb_refl x : operand_eqb x x = true.
Proof.
  destruct x; simpl.
  - apply andb_true_iff. split; [apply ref_eqb_eq | apply list_nat_eqb_eq]; reflexivity.
  - apply andb_true_iff. split; [apply Nat.eqb_refl | apply list_nat_eqb_eq; reflexivity].
  - apply lit_same_refl.
Qed.

Lemma operand_eqb_sym x y : operand_eqb x y = true -> operand_eqb y x = true.
Proof.
  destruct x, y; simpl; try discriminate; rewrite ?andb_true_iff.
  - intros [A B]. apply ref_eqb_eq in A. apply list_nat_eqb_eq in B. subst. split; [apply ref_eqb_eq | apply list_nat_eqb_eq]; reflexivity.
  - intros [A B]. apply Nat.eqb_eq in A. apply list_nat_eqb_eq in B. subst. split; [apply Nat.eqb_refl | apply list_nat_eqb_eq; reflexivity].
  - apply lit_same_sym.
Qed.

Lemma operand_eqb_trans x y z : operand_eqb x y = true -> operand_eqb y z = true -> operand_eqb x z = true.
Proof.
  destruct x, y, z; simpl; try discriminate; rewrite ?andb_true_iff.
  - intros [A B] [A' B']. apply ref_eqb_eq in A, A'. apply list_nat_eqb_eq in B, B'. subst. split; [apply ref_eqb_eq | apply list_nat_eqb_eq]; reflexivity.
  - intros [A B] [A' B']. apply Nat.eqb_eq in A, A'. apply list_nat_eqb_eq in B, B'. subst. split; [apply Nat.eqb_refl | apply list_nat_eqb_eq; reflexivity].
  - apply lit_same_trans.
Qed.

Lemma dep_eqb_refl x : dep_eqb x x = true.
Proof.
  destruct x; simpl.
  - rewrite !operand_eqb_refl. replace (cop_eqb o o) with true by (symmetry; apply cop_eqb_eq; reflexivity). reflexivity.
  - apply ref_eqb_eq. reflexivity.
Qed.

Lemma dep_eqb_sym x y : dep_eqb x y = true -> dep_eqb y x = true.
Proof.
  destruct x, y; simpl; try discriminate; rewrite ?andb_true_iff.
  - intros [[A B] C]. apply cop_eqb_eq in B. subst. repeat split; [apply operand_eqb_sym; exact A | apply cop_eqb_eq; reflexivity | apply operand_eqb_sym; exact C].
  - intros A. apply ref_eqb_eq in A. subst. apply ref_eqb_eq. reflexivity.
Qed.

Lemma dep_eqb_trans x y z : dep_eqb x y = true -> dep_eqb y z = true -> dep_eqb x z = true.
Proof.
  destruct x, y, z; simpl; try discriminate; rewrite ?andb_true_iff.
  - intros [[A B] C] [[A' B'] C']. apply cop_eqb_eq in B, B'. subst.
    repeat split; [eapply operand_eqb_trans; eassumption | apply cop_eqb_eq; reflexivity | eapply operand_eqb_trans; eassumption].
  - intros A A'. apply ref_eqb_eq in A, A'. subst. apply ref_eqb_eq. reflexivity.
Qed.

Lemma dep_eqb_class x y z : dep_eqb y z = true -> dep_eqb x z = dep_eqb x y.
Proof.
  intros H. apply bool_eq_iff. split; intros G.
  - eapply dep_eqb_trans; [exact G | apply dep_eqb_sym; exact H].
  - eapply dep_eqb_trans; [exact G | exact H].
Qed.

Definition cnt (x : dep) (l : list dep) : nat := length (filter (dep_eqb x) l).

Lemma cnt_perm x l l' : Permutation l l' -> cnt x l = cnt x l'.
Proof. intros H. unfold cnt. apply Permutation_length. apply Permutation_filter. exact H. Qed.

Lemma cnt_cons x y l : cnt x (y :: l) = (if dep_eqb x y then 1 else 0) + cnt x l.
Proof. unfold cnt. simpl. destruct (dep_eqb x y); reflexivity. Qed.

Lemma remove_first_cnt y b b' : remove_first y b = Some b' ->
  length b = S (length b') /\ forall x, cnt x b = (if dep_eqb x y then 1 else 0) + cnt x b'.
Proof.
  revert b'. induction b as [|z b IH]; intros b' H; simpl in H; [discriminate|].
  destruct (dep_eqb y z) eqn:E.
  - inversion H; subst. split; [reflexivity|]. intros x. rewrite cnt_cons. rewrite (dep_eqb_class x y z E). reflexivity.
  - destruct (remove_first y b) as [r|] eqn:R; [|discriminate]. inversion H; subst.
    destruct (IH r eq_refl) as [Hl Hc]. split; [simpl; lia|]. intros x. rewrite !cnt_cons, Hc. lia.
Qed.

Lemma remove_first_none y b : remove_first y b = None -> cnt y b = 0.
Proof.
  induction b as [|z b IH]; intros H; simpl in H; [reflexivity|].
  destruct (dep_eqb y z) eqn:E; [discriminate|].
  destruct (remove_first y b); [discriminate|]. rewrite cnt_cons, E. simpl. apply IH. reflexivity.
Qed.

Lemma msub_cnt a : forall b, msub a b = true <-> forall x, cnt x a <= cnt x b.
Proof.
  induction a as [|y a IH]; intros b; simpl.
  - split; [intros _ x; unfold cnt; simpl; lia | reflexivity].
  - destruct (remove_first y b) as [b'|] eqn:R.
    + destruct (remove_first_cnt _ _ _ R) as [_ Hc]. rewrite IH. split; intros H x; specialize (H x); rewrite cnt_cons, ?Hc in *; lia.
    + split; [discriminate|]. intros H. specialize (H y). rewrite cnt_cons, dep_eqb_refl, (remove_first_none _ _ R) in H. lia.
Qed.

Lemma msub_perm a a' b b' : Permutation a a' -> Permutation b b' -> msub a b = msub a' b'.
Proof.
  intros Ha Hb. apply bool_eq_iff. rewrite !msub_cnt.
  split; intros H x; specialize (H x); rewrite ?(cnt_perm x _ _ Ha), ?(cnt_perm x _ _ Hb) in *; exact H.
Qed.

Lemma cnt_le_full a : forall b, length a = length b -> (forall x, cnt x a <= cnt x b) -> forall x, cnt x b <= cnt x a.
Proof.
  induction a as [|y a IH]; intros b Hl H x.
  - destruct b; [lia | discriminate].
  - destruct (remove_first y b) as [b'|] eqn:R.
    + destruct (remove_first_cnt _ _ _ R) as [Hl' Hc]. rewrite Hc, cnt_cons.
      apply Nat.add_le_mono_l. apply IH; [simpl in Hl; lia|].
      intros z. specialize (H z). rewrite cnt_cons, Hc in H. lia.
    + specialize (H y). rewrite cnt_cons, dep_eqb_refl, (remove_first_none _ _ R) in H. lia.
Qed.

Lemma deps_same_sym a b : deps_same a b = deps_same b a.
Proof.
  assert (G : forall a b, deps_same a b = true -> deps_same b a = true).
  { clear. intros a b. unfold deps_same. rewrite !andb_true_iff, !Nat.eqb_eq, !msub_cnt.
    intros [Hl H]. split; [congruence|]. apply cnt_le_full; assumption. }
  apply bool_eq_iff. split; apply G.
Qed.

Lemma deps_same_perm a a' b b' : Permutation a a' -> Permutation b b' -> deps_same a b = deps_same a' b'.
Proof.
  intros Ha Hb. unfold deps_same. rewrite (Permutation_length Ha), (Permutation_length Hb), (msub_perm _ _ _ _ Ha Hb). reflexivity.
Qed.

Lemma gate_opt_eqb_sym a b : gate_opt_eqb a b = gate_opt_eqb b a.
Proof. destruct a as [[]|], b as [[]|]; reflexivity. Qed.

Lemma composite_eqb_sym a b : composite_eqb a b = composite_eqb b a.
Proof. unfold composite_eqb. rewrite gate_opt_eqb_sym, deps_same_sym. reflexivity. Qed.

(* ================================================================== Part D: reordering the six top-level collections *)
Definition schema_perm (s s' : schema) : Prop :=
  Permutation (parties s) (parties s') /\ Permutation (otypes s) (otypes s') /\
  Permutation (promises s) (promises s') /\ Permutation (actions s) (actions s') /\
  Permutation (checkpoints s) (checkpoints s') /\ Permutation (groups s) (groups s').

Lemma schema_perm_sym s s' : schema_perm s s' -> schema_perm s' s.
Proof. unfold schema_perm. intros H. repeat split; apply Permutation_sym; apply H. Qed.

Lemma schema_perm_refl s : schema_perm s s.
Proof. unfold schema_perm. repeat split; apply Permutation_refl. Qed.

Lemma schema_perm_trans s1 s2 s3 : schema_perm s1 s2 -> schema_perm s2 s3 -> schema_perm s1 s3.
Proof. unfold schema_perm. intros H G. repeat split; (eapply Permutation_trans; [apply H | apply G]). Qed.

Lemma unique_ids_perm s s' : schema_perm s s' -> unique_ids s' = unique_ids s.
Proof.
  intros (Pp & Po & Ppr & Pa & Pc & Pg). unfold unique_ids.
  rewrite (nodup_nat_perm _ _ (Permutation_map pa_id Pp)), (nodup_nat_perm _ _ (Permutation_map pa_name Pp)),
    (nodup_nat_perm _ _ (Permutation_map ot_id Po)), (nodup_nat_perm _ _ (Permutation_map ot_name Po)),
    (nodup_nat_perm _ _ (Permutation_map pr_id Ppr)), (nodup_nat_perm _ _ (Permutation_map pr_name Ppr)),
    (nodup_nat_perm _ _ (Permutation_map a_id Pa)), (nodup_nat_perm _ _ (Permutation_map a_name Pa)),
    (nodup_nat_perm _ _ (Permutation_flat_map a_milestones Pa)),
    (nodup_nat_perm _ _ (Permutation_map cp_id Pc)), (nodup_nat_perm _ _ (Permutation_map cp_alias Pc)),
    (nodup_by_perm composite_eqb _ _ composite_eqb_sym Pc),
    (nodup_nat_perm _ _ (Permutation_map g_id Pg)), (nodup_nat_perm _ _ (Permutation_map g_name Pg)).
  reflexivity.
Qed.

Lemma unique_ids_NoDup s : unique_ids s = true ->
  NoDup (map pa_id (parties s)) /\ NoDup (map ot_id (otypes s)) /\ NoDup (map pr_id (promises s)) /\
  NoDup (map a_id (actions s)) /\ NoDup (map cp_id (checkpoints s)) /\ NoDup (map g_id (groups s)).
Proof. unfold unique_ids. rewrite !andb_true_iff, !nodup_nat_NoDup. tauto. Qed.

Lemma match_singleton_perm {A} (X : A -> bool) l l' : Permutation l l' ->
  match l with [f] => X f | _ => false end = match l' with [f] => X f | _ => false end.
Proof.
  intros H. destruct l as [|a [|b l]].
  - apply Permutation_nil in H. subst. reflexivity.
  - apply Permutation_length_1_inv in H. subst. reflexivity.
  - apply Permutation_length in H. destruct l' as [|a' [|b' l']]; simpl in H; try discriminate. reflexivity.
Qed.

Section Top.
Variables s s' : schema.
Hypothesis HP : schema_perm s s'.
Hypothesis HU : unique_ids s = true.

Let Pp : Permutation (parties s) (parties s') := proj1 HP.
Let Po : Permutation (otypes s) (otypes s') := proj1 (proj2 HP).
Let Ppr : Permutation (promises s) (promises s') := proj1 (proj2 (proj2 HP)).
Let Pa : Permutation (actions s) (actions s') := proj1 (proj2 (proj2 (proj2 HP))).
Let Pc : Permutation (checkpoints s) (checkpoints s') := proj1 (proj2 (proj2 (proj2 (proj2 HP)))).
Let Pg : Permutation (groups s) (groups s') := proj2 (proj2 (proj2 (proj2 (proj2 HP)))).

Lemma fe_party i : find_party s' i = find_party s i.
Proof. unfold find_party. apply (find_perm pa_id); [exact Pp | apply unique_ids_NoDup, HU]. Qed.
Lemma fe_type i : find_type s' i = find_type s i.
Proof. unfold find_type. apply (find_perm ot_id); [exact Po | apply unique_ids_NoDup, HU]. Qed.
Lemma fe_promise i : find_promise s' i = find_promise s i.
Proof. unfold find_promise. apply (find_perm pr_id); [exact Ppr | apply unique_ids_NoDup, HU]. Qed.
Lemma fe_action i : find_action s' i = find_action s i.
Proof. unfold find_action. apply (find_perm a_id); [exact Pa | apply unique_ids_NoDup, HU]. Qed.
Lemma fe_checkpoint i : find_checkpoint s' i = find_checkpoint s i.
Proof. unfold find_checkpoint. apply (find_perm cp_id); [exact Pc | apply unique_ids_NoDup, HU]. Qed.
Lemma fe_group i : find_group s' i = find_group s i.
Proof. unfold find_group. apply (find_perm g_id); [exact Pg | apply unique_ids_NoDup, HU]. Qed.

Lemma len_actions : length (actions s') = length (actions s).
Proof. symmetry. apply Permutation_length, Pa. Qed.
Lemma len_checkpoints : length (checkpoints s') = length (checkpoints s).
Proof. symmetry. apply Permutation_length, Pc. Qed.
Lemma len_groups : length (groups s') = length (groups s).
Proof. symmetry. apply Permutation_length, Pg. Qed.

Lemma fuel_eq : fuel_of s' = fuel_of s.
Proof. unfold fuel_of. rewrite len_actions, len_checkpoints, len_groups. reflexivity. Qed.

Lemma denotes_eq r : denotes s' r = denotes s r.
Proof. unfold denotes. rewrite fe_party, fe_type, fe_promise, fe_action, fe_checkpoint, fe_group. reflexivity. Qed.
Lemma ref_ok_eq k r : ref_ok s' k r = ref_ok s k r.
Proof. unfold ref_ok. rewrite denotes_eq. reflexivity. Qed.
Lemma oref_ok_eq k r : oref_ok s' k r = oref_ok s k r.
Proof. destruct r; simpl; [apply ref_ok_eq | reflexivity]. Qed.

Lemma chain_eq : forall f g, chain s' f g = chain s f g.
Proof.
  induction f as [|f IH]; intros g; cbn [chain]; [reflexivity|].
  rewrite fe_group. destruct (find_group s g) as [tg|]; [|reflexivity].
  destruct (g_ctx tg) as [r|]; [|reflexivity]. destruct (rkind_eqb (r_kind r) RGroup); [|reflexivity].
  rewrite IH. reflexivity.
Qed.
Lemma scope_eq g : scope s' g = scope s g.
Proof. unfold scope. rewrite fuel_eq. apply chain_eq. Qed.
Lemma has_access_eq g g' : has_access s' g g' = has_access s g g'.
Proof. unfold has_access. rewrite scope_eq. reflexivity. Qed.
Lemma ctx_sees_eq a b : ctx_sees s' a b = ctx_sees s a b.
Proof. destruct b as [g'|], a as [g|]; simpl; try reflexivity. apply has_access_eq. Qed.

Lemma group_cps_eq g : group_cps s' g = group_cps s g.
Proof.
  destruct g as [g|]; [|reflexivity]. unfold group_cps. rewrite scope_eq. destruct (scope s g); [|reflexivity].
  apply flat_map_ext. intros g'. rewrite fe_group. reflexivity.
Qed.
Lemma action_cps_eq a : action_cps s' a = action_cps s a.
Proof. unfold action_cps. rewrite group_cps_eq. reflexivity. Qed.
Lemma group_eff_cps_eq g : group_eff_cps s' g = group_eff_cps s g.
Proof. apply group_cps_eq. Qed.

Lemma mentions_eq : forall f c, mentions s' f c = mentions s f c.
Proof.
  induction f as [|f IH]; intros c; cbn [mentions]; [reflexivity|].
  rewrite fe_checkpoint. destruct (find_checkpoint s c) as [cp|]; [|reflexivity].
  apply flat_map_ext. intros [l o r|r]; [reflexivity|]. destruct (rkind_eqb (r_kind r) RCheckpoint); [apply IH | reflexivity].
Qed.

Lemma succ_eq a : succ s' a = succ s a.
Proof.
  unfold succ. rewrite fe_action. destruct (find_action s a) as [act|]; [|reflexivity].
  rewrite fuel_eq, action_cps_eq. apply flat_map_ext. intros c. apply mentions_eq.
Qed.

Lemma cp_nesting_eq : forall f st c, cp_nesting_cyclic s' f st c = cp_nesting_cyclic s f st c.
Proof.
  induction f as [|f IH]; intros st c; cbn [cp_nesting_cyclic]; [reflexivity|].
  destruct (mem_nat c st); [reflexivity|]. rewrite fe_checkpoint. destruct (find_checkpoint s c) as [cp|]; [|reflexivity].
  apply existsb_ext_in. intros [l o r|r] _; [reflexivity|]. destruct (rkind_eqb (r_kind r) RCheckpoint); [apply IH | reflexivity].
Qed.

Lemma has_cycle_eq : has_cycle s' = has_cycle s.
Proof.
  unfold has_cycle. f_equal.
  - apply explore_all_same_edges. intros a b. rewrite succ_eq. tauto.
  - rewrite <- (existsb_perm _ _ _ Pa). apply existsb_ext_in. intros a _.
    rewrite action_cps_eq, len_checkpoints. apply existsb_ext_in. intros c _. apply cp_nesting_eq.
Qed.

Lemma close_eq : forall n acc, close s' n acc = close s n acc.
Proof.
  induction n as [|n IH]; intros acc; cbn [close]; [reflexivity|].
  rewrite (flat_map_ext _ _ succ_eq). apply IH.
Qed.
Lemma ancestors_eq a : ancestors s' a = ancestors s a.
Proof. unfold ancestors. rewrite len_actions, succ_eq. apply close_eq. Qed.
Lemma is_ancestor_eq a b : is_ancestor s' a b = is_ancestor s a b.
Proof. unfold is_ancestor. rewrite ancestors_eq. reflexivity. Qed.
Lemma group_ancestors_eq g : group_ancestors s' g = group_ancestors s g.
Proof.
  unfold group_ancestors. rewrite len_actions, fuel_eq, group_eff_cps_eq.
  rewrite (flat_map_ext _ _ (mentions_eq (fuel_of s))). apply close_eq.
Qed.

Lemma guar_cp_eq : forall f b c, guar_cp s' f b c = guar_cp s f b c.
Proof.
  induction f as [|f IH]; intros b c; cbn [guar_cp]; [reflexivity|].
  rewrite fe_checkpoint. destruct (find_checkpoint s c) as [cp|]; [|reflexivity].
  assert (HD : forall d,
    match d with
    | DCmp l _ r => existsb (fun x => Nat.eqb x b || match find_action s' x with
                                                     | Some act => existsb (guar_cp s' f b) (action_cps s' act)
                                                     | None => false end) (operand_action l ++ operand_action r)
    | DRef r => if rkind_eqb (r_kind r) RCheckpoint then guar_cp s' f b (r_id r) else false
    end =
    match d with
    | DCmp l _ r => existsb (fun x => Nat.eqb x b || match find_action s x with
                                                     | Some act => existsb (guar_cp s f b) (action_cps s act)
                                                     | None => false end) (operand_action l ++ operand_action r)
    | DRef r => if rkind_eqb (r_kind r) RCheckpoint then guar_cp s f b (r_id r) else false
    end).
  { intros [l o r|r].
    - apply existsb_ext_in. intros x _. rewrite fe_action. destruct (find_action s x) as [act|]; [|reflexivity].
      rewrite action_cps_eq. f_equal. apply existsb_ext_in. intros c' _. apply IH.
    - rewrite IH. reflexivity. }
  destruct (cp_gate cp) as [[]|]; first [apply forallb_ext_in | apply existsb_ext_in]; intros d _; apply HD.
Qed.

Lemma guaranteed_ancestor_eq a b : guaranteed_ancestor s' a b = guaranteed_ancestor s a b.
Proof.
  unfold guaranteed_ancestor. rewrite len_actions, len_checkpoints, action_cps_eq.
  apply existsb_ext_in. intros c _. apply guar_cp_eq.
Qed.

Lemma actions_on_perm p : Permutation (actions_on s p) (actions_on s' p).
Proof. unfold actions_on. apply Permutation_filter. exact Pa. Qed.

Lemma creators_perm p : Permutation (creators s p) (creators s' p).
Proof.
  unfold creators.
  rewrite (filter_ext_in
    (fun a => negb (existsb (fun b => negb (Nat.eqb (a_id b) (a_id a)) && is_ancestor s' (a_id a) (a_id b)) (actions_on s' p)))
    (fun a => negb (existsb (fun b => negb (Nat.eqb (a_id b) (a_id a)) && is_ancestor s (a_id a) (a_id b)) (actions_on s p)))).
  - apply Permutation_filter. apply actions_on_perm.
  - intros a _. f_equal. rewrite <- (existsb_perm _ _ _ (actions_on_perm p)).
    apply existsb_ext_in. intros b _. rewrite is_ancestor_eq. reflexivity.
Qed.

Lemma promise_ok_eq p : promise_ok s' p = promise_ok s p.
Proof. unfold promise_ok. symmetry. apply match_singleton_perm. apply creators_perm. Qed.

(* from here on: every declared promise has exactly one creator *)
Hypothesis HPK : forall p, In p (promises s) -> promise_ok s p = true.

Lemma fulfiller_eq p : find_promise s p <> None -> fulfiller s' p = fulfiller s p.
Proof.
  intros Hp. destruct (find_promise s p) as [pr|] eqn:E; [|congruence].
  apply find_In_key in E. destruct E as [Hin Hid]. apply HPK in Hin. unfold promise_ok in Hin. rewrite Hid in Hin.
  unfold fulfiller. pose proof (creators_perm p) as HC.
  destruct (creators s p) as [|f [|g l]]; try discriminate.
  apply Permutation_length_1_inv in HC. rewrite HC. reflexivity.
Qed.

Lemma promise_context_eq p : find_promise s p <> None -> promise_context s' p = promise_context s p.
Proof. intros Hp. unfold promise_context. rewrite (fulfiller_eq p Hp). reflexivity. Qed.

Lemma find_type_ref_eq r : find_type_ref s' r = find_type_ref s r.
Proof. unfold find_type_ref. rewrite fe_type. reflexivity. Qed.

Lemma walk_eq : forall path def td, walk s' def td path = walk s def td path.
Proof.
  induction path as [|seg rest IH]; intros def td; cbn [walk]; [reflexivity|].
  destruct def as [d|]; [|reflexivity]. destruct (find_attr d seg) as [a|]; [|reflexivity].
  destruct (at_kind a) as [t|tgt|tgt]; [reflexivity| |]; destruct (rkind_eqb (r_kind tgt) RType); try reflexivity; rewrite fe_type.
  - apply IH.
  - destruct (td_list td); [reflexivity | apply IH].
Qed.

Lemma resolve_path_eq tr path : resolve_path s' tr path = resolve_path s tr path.
Proof. unfold resolve_path. rewrite find_type_ref_eq. destruct (find_type_ref s tr); [apply walk_eq | reflexivity]. Qed.

Lemma promise_path_type_eq from p path : promise_path_type s' from p path = promise_path_type s from p path.
Proof.
  unfold promise_path_type. rewrite fe_promise. destruct (find_promise s p) as [pr|] eqn:E; [|reflexivity].
  rewrite promise_context_eq by congruence. destruct (promise_context s p) as [pctx|]; [|reflexivity].
  destruct pctx as [g'|], from as [g|]; rewrite ?has_access_eq, ?resolve_path_eq; reflexivity.
Qed.

Lemma var_type_eq : forall f g, var_type s' f g = var_type s f g.
Proof.
  induction f as [|f IH]; intros g; cbn [var_type]; [reflexivity|].
  rewrite fe_group. destruct (find_group s g) as [tg|]; [|reflexivity].
  destruct (g_src tg) as [p path|g' path].
  - rewrite promise_path_type_eq. reflexivity.
  - rewrite has_access_eq, IH. destruct (negb (Nat.eqb g' g) && has_access s g g'); [|reflexivity].
    destruct (var_type s f g') as [| |vt]; try reflexivity.
    destruct (td_item vt), (td_obj vt); rewrite ?resolve_path_eq; reflexivity.
Qed.

Lemma operand_type_eq cctx o : operand_type s' cctx o = operand_type s cctx o.
Proof.
  destruct o as [a path|g path|l]; cbn [operand_type]; [| |reflexivity].
  - rewrite fe_action. destruct (if rkind_eqb (r_kind a) RAction then find_action s (r_id a) else None) as [act|]; [|reflexivity].
    destruct (promise_of act); [|reflexivity]. rewrite promise_path_type_eq. reflexivity.
  - destruct cctx as [cg|]; [|reflexivity]. rewrite has_access_eq, fuel_eq, var_type_eq.
    destruct (has_access s cg g); [|reflexivity]. destruct (var_type s (fuel_of s) g) as [| |vt]; try reflexivity.
    destruct path; [reflexivity|]. destruct (td_item vt), (td_obj vt); rewrite ?resolve_path_eq; reflexivity.
Qed.

Lemma comparison_ok_eq cmp cctx l o r : comparison_ok cmp s' cctx l o r = comparison_ok cmp s cctx l o r.
Proof. unfold comparison_ok. rewrite !operand_type_eq. reflexivity. Qed.

Lemma operand_refs_ok_eq o : operand_refs_ok s' o = operand_refs_ok s o.
Proof. destruct o; simpl; try reflexivity. apply ref_ok_eq. Qed.

Lemma operand_scope_ok_eq cctx o : operand_scope_ok s' cctx o = operand_scope_ok s cctx o.
Proof.
  destruct o as [a path| |]; simpl; try reflexivity. rewrite fe_action.
  destruct (find_action s (r_id a)); [apply ctx_sees_eq | reflexivity].
Qed.

Lemma dep_ok_eq cmp cp d : dep_ok cmp s' cp d = dep_ok cmp s cp d.
Proof.
  unfold dep_ok. destruct d as [l o r|c].
  - rewrite !operand_refs_ok_eq, comparison_ok_eq, !operand_scope_ok_eq. reflexivity.
  - rewrite ref_ok_eq, fe_checkpoint. destruct (find_checkpoint s (r_id c)); [rewrite ctx_sees_eq|]; reflexivity.
Qed.

Lemma cp_referenced_eq c : cp_referenced s' c = cp_referenced s c.
Proof.
  unfold cp_referenced.
  rewrite <- (existsb_perm _ _ _ Pa), <- (existsb_perm _ _ _ Pg), <- (existsb_perm _ _ _ Pc). reflexivity.
Qed.

Lemma checkpoint_ok_eq cmp cp : checkpoint_ok cmp s' cp = checkpoint_ok cmp s cp.
Proof.
  unfold checkpoint_ok. rewrite oref_ok_eq, cp_referenced_eq.
  rewrite (forallb_ext_in (dep_ok cmp s' cp) (dep_ok cmp s cp)); [reflexivity|]. intros d _. apply dep_ok_eq.
Qed.

Lemma depends_scope_ok_eq h d : depends_scope_ok s' h d = depends_scope_ok s h d.
Proof.
  destruct d as [r|]; simpl; [|reflexivity]. rewrite fe_checkpoint.
  destruct (find_checkpoint s (r_id r)); [apply ctx_sees_eq | reflexivity].
Qed.

Lemma type_of_promise_eq p : type_of_promise s' p = type_of_promise s p.
Proof. unfold type_of_promise. rewrite fe_promise. destruct (find_promise s p); [apply find_type_ref_eq | reflexivity]. Qed.

Lemma settable_mem x p : mem_nat x (settable s' p) = mem_nat x (settable s p).
Proof.
  unfold settable. rewrite type_of_promise_eq. destruct (type_of_promise s p) as [t|]; [|reflexivity].
  apply mem_nat_perm. apply Permutation_flat_map. apply Permutation_sym. apply actions_on_perm.
Qed.

Lemma is_dependee_eq a : is_dependee s' a = is_dependee s a.
Proof. unfold is_dependee. rewrite <- (existsb_perm _ _ _ Pc). reflexivity. Qed.

Lemma ref_ok_promise_declared q : ref_ok s RPromise q = true -> find_promise s (r_id q) <> None.
Proof.
  unfold ref_ok, denotes. rewrite andb_true_iff. intros [K D]. apply rkind_eqb_eq in K. rewrite K in D.
  destruct (find_promise s (r_id q)); [discriminate | discriminate].
Qed.

Lemma action_op_ok_eq tbl a : action_op_ok tbl s' a = action_op_ok tbl s a.
Proof.
  unfold action_op_ok. destruct (promise_of a) as [p|]; [|reflexivity].
  rewrite type_of_promise_eq. destruct (type_of_promise s p) as [t|] eqn:ET; [|reflexivity].
  assert (Hp : find_promise s p <> None).
  { unfold type_of_promise in ET. destruct (find_promise s p); congruence. }
  rewrite (fulfiller_eq p Hp). f_equal. destruct (fulfiller s p) as [f|]; [|reflexivity].
  destruct (Nat.eqb (a_id f) (a_id a)); [|rewrite is_ancestor_eq; reflexivity].
  f_equal; [f_equal|].
  - apply forallb_ext_in. intros e _. destruct (find_attr t (fst e)) as [at_|]; [|reflexivity].
    destruct (at_kind at_) as [ft|tgt|tgt]; try reflexivity.
    rewrite ref_ok_eq, fe_promise. destruct (find_promise s (r_id (snd e))) as [q|] eqn:EQ; [|reflexivity].
    f_equal. f_equal. apply find_In_key in EQ. destruct EQ as [Hq Hid].
    rewrite fulfiller_eq.
    + destruct (fulfiller s (pr_id q)); [apply is_ancestor_eq | reflexivity].
    + unfold find_promise. apply (find_isSome_key pr_id). exact Hq.
  - destruct (op_appends (a_op a)) as [[q path]|]; [|reflexivity].
    rewrite ref_ok_eq. destruct (ref_ok s RPromise q) eqn:ER; [|reflexivity].
    apply ref_ok_promise_declared in ER.
    rewrite (fulfiller_eq _ ER), (promise_context_eq _ ER), promise_path_type_eq, fe_promise, settable_mem, is_dependee_eq.
    destruct (fulfiller s (r_id q)); [rewrite guaranteed_ancestor_eq|]; reflexivity.
Qed.

Lemma action_ok_eq tbl a : action_ok tbl s' a = action_ok tbl s a.
Proof.
  unfold action_ok. rewrite !ref_ok_eq, !oref_ok_eq, depends_scope_ok_eq, action_op_ok_eq. reflexivity.
Qed.

Lemma group_used_eq g : group_used s' g = group_used s g.
Proof. unfold group_used. rewrite <- (existsb_perm _ _ _ Pa), <- (existsb_perm _ _ _ Pg). reflexivity. Qed.

Lemma group_ok_eq g : group_ok s' g = group_ok s g.
Proof.
  unfold group_ok.
  rewrite !oref_ok_eq, scope_eq, depends_scope_ok_eq, group_used_eq, fuel_eq, var_type_eq.
  f_equal; [f_equal; f_equal|].
  - destruct (g_src g) as [p path|]; [|reflexivity]. rewrite ref_ok_eq.
    destruct (ref_ok s RPromise p) eqn:ER; [|reflexivity]. apply ref_ok_promise_declared in ER.
    rewrite (fulfiller_eq _ ER), group_ancestors_eq. reflexivity.
  - destruct (scope s (g_id g)) as [l|]; [|reflexivity]. f_equal. apply existsb_ext_in. intros g' _.
    rewrite fe_group. reflexivity.
Qed.

Lemma attr_ok_eq a : attr_ok s' a = attr_ok s a.
Proof. unfold attr_ok. destruct (at_kind a); try reflexivity; apply ref_ok_eq. Qed.

Lemma otype_ok_eq t : otype_ok s' t = otype_ok s t.
Proof.
  unfold otype_ok. rewrite (forallb_ext_in (attr_ok s') (attr_ok s)); [reflexivity|]. intros a _. apply attr_ok_eq.
Qed.

Lemma promise_refs_ok_eq p : promise_refs_ok s' p = promise_refs_ok s p.
Proof. unfold promise_refs_ok. rewrite ref_ok_eq, oref_ok_eq. reflexivity. Qed.
End Top.

(* acceptance is preserved (for any comparison table, so also for the known-finding variant) ... *)
Lemma conforms_with_perm_true cmp tbl s s' :
  schema_perm s s' -> conforms_with cmp tbl s = true -> conforms_with cmp tbl s' = true.
Proof.
  intros HP. unfold conforms_with. rewrite !andb_true_iff.
  intros [[[[[[U T] P] A] C] G] Cy].
  assert (HPK : forall p, In p (promises s) -> promise_ok s p = true).
  { intros p Hp. rewrite forallb_forall in P. specialize (P p Hp). apply andb_true_iff in P. apply P. }
  pose proof HP as (Pp & Po & Ppr & Pa & Pc & Pg).
  repeat split.
  - rewrite (unique_ids_perm _ _ HP). exact U.
  - rewrite <- (forallb_perm _ _ _ Po). rewrite <- T. apply forallb_ext_in. intros t _. apply (otype_ok_eq s s' HP U).
  - rewrite <- (forallb_perm _ _ _ Ppr). rewrite <- P. apply forallb_ext_in. intros p _.
    rewrite (promise_refs_ok_eq s s' HP U), (promise_ok_eq s s' HP U). reflexivity.
  - rewrite <- (forallb_perm _ _ _ Pa). rewrite <- A. apply forallb_ext_in. intros a _. apply (action_ok_eq s s' HP U HPK).
  - rewrite <- (forallb_perm _ _ _ Pc). rewrite <- C. apply forallb_ext_in. intros c _. apply (checkpoint_ok_eq s s' HP U HPK).
  - rewrite <- (forallb_perm _ _ _ Pg). rewrite <- G. apply forallb_ext_in. intros g _. apply (group_ok_eq s s' HP U HPK).
  - rewrite (has_cycle_eq s s' HP U). exact Cy.
Qed.

(* ... hence the verdict is the same *)
Lemma conforms_with_perm cmp tbl s s' : schema_perm s s' -> conforms_with cmp tbl s = conforms_with cmp tbl s'.
Proof.
  intros HP. apply bool_eq_iff. split; apply conforms_with_perm_true; [exact HP | apply schema_perm_sym; exact HP].
Qed.

Lemma C14_top_level_lemma : forall tbl s s', schema_perm s s' -> conforms tbl s = conforms tbl s'.
Proof. intros tbl s s'. apply conforms_with_perm. Qed.

(* ================================================================== Part E: reordering the dependencies of checkpoints *)
(* Property C14, inner reordering: permuting the dependency lists of checkpoints (the top-level
   collections keep their order) does not change the verdict.  Exact, no acceptance hypothesis. *)
Module Deps.

Definition cp_sim (c c' : checkpoint) : Prop :=
  cp_id c' = cp_id c /\ cp_alias c' = cp_alias c /\ cp_gate c' = cp_gate c /\ cp_ctx c' = cp_ctx c /\
  Permutation (cp_deps c) (cp_deps c').

Definition deps_reordered (s s' : schema) : Prop :=
  parties s' = parties s /\ otypes s' = otypes s /\ promises s' = promises s /\ actions s' = actions s /\
  groups s' = groups s /\
  Forall2 cp_sim (checkpoints s) (checkpoints s').

(* ------------------------------------------------------------------ generic facts *)
Lemma andb_eq (a a' b b' : bool) : a = a' -> b = b' -> a && b = a' && b'.
Proof. intros -> ->. reflexivity. Qed.

Lemma orb_eq (a a' b b' : bool) : a = a' -> b = b' -> a || b = a' || b'.
Proof. intros -> ->. reflexivity. Qed.

Lemma Forall2_find {A B} (R : A -> B -> Prop) (k : A -> nat) (k' : B -> nat) i l l' :
  Forall2 R l l' -> (forall x x', R x x' -> k' x' = k x) ->
  match find (fun x => Nat.eqb (k x) i) l, find (fun x => Nat.eqb (k' x) i) l' with
  | Some x, Some x' => R x x'
  | None, None => True
  | _, _ => False
  end.
Proof.
  intros HF Hk. induction HF as [|x x' l l' Hx HF IH]; simpl; [exact I|].
  rewrite (Hk _ _ Hx). destruct (Nat.eqb (k x) i); [exact Hx | exact IH].
Qed.

Lemma Forall2_len {A B} (R : A -> B -> Prop) l l' : Forall2 R l l' -> length l = length l'.
Proof. induction 1; simpl; congruence. Qed.

Lemma Forall2_forallb {A B} (R : A -> B -> Prop) (f : A -> bool) (f' : B -> bool) l l' :
  Forall2 R l l' -> (forall x x', R x x' -> f x = f' x') -> forallb f l = forallb f' l'.
Proof.
  intros HF Hf. induction HF as [|x x' l l' Hx HF IH]; simpl; [reflexivity|].
  rewrite (Hf _ _ Hx), IH. reflexivity.
Qed.

Lemma Forall2_existsb {A B} (R : A -> B -> Prop) (f : A -> bool) (f' : B -> bool) l l' :
  Forall2 R l l' -> (forall x x', R x x' -> f x = f' x') -> existsb f l = existsb f' l'.
Proof.
  intros HF Hf. induction HF as [|x x' l l' Hx HF IH]; simpl; [reflexivity|].
  rewrite (Hf _ _ Hx), IH. reflexivity.
Qed.

Lemma Forall2_map_eq {A B C} (R : A -> B -> Prop) (f : A -> C) (f' : B -> C) l l' :
  Forall2 R l l' -> (forall x x', R x x' -> f x = f' x') -> map f l = map f' l'.
Proof.
  intros HF Hf. induction HF as [|x x' l l' Hx HF IH]; simpl; [reflexivity|].
  rewrite (Hf _ _ Hx), IH. reflexivity.
Qed.

Lemma Forall2_nodup_by {A} (R : A -> A -> Prop) (eqb : A -> A -> bool) l l' :
  Forall2 R l l' -> (forall x x' y y', R x x' -> R y y' -> eqb x y = eqb x' y') ->
  nodup_by eqb l = nodup_by eqb l'.
Proof.
  intros HF He. induction HF as [|x x' l l' Hx HF IH]; simpl; [reflexivity|].
  apply andb_eq; [|exact IH]. f_equal.
  apply (Forall2_existsb R); [exact HF|]. intros y y' Hy. apply He; assumption.
Qed.

Lemma Permutation_flat_map_ext {A B} (g g' : A -> list B) l l' :
  Permutation l l' -> (forall x, In x l -> Permutation (g x) (g' x)) ->
  Permutation (flat_map g l) (flat_map g' l').
Proof.
  intros HP Hg. apply Permutation_trans with (flat_map g' l).
  - clear HP. induction l as [|x l IH]; simpl; [constructor|].
    apply Permutation_app; [apply Hg; left; reflexivity | apply IH; intros y Hy; apply Hg; right; exact Hy].
  - apply Permutation_flat_map. exact HP.
Qed.

Lemma Permutation_same {A} (l l' : list A) : Permutation l l' -> forall x, In x l <-> In x l'.
Proof.
  intros H x. split; apply Permutation_in; [exact H | apply Permutation_sym; exact H].
Qed.

Lemma union_nat_In x : forall b a, In x (union_nat a b) <-> In x a \/ In x b.
Proof.
  induction b as [|y b IH]; intros a; simpl; [tauto|].
  destruct (mem_nat y a) eqn:E.
  - rewrite IH. apply mem_nat_In in E. split; [tauto|]. intros [H|[<-|H]]; auto.
  - rewrite IH, in_app_iff. simpl. tauto.
Qed.

(* unfolding equations of the fuelled searches *)
Definition guar_dep (s : schema) (f b : nat) (d : dep) : bool :=
  match d with
  | DCmp l _ r =>
    existsb (fun x => Nat.eqb x b ||
                      match find_action s x with
                      | Some act => existsb (guar_cp s f b) (action_cps s act)
                      | None => false end) (operand_action l ++ operand_action r)
  | DRef r => if rkind_eqb (r_kind r) RCheckpoint then guar_cp s f b (r_id r) else false
  end.

Lemma guar_cp_S s f b c :
  guar_cp s (S f) b c =
  match find_checkpoint s c with
  | None => false
  | Some cp => match cp_gate cp with
               | Some G_OR => forallb (guar_dep s f b) (cp_deps cp)
               | _ => existsb (guar_dep s f b) (cp_deps cp)
               end
  end.
Proof. reflexivity. Qed.

Definition ment_dep (s : schema) (f : nat) (d : dep) : list nat :=
  match d with
  | DCmp l _ r => operand_action l ++ operand_action r
  | DRef r => if rkind_eqb (r_kind r) RCheckpoint then mentions s f (r_id r) else []
  end.

Lemma mentions_S s f c :
  mentions s (S f) c =
  match find_checkpoint s c with None => [] | Some cp => flat_map (ment_dep s f) (cp_deps cp) end.
Proof. reflexivity. Qed.

Definition nest_dep (s : schema) (f : nat) (stack : list nat) (d : dep) : bool :=
  match d with
  | DRef r => if rkind_eqb (r_kind r) RCheckpoint then cp_nesting_cyclic s f stack (r_id r) else false
  | _ => false
  end.

Lemma cp_nesting_cyclic_S s f stack c :
  cp_nesting_cyclic s (S f) stack c =
  if mem_nat c stack then true
  else match find_checkpoint s c with
       | None => false
       | Some cp => existsb (nest_dep s f (c :: stack)) (cp_deps cp)
       end.
Proof. reflexivity. Qed.

Lemma gate_shape_ok_sim c c' : cp_sim c c' -> gate_shape_ok c' = gate_shape_ok c.
Proof.
  intros (_ & _ & Hg & _ & Hp). unfold gate_shape_ok. rewrite Hg.
  destruct (cp_deps c) as [|d [|d2 l]].
  - apply Permutation_nil in Hp. rewrite Hp. reflexivity.
  - apply Permutation_length_1_inv in Hp. rewrite Hp. reflexivity.
  - apply Permutation_length in Hp. destruct (cp_deps c') as [|e [|e2 l2]]; simpl in Hp; try discriminate.
    destruct (cp_gate c), d, e; reflexivity.
Qed.

Lemma composite_eqb_sim c1 c1' c2 c2' : cp_sim c1 c1' -> cp_sim c2 c2' -> composite_eqb c1 c2 = composite_eqb c1' c2'.
Proof.
  intros (_ & _ & Hg1 & _ & Hp1) (_ & _ & Hg2 & _ & Hp2). unfold composite_eqb.
  rewrite Hg1, Hg2. f_equal. apply deps_same_perm; assumption.
Qed.

(* ------------------------------------------------------------------ the rules, one by one *)
Section Reordered.
Variables s s' : schema.
Hypothesis HR : deps_reordered s s'.

Lemma Hpa : parties s' = parties s. Proof. apply HR. Qed.
Lemma Hot : otypes s' = otypes s. Proof. apply HR. Qed.
Lemma Hpr : promises s' = promises s. Proof. apply HR. Qed.
Lemma Hact : actions s' = actions s. Proof. apply HR. Qed.
Lemma Hgrp : groups s' = groups s. Proof. apply HR. Qed.
Lemma Hcps : Forall2 cp_sim (checkpoints s) (checkpoints s'). Proof. apply HR. Qed.

Lemma find_type_eq i : find_type s' i = find_type s i.
Proof. unfold find_type. rewrite Hot. reflexivity. Qed.
Lemma find_promise_eq i : find_promise s' i = find_promise s i.
Proof. unfold find_promise. rewrite Hpr. reflexivity. Qed.
Lemma find_action_eq i : find_action s' i = find_action s i.
Proof. unfold find_action. rewrite Hact. reflexivity. Qed.
Lemma find_group_eq i : find_group s' i = find_group s i.
Proof. unfold find_group. rewrite Hgrp. reflexivity. Qed.
Lemma find_party_eq i : find_party s' i = find_party s i.
Proof. unfold find_party. rewrite Hpa. reflexivity. Qed.

Lemma find_cp_rel i :
  match find_checkpoint s i, find_checkpoint s' i with
  | Some c, Some c' => cp_sim c c'
  | None, None => True
  | _, _ => False
  end.
Proof.
  unfold find_checkpoint. apply (Forall2_find cp_sim cp_id cp_id); [exact Hcps|].
  intros x x' H. apply H.
Qed.

Ltac cp_cases i c c' Hs :=
  pose proof (find_cp_rel i) as Hs;
  destruct (find_checkpoint s i) as [c|], (find_checkpoint s' i) as [c'|]; try contradiction.

Lemma len_cps : length (checkpoints s') = length (checkpoints s).
Proof. symmetry. eapply Forall2_len. exact Hcps. Qed.

Lemma fuel_eq : fuel_of s' = fuel_of s.
Proof. unfold fuel_of. rewrite Hact, Hgrp, len_cps. reflexivity. Qed.

Lemma denotes_eq r : denotes s' r = denotes s r.
Proof.
  unfold denotes. destruct (r_kind r);
    rewrite ?find_party_eq, ?find_type_eq, ?find_promise_eq, ?find_action_eq, ?find_group_eq; try reflexivity.
  cp_cases (r_id r) c c' Hs; reflexivity.
Qed.

Lemma ref_ok_eq k r : ref_ok s' k r = ref_ok s k r.
Proof. unfold ref_ok. rewrite denotes_eq. reflexivity. Qed.

Lemma oref_ok_eq k r : oref_ok s' k r = oref_ok s k r.
Proof. destruct r; simpl; [apply ref_ok_eq | reflexivity]. Qed.

Lemma chain_eq f : forall g, chain s' f g = chain s f g.
Proof.
  induction f as [|f IH]; intros g; cbn [chain]; [reflexivity|].
  rewrite find_group_eq. destruct (find_group s g) as [tg|]; [|reflexivity].
  destruct (g_ctx tg) as [r|]; [|reflexivity].
  destruct (rkind_eqb (r_kind r) RGroup); [|reflexivity]. rewrite IH. reflexivity.
Qed.

Lemma scope_eq g : scope s' g = scope s g.
Proof. unfold scope. rewrite fuel_eq. apply chain_eq. Qed.

Lemma has_access_eq g g' : has_access s' g g' = has_access s g g'.
Proof. unfold has_access. rewrite scope_eq. reflexivity. Qed.

Lemma ctx_sees_eq from target : ctx_sees s' from target = ctx_sees s from target.
Proof. unfold ctx_sees. destruct target, from; try reflexivity. apply has_access_eq. Qed.

Lemma group_cps_eq g : group_cps s' g = group_cps s g.
Proof.
  unfold group_cps. destruct g as [g|]; [|reflexivity]. rewrite scope_eq.
  destruct (scope s g) as [l|]; [|reflexivity].
  apply flat_map_ext. intros g'. rewrite find_group_eq. reflexivity.
Qed.

Lemma action_cps_eq a : action_cps s' a = action_cps s a.
Proof. unfold action_cps. rewrite group_cps_eq. reflexivity. Qed.

Lemma group_eff_cps_eq g : group_eff_cps s' g = group_eff_cps s g.
Proof. unfold group_eff_cps. apply group_cps_eq. Qed.

Lemma mentions_perm f : forall c, Permutation (mentions s f c) (mentions s' f c).
Proof.
  induction f as [|f IH]; intros c; [apply Permutation_refl|].
  rewrite !mentions_S. cp_cases c cp cp' Hs; [|apply Permutation_refl].
  destruct Hs as (_ & _ & _ & _ & Hp).
  apply Permutation_flat_map_ext; [exact Hp|].
  intros d _. destruct d as [l o r|r]; simpl; [apply Permutation_refl|].
  destruct (rkind_eqb (r_kind r) RCheckpoint); [apply IH | apply Permutation_refl].
Qed.

Lemma mentions_flat_perm l : Permutation (flat_map (mentions s (fuel_of s)) l) (flat_map (mentions s' (fuel_of s')) l).
Proof.
  rewrite fuel_eq. apply Permutation_flat_map_ext; [apply Permutation_refl|]. intros x _. apply mentions_perm.
Qed.

Lemma succ_perm a : Permutation (succ s a) (succ s' a).
Proof.
  unfold succ. rewrite find_action_eq. destruct (find_action s a) as [act|]; [|apply Permutation_refl].
  rewrite action_cps_eq. apply mentions_flat_perm.
Qed.

Lemma succ_same a b : In b (succ s a) <-> In b (succ s' a).
Proof. apply Permutation_same. apply succ_perm. Qed.

Lemma cp_nesting_cyclic_eq f : forall st c, cp_nesting_cyclic s' f st c = cp_nesting_cyclic s f st c.
Proof.
  induction f as [|f IH]; intros st c; [reflexivity|].
  rewrite !cp_nesting_cyclic_S. destruct (mem_nat c st); [reflexivity|].
  cp_cases c cp cp' Hs; [|reflexivity].
  destruct Hs as (_ & _ & _ & _ & Hp).
  rewrite <- (existsb_perm _ _ _ Hp). apply existsb_ext_in.
  intros d _. destruct d as [l o r|r]; simpl; [reflexivity|].
  destruct (rkind_eqb (r_kind r) RCheckpoint); [apply IH | reflexivity].
Qed.

Lemma has_cycle_eq : has_cycle s' = has_cycle s.
Proof.
  unfold has_cycle. apply orb_eq.
  - symmetry. apply explore_all_same_edges. exact succ_same.
  - rewrite Hact, len_cps. apply existsb_ext_in. intros a _. rewrite action_cps_eq.
    apply existsb_ext_in. intros c _. apply cp_nesting_cyclic_eq.
Qed.

Lemma close_same n : forall acc acc', (forall x, In x acc <-> In x acc') ->
  forall x, In x (close s n acc) <-> In x (close s' n acc').
Proof.
  induction n as [|n IH]; intros acc acc' H; cbn [close]; [exact H|].
  apply IH. intros x. rewrite !union_nat_In, !in_flat_map. split.
  - intros [Hx|[y [Hy Hx]]]; [left; apply H; exact Hx|].
    right. exists y. split; [apply H; exact Hy | apply succ_same; exact Hx].
  - intros [Hx|[y [Hy Hx]]]; [left; apply H; exact Hx|].
    right. exists y. split; [apply H; exact Hy | apply succ_same; exact Hx].
Qed.

Lemma ancestors_same a x : In x (ancestors s a) <-> In x (ancestors s' a).
Proof.
  unfold ancestors. rewrite Hact. apply close_same. intros y. rewrite !union_nat_In.
  pose proof (succ_same a y). tauto.
Qed.

Lemma is_ancestor_eq a b : is_ancestor s' a b = is_ancestor s a b.
Proof. unfold is_ancestor. apply mem_nat_ext. intros y. symmetry. apply ancestors_same. Qed.

Lemma group_ancestors_eq x g : mem_nat x (group_ancestors s' g) = mem_nat x (group_ancestors s g).
Proof.
  apply mem_nat_ext. intros y. symmetry. unfold group_ancestors. rewrite Hact, group_eff_cps_eq.
  apply close_same. intros z. rewrite !union_nat_In.
  pose proof (Permutation_same _ _ (mentions_flat_perm (group_eff_cps s g)) z). tauto.
Qed.

Lemma guar_cp_eq b f : forall c, guar_cp s' f b c = guar_cp s f b c.
Proof.
  induction f as [|f IH]; intros c; [reflexivity|].
  rewrite !guar_cp_S. cp_cases c cp cp' Hs; [|reflexivity].
  destruct Hs as (_ & _ & Hg & _ & Hp). rewrite Hg.
  assert (Hd : forall d, guar_dep s' f b d = guar_dep s f b d).
  { intros d. destruct d as [l o r|r]; simpl.
    - apply existsb_ext_in. intros x _. apply orb_eq; [reflexivity|].
      rewrite find_action_eq. destruct (find_action s x) as [act|]; [|reflexivity].
      rewrite action_cps_eq. apply existsb_ext_in. intros c0 _. apply IH.
    - destruct (rkind_eqb (r_kind r) RCheckpoint); [apply IH | reflexivity]. }
  destruct (cp_gate cp) as [[]|];
    rewrite <- ?(existsb_perm _ _ _ Hp), <- ?(forallb_perm _ _ _ Hp);
    (apply existsb_ext_in || apply forallb_ext_in); intros d _; apply Hd.
Qed.

Lemma guaranteed_ancestor_eq a b : guaranteed_ancestor s' a b = guaranteed_ancestor s a b.
Proof.
  unfold guaranteed_ancestor. rewrite Hact, len_cps, action_cps_eq.
  apply existsb_ext_in. intros c _. apply guar_cp_eq.
Qed.

Lemma actions_on_eq p : actions_on s' p = actions_on s p.
Proof. unfold actions_on. rewrite Hact. reflexivity. Qed.

Lemma creators_eq p : creators s' p = creators s p.
Proof.
  unfold creators. rewrite actions_on_eq. apply filter_ext. intros a. f_equal.
  apply existsb_ext_in. intros b _. rewrite is_ancestor_eq. reflexivity.
Qed.

Lemma fulfiller_eq p : fulfiller s' p = fulfiller s p.
Proof. unfold fulfiller. rewrite creators_eq. reflexivity. Qed.

Lemma promise_ok_eq p : promise_ok s' p = promise_ok s p.
Proof. unfold promise_ok. rewrite creators_eq. reflexivity. Qed.

Lemma promise_context_eq p : promise_context s' p = promise_context s p.
Proof. unfold promise_context. rewrite fulfiller_eq. reflexivity. Qed.

Lemma find_type_ref_eq r : find_type_ref s' r = find_type_ref s r.
Proof. unfold find_type_ref. rewrite find_type_eq. reflexivity. Qed.

Lemma walk_eq path : forall def td, walk s' def td path = walk s def td path.
Proof.
  induction path as [|seg rest IH]; intros def td; cbn [walk]; [reflexivity|].
  destruct def as [d|]; [|reflexivity].
  destruct (find_attr d seg) as [a|]; [|reflexivity].
  destruct (at_kind a) as [t|tgt|tgt]; [reflexivity| |];
    (destruct (rkind_eqb (r_kind tgt) RType); [|reflexivity]); rewrite find_type_eq.
  - apply IH.
  - destruct (td_list td); [reflexivity | apply IH].
Qed.

Lemma resolve_path_eq tr path : resolve_path s' tr path = resolve_path s tr path.
Proof.
  unfold resolve_path. rewrite find_type_ref_eq. destruct (find_type_ref s tr); [apply walk_eq | reflexivity].
Qed.

Lemma promise_path_type_eq from p path : promise_path_type s' from p path = promise_path_type s from p path.
Proof.
  unfold promise_path_type. rewrite find_promise_eq, promise_context_eq.
  destruct (find_promise s p) as [pr|]; [|reflexivity].
  destruct (promise_context s p) as [pctx|]; [|reflexivity].
  destruct pctx as [g'|], from as [g|], path as [|seg rest]; rewrite ?has_access_eq, ?resolve_path_eq; reflexivity.
Qed.

Lemma var_type_eq f : forall g, var_type s' f g = var_type s f g.
Proof.
  induction f as [|f IH]; intros g; cbn [var_type]; [reflexivity|].
  rewrite find_group_eq. destruct (find_group s g) as [tg|]; [|reflexivity].
  destruct (g_src tg) as [p path|g' path].
  - rewrite promise_path_type_eq. reflexivity.
  - rewrite has_access_eq, IH.
    destruct (negb (Nat.eqb g' g) && has_access s g g'); [|reflexivity].
    destruct (var_type s f g') as [| |vt]; try reflexivity.
    destruct (td_item vt), (td_obj vt); try reflexivity. rewrite resolve_path_eq. reflexivity.
Qed.

Lemma operand_type_eq cctx o : operand_type s' cctx o = operand_type s cctx o.
Proof.
  destruct o as [a path|g path|l]; cbn [operand_type]; [| |reflexivity].
  - rewrite find_action_eq.
    destruct (if rkind_eqb (r_kind a) RAction then find_action s (r_id a) else None) as [act|]; [|reflexivity].
    destruct (promise_of act) as [p|]; [|reflexivity]. rewrite promise_path_type_eq. reflexivity.
  - destruct cctx as [cg|]; [|reflexivity]. rewrite has_access_eq, fuel_eq, var_type_eq.
    destruct (has_access s cg g); [|reflexivity].
    destruct (var_type s (fuel_of s) g) as [| |vt]; try reflexivity.
    destruct path as [|seg rest]; [reflexivity|].
    destruct (td_item vt), (td_obj vt); try reflexivity. rewrite resolve_path_eq. reflexivity.
Qed.

Lemma comparison_ok_eq cmp cctx l o r : comparison_ok cmp s' cctx l o r = comparison_ok cmp s cctx l o r.
Proof. unfold comparison_ok. rewrite !operand_type_eq. reflexivity. Qed.

Lemma operand_refs_ok_eq o : operand_refs_ok s' o = operand_refs_ok s o.
Proof. destruct o; simpl; [apply ref_ok_eq | reflexivity | reflexivity]. Qed.

Lemma operand_scope_ok_eq cctx o : operand_scope_ok s' cctx o = operand_scope_ok s cctx o.
Proof.
  destruct o as [a path|g path|l]; simpl; try reflexivity.
  rewrite find_action_eq. destruct (find_action s (r_id a)); [apply ctx_sees_eq | reflexivity].
Qed.

Lemma dep_ok_eq cmp c c' d : cp_ctx c' = cp_ctx c -> dep_ok cmp s' c' d = dep_ok cmp s c d.
Proof.
  intros Hc. unfold dep_ok. rewrite Hc. destruct d as [l o r|r].
  - rewrite !operand_refs_ok_eq, comparison_ok_eq, !operand_scope_ok_eq. reflexivity.
  - rewrite ref_ok_eq. apply andb_eq; [reflexivity|].
    cp_cases (r_id r) x x' Hs; [|reflexivity].
    destruct Hs as (_ & _ & _ & Hx & _). rewrite Hx. apply ctx_sees_eq.
Qed.

Lemma cp_referenced_eq c : cp_referenced s' c = cp_referenced s c.
Proof.
  unfold cp_referenced. rewrite Hact, Hgrp. apply orb_eq; [reflexivity|].
  symmetry. apply (Forall2_existsb cp_sim); [exact Hcps|].
  intros x x' Hs. apply existsb_perm. apply Hs.
Qed.

Lemma is_dependee_eq a : is_dependee s' a = is_dependee s a.
Proof.
  unfold is_dependee. symmetry. apply (Forall2_existsb cp_sim); [exact Hcps|].
  intros x x' Hs. apply existsb_perm. apply Hs.
Qed.

Lemma checkpoint_ok_eq cmp c c' : cp_sim c c' -> checkpoint_ok cmp s' c' = checkpoint_ok cmp s c.
Proof.
  intros Hs. unfold checkpoint_ok. rewrite (gate_shape_ok_sim _ _ Hs).
  destruct Hs as (Hi & _ & _ & Hc & Hp). rewrite Hi, Hc, oref_ok_eq, cp_referenced_eq.
  apply andb_eq; [|reflexivity]. apply andb_eq; [reflexivity|].
  rewrite <- (forallb_perm _ _ _ Hp). apply forallb_ext_in. intros d _. apply dep_ok_eq. exact Hc.
Qed.

Lemma depends_scope_ok_eq h d : depends_scope_ok s' h d = depends_scope_ok s h d.
Proof.
  unfold depends_scope_ok. destruct d as [r|]; [|reflexivity].
  cp_cases (r_id r) x x' Hs; [|reflexivity].
  destruct Hs as (_ & _ & _ & Hx & _). rewrite Hx. apply ctx_sees_eq.
Qed.

Lemma type_of_promise_eq p : type_of_promise s' p = type_of_promise s p.
Proof.
  unfold type_of_promise. rewrite find_promise_eq. destruct (find_promise s p); [apply find_type_ref_eq | reflexivity].
Qed.

Lemma settable_eq p : settable s' p = settable s p.
Proof. unfold settable. rewrite type_of_promise_eq, actions_on_eq. reflexivity. Qed.

Lemma action_op_ok_eq tbl a : action_op_ok tbl s' a = action_op_ok tbl s a.
Proof.
  unfold action_op_ok. destruct (promise_of a) as [p|]; [|reflexivity].
  rewrite type_of_promise_eq. destruct (type_of_promise s p) as [t|]; [|reflexivity].
  cbv zeta. apply andb_eq; [reflexivity|].
  rewrite fulfiller_eq. destruct (fulfiller s p) as [f|]; [|reflexivity].
  destruct (Nat.eqb (a_id f) (a_id a)).
  - apply andb_eq; [apply andb_eq; [reflexivity|]|].
    + apply forallb_ext_in. intros e _.
      destruct (find_attr t (fst e)) as [at_|]; [|reflexivity].
      destruct (at_kind at_) as [ft|tgt|tgt]; try reflexivity.
      rewrite ref_ok_eq, find_promise_eq. apply andb_eq; [reflexivity|].
      destruct (find_promise s (r_id (snd e))) as [q|]; [|reflexivity].
      apply andb_eq; [reflexivity|]. rewrite fulfiller_eq.
      destruct (fulfiller s (pr_id q)) as [fq|]; [apply is_ancestor_eq | reflexivity].
    + destruct (op_appends (a_op a)) as [[q path]|]; [|reflexivity].
      rewrite ref_ok_eq, fulfiller_eq, promise_path_type_eq, find_promise_eq, settable_eq, is_dependee_eq,
        promise_context_eq.
      destruct (fulfiller s (r_id q)) as [fq|]; [rewrite guaranteed_ancestor_eq|]; reflexivity.
  - rewrite is_ancestor_eq. reflexivity.
Qed.

Lemma action_ok_eq tbl a : action_ok tbl s' a = action_ok tbl s a.
Proof.
  unfold action_ok. rewrite !ref_ok_eq, !oref_ok_eq, depends_scope_ok_eq, action_op_ok_eq. reflexivity.
Qed.

Lemma group_used_eq g : group_used s' g = group_used s g.
Proof. unfold group_used. rewrite Hact, Hgrp. reflexivity. Qed.

Lemma group_ok_eq g : group_ok s' g = group_ok s g.
Proof.
  unfold group_ok.
  rewrite !oref_ok_eq, !scope_eq, depends_scope_ok_eq, group_used_eq, fuel_eq, var_type_eq.
  apply andb_eq; [apply andb_eq; [apply andb_eq; [reflexivity|]|reflexivity]|].
  - destruct (g_src g) as [p path|g' path]; [|reflexivity].
    rewrite ref_ok_eq, fulfiller_eq.
    destruct (fulfiller s (r_id p)) as [f|]; [rewrite group_ancestors_eq|]; reflexivity.
  - destruct (scope s (g_id g)) as [l|]; [|reflexivity]. f_equal.
    apply existsb_ext_in. intros g' _. rewrite find_group_eq. reflexivity.
Qed.

Lemma attr_ok_eq a : attr_ok s' a = attr_ok s a.
Proof. unfold attr_ok. destruct (at_kind a); [reflexivity | apply ref_ok_eq | apply ref_ok_eq]. Qed.

Lemma otype_ok_eq t : otype_ok s' t = otype_ok s t.
Proof.
  unfold otype_ok. apply andb_eq; [reflexivity|]. apply forallb_ext_in. intros a _. apply attr_ok_eq.
Qed.

Lemma promise_refs_ok_eq p : promise_refs_ok s' p = promise_refs_ok s p.
Proof. unfold promise_refs_ok. rewrite ref_ok_eq, oref_ok_eq. reflexivity. Qed.

Lemma unique_ids_eq : unique_ids s' = unique_ids s.
Proof.
  unfold unique_ids. rewrite Hpa, Hot, Hpr, Hact, Hgrp.
  rewrite <- (Forall2_map_eq cp_sim cp_id cp_id _ _ Hcps) by (intros x x' H; symmetry; apply H).
  rewrite <- (Forall2_map_eq cp_sim cp_alias cp_alias _ _ Hcps) by (intros x x' H; symmetry; apply H).
  rewrite <- (Forall2_nodup_by cp_sim composite_eqb _ _ Hcps)
    by (intros x x' y y' Hx Hy; apply composite_eqb_sim; assumption).
  reflexivity.
Qed.

Lemma conforms_with_eq cmp tbl : conforms_with cmp tbl s' = conforms_with cmp tbl s.
Proof.
  unfold conforms_with. rewrite unique_ids_eq, has_cycle_eq, Hot, Hpr, Hact, Hgrp.
  repeat apply andb_eq; try reflexivity.
  - apply forallb_ext_in. intros t _. apply otype_ok_eq.
  - apply forallb_ext_in. intros p _. rewrite promise_refs_ok_eq, promise_ok_eq. reflexivity.
  - apply forallb_ext_in. intros a _. apply action_ok_eq.
  - symmetry. apply (Forall2_forallb cp_sim); [exact Hcps|]. intros c c' Hs. symmetry. apply checkpoint_ok_eq. exact Hs.
  - apply forallb_ext_in. intros g _. apply group_ok_eq.
Qed.

End Reordered.

Lemma C14_dependencies_lemma : forall tbl s s', deps_reordered s s' -> conforms tbl s = conforms tbl s'.
Proof. intros tbl s s' H. unfold conforms. symmetry. apply conforms_with_eq. exact H. Qed.

End Deps.

(* ================================================================== Part F: reordering the attributes of object types *)
Module Attrs.

(* Reordering the attributes of object types never changes the verdict (property C14, inner arrays). *)
Definition otype_sim (t t' : otype) : Prop :=
  ot_id t' = ot_id t /\ ot_name t' = ot_name t /\ Permutation (ot_attrs t) (ot_attrs t').
Definition attrs_reordered (s s' : schema) : Prop :=
  parties s' = parties s /\ promises s' = promises s /\ actions s' = actions s /\ checkpoints s' = checkpoints s /\ groups s' = groups s /\
  Forall2 otype_sim (otypes s) (otypes s').

(* ------------------------------------------------------------------ generic facts on elementwise related lists *)
Definition orel {A} (R : A -> A -> Prop) (P : A -> Prop) (o o' : option A) : Prop :=
  match o, o' with
  | Some x, Some x' => R x x' /\ P x
  | None, None => True
  | _, _ => False
  end.

Lemma find_Forall2 {A} (R : A -> A -> Prop) (key : A -> nat) (i : nat) l l' :
  (forall x x', R x x' -> key x' = key x) -> Forall2 R l l' ->
  orel R (fun x => In x l) (find (fun x => Nat.eqb (key x) i) l) (find (fun x => Nat.eqb (key x) i) l').
Proof.
  intros HK H. induction H as [|x x' l l' Hx H IH]; [exact I|].
  cbn [find]. rewrite (HK _ _ Hx). destruct (Nat.eqb (key x) i).
  - split; [exact Hx | left; reflexivity].
  - unfold orel in *. destruct (find _ l), (find _ l'); try exact IH.
    destruct IH as [IH1 IH2]. split; [exact IH1 | right; exact IH2].
Qed.

Lemma forallb_Forall2 {A} (R : A -> A -> Prop) (f f' : A -> bool) l l' :
  Forall2 R l l' -> (forall x x', R x x' -> f' x' = f x) -> forallb f' l' = forallb f l.
Proof. intros H Hf. induction H as [|x x' l l' Hx H IH]; simpl; [reflexivity|]. rewrite (Hf _ _ Hx), IH. reflexivity. Qed.

Lemma map_Forall2 {A B} (R : A -> A -> Prop) (k : A -> B) l l' :
  Forall2 R l l' -> (forall x x', R x x' -> k x' = k x) -> map k l' = map k l.
Proof. intros H Hk. induction H as [|x x' l l' Hx H IH]; simpl; [reflexivity|]. rewrite (Hk _ _ Hx), IH. reflexivity. Qed.

(* unfolding equation of the guaranteed-ancestry search *)
Definition gdep (s : schema) (f b : nat) (d : dep) : bool :=
  match d with
  | DCmp l _ r =>
    existsb (fun x => Nat.eqb x b ||
                      match find_action s x with
                      | Some act => existsb (guar_cp s f b) (action_cps s act)
                      | None => false end) (operand_action l ++ operand_action r)
  | DRef r => if rkind_eqb (r_kind r) RCheckpoint then guar_cp s f b (r_id r) else false
  end.

Lemma guar_cp_S s f b c :
  guar_cp s (S f) b c =
  match find_checkpoint s c with
  | None => false
  | Some cp => match cp_gate cp with
               | Some G_OR => forallb (gdep s f b) (cp_deps cp)
               | _ => existsb (gdep s f b) (cp_deps cp)
               end
  end.
Proof. reflexivity. Qed.

Section Main.
Variables s s' : schema.
Hypothesis HR : attrs_reordered s s'.

Let Hpa : parties s' = parties s. Proof. apply HR. Qed.
Let Hpr : promises s' = promises s. Proof. apply HR. Qed.
Let Hac : actions s' = actions s. Proof. apply HR. Qed.
Let Hcp : checkpoints s' = checkpoints s. Proof. apply HR. Qed.
Let Hgr : groups s' = groups s. Proof. apply HR. Qed.
Let Hot : Forall2 otype_sim (otypes s) (otypes s'). Proof. apply HR. Qed.

(* ------------------------------------------------------------------ lookups *)
Lemma find_party_eq i : find_party s' i = find_party s i.
Proof. unfold find_party. rewrite Hpa. reflexivity. Qed.
Lemma find_promise_eq i : find_promise s' i = find_promise s i.
Proof. unfold find_promise. rewrite Hpr. reflexivity. Qed.
Lemma find_action_eq i : find_action s' i = find_action s i.
Proof. unfold find_action. rewrite Hac. reflexivity. Qed.
Lemma find_checkpoint_eq i : find_checkpoint s' i = find_checkpoint s i.
Proof. unfold find_checkpoint. rewrite Hcp. reflexivity. Qed.
Lemma find_group_eq i : find_group s' i = find_group s i.
Proof. unfold find_group. rewrite Hgr. reflexivity. Qed.

Definition trel := orel otype_sim (fun t => In t (otypes s)).

Lemma find_type_rel i : trel (find_type s i) (find_type s' i).
Proof.
  unfold trel, find_type. apply (find_Forall2 otype_sim ot_id i); [|exact Hot].
  intros x x' H. apply H.
Qed.

Lemma fuel_of_eq : fuel_of s' = fuel_of s.
Proof. unfold fuel_of. rewrite Hac, Hcp, Hgr. reflexivity. Qed.

Lemma denotes_eq r : denotes s' r = denotes s r.
Proof.
  unfold denotes. destruct (r_kind r);
    rewrite ?find_party_eq, ?find_promise_eq, ?find_action_eq, ?find_checkpoint_eq, ?find_group_eq; try reflexivity.
  pose proof (find_type_rel (r_id r)) as H. unfold trel, orel in H.
  destruct (find_type s (r_id r)), (find_type s' (r_id r)); simpl; try reflexivity; contradiction.
Qed.

Lemma ref_ok_eq k r : ref_ok s' k r = ref_ok s k r.
Proof. unfold ref_ok. rewrite denotes_eq. reflexivity. Qed.
Lemma oref_ok_eq k r : oref_ok s' k r = oref_ok s k r.
Proof. destruct r; simpl; [apply ref_ok_eq | reflexivity]. Qed.

(* ------------------------------------------------------------------ thread scopes *)
Lemma chain_eq f : forall g, chain s' f g = chain s f g.
Proof.
  induction f as [|f IH]; intros g; [reflexivity|]. cbn [chain]. rewrite find_group_eq.
  destruct (find_group s g) as [tg|]; [|reflexivity]. destruct (g_ctx tg) as [r|]; [|reflexivity].
  destruct (rkind_eqb (r_kind r) RGroup); [|reflexivity]. rewrite IH. reflexivity.
Qed.

Lemma scope_eq g : scope s' g = scope s g.
Proof. unfold scope. rewrite fuel_of_eq. apply chain_eq. Qed.
Lemma has_access_eq g g' : has_access s' g g' = has_access s g g'.
Proof. unfold has_access. rewrite scope_eq. reflexivity. Qed.
Lemma ctx_sees_eq a b : ctx_sees s' a b = ctx_sees s a b.
Proof. unfold ctx_sees. destruct b; [|reflexivity]. destruct a; [apply has_access_eq | reflexivity]. Qed.

(* ------------------------------------------------------------------ dependency structure *)
Lemma group_cps_eq g : group_cps s' g = group_cps s g.
Proof.
  unfold group_cps. destruct g as [g|]; [|reflexivity]. rewrite scope_eq.
  destruct (scope s g) as [l|]; [|reflexivity]. apply flat_map_ext. intros g'. rewrite find_group_eq. reflexivity.
Qed.
Lemma action_cps_eq a : action_cps s' a = action_cps s a.
Proof. unfold action_cps. rewrite group_cps_eq. reflexivity. Qed.
Lemma group_eff_cps_eq g : group_eff_cps s' g = group_eff_cps s g.
Proof. apply group_cps_eq. Qed.

Lemma mentions_eq f : forall c, mentions s' f c = mentions s f c.
Proof.
  induction f as [|f IH]; intros c; [reflexivity|]. cbn [mentions]. rewrite find_checkpoint_eq.
  destruct (find_checkpoint s c) as [cp|]; [|reflexivity]. apply flat_map_ext.
  intros [l o r|r]; [reflexivity|]. destruct (rkind_eqb (r_kind r) RCheckpoint); [apply IH | reflexivity].
Qed.

Lemma succ_eq a : succ s' a = succ s a.
Proof.
  unfold succ. rewrite find_action_eq. destruct (find_action s a) as [act|]; [|reflexivity].
  rewrite action_cps_eq, fuel_of_eq. apply flat_map_ext. intros c. apply mentions_eq.
Qed.

(* ------------------------------------------------------------------ cycle search *)
Lemma explore_all_eq : explore_all s' (map a_id (actions s')) [] = explore_all s (map a_id (actions s)) [].
Proof. apply explore_all_same_edges. intros a b. rewrite succ_eq. tauto. Qed.

Lemma cp_nesting_cyclic_eq f : forall st c, cp_nesting_cyclic s' f st c = cp_nesting_cyclic s f st c.
Proof.
  induction f as [|f IH]; intros st c; [reflexivity|]. cbn [cp_nesting_cyclic].
  destruct (mem_nat c st); [reflexivity|]. rewrite find_checkpoint_eq.
  destruct (find_checkpoint s c) as [cp|]; [|reflexivity]. apply existsb_ext_in.
  intros [l o r|r] _; [reflexivity|]. destruct (rkind_eqb (r_kind r) RCheckpoint); [apply IH | reflexivity].
Qed.

Lemma has_cycle_eq : has_cycle s' = has_cycle s.
Proof.
  unfold has_cycle. rewrite explore_all_eq. f_equal. rewrite Hac, Hcp. apply existsb_ext_in. intros a _.
  rewrite action_cps_eq. apply existsb_ext_in. intros c _. apply cp_nesting_cyclic_eq.
Qed.

(* ------------------------------------------------------------------ ancestry *)
Lemma close_eq r : forall acc, close s' r acc = close s r acc.
Proof.
  induction r as [|r IH]; intros acc; [reflexivity|]. cbn [close].
  rewrite (flat_map_ext _ _ succ_eq acc). apply IH.
Qed.

Lemma ancestors_eq a : ancestors s' a = ancestors s a.
Proof. unfold ancestors. rewrite Hac, succ_eq. apply close_eq. Qed.
Lemma is_ancestor_eq a b : is_ancestor s' a b = is_ancestor s a b.
Proof. unfold is_ancestor. rewrite ancestors_eq. reflexivity. Qed.
Lemma group_ancestors_eq g : group_ancestors s' g = group_ancestors s g.
Proof.
  unfold group_ancestors. rewrite Hac, group_eff_cps_eq, fuel_of_eq.
  rewrite (flat_map_ext _ _ (mentions_eq (fuel_of s)) (group_eff_cps s g)). apply close_eq.
Qed.

Lemma guar_cp_eq f b : forall c, guar_cp s' f b c = guar_cp s f b c.
Proof.
  induction f as [|f IH]; intros c; [reflexivity|]. rewrite !guar_cp_S, find_checkpoint_eq.
  destruct (find_checkpoint s c) as [cp|]; [|reflexivity].
  assert (HD : forall d, gdep s' f b d = gdep s f b d).
  { intros [l o r|r]; unfold gdep.
    - apply existsb_ext_in. intros x _. f_equal. rewrite find_action_eq.
      destruct (find_action s x) as [act|]; [|reflexivity]. rewrite action_cps_eq.
      apply existsb_ext_in. intros c' _. apply IH.
    - destruct (rkind_eqb (r_kind r) RCheckpoint); [apply IH | reflexivity]. }
  destruct (cp_gate cp) as [[]|]; try (apply existsb_ext_in; intros d _; apply HD).
  apply forallb_ext_in; intros d _; apply HD.
Qed.

Lemma guaranteed_ancestor_eq a b : guaranteed_ancestor s' a b = guaranteed_ancestor s a b.
Proof.
  unfold guaranteed_ancestor. rewrite Hac, Hcp, action_cps_eq. apply existsb_ext_in. intros c _. apply guar_cp_eq.
Qed.

(* ------------------------------------------------------------------ lifecycle *)
Lemma actions_on_eq p : actions_on s' p = actions_on s p.
Proof. unfold actions_on. rewrite Hac. reflexivity. Qed.

Lemma creators_eq p : creators s' p = creators s p.
Proof.
  unfold creators. cbv zeta. rewrite actions_on_eq. apply filter_ext. intros a. f_equal.
  apply existsb_ext_in. intros b _. rewrite is_ancestor_eq. reflexivity.
Qed.

Lemma fulfiller_eq p : fulfiller s' p = fulfiller s p.
Proof. unfold fulfiller. rewrite creators_eq. reflexivity. Qed.
Lemma promise_ok_eq p : promise_ok s' p = promise_ok s p.
Proof. unfold promise_ok. rewrite creators_eq. reflexivity. Qed.
Lemma promise_context_eq p : promise_context s' p = promise_context s p.
Proof. unfold promise_context. rewrite fulfiller_eq. reflexivity. Qed.

(* ------------------------------------------------------------------ checkpoints, scopes (type independent parts) *)
Lemma cp_referenced_eq c : cp_referenced s' c = cp_referenced s c.
Proof. unfold cp_referenced. rewrite Hac, Hgr, Hcp. reflexivity. Qed.

Lemma depends_scope_ok_eq h d : depends_scope_ok s' h d = depends_scope_ok s h d.
Proof.
  unfold depends_scope_ok. destruct d as [r|]; [|reflexivity]. rewrite find_checkpoint_eq.
  destruct (find_checkpoint s (r_id r)); [apply ctx_sees_eq | reflexivity].
Qed.

Lemma is_dependee_eq a : is_dependee s' a = is_dependee s a.
Proof. unfold is_dependee. rewrite Hcp. reflexivity. Qed.

Lemma group_used_eq g : group_used s' g = group_used s g.
Proof. unfold group_used. rewrite Hac, Hgr. reflexivity. Qed.

Lemma operand_refs_ok_eq o : operand_refs_ok s' o = operand_refs_ok s o.
Proof. destruct o; simpl; try reflexivity. apply ref_ok_eq. Qed.

Lemma operand_scope_ok_eq c o : operand_scope_ok s' c o = operand_scope_ok s c o.
Proof.
  destruct o; simpl; try reflexivity. rewrite find_action_eq.
  destruct (find_action s (r_id a)); [apply ctx_sees_eq | reflexivity].
Qed.

(* ------------------------------------------------------------------ object types: unconditional part *)
Lemma attr_ok_eq a : attr_ok s' a = attr_ok s a.
Proof. unfold attr_ok. destruct (at_kind a); rewrite ?ref_ok_eq; reflexivity. Qed.

Lemma otype_ok_sim t t' : otype_sim t t' -> otype_ok s' t' = otype_ok s t.
Proof.
  intros [_ [_ HP]]. unfold otype_ok, attr_names.
  rewrite <- (Permutation_length HP), <- (nodup_nat_perm _ _ (Permutation_map at_name HP)),
          <- (forallb_perm (attr_ok s') _ _ HP).
  f_equal. apply forallb_ext_in. intros a _. apply attr_ok_eq.
Qed.

Lemma otypes_ok_eq : forallb (otype_ok s') (otypes s') = forallb (otype_ok s) (otypes s).
Proof. apply (forallb_Forall2 otype_sim); [exact Hot | apply otype_ok_sim]. Qed.

Lemma unique_ids_eq : unique_ids s' = unique_ids s.
Proof.
  unfold unique_ids. rewrite Hpa, Hpr, Hac, Hcp, Hgr.
  rewrite (map_Forall2 otype_sim ot_id _ _ Hot), (map_Forall2 otype_sim ot_name _ _ Hot); [reflexivity | |];
    intros x x' H; apply H.
Qed.

(* ------------------------------------------------------------------ below: every declared type has duplicate-free attribute names *)
Section Declared.
Hypothesis HT : forallb (otype_ok s) (otypes s) = true.

Lemma declared_nodup t : In t (otypes s) -> NoDup (map at_name (ot_attrs t)).
Proof.
  intros Hin. rewrite forallb_forall in HT. specialize (HT t Hin). unfold otype_ok in HT.
  apply andb_true_iff in HT. destruct HT as [H1 _]. apply andb_true_iff in H1. destruct H1 as [_ H1].
  apply nodup_nat_NoDup. exact H1.
Qed.

Lemma find_attr_sim t t' n : otype_sim t t' -> In t (otypes s) -> find_attr t' n = find_attr t n.
Proof.
  intros [_ [_ HP]] Hin. unfold find_attr. apply (find_perm at_name n _ _ HP). apply declared_nodup. exact Hin.
Qed.

Lemma attr_names_sim t t' : otype_sim t t' -> Permutation (attr_names t) (attr_names t').
Proof. intros [_ [_ HP]]. unfold attr_names. apply Permutation_map. exact HP. Qed.

Lemma mem_attr_names_sim t t' n : otype_sim t t' -> mem_nat n (attr_names t') = mem_nat n (attr_names t).
Proof. intros H. symmetry. apply mem_nat_perm. apply attr_names_sim. exact H. Qed.

(* ------------------------------------------------------------------ typing of paths *)
Lemma find_type_ref_rel r : trel (find_type_ref s r) (find_type_ref s' r).
Proof. unfold find_type_ref. destruct (rkind_eqb (r_kind r) RType); [apply find_type_rel | exact I]. Qed.

Lemma walk_eq path : forall d d' td, trel d d' -> walk s' d' td path = walk s d td path.
Proof.
  induction path as [|seg rest IH]; intros d d' td Hd; [reflexivity|]. cbn [walk].
  unfold trel, orel in Hd. destruct d as [t|], d' as [t'|]; try contradiction; [|reflexivity].
  destruct Hd as [Hsim Hin]. rewrite (find_attr_sim t t' seg Hsim Hin).
  destruct (find_attr t seg) as [a|]; [|reflexivity].
  destruct (at_kind a) as [ft|tgt|tgt]; [reflexivity| |].
  - destruct (rkind_eqb (r_kind tgt) RType); [|reflexivity]. apply IH. apply find_type_rel.
  - destruct (rkind_eqb (r_kind tgt) RType); [|reflexivity]. destruct (td_list td); [reflexivity|].
    apply IH. apply find_type_rel.
Qed.

Lemma resolve_path_eq tr path : resolve_path s' tr path = resolve_path s tr path.
Proof.
  unfold resolve_path. pose proof (find_type_ref_rel tr) as H.
  destruct (find_type_ref s tr) as [t|] eqn:E, (find_type_ref s' tr) as [t'|] eqn:E'; try contradiction; [|reflexivity].
  apply walk_eq. exact H.
Qed.

Lemma promise_path_type_eq from p path : promise_path_type s' from p path = promise_path_type s from p path.
Proof.
  unfold promise_path_type. rewrite find_promise_eq, promise_context_eq.
  destruct (find_promise s p) as [pr|]; [|reflexivity].
  destruct (promise_context s p) as [pctx|]; [|reflexivity]. cbv zeta.
  destruct pctx as [g'|], from as [g|]; rewrite ?has_access_eq; destruct path; rewrite ?resolve_path_eq; reflexivity.
Qed.

Lemma var_type_eq f : forall g, var_type s' f g = var_type s f g.
Proof.
  induction f as [|f IH]; intros g; [reflexivity|]. cbn [var_type]. rewrite find_group_eq.
  destruct (find_group s g) as [tg|]; [|reflexivity].
  destruct (g_src tg) as [p path|g' path].
  - destruct (rkind_eqb (r_kind p) RPromise); rewrite ?promise_path_type_eq; reflexivity.
  - rewrite has_access_eq. destruct (negb (Nat.eqb g' g) && has_access s g g'); [|reflexivity].
    rewrite IH. destruct (var_type s f g') as [| |vt]; try reflexivity.
    destruct (td_item vt), (td_obj vt); rewrite ?resolve_path_eq; reflexivity.
Qed.

Lemma operand_type_eq cctx o : operand_type s' cctx o = operand_type s cctx o.
Proof.
  destruct o as [a path|g path|l]; cbn [operand_type]; [| |reflexivity].
  - destruct (rkind_eqb (r_kind a) RAction); [|reflexivity]. rewrite find_action_eq.
    destruct (find_action s (r_id a)) as [act|]; [|reflexivity].
    destruct (promise_of act); [|reflexivity]. rewrite promise_path_type_eq. reflexivity.
  - destruct cctx as [cg|]; [|reflexivity]. rewrite has_access_eq.
    destruct (has_access s cg g); [|reflexivity]. rewrite fuel_of_eq, var_type_eq.
    destruct (var_type s (fuel_of s) g) as [| |vt]; try reflexivity.
    destruct path; [reflexivity|]. destruct (td_item vt), (td_obj vt); rewrite ?resolve_path_eq; reflexivity.
Qed.

Lemma comparison_ok_eq cmp cctx l o r : comparison_ok cmp s' cctx l o r = comparison_ok cmp s cctx l o r.
Proof. unfold comparison_ok. rewrite !operand_type_eq. reflexivity. Qed.

Lemma dep_ok_eq cmp cp d : dep_ok cmp s' cp d = dep_ok cmp s cp d.
Proof.
  unfold dep_ok. cbv zeta. destruct d as [l o r|c].
  - rewrite !operand_refs_ok_eq, comparison_ok_eq, !operand_scope_ok_eq. reflexivity.
  - rewrite ref_ok_eq, find_checkpoint_eq. destruct (find_checkpoint s (r_id c)); rewrite ?ctx_sees_eq; reflexivity.
Qed.

Lemma checkpoint_ok_eq cmp cp : checkpoint_ok cmp s' cp = checkpoint_ok cmp s cp.
Proof.
  unfold checkpoint_ok. rewrite oref_ok_eq, cp_referenced_eq. f_equal. f_equal.
  apply forallb_ext_in. intros d _. apply dep_ok_eq.
Qed.

(* ------------------------------------------------------------------ operations *)
Lemma type_of_promise_rel p : trel (type_of_promise s p) (type_of_promise s' p).
Proof.
  unfold type_of_promise. rewrite find_promise_eq. destruct (find_promise s p); [apply find_type_ref_rel | exact I].
Qed.

Lemma settable_by_sim t t' op : otype_sim t t' -> In t (otypes s) -> Permutation (settable_by t op) (settable_by t' op).
Proof.
  intros Hsim Hin. unfold settable_by. apply Permutation_app; [|apply Permutation_app].
  - destruct (op_incl op) as [[l|]|[l|]].
    + rewrite (filter_ext _ (fun n => mem_nat n (attr_names t)) (fun n => mem_attr_names_sim t t' n Hsim) l).
      apply Permutation_refl.
    + apply Permutation_refl.
    + apply Permutation_filter. apply attr_names_sim. exact Hsim.
    + apply attr_names_sim. exact Hsim.
  - rewrite (filter_ext _ (fun n => mem_nat n (attr_names t)) (fun n => mem_attr_names_sim t t' n Hsim)).
    apply Permutation_refl.
  - erewrite filter_ext; [apply Permutation_refl|]. intros n. cbv beta.
    rewrite (find_attr_sim t t' n Hsim Hin). reflexivity.
Qed.

Lemma settable_mem x q : mem_nat x (settable s' q) = mem_nat x (settable s q).
Proof.
  apply mem_nat_ext. intros y. unfold settable. pose proof (type_of_promise_rel q) as H.
  unfold trel, orel in H.
  destruct (type_of_promise s q) as [t|], (type_of_promise s' q) as [t'|]; try contradiction; [|tauto].
  destruct H as [Hsim Hin]. rewrite actions_on_eq, !in_flat_map.
  split; intros [a [Ha Hy]]; exists a; (split; [exact Ha|]).
  - eapply Permutation_in; [apply Permutation_sym, settable_by_sim; eassumption | exact Hy].
  - eapply Permutation_in; [apply settable_by_sim; eassumption | exact Hy].
Qed.

Lemma action_op_ok_eq tbl a : action_op_ok tbl s' a = action_op_ok tbl s a.
Proof.
  unfold action_op_ok. destruct (promise_of a) as [p|]; [|reflexivity].
  pose proof (type_of_promise_rel p) as H. unfold trel, orel in H.
  destruct (type_of_promise s p) as [t|], (type_of_promise s' p) as [t'|]; try contradiction; [|reflexivity].
  destruct H as [Hsim Hin]. cbv zeta. rewrite fulfiller_eq. f_equal.
  - apply forallb_ext_in. intros n _. apply mem_attr_names_sim. exact Hsim.
  - destruct (fulfiller s p) as [f|]; [|reflexivity]. destruct (Nat.eqb (a_id f) (a_id a)).
    + f_equal; [f_equal|].
      * apply forallb_ext_in. intros d _. rewrite (find_attr_sim t t' (fst d) Hsim Hin). reflexivity.
      * apply forallb_ext_in. intros e _. rewrite (find_attr_sim t t' (fst e) Hsim Hin).
        destruct (find_attr t (fst e)) as [at_|]; [|reflexivity].
        destruct (at_kind at_) as [ft|tgt|tgt]; try reflexivity.
        rewrite ref_ok_eq, find_promise_eq. destruct (find_promise s (r_id (snd e))) as [q|]; [|reflexivity].
        rewrite fulfiller_eq. destruct (fulfiller s (pr_id q)) as [fq|]; [|reflexivity].
        rewrite is_ancestor_eq. reflexivity.
      * destruct (op_appends (a_op a)) as [[q path]|]; [|reflexivity].
        rewrite ref_ok_eq, fulfiller_eq, promise_path_type_eq, settable_mem, is_dependee_eq, promise_context_eq, find_promise_eq.
        destruct (fulfiller s (r_id q)) as [fq|]; rewrite ?guaranteed_ancestor_eq; reflexivity.
    + rewrite is_ancestor_eq. reflexivity.
Qed.

Lemma action_ok_eq tbl a : action_ok tbl s' a = action_ok tbl s a.
Proof.
  unfold action_ok. rewrite !ref_ok_eq, !oref_ok_eq, depends_scope_ok_eq, action_op_ok_eq. reflexivity.
Qed.

(* ------------------------------------------------------------------ thread groups *)
Lemma group_ok_eq g : group_ok s' g = group_ok s g.
Proof.
  unfold group_ok.
  rewrite !oref_ok_eq, !scope_eq, depends_scope_ok_eq, group_used_eq, fuel_of_eq, var_type_eq.
  destruct (g_src g) as [p path|g' path]; rewrite ?ref_ok_eq, ?fulfiller_eq, ?group_ancestors_eq;
    (destruct (scope s (g_id g)) as [l|]; [|reflexivity]); f_equal; f_equal;
    apply existsb_ext_in; intros h _; rewrite find_group_eq; reflexivity.
Qed.

End Declared.

(* ------------------------------------------------------------------ the verdict *)
Lemma conforms_with_eq cmp tbl : conforms_with cmp tbl s = conforms_with cmp tbl s'.
Proof.
  unfold conforms_with. rewrite unique_ids_eq, otypes_ok_eq.
  destruct (unique_ids s); [|reflexivity].
  destruct (forallb (otype_ok s) (otypes s)) eqn:HT; [|reflexivity].
  rewrite has_cycle_eq, Hpr, Hac, Hcp, Hgr. cbn [andb].
  f_equal. f_equal; [f_equal; [f_equal|]|]; apply forallb_ext_in; intros x _; symmetry.
  - rewrite promise_ok_eq. unfold promise_refs_ok. rewrite ref_ok_eq, oref_ok_eq. reflexivity.
  - apply action_ok_eq. exact HT.
  - apply checkpoint_ok_eq. exact HT.
  - apply group_ok_eq. exact HT.
Qed.

End Main.

Lemma C14_attributes_lemma : forall tbl s s', attrs_reordered s s' -> conforms tbl s = conforms tbl s'.
Proof. intros tbl s s' H. unfold conforms. apply conforms_with_eq. exact H. Qed.

End Attrs.

(* ================================================================== Part G: reordering include/exclude lists and milestones *)
(* C14, inner lists of actions: reordering an action's include/exclude list and its milestones never
   changes the verdict.  The top-level order of every collection is unchanged, so all first-match lookups
   and [hd_error (creators ..)] are undisturbed and the result holds without any acceptance hypothesis. *)
Module Incl.

Definition incl_sim (i i' : inclusion) : Prop :=
  match i, i' with
  | Include None, Include None => True
  | Include (Some l), Include (Some l') => Permutation l l'
  | Exclude None, Exclude None => True
  | Exclude (Some l), Exclude (Some l') => Permutation l l'
  | _, _ => False
  end.
Definition action_sim (a a' : action) : Prop :=
  a_id a' = a_id a /\ a_name a' = a_name a /\ a_party a' = a_party a /\ a_promise a' = a_promise a /\ a_ctx a' = a_ctx a /\ a_dep a' = a_dep a /\
  incl_sim (op_incl (a_op a)) (op_incl (a_op a')) /\ op_defaults (a_op a') = op_defaults (a_op a) /\ op_edges (a_op a') = op_edges (a_op a) /\
  op_appends (a_op a') = op_appends (a_op a) /\ Permutation (a_milestones a) (a_milestones a').
Definition incl_reordered (s s' : schema) : Prop :=
  parties s' = parties s /\ otypes s' = otypes s /\ promises s' = promises s /\ checkpoints s' = checkpoints s /\ groups s' = groups s /\
  Forall2 action_sim (actions s) (actions s').

(* ------------------------------------------------------------------ generic list lemmas *)
Inductive orel {A} (R : A -> A -> Prop) : option A -> option A -> Prop :=
  | orel_none : orel R None None
  | orel_some x x' : R x x' -> orel R (Some x) (Some x').

Lemma forallb_ext' {A} (p q : A -> bool) l : (forall x, p x = q x) -> forallb p l = forallb q l.
Proof. intros H; induction l as [|a l IH]; simpl; [reflexivity|]. rewrite H, IH. reflexivity. Qed.

Lemma existsb_ext' {A} (p q : A -> bool) l : (forall x, p x = q x) -> existsb p l = existsb q l.
Proof. intros H; induction l as [|a l IH]; simpl; [reflexivity|]. rewrite H, IH. reflexivity. Qed.

Lemma filter_ext' {A} (p q : A -> bool) l : (forall x, p x = q x) -> filter p l = filter q l.
Proof. intros H; induction l as [|a l IH]; simpl; [reflexivity|]. rewrite H, IH. reflexivity. Qed.

Lemma flat_map_ext' {A B} (h k : A -> list B) l : (forall x, h x = k x) -> flat_map h l = flat_map k l.
Proof. intros H; induction l as [|a l IH]; simpl; [reflexivity|]. rewrite H, IH. reflexivity. Qed.

Section F2.
Context {A : Type} (R : A -> A -> Prop).

Lemma F2_find (p p' : A -> bool) l l' :
  Forall2 R l l' -> (forall x x', R x x' -> p' x' = p x) -> orel R (find p l) (find p' l').
Proof.
  induction 1 as [|x x' l l' Hx Hl IH]; intros Hp; simpl; [constructor|].
  rewrite (Hp _ _ Hx). destruct (p x); [constructor; exact Hx | apply IH; exact Hp].
Qed.

Lemma F2_forallb (p p' : A -> bool) l l' :
  Forall2 R l l' -> (forall x x', R x x' -> p' x' = p x) -> forallb p' l' = forallb p l.
Proof.
  induction 1 as [|x x' l l' Hx Hl IH]; intros Hp; simpl; [reflexivity|].
  rewrite (Hp _ _ Hx), (IH Hp). reflexivity.
Qed.

Lemma F2_existsb (p p' : A -> bool) l l' :
  Forall2 R l l' -> (forall x x', R x x' -> p' x' = p x) -> existsb p' l' = existsb p l.
Proof.
  induction 1 as [|x x' l l' Hx Hl IH]; intros Hp; simpl; [reflexivity|].
  rewrite (Hp _ _ Hx), (IH Hp). reflexivity.
Qed.

Lemma F2_map {B} (f f' : A -> B) l l' :
  Forall2 R l l' -> (forall x x', R x x' -> f' x' = f x) -> map f' l' = map f l.
Proof.
  induction 1 as [|x x' l l' Hx Hl IH]; intros Hp; simpl; [reflexivity|].
  rewrite (Hp _ _ Hx), (IH Hp). reflexivity.
Qed.

Lemma F2_filter (p p' : A -> bool) l l' :
  Forall2 R l l' -> (forall x x', R x x' -> p' x' = p x) -> Forall2 R (filter p l) (filter p' l').
Proof.
  induction 1 as [|x x' l l' Hx Hl IH]; intros Hp; simpl; [constructor|].
  rewrite (Hp _ _ Hx). destruct (p x); [constructor; [exact Hx | apply IH; exact Hp] | apply IH; exact Hp].
Qed.

Lemma F2_flat_map_perm {B} (f f' : A -> list B) l l' :
  Forall2 R l l' -> (forall x x', R x x' -> Permutation (f x) (f' x')) -> Permutation (flat_map f l) (flat_map f' l').
Proof.
  induction 1 as [|x x' l l' Hx Hl IH]; intros Hp; simpl; [constructor|].
  apply Permutation_app; [apply Hp; exact Hx | apply IH; exact Hp].
Qed.
Lemma F2_length l l' : Forall2 R l l' -> length l' = length l.
Proof. induction 1 as [|x x' l l' Hx Hl IH]; simpl; [reflexivity|]. rewrite IH. reflexivity. Qed.
End F2.

(* ------------------------------------------------------------------ projections of [action_sim] *)
Lemma sim_id {a a'} : action_sim a a' -> a_id a' = a_id a.
Proof. intros H; apply H. Qed.
Lemma sim_name {a a'} : action_sim a a' -> a_name a' = a_name a.
Proof. intros H; apply H. Qed.
Lemma sim_party {a a'} : action_sim a a' -> a_party a' = a_party a.
Proof. intros H; apply H. Qed.
Lemma sim_promise {a a'} : action_sim a a' -> a_promise a' = a_promise a.
Proof. intros H; apply H. Qed.
Lemma sim_ctx {a a'} : action_sim a a' -> a_ctx a' = a_ctx a.
Proof. intros H; apply H. Qed.
Lemma sim_dep {a a'} : action_sim a a' -> a_dep a' = a_dep a.
Proof. intros H; apply H. Qed.
Lemma sim_incl {a a'} : action_sim a a' -> incl_sim (op_incl (a_op a)) (op_incl (a_op a')).
Proof. intros H; apply H. Qed.
Lemma sim_defaults {a a'} : action_sim a a' -> op_defaults (a_op a') = op_defaults (a_op a).
Proof. intros H; apply H. Qed.
Lemma sim_edges {a a'} : action_sim a a' -> op_edges (a_op a') = op_edges (a_op a).
Proof. intros H; apply H. Qed.
Lemma sim_appends {a a'} : action_sim a a' -> op_appends (a_op a') = op_appends (a_op a).
Proof. intros H; apply H. Qed.
Lemma sim_ms {a a'} : action_sim a a' -> Permutation (a_milestones a) (a_milestones a').
Proof. intros H; apply H. Qed.

Lemma promise_of_sim {a a'} : action_sim a a' -> promise_of a' = promise_of a.
Proof. intros H. unfold promise_of. rewrite (sim_promise H). reflexivity. Qed.

Lemma incl_list_perm i i' : incl_sim i i' -> Permutation (incl_list i) (incl_list i').
Proof.
  destruct i as [[l|]|[l|]], i' as [[l'|]|[l'|]]; simpl; intros H; try contradiction; try exact H; constructor.
Qed.

Lemma settable_by_perm t op op' :
  incl_sim (op_incl op) (op_incl op') -> op_defaults op' = op_defaults op -> op_edges op' = op_edges op ->
  Permutation (settable_by t op) (settable_by t op').
Proof.
  intros Hi Hd He. unfold settable_by. rewrite Hd, He. apply Permutation_app_tail.
  destruct (op_incl op) as [[l|]|[l|]], (op_incl op') as [[l'|]|[l'|]]; simpl in Hi; try contradiction.
  - apply Permutation_filter. exact Hi.
  - apply Permutation_refl.
  - rewrite (filter_ext' (fun n => negb (mem_nat n l)) (fun n => negb (mem_nat n l'))); [apply Permutation_refl|].
    intros n. f_equal. apply mem_nat_perm. exact Hi.
  - apply Permutation_refl.
Qed.

Local Arguments fuel_of : simpl never.
Local Arguments find_type : simpl never.
Local Arguments find_promise : simpl never.
Local Arguments find_action : simpl never.
Local Arguments find_checkpoint : simpl never.
Local Arguments find_group : simpl never.
Local Arguments find_party : simpl never.
Local Arguments find_attr : simpl never.
Local Arguments mem_nat : simpl never.

Section Sim.
Variables s s' : schema.
Hypothesis HR : incl_reordered s s'.

Lemma parties_eq : parties s' = parties s. Proof. apply HR. Qed.
Lemma otypes_eq : otypes s' = otypes s. Proof. apply HR. Qed.
Lemma promises_eq : promises s' = promises s. Proof. apply HR. Qed.
Lemma checkpoints_eq : checkpoints s' = checkpoints s. Proof. apply HR. Qed.
Lemma groups_eq : groups s' = groups s. Proof. apply HR. Qed.
Lemma actions_sim : Forall2 action_sim (actions s) (actions s'). Proof. apply HR. Qed.

Lemma acts_len : length (actions s') = length (actions s).
Proof. exact (F2_length _ _ _ actions_sim). Qed.

Lemma ids_eq : map a_id (actions s') = map a_id (actions s).
Proof. apply (F2_map action_sim); [exact actions_sim|]. intros a a' Ha. exact (sim_id Ha). Qed.
Lemma names_eq : map a_name (actions s') = map a_name (actions s).
Proof. apply (F2_map action_sim); [exact actions_sim|]. intros a a' Ha. exact (sim_name Ha). Qed.

Lemma fuel_of_eq : fuel_of s' = fuel_of s.
Proof. unfold fuel_of. rewrite acts_len, checkpoints_eq, groups_eq. reflexivity. Qed.

(* ------------------------------------------------------------------ lookups *)
Lemma find_party_eq i : find_party s' i = find_party s i.
Proof. unfold find_party. rewrite parties_eq. reflexivity. Qed.
Lemma find_type_eq i : find_type s' i = find_type s i.
Proof. unfold find_type. rewrite otypes_eq. reflexivity. Qed.
Lemma find_promise_eq i : find_promise s' i = find_promise s i.
Proof. unfold find_promise. rewrite promises_eq. reflexivity. Qed.
Lemma find_checkpoint_eq i : find_checkpoint s' i = find_checkpoint s i.
Proof. unfold find_checkpoint. rewrite checkpoints_eq. reflexivity. Qed.
Lemma find_group_eq i : find_group s' i = find_group s i.
Proof. unfold find_group. rewrite groups_eq. reflexivity. Qed.
Lemma find_action_sim i : orel action_sim (find_action s i) (find_action s' i).
Proof.
  unfold find_action. apply F2_find; [exact actions_sim|]. intros a a' Ha. rewrite (sim_id Ha). reflexivity.
Qed.

Lemma denotes_eq rf : denotes s' rf = denotes s rf.
Proof.
  unfold denotes. destruct (r_kind rf).
  - rewrite find_party_eq. reflexivity.
  - rewrite find_type_eq. reflexivity.
  - rewrite find_promise_eq. reflexivity.
  - destruct (find_action_sim (r_id rf)); reflexivity.
  - rewrite find_checkpoint_eq. reflexivity.
  - rewrite find_group_eq. reflexivity.
Qed.

Lemma ref_ok_eq k rf : ref_ok s' k rf = ref_ok s k rf.
Proof. unfold ref_ok. rewrite denotes_eq. reflexivity. Qed.
Lemma oref_ok_eq k o : oref_ok s' k o = oref_ok s k o.
Proof. unfold oref_ok. destruct o; [apply ref_ok_eq|reflexivity]. Qed.

(* ------------------------------------------------------------------ scopes *)
Lemma chain_eq fuel : forall g, chain s' fuel g = chain s fuel g.
Proof.
  induction fuel as [|fuel IH]; intro g; [reflexivity|].
  cbn [chain]. rewrite find_group_eq. destruct (find_group s g) as [tg|]; [|reflexivity].
  destruct (g_ctx tg) as [rf|]; [|reflexivity]. rewrite IH. reflexivity.
Qed.

Lemma scope_eq g : scope s' g = scope s g.
Proof. unfold scope. rewrite fuel_of_eq. apply chain_eq. Qed.
Lemma has_access_eq g g' : has_access s' g g' = has_access s g g'.
Proof. unfold has_access. rewrite scope_eq. reflexivity. Qed.
Lemma ctx_sees_eq a b : ctx_sees s' a b = ctx_sees s a b.
Proof. unfold ctx_sees. destruct b; [|reflexivity]. destruct a; [apply has_access_eq|reflexivity]. Qed.

Lemma group_cps_eq g : group_cps s' g = group_cps s g.
Proof.
  unfold group_cps. destruct g as [g|]; [|reflexivity]. rewrite scope_eq.
  destruct (scope s g) as [l|]; [|reflexivity]. apply flat_map_ext'. intros g'.
  rewrite find_group_eq. reflexivity.
Qed.

Lemma action_cps_sim {a a'} : action_sim a a' -> action_cps s' a' = action_cps s a.
Proof. intros Ha. unfold action_cps. rewrite (sim_dep Ha), (sim_ctx Ha), group_cps_eq. reflexivity. Qed.

Lemma mentions_eq fuel : forall c, mentions s' fuel c = mentions s fuel c.
Proof.
  induction fuel as [|fuel IH]; intro c; [reflexivity|].
  cbn [mentions]. rewrite find_checkpoint_eq. destruct (find_checkpoint s c) as [cp|]; [|reflexivity].
  apply flat_map_ext'. intros [l o rr|c0]; [reflexivity|]. rewrite IH. reflexivity.
Qed.

Lemma succ_eq a : succ s' a = succ s a.
Proof.
  unfold succ. destruct (find_action_sim a) as [|act act' Hact]; [reflexivity|].
  rewrite (action_cps_sim Hact), fuel_of_eq. apply flat_map_ext'. intros c. apply mentions_eq.
Qed.

(* ------------------------------------------------------------------ cycle search *)
Lemma explore_eq fuel : forall a v p, explore s' fuel a v p = explore s fuel a v p.
Proof.
  induction fuel as [|fuel IH]; intros a v p; [reflexivity|].
  cbn [explore]. destruct (mem_nat a p); [reflexivity|]. destruct (mem_nat a v); [reflexivity|].
  rewrite succ_eq. generalize (a :: v). generalize (succ s a).
  induction l as [|b l IHl]; intros vis; [reflexivity|].
  rewrite IH. destruct (explore s fuel b vis (a :: p)) as [[|] v0]; [reflexivity|apply IHl].
Qed.

Lemma explore_all_eq roots : forall v, explore_all s' roots v = explore_all s roots v.
Proof.
  induction roots as [|a roots IH]; intro v; [reflexivity|].
  cbn [explore_all]. rewrite acts_len, explore_eq.
  destruct (explore s (S (length (actions s))) a v []) as [[|] v0]; [reflexivity|apply IH].
Qed.

Lemma cp_nesting_cyclic_eq fuel : forall st c, cp_nesting_cyclic s' fuel st c = cp_nesting_cyclic s fuel st c.
Proof.
  induction fuel as [|fuel IH]; intros st c; [reflexivity|].
  cbn [cp_nesting_cyclic]. destruct (mem_nat c st); [reflexivity|].
  rewrite find_checkpoint_eq. destruct (find_checkpoint s c) as [cp|]; [|reflexivity].
  apply existsb_ext'. intros [l o rr|c0]; [reflexivity|]. rewrite IH. reflexivity.
Qed.

Lemma has_cycle_eq : has_cycle s' = has_cycle s.
Proof.
  unfold has_cycle. rewrite ids_eq, explore_all_eq. f_equal.
  apply (F2_existsb action_sim); [exact actions_sim|]. intros a a' Ha.
  rewrite (action_cps_sim Ha), checkpoints_eq. apply existsb_ext'. intros c. apply cp_nesting_cyclic_eq.
Qed.

(* ------------------------------------------------------------------ ancestry *)
Lemma close_eq n : forall acc, close s' n acc = close s n acc.
Proof.
  induction n as [|n IH]; intro acc; [reflexivity|].
  cbn [close]. rewrite IH. rewrite (flat_map_ext' (succ s') (succ s) acc succ_eq). reflexivity.
Qed.

Lemma ancestors_eq a : ancestors s' a = ancestors s a.
Proof. unfold ancestors. rewrite acts_len, close_eq, succ_eq. reflexivity. Qed.
Lemma is_ancestor_eq a b : is_ancestor s' a b = is_ancestor s a b.
Proof. unfold is_ancestor. rewrite ancestors_eq. reflexivity. Qed.

Lemma group_ancestors_eq g : group_ancestors s' g = group_ancestors s g.
Proof.
  unfold group_ancestors, group_eff_cps. rewrite acts_len, close_eq, group_cps_eq, fuel_of_eq.
  rewrite (flat_map_ext' (mentions s' (fuel_of s)) (mentions s (fuel_of s)) _ (mentions_eq _)). reflexivity.
Qed.

Lemma guar_cp_eq fuel : forall b c, guar_cp s' fuel b c = guar_cp s fuel b c.
Proof.
  induction fuel as [|fuel IH]; intros b c; [reflexivity|].
  cbn [guar_cp]. rewrite find_checkpoint_eq. destruct (find_checkpoint s c) as [cp|]; [|reflexivity].
  cbv zeta.
  assert (Hd : forall d,
    match d with
    | DCmp l _ r0 =>
        existsb (fun x => Nat.eqb x b || match find_action s' x with
                                         | Some act => existsb (guar_cp s' fuel b) (action_cps s' act)
                                         | None => false end) (operand_action l ++ operand_action r0)
    | DRef r0 => if rkind_eqb (r_kind r0) RCheckpoint then guar_cp s' fuel b (r_id r0) else false
    end =
    match d with
    | DCmp l _ r0 =>
        existsb (fun x => Nat.eqb x b || match find_action s x with
                                         | Some act => existsb (guar_cp s fuel b) (action_cps s act)
                                         | None => false end) (operand_action l ++ operand_action r0)
    | DRef r0 => if rkind_eqb (r_kind r0) RCheckpoint then guar_cp s fuel b (r_id r0) else false
    end).
  { intros [l o rr|c0].
    - apply existsb_ext'. intros x. f_equal.
      destruct (find_action_sim x) as [|act act' Hact]; [reflexivity|].
      rewrite (action_cps_sim Hact). apply existsb_ext'. intros y. apply IH.
    - rewrite IH. reflexivity. }
  destruct (cp_gate cp) as [[]|]; first [apply forallb_ext' | apply existsb_ext']; exact Hd.
Qed.

Lemma guaranteed_ancestor_sim {a a'} b : action_sim a a' -> guaranteed_ancestor s' a' b = guaranteed_ancestor s a b.
Proof.
  intros Ha. unfold guaranteed_ancestor. rewrite (action_cps_sim Ha), acts_len, checkpoints_eq.
  apply existsb_ext'. intros c. apply guar_cp_eq.
Qed.

(* ------------------------------------------------------------------ lifecycle *)
Lemma actions_on_sim p : Forall2 action_sim (actions_on s p) (actions_on s' p).
Proof.
  unfold actions_on. apply F2_filter; [exact actions_sim|]. intros a a' Ha. rewrite (promise_of_sim Ha). reflexivity.
Qed.

Lemma creators_sim p : Forall2 action_sim (creators s p) (creators s' p).
Proof.
  unfold creators. cbv zeta. apply F2_filter; [apply actions_on_sim|]. intros a a' Ha. f_equal.
  apply (F2_existsb action_sim); [apply actions_on_sim|]. intros b b' Hb.
  rewrite (sim_id Ha), (sim_id Hb), is_ancestor_eq. reflexivity.
Qed.

Lemma fulfiller_sim p : orel action_sim (fulfiller s p) (fulfiller s' p).
Proof. unfold fulfiller. destruct (creators_sim p); simpl; constructor. assumption. Qed.

Lemma promise_context_eq p : promise_context s' p = promise_context s p.
Proof.
  unfold promise_context. destruct (fulfiller_sim p) as [|f f' Hf]; [reflexivity|]. rewrite (sim_ctx Hf). reflexivity.
Qed.

Lemma promise_ok_eq p : promise_ok s' p = promise_ok s p.
Proof.
  unfold promise_ok. destruct (creators_sim (pr_id p)) as [|f f' l l' Hf Hl]; [reflexivity|].
  destruct Hl; [|reflexivity]. rewrite (sim_ctx Hf). reflexivity.
Qed.

Lemma promise_refs_ok_eq p : promise_refs_ok s' p = promise_refs_ok s p.
Proof. unfold promise_refs_ok. rewrite ref_ok_eq, oref_ok_eq. reflexivity. Qed.

(* ------------------------------------------------------------------ typing *)
Lemma find_type_ref_eq rf : find_type_ref s' rf = find_type_ref s rf.
Proof. unfold find_type_ref. rewrite find_type_eq. reflexivity. Qed.

Lemma walk_eq path : forall def td, walk s' def td path = walk s def td path.
Proof.
  induction path as [|seg rest IH]; intros def td; [reflexivity|].
  cbn [walk]. destruct def as [d|]; [|reflexivity].
  destruct (find_attr d seg) as [a|]; [|reflexivity].
  destruct (at_kind a) as [t|tgt|tgt]; [reflexivity| |]; rewrite find_type_eq, IH; reflexivity.
Qed.

Lemma resolve_path_eq tr path : resolve_path s' tr path = resolve_path s tr path.
Proof.
  unfold resolve_path. rewrite find_type_ref_eq. destruct (find_type_ref s tr) as [d|]; [|reflexivity].
  apply walk_eq.
Qed.

Lemma promise_path_type_eq from p path : promise_path_type s' from p path = promise_path_type s from p path.
Proof.
  unfold promise_path_type. rewrite find_promise_eq, promise_context_eq.
  destruct (find_promise s p) as [pr|]; [|reflexivity].
  destruct (promise_context s p) as [pctx|]; [|reflexivity].
  assert (Hm : match pctx with
               | Some g' => negb match from with Some g => has_access s' g g' | None => false end
               | None => false end =
               match pctx with
               | Some g' => negb match from with Some g => has_access s g g' | None => false end
               | None => false end).
  { destruct pctx; [|reflexivity]. destruct from; [|reflexivity]. rewrite has_access_eq. reflexivity. }
  rewrite Hm. destruct path as [|n path]; [reflexivity|]. rewrite resolve_path_eq. reflexivity.
Qed.

Lemma var_type_eq fuel : forall g, var_type s' fuel g = var_type s fuel g.
Proof.
  induction fuel as [|fuel IH]; intro g; [reflexivity|].
  cbn [var_type]. rewrite find_group_eq. destruct (find_group s g) as [tg|]; [|reflexivity].
  cbv zeta. destruct (g_src tg) as [p path|g' path].
  - rewrite promise_path_type_eq. reflexivity.
  - rewrite has_access_eq, IH.
    destruct (negb (Nat.eqb g' g) && has_access s g g'); [|reflexivity].
    destruct (var_type s fuel g') as [| |vt]; try reflexivity.
    destruct (td_item vt); destruct (td_obj vt); rewrite ?resolve_path_eq; reflexivity.
Qed.

Lemma operand_type_eq cctx o : operand_type s' cctx o = operand_type s cctx o.
Proof.
  unfold operand_type. destruct o as [a path|g path|l]; [| |reflexivity].
  - destruct (rkind_eqb (r_kind a) RAction); [|reflexivity].
    destruct (find_action_sim (r_id a)) as [|act act' Hact]; [reflexivity|].
    rewrite (promise_of_sim Hact). destruct (promise_of act); [|reflexivity].
    rewrite promise_path_type_eq. reflexivity.
  - destruct cctx as [cg|]; [|reflexivity]. rewrite has_access_eq, fuel_of_eq, var_type_eq.
    destruct (has_access s cg g); [|reflexivity].
    destruct (var_type s (fuel_of s) g) as [| |vt]; try reflexivity.
    destruct (td_item vt); destruct (td_obj vt); rewrite ?resolve_path_eq; reflexivity.
Qed.

(* ------------------------------------------------------------------ checkpoints *)
Lemma comparison_ok_eq cmp cctx l o rr : comparison_ok cmp s' cctx l o rr = comparison_ok cmp s cctx l o rr.
Proof. unfold comparison_ok. rewrite !operand_type_eq. reflexivity. Qed.

Lemma operand_refs_ok_eq o : operand_refs_ok s' o = operand_refs_ok s o.
Proof. destruct o; try reflexivity. apply ref_ok_eq. Qed.

Lemma operand_scope_ok_eq cctx o : operand_scope_ok s' cctx o = operand_scope_ok s cctx o.
Proof.
  destruct o as [a p|g p|l]; try reflexivity. cbn [operand_scope_ok].
  destruct (find_action_sim (r_id a)) as [|act act' Hact]; [reflexivity|]. rewrite (sim_ctx Hact). apply ctx_sees_eq.
Qed.

Lemma dep_ok_eq cmp cp d : dep_ok cmp s' cp d = dep_ok cmp s cp d.
Proof.
  unfold dep_ok. cbv zeta. destruct d as [l o rr|c].
  - rewrite !operand_refs_ok_eq, comparison_ok_eq, !operand_scope_ok_eq. reflexivity.
  - rewrite ref_ok_eq, find_checkpoint_eq. destruct (find_checkpoint s (r_id c)); [|reflexivity].
    rewrite ctx_sees_eq. reflexivity.
Qed.

Lemma cp_referenced_eq c : cp_referenced s' c = cp_referenced s c.
Proof.
  unfold cp_referenced. rewrite groups_eq, checkpoints_eq. f_equal. f_equal.
  apply (F2_existsb action_sim); [exact actions_sim|]. intros a a' Ha. rewrite (sim_dep Ha). reflexivity.
Qed.

Lemma checkpoint_ok_eq cmp cp : checkpoint_ok cmp s' cp = checkpoint_ok cmp s cp.
Proof.
  unfold checkpoint_ok. rewrite oref_ok_eq, cp_referenced_eq.
  rewrite (forallb_ext' (dep_ok cmp s' cp) (dep_ok cmp s cp) _ (dep_ok_eq cmp cp)). reflexivity.
Qed.

Lemma depends_scope_ok_eq h d : depends_scope_ok s' h d = depends_scope_ok s h d.
Proof.
  unfold depends_scope_ok. destruct d as [rf|]; [|reflexivity]. rewrite find_checkpoint_eq.
  destruct (find_checkpoint s (r_id rf)); [|reflexivity]. apply ctx_sees_eq.
Qed.

(* ------------------------------------------------------------------ operations *)
Lemma type_of_promise_eq p : type_of_promise s' p = type_of_promise s p.
Proof.
  unfold type_of_promise. rewrite find_promise_eq. destruct (find_promise s p) as [pr|]; [|reflexivity].
  apply find_type_ref_eq.
Qed.

Lemma settable_perm q : Permutation (settable s q) (settable s' q).
Proof.
  unfold settable. rewrite type_of_promise_eq. destruct (type_of_promise s q) as [t|]; [|constructor].
  apply (F2_flat_map_perm action_sim); [apply actions_on_sim|]. intros a a' Ha.
  apply settable_by_perm; [exact (sim_incl Ha) | exact (sim_defaults Ha) | exact (sim_edges Ha)].
Qed.

Lemma is_dependee_eq a : is_dependee s' a = is_dependee s a.
Proof. unfold is_dependee. rewrite checkpoints_eq. reflexivity. Qed.

Lemma action_op_ok_sim tbl {a a'} : action_sim a a' -> action_op_ok tbl s' a' = action_op_ok tbl s a.
Proof.
  intros Ha. unfold action_op_ok. rewrite (promise_of_sim Ha). destruct (promise_of a) as [p|]; [|reflexivity].
  rewrite type_of_promise_eq. destruct (type_of_promise s p) as [t|]; [|reflexivity].
  cbv zeta. rewrite (sim_defaults Ha), (sim_edges Ha), (sim_appends Ha), (sim_id Ha), (sim_ctx Ha).
  apply andb_congr.
  { apply forallb_perm. apply Permutation_sym. apply incl_list_perm. exact (sim_incl Ha). }
  intros _. destruct (fulfiller_sim p) as [|f f' Hf]; [reflexivity|].
  rewrite (sim_id Hf), (sim_ctx Hf).
  destruct (Nat.eqb (a_id f) (a_id a)).
  - (* CREATE *)
    apply (f_equal2 andb); [apply (f_equal2 andb); [reflexivity|]|].
    + apply forallb_ext'. intros [n q]. cbn [fst snd].
      destruct (find_attr t n) as [at_|]; [|reflexivity].
      destruct (at_kind at_) as [ft|tgt|tgt]; try reflexivity.
      rewrite ref_ok_eq, find_promise_eq. destruct (find_promise s (r_id q)) as [pq|]; [|reflexivity].
      destruct (fulfiller_sim (pr_id pq)) as [|fq fq' Hfq]; [reflexivity|].
      rewrite (sim_id Hfq), is_ancestor_eq. reflexivity.
    + destruct (op_appends (a_op a)) as [[q path]|]; [|reflexivity].
      rewrite ref_ok_eq, promise_path_type_eq, find_promise_eq, is_dependee_eq, promise_context_eq.
      rewrite <- (mem_nat_perm _ _ _ (settable_perm (r_id q))).
      destruct (fulfiller_sim (r_id q)) as [|fq fq' Hfq]; [reflexivity|].
      rewrite (sim_id Hfq), (guaranteed_ancestor_sim _ Ha). reflexivity.
  - (* EDIT *)
    rewrite is_ancestor_eq. reflexivity.
Qed.

Lemma action_ok_sim tbl {a a'} : action_sim a a' -> action_ok tbl s' a' = action_ok tbl s a.
Proof.
  intros Ha. unfold action_ok.
  rewrite (sim_party Ha), (sim_promise Ha), (sim_ctx Ha), (sim_dep Ha).
  rewrite !ref_ok_eq, !oref_ok_eq, depends_scope_ok_eq, (action_op_ok_sim tbl Ha). reflexivity.
Qed.

(* ------------------------------------------------------------------ thread groups *)
Lemma group_used_eq g : group_used s' g = group_used s g.
Proof.
  unfold group_used. rewrite groups_eq. f_equal.
  apply (F2_existsb action_sim); [exact actions_sim|]. intros a a' Ha. rewrite (sim_ctx Ha). reflexivity.
Qed.

Lemma group_ok_eq g : group_ok s' g = group_ok s g.
Proof.
  unfold group_ok.
  rewrite !oref_ok_eq, scope_eq, depends_scope_ok_eq, group_used_eq, fuel_of_eq, var_type_eq.
  f_equal; [f_equal; f_equal|].
  - destruct (g_src g) as [p path|g' path]; [|reflexivity].
    rewrite ref_ok_eq, group_ancestors_eq.
    destruct (fulfiller_sim (r_id p)) as [|f f' Hf]; [reflexivity|]. rewrite (sim_id Hf). reflexivity.
  - destruct (scope s (g_id g)) as [l|]; [|reflexivity]. f_equal. apply existsb_ext'. intros g'.
    rewrite find_group_eq. reflexivity.
Qed.

(* ------------------------------------------------------------------ object types *)
Lemma attr_ok_eq a : attr_ok s' a = attr_ok s a.
Proof. unfold attr_ok. destruct (at_kind a); try reflexivity; apply ref_ok_eq. Qed.

Lemma otype_ok_eq t : otype_ok s' t = otype_ok s t.
Proof. unfold otype_ok. rewrite (forallb_ext' (attr_ok s') (attr_ok s) _ attr_ok_eq). reflexivity. Qed.

(* ------------------------------------------------------------------ uniqueness *)
Lemma milestones_perm : Permutation (flat_map a_milestones (actions s)) (flat_map a_milestones (actions s')).
Proof. apply (F2_flat_map_perm action_sim); [exact actions_sim|]. intros a a' Ha. exact (sim_ms Ha). Qed.

Lemma unique_ids_eq : unique_ids s' = unique_ids s.
Proof.
  unfold unique_ids. rewrite parties_eq, otypes_eq, promises_eq, checkpoints_eq, groups_eq, ids_eq, names_eq.
  rewrite <- (nodup_nat_perm _ _ milestones_perm). reflexivity.
Qed.

(* ------------------------------------------------------------------ the verdict *)
Lemma conforms_with_eq cmp tbl : conforms_with cmp tbl s' = conforms_with cmp tbl s.
Proof.
  unfold conforms_with.
  rewrite unique_ids_eq, has_cycle_eq, otypes_eq, promises_eq, checkpoints_eq, groups_eq.
  rewrite (forallb_ext' (otype_ok s') (otype_ok s) _ otype_ok_eq).
  rewrite (forallb_ext' (fun p => promise_refs_ok s' p && promise_ok s' p) (fun p => promise_refs_ok s p && promise_ok s p))
    by (intros x; rewrite promise_refs_ok_eq, promise_ok_eq; reflexivity).
  rewrite (forallb_ext' (checkpoint_ok cmp s') (checkpoint_ok cmp s) _ (checkpoint_ok_eq cmp)).
  rewrite (forallb_ext' (group_ok s') (group_ok s) _ group_ok_eq).
  rewrite (F2_forallb action_sim (action_ok tbl s) (action_ok tbl s') _ _ actions_sim (fun a a' Ha => action_ok_sim tbl Ha)).
  reflexivity.
Qed.

End Sim.

Lemma C14_inclusion_lists_lemma : forall tbl s s', incl_reordered s s' -> conforms tbl s = conforms tbl s'.
Proof. intros tbl s s' H. unfold conforms. symmetry. apply conforms_with_eq. exact H. Qed.

End Incl.

(* ================================================================== Part H: all reorderings jointly *)
(* l' is a permutation of l whose elements have been reordered inside *)
Definition perm_upto {A} (R : A -> A -> Prop) (l l' : list A) : Prop :=
  exists l1, Permutation l l1 /\ Forall2 R l1 l'.

Definition schema_reordered (s s' : schema) : Prop :=
  Permutation (parties s) (parties s') /\
  perm_upto Attrs.otype_sim (otypes s) (otypes s') /\
  Permutation (promises s) (promises s') /\
  perm_upto Incl.action_sim (actions s) (actions s') /\
  perm_upto Deps.cp_sim (checkpoints s) (checkpoints s') /\
  Permutation (groups s) (groups s').

Lemma conforms_with_reordered cmp tbl s s' :
  schema_reordered s s' -> conforms_with cmp tbl s = conforms_with cmp tbl s'.
Proof.
  intros (Pp & (lo & Po & Fo) & Ppr & (la & Pa & Fa) & (lc & Pc & Fc) & Pg).
  destruct s' as [pa' ot' pr' ac' cp' gr']. simpl in *.
  transitivity (conforms_with cmp tbl (Build_schema pa' lo pr' la lc gr')).
  { apply conforms_with_perm. repeat split; assumption. }
  transitivity (conforms_with cmp tbl (Build_schema pa' lo pr' la cp' gr')).
  { symmetry. apply Deps.conforms_with_eq. repeat split; assumption. }
  transitivity (conforms_with cmp tbl (Build_schema pa' ot' pr' la cp' gr')).
  { apply Attrs.conforms_with_eq. repeat split; assumption. }
  symmetry. apply Incl.conforms_with_eq. repeat split; assumption.
Qed.

Lemma C14_perm_lemma : forall tbl s s', schema_reordered s s' -> conforms tbl s = conforms tbl s'.
Proof. intros tbl s s'. apply conforms_with_reordered. Qed.

(* the four special cases are instances of [schema_reordered] *)
Lemma Forall2_refl_on {A} (R : A -> A -> Prop) l : (forall x, R x x) -> Forall2 R l l.
Proof. intros H. induction l; constructor; auto. Qed.

Lemma otype_sim_refl t : Attrs.otype_sim t t.
Proof. repeat split; auto. Qed.
Lemma cp_sim_refl c : Deps.cp_sim c c.
Proof. repeat split; auto. Qed.
Lemma action_sim_refl a : Incl.action_sim a a.
Proof.
  repeat split; auto. destruct (op_incl (a_op a)) as [[l|]|[l|]]; simpl; auto.
Qed.

Lemma schema_perm_reordered s s' : schema_perm s s' -> schema_reordered s s'.
Proof.
  intros (Pp & Po & Ppr & Pa & Pc & Pg). repeat split; try assumption.
  - exists (otypes s'). split; [exact Po | apply Forall2_refl_on, otype_sim_refl].
  - exists (actions s'). split; [exact Pa | apply Forall2_refl_on, action_sim_refl].
  - exists (checkpoints s'). split; [exact Pc | apply Forall2_refl_on, cp_sim_refl].
Qed.
