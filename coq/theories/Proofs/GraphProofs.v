(* Proofs about Model/Graph.v (property C19) and the facts the board emission needs (C20). *)
From Coq Require Import List Arith ZArith Bool Lia Relations.
From OIS Require Import Model.Graph Model.Board Spec.GraphSpec Proofs.BoardProofs.
Import ListNotations.

(* ================================================================ consequences of wf *)
Lemma nodupb_NoDup : forall l, nodupb l = true -> NoDup l.
Proof.
  induction l as [|x l IH]; simpl; intro H; [constructor|].
  apply andb_true_iff in H; destruct H as (H1 & H2); constructor; auto.
  intro HI; apply negb_true_iff in H1.
  assert (existsb (Nat.eqb x) l = true) by (apply existsb_exists; exists x; split; auto; apply Nat.eqb_refl).
  congruence.
Qed.

Record wf_facts (s : schema) : Prop := {
  wf_ids : NoDup (map a_id (s_actions s));
  wf_keys : NoDup (map c_key (s_cps s));
  wf_actions : forall a, In a (s_actions s) -> action_ok s a = true;
  wf_shape : forall j c, cp_at s j c -> cp_shape_ok c = true;
  wf_depkeys : forall k l r l' r', In (DCmp k l r) (all_deps s) -> In (DCmp k l' r') (all_deps s) -> l = l' /\ r = r';
  wf_fuel : forall j, j < length (s_cps s) -> cp_ok s (build_fuel s) j = true
}.

Lemma opt_nat_eqb : forall (a b : option nat),
  match a, b with Some x, Some y => Nat.eqb x y | None, None => true | _, _ => false end = true -> a = b.
Proof. intros [x|] [y|] H; try discriminate; auto; apply Nat.eqb_eq in H; subst; auto. Qed.

Lemma wf_facts_of : forall s, wf s = true -> wf_facts s.
Proof.
  intros s H; unfold wf in H.
  apply andb_true_iff in H; destruct H as (H & Hfuel).
  apply andb_true_iff in H; destruct H as (H & Hkeys).
  apply andb_true_iff in H; destruct H as (H & Hshape).
  apply andb_true_iff in H; destruct H as (H & Hacts).
  apply andb_true_iff in H; destruct H as (Hids & Hck).
  constructor.
  - apply nodupb_NoDup; auto.
  - apply nodupb_NoDup; auto.
  - intros a Ha; eapply forallb_forall in Hacts; eauto.
  - intros j c Hc; eapply forallb_forall in Hshape; eauto; eapply nth_error_In; eauto.
  - intros k l r l' r' H5 H6.
    eapply forallb_forall in Hkeys; [|exact H5]; eapply forallb_forall in Hkeys; [|exact H6].
    simpl in Hkeys; rewrite Nat.eqb_refl in Hkeys; simpl in Hkeys.
    apply andb_true_iff in Hkeys; destruct Hkeys as (Hl & Hr); split; apply opt_nat_eqb; auto.
  - intros j Hj; eapply forallb_forall in Hfuel; eauto; apply in_seq; lia.
Qed.

Lemma cp_at_in : forall s j c, cp_at s j c -> In c (s_cps s).
Proof. intros s j c H; eapply nth_error_In; eauto. Qed.

Lemma cp_at_fun : forall s j c c', cp_at s j c -> cp_at s j c' -> c = c'.
Proof. unfold cp_at; intros; congruence. Qed.

Lemma key_inj : forall s j c j' c', wf_facts s -> cp_at s j c -> cp_at s j' c' -> c_key c = c_key c' -> j = j'.
Proof.
  intros s j c j' c' W H H' E.
  pose proof (wf_keys s W) as ND.
  assert (Hj : nth_error (map c_key (s_cps s)) j = Some (c_key c)) by (apply map_nth_error; exact H).
  assert (Hj' : nth_error (map c_key (s_cps s)) j' = Some (c_key c)) by (rewrite E; apply map_nth_error; exact H').
  rewrite NoDup_nth_error in ND; apply ND.
  - apply nth_error_Some; intro HH; rewrite Hj in HH; discriminate HH.
  - rewrite Hj, Hj'; reflexivity.
Qed.

Lemma dep_in_all : forall s j c d, cp_at s j c -> In d (c_deps c) -> In d (all_deps s).
Proof. intros s j c d H HI; unfold all_deps; apply in_flat_map; exists c; split; auto; eapply cp_at_in; eauto. Qed.

(* shape of checkpoints *)
Lemma shape_multi_gate : forall c, cp_shape_ok c = true -> multi c -> exists g, c_gate c = Some g.
Proof.
  intros c H M; unfold cp_shape_ok, multi in *.
  destruct (c_deps c) as [|d1 [|d2 ds]]; simpl in M; try lia.
  destruct d1; destruct (c_gate c) as [g|]; try discriminate; exists g; auto.
Qed.

Lemma shape_ref_multi : forall c k, cp_shape_ok c = true -> In (DRef k) (c_deps c) -> multi c.
Proof.
  intros c k H HI; unfold cp_shape_ok, multi in *.
  destruct (c_deps c) as [|d1 [|d2 ds]]; simpl in *; try lia; try contradiction.
  destruct HI as [->|[]]; discriminate.
Qed.

Lemma find_action_some : forall s b act, find_action s b = Some act -> In act (s_actions s) /\ a_id act = b.
Proof.
  intros s b act H; unfold find_action in H; apply find_some in H; destruct H as (H1 & H2).
  apply Nat.eqb_eq in H2; auto.
Qed.

(* ================================================================ is_dup *)
Lemma hash_eqb_eq : forall a b, hash_eqb a b = true <-> a = b.
Proof. destruct a, b; simpl; rewrite ?Nat.eqb_eq; split; intro H; try congruence; try discriminate. Qed.

Lemma is_dup_true : forall d h st, is_dup d h st = true -> In (d, h) (st_hashes st).
Proof.
  intros d h st H; unfold is_dup in H; apply existsb_exists in H; destruct H as ([d' h'] & HI & E).
  unfold pair_eqb in E; simpl in E; apply andb_true_iff in E; destruct E as (E1 & E2).
  apply node_eqb_eq in E1; apply hash_eqb_eq in E2; subst; exact HI.
Qed.

(* ================================================================ dict invariants of _add_edge *)
Definition getl {K X} (e : K -> K -> bool) (m : list (K * list X)) (k : K) : list X :=
  match dget e m k with Some l => l | None => [] end.

Lemma getl_dappend : forall K X (e : K -> K -> bool) (e_eq : forall a b, e a b = true <-> a = b)
    (m : list (K * list X)) k x k',
  getl e (dappend e m k x) k' = getl e m k' ++ (if e k' k then [x] else []).
Proof.
  intros K X e e_eq m k x k'; unfold getl, dappend.
  destruct (e k' k) eqn:E.
  - apply e_eq in E; subst k'.
    destruct (dget e m k) as [l|] eqn:Eg; rewrite (dget_dset_same e e_eq); reflexivity.
  - assert (N : k' <> k) by (intro; subst; rewrite (proj2 (e_eq k k) eq_refl) in E; discriminate).
    destruct (dget e m k) as [l|] eqn:Eg; rewrite (dget_dset_other e e_eq) by exact N; rewrite app_nil_r; reflexivity.
Qed.

(* edge_captions and edge_dict are determined by the labelled edge list *)
Definition caps_derived (es : list (node * node * cap)) (t : node * node) : list cap :=
  map snd (filter (fun e => tuple_eqb (fst e) t) es).
Definition succs_derived (es : list (node * node * cap)) (n : node) : list node :=
  map (fun e => snd (fst e)) (filter (fun e => node_eqb (fst (fst e)) n) es).

Definition dict_inv (st : state) : Prop :=
  (forall t, getl tuple_eqb (st_caps st) t = caps_derived (st_edges st) t)
  /\ (forall n, getl node_eqb (st_edict st) n = succs_derived (st_edges st) n).

Lemma node_eqb_sym : forall a b, node_eqb a b = node_eqb b a.
Proof.
  intros a b; destruct (node_eqb a b) eqn:E.
  - apply node_eqb_eq in E; subst; symmetry; apply node_eqb_refl.
  - symmetry; apply node_eqb_neq; apply node_eqb_neq in E; congruence.
Qed.

Lemma dict_inv_add_edge : forall f t c st, dict_inv st -> dict_inv (add_edge f t c st).
Proof.
  intros f t c st (H1 & H2); split; simpl.
  - intro t'; rewrite (getl_dappend _ _ tuple_eqb tuple_eqb_eq), H1.
    unfold caps_derived; rewrite filter_app, map_app; simpl.
    rewrite (tuple_eqb_sym (f, t) t'); destruct (tuple_eqb t' (f, t)); reflexivity.
  - intro n; rewrite (getl_dappend _ _ node_eqb node_eqb_eq), H2.
    unfold succs_derived; rewrite filter_app, map_app; simpl.
    rewrite (node_eqb_sym f n); destruct (node_eqb n f); reflexivity.
Qed.

Lemma dict_inv_st0 : dict_inv st0.
Proof. split; intro; reflexivity. Qed.

(* ================================================================ what the exploration may add *)
Definition is_action (s : schema) (b : nat) : Prop := In b (map a_id (s_actions s)).

(* _explore_edges_recursive(d, j) is only ever called with ... *)
Inductive src (s : schema) : node -> nat -> Prop :=
  | src_act act j : In act (s_actions s) -> a_dep act = Some j -> src s (NAct (a_id act)) j
  | src_gate i c j : in_use s i -> cp_at s i c -> multi c -> In (DRef j) (c_deps c) -> src s (NGate i) j.

(* ... and only ever adds these labelled edges *)
Inductive esound (s : schema) : node * node * cap -> Prop :=
  | es_to_gate d j c : src s d j -> cp_at s j c -> multi c -> esound s (d, NGate j, CapCp (c_key c))
  | es_gate_cmp j c k l r b : in_use s j -> cp_at s j c -> multi c -> In (DCmp k l r) (c_deps c) ->
      (l = Some b \/ r = Some b) -> is_action s b -> esound s (NGate j, NAct b, CapDep k)
  | es_single d j c k l r b : src s d j -> cp_at s j c -> c_deps c = [DCmp k l r] ->
      (l = Some b \/ r = Some b) -> is_action s b -> esound s (d, NAct b, CapDep k).

Lemma nested_snoc : forall s j i c k, Nested s j i -> cp_at s i c -> In (DRef k) (c_deps c) -> Nested s j k.
Proof.
  intros s j i c k H; induction H as [j|j c0 k0 k' Hc0 Hd Hn IH]; intros Hc HI.
  - eapply nested_step; eauto; apply nested_refl.
  - eapply nested_step; eauto.
Qed.

Lemma src_in_use : forall s d j, src s d j -> in_use s j.
Proof.
  intros s d j [act j' Ha Hd | i c j' (a & j0 & Ha & Hd & Hn) Hc M HI].
  - exists act, j'; repeat split; auto; apply nested_refl.
  - exists a, j0; repeat split; auto; eapply nested_snoc; eauto.
Qed.

(* ---------------------------------------------------------------- closure of the final hash table *)
(* explore(d, j) has been entered: its de-duplication hash is recorded *)
Definition target (s : schema) (d : node) (j : nat) (st : state) : Prop :=
  forall c, cp_at s j c ->
    (forall key l r, c_deps c = [DCmp key l r] -> In (d, HDep key) (st_hashes st))
    /\ (multi c -> In (d, HCp (c_key c)) (st_hashes st)).

Definition dep_done (s : schema) (st : state) (j : nat) (dd : dep) : Prop :=
  match dd with
  | DCmp k _ _ => In (NGate j, HDep k) (st_hashes st)
  | DRef k' => target s (NGate j) k' st
  end.

(* what a recorded hash stands for once the call that recorded it has returned *)
Definition closed (s : schema) (st : state) (e : node * hash) : Prop :=
  match snd e with
  | HCp key => forall j c, cp_at s j c -> c_key c = key -> multi c ->
      In (fst e, NGate j, CapCp key) (st_edges st)
      /\ (exists g, dget Nat.eqb (st_gates st) j = Some g)
      /\ forall dd, In dd (c_deps c) -> dep_done s st j dd
  | HDep key => forall l r b, In (DCmp key l r) (all_deps s) -> (l = Some b \/ r = Some b) ->
      In (fst e, NAct b, CapDep key) (st_edges st)
  end.

Definition ext (st st' : state) : Prop :=
  incl (st_hashes st) (st_hashes st') /\ incl (st_edges st) (st_edges st')
  /\ forall j g, dget Nat.eqb (st_gates st) j = Some g -> dget Nat.eqb (st_gates st') j = Some g.

Lemma ext_refl : forall st, ext st st.
Proof. intro st; repeat split; auto using incl_refl. Qed.

Lemma ext_trans : forall a b c, ext a b -> ext b c -> ext a c.
Proof. intros a b c (H1 & H2 & H3) (H4 & H5 & H6); repeat split; eauto using incl_tran. Qed.

Lemma target_mono : forall s d j st st', ext st st' -> target s d j st -> target s d j st'.
Proof.
  intros s d j st st' (Hh & _) H c Hc; destruct (H c Hc) as (H1 & H2); split.
  - intros; apply Hh; eauto.
  - intros; apply Hh; eauto.
Qed.

Lemma dep_done_mono : forall s j dd st st', ext st st' -> dep_done s st j dd -> dep_done s st' j dd.
Proof.
  intros s j [k l r|k] st st' E H; simpl in *.
  - destruct E as (Hh & _); apply Hh; exact H.
  - eapply target_mono; eauto.
Qed.

Lemma closed_mono : forall s e st st', ext st st' -> closed s st e -> closed s st' e.
Proof.
  intros s [x [key|key]] st st' E H; unfold closed in *; simpl in *.
  - intros j c Hc Hk M; destruct (H j c Hc Hk M) as (H1 & (g & H2) & H3).
    pose proof E as (Hh & He & Hg); split; [apply He; exact H1|]; split; [exists g; apply Hg; exact H2|].
    intros dd Hdd; eapply dep_done_mono; eauto.
  - intros l r b Hd Hn; destruct E as (_ & He & _); apply He; eauto.
Qed.

Definition post_closed (s : schema) (st st' : state) : Prop :=
  forall e, In e (st_hashes st') -> In e (st_hashes st) \/ closed s st' e.

(* ---------------------------------------------------------------- invariant *)
Definition gates_sound (s : schema) (st : state) : Prop :=
  forall j g, dget Nat.eqb (st_gates st) j = Some g ->
    exists c, cp_at s j c /\ multi c /\ c_gate c = Some g /\ in_use s j.

Definition Inv (s : schema) (st : state) : Prop :=
  (forall e, In e (st_edges st) -> esound s e) /\ gates_sound s st /\ dict_inv st
  /\ NoDup (map fst (st_gates st)).

Definition step (s : schema) (st st' : state) : Prop := Inv s st' /\ ext st st' /\ post_closed s st st'.

Lemma step_refl : forall s st, Inv s st -> step s st st.
Proof. intros s st H; split; [exact H|]; split; [apply ext_refl|]; intros e He; left; exact He. Qed.

Lemma step_trans : forall s a b c, step s a b -> step s b c -> step s a c.
Proof.
  intros s a b c (I1 & E1 & P1) (I2 & E2 & P2); split; [exact I2|]; split; [eapply ext_trans; eauto|].
  intros e He; destruct (P2 e He) as [Hb|Hc]; [|right; exact Hc].
  destruct (P1 e Hb) as [Ha|Hc]; [left; exact Ha | right; eapply closed_mono; eauto].
Qed.

Lemma Nat_eqb_eq' : forall a b, Nat.eqb a b = true <-> a = b.
Proof. apply Nat.eqb_eq. Qed.

Lemma step_add_edge : forall s f t c st, Inv s st -> esound s (f, t, c) -> step s st (add_edge f t c st).
Proof.
  intros s f t c st (I1 & I2 & I3 & I4) Hs; split; [|split].
  - split; [|split; [|split]]; simpl; auto.
    + intros e He; apply in_app_or in He; destruct He as [He|[<-|[]]]; auto.
    + apply dict_inv_add_edge; exact I3.
  - repeat split; simpl; auto using incl_refl, incl_appl.
  - intros e He; left; exact He.
Qed.

Lemma ext_add_hash : forall d h st, ext st (add_hash d h st).
Proof. intros; repeat split; simpl; auto using incl_refl, incl_appl. Qed.

Lemma Inv_add_hash : forall s d h st, Inv s st -> Inv s (add_hash d h st).
Proof. intros s d h st (I1 & I2 & I3 & I4); repeat split; simpl; auto; apply I3. Qed.

Lemma step_set_gate : forall s j g c st,
  Inv s st -> cp_at s j c -> multi c -> c_gate c = Some g -> in_use s j -> step s st (set_gate j g st).
Proof.
  intros s j g c st (I1 & I2 & I3 & I4) Hc M Hg Hu; split; [|split].
  - split; [|split; [|split]]; simpl; auto.
    + intros j' g' H; simpl in H.
      destruct (Nat.eq_dec j' j) as [->|N].
      * rewrite (dget_dset_same Nat.eqb Nat_eqb_eq') in H; inversion H; subst; exists c; auto.
      * rewrite (dget_dset_other Nat.eqb Nat_eqb_eq') in H by exact N; apply I2; exact H.
    + destruct (dget Nat.eqb (st_gates st) j) as [g0|] eqn:Eg.
      * rewrite (dset_keys_old Nat.eqb _ _ _ _ Eg); exact I4.
      * rewrite (dset_keys_new Nat.eqb _ _ _ Eg); apply NoDup_snoc; auto.
        apply (dget_none_notin Nat.eqb Nat_eqb_eq'); exact Eg.
  - repeat split; simpl; auto using incl_refl.
    intros j' g' H; destruct (Nat.eq_dec j' j) as [->|N].
    + rewrite (dget_dset_same Nat.eqb Nat_eqb_eq').
      destruct (I2 j g' H) as (c' & Hc' & _ & Hg' & _).
      rewrite (cp_at_fun _ _ _ _ Hc Hc') in Hg; congruence.
    + rewrite (dget_dset_other Nat.eqb Nat_eqb_eq') by exact N; exact H.
  - intros e He; left; exact He.
Qed.

(* ---------------------------------------------------------------- unfolding *)
Definition op_ok (s : schema) (f : nat) (o : option nat) : bool :=
  match o with
  | None => true
  | Some b =>
    match find_action s b with
    | None => false
    | Some act => match a_dep act with None => true | Some j' => cp_ok s f j' end
    end
  end.

Lemma cp_ok_S : forall s f j,
  cp_ok s (S f) j =
  match nth_error (s_cps s) j with
  | None => false
  | Some c => forallb (fun d => match d with
                               | DRef k => cp_ok s f k
                               | DCmp _ l r => op_ok s f l && op_ok s f r
                               end) (c_deps c)
  end.
Proof. reflexivity. Qed.

Lemma explore_S : forall s f d j st,
  explore s (S f) d j st =
  match nth_error (s_cps s) j with
  | None => Raise
  | Some c =>
    match c_deps c with
    | [] => Ok st
    | [DRef _] => Ok st
    | [DCmp key l r] =>
      if is_dup d (HDep key) st then Ok st
      else bind (single_operand s (explore s f) d key l (add_hash d (HDep key) st))
                (single_operand s (explore s f) d key r)
    | _ :: _ :: _ =>
      if is_dup d (HCp (c_key c)) st then Ok st
      else
        match c_gate c with
        | None => Raise
        | Some g => gate_loop s (explore s f) j (c_deps c)
                      (set_gate j g (add_edge d (NGate j) (CapCp (c_key c)) (add_hash d (HCp (c_key c)) st)))
        end
    end
  end.
Proof. reflexivity. Qed.

Lemma gate_loop_cons_cmp : forall s rec j key l r ds st,
  gate_loop s rec j (DCmp key l r :: ds) st =
  if is_dup (NGate j) (HDep key) st then gate_loop s rec j ds st
  else bind (bind (gate_operand_edge s (NGate j) key l (add_hash (NGate j) (HDep key) st))
                  (gate_operand_edge s (NGate j) key r))
            (gate_loop s rec j ds).
Proof. reflexivity. Qed.

Lemma gate_loop_cons_ref : forall s rec j k ds st,
  gate_loop s rec j (DRef k :: ds) st = bind (rec (NGate j) k st) (gate_loop s rec j ds).
Proof. reflexivity. Qed.

(* ================================================================ the exploration *)
Definition explore_ok (s : schema) (f : nat) : Prop :=
  forall d j st, Inv s st -> src s d j -> cp_ok s f j = true ->
    exists st', explore s f d j st = Ok st' /\ step s st st' /\ target s d j st'.

Lemma find_action_is_action : forall s b act, find_action s b = Some act -> is_action s b.
Proof.
  intros s b act H; apply find_action_some in H; destruct H as (HI & <-).
  unfold is_action; apply in_map; exact HI.
Qed.

Lemma single_operand_good : forall s f d j c key l r o st,
  explore_ok s f -> Inv s st -> src s d j -> cp_at s j c -> c_deps c = [DCmp key l r] ->
  (o = l \/ o = r) -> op_ok s f o = true ->
  exists st', single_operand s (explore s f) d key o st = Ok st' /\ step s st st'
              /\ forall b, o = Some b -> In (d, NAct b, CapDep key) (st_edges st').
Proof.
  intros s f d j c key l r o st IH HI Hsrc Hc Hd Ho Hop.
  destruct o as [b|]; simpl.
  - unfold op_ok in Hop.
    destruct (find_action s b) as [act|] eqn:Ef; [|discriminate].
    assert (Hs : esound s (d, NAct b, CapDep key)).
    { eapply es_single; eauto.
      - destruct Ho as [<-|<-]; auto.
      - eapply find_action_is_action; eauto. }
    pose proof (step_add_edge s d (NAct b) (CapDep key) st HI Hs) as S1.
    destruct (a_dep act) as [j'|] eqn:Ea.
    + destruct (find_action_some _ _ _ Ef) as (Hact & Hid).
      assert (Hsrc' : src s (NAct b) j') by (rewrite <- Hid; apply src_act; auto).
      destruct (IH (NAct b) j' _ (proj1 S1) Hsrc' Hop) as (st' & E & S2 & _).
      exists st'; split; [exact E|]; split; [eapply step_trans; eauto|].
      intros b' Eb; inversion Eb; subst b'.
      destruct S2 as (_ & (_ & He & _) & _); apply He; simpl; apply in_or_app; right; simpl; auto.
    + exists (add_edge d (NAct b) (CapDep key) st); split; [reflexivity|]; split; [exact S1|].
      intros b' Eb; inversion Eb; subst b'; simpl; apply in_or_app; right; simpl; auto.
  - exists st; split; [reflexivity|]; split; [apply step_refl; exact HI|]; intros b Eb; discriminate.
Qed.

Lemma gate_operand_edge_good : forall s j c key l r o st,
  Inv s st -> in_use s j -> cp_at s j c -> multi c -> In (DCmp key l r) (c_deps c) ->
  (o = l \/ o = r) -> (forall b, o = Some b -> find_action s b <> None) ->
  exists st', gate_operand_edge s (NGate j) key o st = Ok st' /\ step s st st'
              /\ forall b, o = Some b -> In (NGate j, NAct b, CapDep key) (st_edges st').
Proof.
  intros s j c key l r o st HI Hu Hc M Hd Ho Hf.
  destruct o as [b|]; simpl.
  - destruct (find_action s b) as [act|] eqn:Ef; [|exfalso; eapply Hf; eauto].
    assert (Hs : esound s (NGate j, NAct b, CapDep key)).
    { eapply es_gate_cmp; eauto.
      - destruct Ho as [<-|<-]; auto.
      - eapply find_action_is_action; eauto. }
    exists (add_edge (NGate j) (NAct b) (CapDep key) st); split; [reflexivity|].
    split; [apply step_add_edge; auto|].
    intros b' Eb; inversion Eb; subst b'; simpl; apply in_or_app; right; simpl; auto.
  - exists st; split; [reflexivity|]; split; [apply step_refl; exact HI|]; intros b Eb; discriminate.
Qed.

Lemma op_ok_found : forall s f o, op_ok s f o = true -> forall b, o = Some b -> find_action s b <> None.
Proof.
  intros s f o H b ->; unfold op_ok in H; destruct (find_action s b); [discriminate | discriminate].
Qed.

Definition dep_ok (s : schema) (f : nat) (d : dep) : bool :=
  match d with DRef k => cp_ok s f k | DCmp _ l r => op_ok s f l && op_ok s f r end.

Lemma gate_loop_good : forall s f j c,
  wf_facts s -> explore_ok s f -> in_use s j -> cp_at s j c -> multi c ->
  forall ds st, incl ds (c_deps c) -> forallb (dep_ok s f) ds = true -> Inv s st ->
  exists st', gate_loop s (explore s f) j ds st = Ok st' /\ step s st st'
              /\ forall dd, In dd ds -> dep_done s st' j dd.
Proof.
  intros s f j c W IH Hu Hc M ds; induction ds as [|dd ds IHds]; intros st Hinc Hok HI.
  - exists st; split; [reflexivity|]; split; [apply step_refl; exact HI|]; intros dd [].
  - simpl in Hok; apply andb_true_iff in Hok; destruct Hok as (Hdd & Hok).
    assert (Hin : In dd (c_deps c)) by (apply Hinc; simpl; auto).
    assert (Hinc' : incl ds (c_deps c)) by (intros x Hx; apply Hinc; simpl; auto).
    destruct dd as [key l r|k].
    + rewrite gate_loop_cons_cmp.
      destruct (is_dup (NGate j) (HDep key) st) eqn:Edup.
      * destruct (IHds st Hinc' Hok HI) as (st' & E & S & D).
        exists st'; split; [exact E|]; split; [exact S|].
        intros dd [<-|Hdd']; [|apply D; exact Hdd'].
        simpl; destruct S as (_ & (Hh & _) & _); apply Hh; apply is_dup_true; exact Edup.
      * simpl in Hdd; apply andb_true_iff in Hdd; destruct Hdd as (Hl & Hr).
        pose proof (Inv_add_hash s (NGate j) (HDep key) st HI) as HI1.
        destruct (gate_operand_edge_good s j c key l r l _ HI1 Hu Hc M Hin (or_introl eq_refl)
                    (op_ok_found _ _ _ Hl)) as (st2 & E2 & S2 & F2).
        destruct (gate_operand_edge_good s j c key l r r _ (proj1 S2) Hu Hc M Hin (or_intror eq_refl)
                    (op_ok_found _ _ _ Hr)) as (st3 & E3 & S3 & F3).
        destruct (IHds st3 Hinc' Hok (proj1 S3)) as (st4 & E4 & S4 & D4).
        exists st4; split; [rewrite E2; simpl; rewrite E3; simpl; exact E4|].
        pose proof (step_trans _ _ _ _ S2 (step_trans _ _ _ _ S3 S4)) as S14.
        assert (E14 : ext (add_hash (NGate j) (HDep key) st) st4) by apply S14.
        assert (E34 : ext st3 st4) by apply S4.
        assert (E23 : ext st2 st3) by apply S3.
        split; [|].
        { split; [apply S4|]; split; [eapply ext_trans; [apply ext_add_hash | exact E14]|].
          intros e He; destruct (proj2 (proj2 S14) e He) as [H1|H1]; [|right; exact H1].
          simpl in H1; apply in_app_or in H1; destruct H1 as [H1|[<-|[]]]; [left; exact H1|].
          right; unfold closed; simpl; intros l' r' b Hall Hn.
          destruct (wf_depkeys s W key l r l' r' (dep_in_all _ _ _ _ Hc Hin) Hall) as (<- & <-).
          destruct Hn as [Hn|Hn].
          - destruct E34 as (_ & He34 & _); destruct E23 as (_ & He23 & _); apply He34, He23, F2; exact Hn.
          - destruct E34 as (_ & He34 & _); apply He34, F3; exact Hn. }
        intros dd [<-|Hdd']; [|apply D4; exact Hdd'].
        simpl; destruct E14 as (Hh & _); apply Hh; simpl; apply in_or_app; right; simpl; auto.
    + rewrite gate_loop_cons_ref.
      assert (Hsrc : src s (NGate j) k) by (eapply src_gate; eauto).
      simpl in Hdd.
      destruct (IH (NGate j) k st HI Hsrc Hdd) as (st1 & E1 & S1 & T1).
      destruct (IHds st1 Hinc' Hok (proj1 S1)) as (st2 & E2 & S2 & D2).
      exists st2; split; [rewrite E1; simpl; exact E2|]; split; [eapply step_trans; eauto|].
      intros dd [<-|Hdd']; [|apply D2; exact Hdd'].
      simpl; eapply target_mono; [apply S2 | exact T1].
Qed.

Lemma explore_good : forall s, wf_facts s -> forall f, explore_ok s f.
Proof.
  intros s W f; induction f as [|f IH]; intros d j st HI Hsrc Hok; [discriminate|].
  rewrite cp_ok_S in Hok; rewrite explore_S.
  destruct (nth_error (s_cps s) j) as [c|] eqn:Ec; [|discriminate].
  pose proof (wf_shape s W j c Ec) as Hshape.
  pose proof (src_in_use s d j Hsrc) as Hu.
  fold (dep_ok s f) in Hok.
  destruct (c_deps c) as [|d1 [|d2 ds]] eqn:Ed.
  - unfold cp_shape_ok in Hshape; rewrite Ed in Hshape; discriminate.
  - destruct d1 as [key l r|k]; [|unfold cp_shape_ok in Hshape; rewrite Ed in Hshape; discriminate].
    assert (Htarget : forall st', In (d, HDep key) (st_hashes st') -> target s d j st').
    { intros st' Hin c' Hc'; rewrite <- (cp_at_fun _ _ _ _ Ec Hc'); split.
      - intros key' l' r' E; rewrite Ed in E; inversion E; subst; exact Hin.
      - intro M; unfold multi in M; rewrite Ed in M; simpl in M; lia. }
    destruct (is_dup d (HDep key) st) eqn:Edup.
    + exists st; split; [reflexivity|]; split; [apply step_refl; exact HI|].
      apply Htarget, is_dup_true; exact Edup.
    + simpl in Hok; rewrite andb_true_r in Hok; apply andb_true_iff in Hok; destruct Hok as (Hl & Hr).
      pose proof (Inv_add_hash s d (HDep key) st HI) as HI1.
      destruct (single_operand_good s f d j c key l r l _ IH HI1 Hsrc Ec Ed (or_introl eq_refl) Hl)
        as (st2 & E2 & S2 & F2).
      destruct (single_operand_good s f d j c key l r r _ IH (proj1 S2) Hsrc Ec Ed (or_intror eq_refl) Hr)
        as (st3 & E3 & S3 & F3).
      exists st3; split; [rewrite E2; simpl; exact E3|].
      pose proof (step_trans _ _ _ _ S2 S3) as S13.
      assert (E13 : ext (add_hash d (HDep key) st) st3) by apply S13.
      assert (E23 : ext st2 st3) by apply S3.
      split.
      * split; [apply S3|]; split; [eapply ext_trans; [apply ext_add_hash | exact E13]|].
        intros e He; destruct (proj2 (proj2 S13) e He) as [H1|H1]; [|right; exact H1].
        simpl in H1; apply in_app_or in H1; destruct H1 as [H1|[<-|[]]]; [left; exact H1|].
        right; unfold closed; simpl; intros l' r' b Hall Hn.
        assert (Hin : In (DCmp key l r) (c_deps c)) by (rewrite Ed; simpl; auto).
        destruct (wf_depkeys s W key l r l' r' (dep_in_all _ _ _ _ Ec Hin) Hall) as (<- & <-).
        destruct Hn as [Hn|Hn].
        -- destruct E23 as (_ & He23 & _); apply He23, F2; exact Hn.
        -- apply F3; exact Hn.
      * apply Htarget; destruct E13 as (Hh & _); apply Hh; simpl; apply in_or_app; right; simpl; auto.
  - assert (M : multi c) by (unfold multi; rewrite Ed; simpl; lia).
    assert (R : forall X : outcome state, match d1 with DCmp _ _ _ => X | DRef _ => X end = X)
      by (intro X; destruct d1; reflexivity).
    rewrite R; clear R.
    assert (Htarget : forall st', In (d, HCp (c_key c)) (st_hashes st') -> target s d j st').
    { intros st' Hin c' Hc'; rewrite <- (cp_at_fun _ _ _ _ Ec Hc'); split.
      - intros key' l' r' E; rewrite Ed in E; discriminate.
      - intros _; exact Hin. }
    destruct (is_dup d (HCp (c_key c)) st) eqn:Edup.
    + exists st; split; [reflexivity|]; split; [apply step_refl; exact HI|].
      apply Htarget, is_dup_true; exact Edup.
    + destruct (shape_multi_gate c Hshape M) as (g & Hg); rewrite Hg.
      pose proof (Inv_add_hash s d (HCp (c_key c)) st HI) as HI1.
      assert (Hs : esound s (d, NGate j, CapCp (c_key c))) by (apply es_to_gate; auto).
      pose proof (step_add_edge s d (NGate j) (CapCp (c_key c)) _ HI1 Hs) as S1.
      pose proof (step_set_gate s j g c _ (proj1 S1) Ec M Hg Hu) as S2.
      rewrite <- Ed.
      destruct (gate_loop_good s f j c W IH Hu Ec M (c_deps c) _ (incl_refl _)
                  ltac:(rewrite Ed; exact Hok) (proj1 S2)) as (st4 & E4 & S4 & D4).
      exists st4; split; [exact E4|].
      pose proof (step_trans _ _ _ _ S1 (step_trans _ _ _ _ S2 S4)) as S14.
      assert (E14 : ext (add_hash d (HCp (c_key c)) st) st4) by apply S14.
      split.
      * split; [apply S4|]; split; [eapply ext_trans; [apply ext_add_hash | exact E14]|].
        intros e He; destruct (proj2 (proj2 S14) e He) as [H1|H1]; [|right; exact H1].
        simpl in H1; apply in_app_or in H1; destruct H1 as [H1|[<-|[]]]; [left; exact H1|].
        right; unfold closed; simpl; intros j' c' Hc' Hk M'.
        assert (j' = j) by (eapply key_inj; eauto); subst j'.
        rewrite <- (cp_at_fun _ _ _ _ Ec Hc').
        split; [|split].
        -- destruct (step_trans _ _ _ _ S2 S4) as (_ & (_ & He24 & _) & _); apply He24.
           simpl; apply in_or_app; right; simpl; auto.
        -- exists g; destruct S4 as (_ & (_ & _ & Hg4) & _); apply Hg4; simpl.
           apply (dget_dset_same Nat.eqb Nat_eqb_eq').
        -- exact D4.
      * apply Htarget; destruct E14 as (Hh & _); apply Hh; simpl; apply in_or_app; right; simpl; auto.
Qed.

(* ---------------------------------------------------------------- the loop over the actions *)
Lemma Inv_st0 : forall s, Inv s st0.
Proof.
  intro s; split; [intros e []|]; split; [intros j g H; discriminate|]; split; [apply dict_inv_st0 | constructor].
Qed.

Lemma explore_actions_good : forall s, wf_facts s ->
  forall acts st, incl acts (s_actions s) -> Inv s st ->
  exists st', explore_actions s (build_fuel s) acts st = Ok st' /\ step s st st'
              /\ forall a j, In a acts -> a_dep a = Some j -> target s (NAct (a_id a)) j st'.
Proof.
  intros s W acts; induction acts as [|a acts IH]; intros st Hinc HI.
  - exists st; split; [reflexivity|]; split; [apply step_refl; exact HI|]; intros a j [].
  - assert (Ha : In a (s_actions s)) by (apply Hinc; simpl; auto).
    assert (Hinc' : incl acts (s_actions s)) by (intros x Hx; apply Hinc; simpl; auto).
    cbn [explore_actions]; destruct (a_dep a) as [j|] eqn:Ea.
    + assert (Hj : j < length (s_cps s)).
      { pose proof (wf_actions s W a Ha) as Hok; unfold action_ok in Hok; rewrite Ea in Hok.
        apply andb_true_iff in Hok; destruct Hok as (Hok & _); apply Nat.ltb_lt; exact Hok. }
      destruct (explore_good s W (build_fuel s) (NAct (a_id a)) j st HI (src_act s a j Ha Ea)
                  (wf_fuel s W j Hj)) as (st1 & E1 & S1 & T1).
      destruct (IH st1 Hinc' (proj1 S1)) as (st2 & E2 & S2 & T2).
      exists st2; split; [rewrite E1; cbn [bind]; exact E2|]; split; [eapply step_trans; eauto|].
      intros a' j' [<-|Ha'] Ea'.
      * rewrite Ea in Ea'; inversion Ea'; subst j'; eapply target_mono; [apply S2 | exact T1].
      * apply T2; auto.
    + destruct (IH st Hinc' HI) as (st2 & E2 & S2 & T2).
      exists st2; split; [exact E2|]; split; [exact S2|].
      intros a' j' [<-|Ha'] Ea'; [congruence | apply T2; auto].
Qed.

(* everything known about the final state *)
Record final (s : schema) (st : state) : Prop := {
  fin_inv : Inv s st;
  fin_closed : forall e, In e (st_hashes st) -> closed s st e;
  fin_target : forall a j, In a (s_actions s) -> a_dep a = Some j -> target s (NAct (a_id a)) j st
}.

Lemma build_final : forall s, wf s = true ->
  exists st, build s = Ok (graph_of s st) /\ final s st.
Proof.
  intros s Hwf; pose proof (wf_facts_of s Hwf) as W.
  destruct (explore_actions_good s W (s_actions s) st0 (incl_refl _) (Inv_st0 s)) as (st & E & S & T).
  exists st; split; [unfold build; rewrite E; reflexivity|].
  constructor.
  - apply S.
  - intros e He; destruct (proj2 (proj2 S) e He) as [[]|H]; exact H.
  - exact T.
Qed.

(* ================================================================ reading the final state *)
Definition sedge (st : state) (x y : node) : Prop := In (x, y) (map fst (st_edges st)).

Lemma sedge_esound : forall s st x y, Inv s st -> sedge st x y -> exists c, esound s (x, y, c).
Proof.
  intros s st x y (I1 & _) H; unfold sedge in H; apply in_map_iff in H.
  destruct H as ([[x' y'] c] & E & HI); simpl in E; inversion E; subst; exists c; apply I1; exact HI.
Qed.

Lemma ledge_sedge : forall st x y c, In (x, y, c) (st_edges st) -> sedge st x y.
Proof. intros st x y c H; unfold sedge; apply in_map_iff; exists (x, y, c); auto. Qed.

(* ---------------------------------------------------------------- gates *)
Lemma gate_complete_nested : forall s st, wf_facts s -> final s st ->
  forall j0 j, Nested s j0 j -> forall x, target s x j0 st ->
  forall c, cp_at s j c -> multi c -> exists g, dget Nat.eqb (st_gates st) j = Some g.
Proof.
  intros s st W F j0 j HN; induction HN as [j|j c0 k k' Hc0 Hd Hn IH]; intros x T c Hc M.
  - destruct (T c Hc) as (_ & T2); pose proof (fin_closed s st F _ (T2 M)) as Hcl.
    unfold closed in Hcl; simpl in Hcl; destruct (Hcl j c Hc eq_refl M) as (_ & Hg & _); exact Hg.
  - assert (M0 : multi c0) by (eapply shape_ref_multi; eauto; eapply wf_shape; eauto).
    destruct (T c0 Hc0) as (_ & T2); pose proof (fin_closed s st F _ (T2 M0)) as Hcl.
    unfold closed in Hcl; simpl in Hcl; destruct (Hcl j c0 Hc0 eq_refl M0) as (_ & _ & Hdd).
    apply (IH (NGate j) (Hdd _ Hd) c Hc M).
Qed.

Lemma gate_complete : forall s st, wf_facts s -> final s st ->
  forall j c, in_use s j -> cp_at s j c -> multi c -> exists g, dget Nat.eqb (st_gates st) j = Some g.
Proof.
  intros s st W F j c (a & j0 & Ha & Hd & Hn) Hc M.
  eapply gate_complete_nested; eauto; eapply fin_target; eauto.
Qed.

(* ---------------------------------------------------------------- completeness of the edges *)
Lemma path_complete : forall s st, wf_facts s -> final s st ->
  forall j0 k, Nested s j0 k -> forall x, target s x j0 st ->
  forall c d b, cp_at s k c -> In d (c_deps c) -> names d b ->
  clos_trans node (sedge st) x (NAct b).
Proof.
  intros s st W F j0 k HN; induction HN as [j|j c0 k k' Hc0 Hd Hn IH]; intros x T c d b Hc Hin Hnm.
  - destruct d as [key l r|k]; [|contradiction]; simpl in Hnm.
    destruct (T c Hc) as (T1 & T2).
    pose proof (wf_shape s W j c Hc) as Hshape.
    destruct (c_deps c) as [|d1 [|d2 ds]] eqn:Ed; [contradiction| |].
    + destruct Hin as [->|[]].
      pose proof (fin_closed s st F _ (T1 key l r eq_refl)) as Hcl; unfold closed in Hcl; simpl in Hcl.
      apply t_step; eapply ledge_sedge; apply (Hcl l r b); auto.
      eapply dep_in_all; eauto; rewrite Ed; simpl; auto.
    + assert (M : multi c) by (unfold multi; rewrite Ed; simpl; lia).
      pose proof (fin_closed s st F _ (T2 M)) as Hcl; unfold closed in Hcl; simpl in Hcl.
      destruct (Hcl j c Hc eq_refl M) as (He & _ & Hdd).
      rewrite Ed in Hdd; pose proof (Hdd _ Hin) as Hd; simpl in Hd.
      pose proof (fin_closed s st F _ Hd) as Hcl2; unfold closed in Hcl2; simpl in Hcl2.
      eapply t_trans; [apply t_step; eapply ledge_sedge; exact He|].
      apply t_step; eapply ledge_sedge; apply (Hcl2 l r b); auto.
      eapply dep_in_all; eauto; rewrite Ed; exact Hin.
  - assert (M0 : multi c0) by (eapply shape_ref_multi; eauto; eapply wf_shape; eauto).
    destruct (T c0 Hc0) as (_ & T2); pose proof (fin_closed s st F _ (T2 M0)) as Hcl.
    unfold closed in Hcl; simpl in Hcl; destruct (Hcl j c0 Hc0 eq_refl M0) as (He & _ & Hdd).
    eapply t_trans; [apply t_step; eapply ledge_sedge; exact He|].
    apply (IH (NGate j) (Hdd _ Hd) c d b Hc Hin Hnm).
Qed.

(* ---------------------------------------------------------------- soundness of the edges *)
Definition Below (s : schema) (i b : nat) : Prop :=
  exists k c d, Nested s i k /\ cp_at s k c /\ In d (c_deps c) /\ names d b.

Lemma esound_meaning : forall s x y cp, esound s (x, y, cp) ->
  match x, y with
  | NAct a, NGate j => forall b, Below s j b -> Dep_explicit s a b
  | NAct a, NAct b => Dep_explicit s a b
  | NGate i, NGate j => forall b, Below s j b -> Below s i b
  | NGate i, NAct b => Below s i b
  end.
Proof.
  intros s x y cp H; inversion H as [d j c Hsrc Hc M|j c k l r b Hu Hc M Hin Hn Ha|d j c k l r b Hsrc Hc Hd Hn Ha]; subst.
  - inversion Hsrc as [act j' Hact Hdep|i c0 j' Hu Hc0 M0 Hin]; subst.
    + intros b (k & c' & d' & HN & Hc' & Hin' & Hnm); eapply dep_explicit; eauto.
    + intros b (k & c' & d' & HN & Hc' & Hin' & Hnm); exists k, c', d'; repeat split; auto.
      eapply nested_step; eauto.
  - exists j, c, (DCmp k l r); repeat split; auto; apply nested_refl.
  - assert (Hin : In (DCmp k l r) (c_deps c)) by (rewrite Hd; simpl; auto).
    inversion Hsrc as [act j' Hact Hdep|i c0 j' Hu Hc0 M0 Hin0]; subst.
    + apply (dep_explicit s act j j c (DCmp k l r) b Hact Hdep (nested_refl s j) Hc Hin Hn).
    + exists j, c, (DCmp k l r); repeat split; auto.
      eapply nested_step; eauto; apply nested_refl.
Qed.

Lemma reach_sound : forall s st, Inv s st ->
  forall x y, clos_trans_1n node (sedge st) x y -> forall b, y = NAct b ->
  match x with
  | NAct a => clos_trans nat (Dep_explicit s) a b
  | NGate i => exists b', Below s i b' /\ (b' = b \/ clos_trans nat (Dep_explicit s) b' b)
  end.
Proof.
  intros s st HI x y H; induction H as [x y He|x y z He Hyz IH]; intros b ->.
  - destruct (sedge_esound s st _ _ HI He) as (cp & Hs); apply esound_meaning in Hs.
    destruct x as [a|i]; [apply t_step; exact Hs | exists b; split; auto].
  - destruct (sedge_esound s st _ _ HI He) as (cp & Hs); apply esound_meaning in Hs.
    specialize (IH b eq_refl).
    destruct x as [a|i]; destruct y as [a'|j].
    + eapply t_trans; [apply t_step; exact Hs | exact IH].
    + destruct IH as (b' & HB & [->|Hc]); [apply t_step; auto | eapply t_trans; [apply t_step; eauto | exact Hc]].
    + exists a'; split; [exact Hs | right; exact IH].
    + destruct IH as (b' & HB & Hr); exists b'; split; auto.
Qed.

(* ================================================================ the property lemmas *)
Lemma C19_builds_lemma : forall s, wf s = true -> exists g, build s = Ok g.
Proof. intros s H; destruct (build_final s H) as (st & E & _); eauto. Qed.

Lemma C19_validated_lemma : forall validator s,
  validator s = false -> dependency_graph validator true s = Raise.
Proof. intros validator s H; unfold dependency_graph; rewrite H; reflexivity. Qed.

Lemma C19_not_validated_lemma : forall validator s,
  dependency_graph validator false s = build s
  /\ (validator s = true -> dependency_graph validator true s = build s).
Proof. intros validator s; unfold dependency_graph; split; [reflexivity | intros ->; reflexivity]. Qed.

Lemma build_graph_of : forall s g, wf s = true -> build s = Ok g ->
  exists st, g = graph_of s st /\ final s st.
Proof.
  intros s g H E; destruct (build_final s H) as (st & E' & F); rewrite E in E'; inversion E'; eauto.
Qed.

Lemma C19_reach_lemma : forall s g, wf s = true -> build s = Ok g ->
  forall a b, Reach g (NAct a) (NAct b) <-> clos_trans nat (Dep_explicit s) a b.
Proof.
  intros s g Hwf E a b; pose proof (wf_facts_of s Hwf) as W.
  destruct (build_graph_of s g Hwf E) as (st & -> & F).
  assert (Hedge : forall x y, edge (graph_of s st) x y <-> sedge st x y) by (intros; reflexivity).
  split.
  - intro H.
    assert (H' : clos_trans node (sedge st) (NAct a) (NAct b)).
    { clear -H Hedge; unfold Reach in H; induction H as [u v He|u v w _ IH1 _ IH2];
        [apply t_step, Hedge; exact He | eapply t_trans; eauto]. }
    apply clos_trans_t1n in H'.
    apply (reach_sound s st (fin_inv s st F) _ _ H' b eq_refl).
  - intro H; induction H as [x y Hd|x y z _ IH1 _ IH2]; [|eapply t_trans; eauto].
    inversion Hd as [act j k c d b' Hact Hdep HN Hc Hin Hnm]; subst.
    pose proof (path_complete s st W F j k HN (NAct (a_id act)) (fin_target s st F act j Hact Hdep)
                  c d y Hc Hin Hnm) as P.
    clear -P Hedge; unfold Reach; induction P as [u v He|u v w _ IH1 _ IH2];
      [apply t_step, Hedge; exact He | eapply t_trans; eauto].
Qed.

(* ---------------------------------------------------------------- nodes *)
Lemma NoDup_map_inj : forall A B (f : A -> B) l,
  (forall x y, f x = f y -> x = y) -> NoDup l -> NoDup (map f l).
Proof.
  intros A B f l Hinj H; induction H as [|x l Hn Hd IH]; simpl; constructor; auto.
  intro HI; apply in_map_iff in HI; destruct HI as (y & E & Hy); apply Hinj in E; subst; contradiction.
Qed.

Lemma NoDup_app_disjoint : forall A (l1 l2 : list A),
  NoDup l1 -> NoDup l2 -> (forall x, In x l1 -> In x l2 -> False) -> NoDup (l1 ++ l2).
Proof.
  intros A l1 l2 H1 H2 Hd; induction H1 as [|x l Hn Hl IH]; simpl; auto.
  constructor.
  - intro HI; apply in_app_or in HI; destruct HI as [HI|HI]; [contradiction | eapply Hd; simpl; eauto].
  - apply IH; intros y Hy1 Hy2; eapply Hd; simpl; eauto.
Qed.

Lemma gates_in_iff : forall s st, Inv s st -> forall j t,
  In (j, t) (st_gates st) <-> dget Nat.eqb (st_gates st) j = Some t.
Proof.
  intros s st (_ & _ & _ & ND) j t; split.
  - apply (in_dget Nat.eqb Nat_eqb_eq'); exact ND.
  - apply (dget_in Nat.eqb Nat_eqb_eq').
Qed.

Definition node_in (s : schema) (st : state) (n : node) : Prop :=
  match n with
  | NAct a => is_action s a
  | NGate j => exists g, dget Nat.eqb (st_gates st) j = Some g
  end.

Lemma src_node_in : forall s st d j, wf_facts s -> final s st -> src s d j -> node_in s st d.
Proof.
  intros s st d j W F [act j' Ha Hd | i c j' Hu Hc M HI]; simpl.
  - unfold is_action; apply in_map; exact Ha.
  - eapply gate_complete; eauto.
Qed.

Lemma esound_nodes : forall s st x y cp, wf_facts s -> final s st ->
  esound s (x, y, cp) -> node_in s st x /\ node_in s st y.
Proof.
  intros s st x y cp W F H.
  inversion H as [d j c Hsrc Hc M|j c k l r b Hu Hc M Hin Hn Ha|d j c k l r b Hsrc Hc Hd Hn Ha]; subst.
  - split; [eapply src_node_in; eauto|]; simpl; eapply gate_complete; eauto; eapply src_in_use; eauto.
  - split; [simpl; eapply gate_complete; eauto | exact Ha].
  - split; [eapply src_node_in; eauto | exact Ha].
Qed.

Lemma node_in_nodes : forall s st n, node_in s st n -> In n (g_nodes (graph_of s st)).
Proof.
  intros s st [a|j] H; unfold g_nodes; simpl in *; apply in_or_app.
  - left; apply in_map; exact H.
  - right; destruct H as (g & Hg); apply (dget_in Nat.eqb Nat_eqb_eq') in Hg.
    apply in_map_iff; exists (j, g); auto.
Qed.

Lemma C19_nodes_lemma : forall s g, wf s = true -> build s = Ok g -> nodes_ok s g.
Proof.
  intros s g Hwf E; pose proof (wf_facts_of s Hwf) as W.
  destruct (build_graph_of s g Hwf E) as (st & -> & F).
  pose proof (fin_inv s st F) as HI; pose proof HI as (I1 & I2 & I3 & I4).
  split; [reflexivity|]; split; [|split].
  - unfold g_nodes; simpl; apply NoDup_app_disjoint.
    + apply NoDup_map_inj; [intros x y H; inversion H; auto | apply (wf_ids s W)].
    + rewrite <- map_map; apply NoDup_map_inj; [intros x y H; inversion H; auto | exact I4].
    + intros x H1 H2; apply in_map_iff in H1; destruct H1 as (a & <- & _).
      apply in_map_iff in H2; destruct H2 as (p & Hp & _); discriminate.
  - intros j t; simpl; rewrite (gates_in_iff s st HI); split.
    + intro H; destruct (I2 j t H) as (c & Hc & M & Hg & Hu); exists c; auto.
    + intros (c & Hc & M & Hu & Hg).
      destruct (gate_complete s st W F j c Hu Hc M) as (g' & Hg').
      destruct (I2 j g' Hg') as (c' & Hc' & _ & Hg'' & _).
      rewrite (cp_at_fun _ _ _ _ Hc Hc') in Hg; congruence.
  - intros x y He.
    assert (Hs : sedge st x y) by exact He.
    destruct (sedge_esound s st x y HI Hs) as (cp & Hcp).
    destruct (esound_nodes s st x y cp W F Hcp) as (Hx & Hy).
    split; apply node_in_nodes; auto.
Qed.

(* ---------------------------------------------------------------- what the board needs *)
Lemma board_pre_lemma : forall s g, wf s = true -> build s = Ok g -> board_pre s g.
Proof.
  intros s g Hwf E; pose proof (wf_facts_of s Hwf) as W.
  destruct (C19_nodes_lemma s g Hwf E) as (N1 & N2 & N3 & N4).
  destruct (build_graph_of s g Hwf E) as (st & -> & F).
  pose proof (fin_inv s st F) as (I1 & I2 & (I3 & _) & I4).
  split; [exact N1|]; split; [exact N2|]; split; [|split; [|split; [exact N4|]]].
  - intros a Ha; pose proof (wf_actions s W a Ha) as Hok; unfold action_ok in Hok.
    apply andb_true_iff in Hok; destruct Hok as (_ & Hp); unfold party_colour.
    destruct (a_party a) as [p|]; [|discriminate].
    apply Nat.ltb_lt in Hp; apply nth_error_Some in Hp.
    destruct (nth_error (s_parties s) p) as [[c|]|]; try discriminate; congruence.
  - intros j t Hjt; apply N3 in Hjt; destruct Hjt as (c & Hc & _); unfold cp_at in Hc; congruence.
  - intro t; unfold caps_of, caps_spec; simpl; apply (I3 t).
Qed.

(* edge_dict and edge_captions are functions of the labelled edge list *)
Lemma dicts_lemma : forall s g, wf s = true -> build s = Ok g ->
  (forall t, getl tuple_eqb (g_caps g) t = caps_derived (g_ledges g) t)
  /\ (forall n, getl node_eqb (g_edict g) n = succs_derived (g_ledges g) n).
Proof.
  intros s g Hwf E; destruct (build_graph_of s g Hwf E) as (st & -> & F).
  pose proof (fin_inv s st F) as (_ & _ & I3 & _); exact I3.
Qed.

(* the bounded-descent test of wf refuses cyclic checkpoint nesting *)
Lemma cp_ok_ref : forall s f j c k, cp_ok s (S f) j = true -> cp_at s j c -> In (DRef k) (c_deps c) -> cp_ok s f k = true.
Proof.
  intros s f j c k H Hc HI; rewrite cp_ok_S in H; unfold cp_at in Hc; rewrite Hc in H.
  rewrite forallb_forall in H; apply (H _ HI).
Qed.

Lemma cp_ok_mono : forall s f j, cp_ok s f j = true -> cp_ok s (S f) j = true.
Proof.
  intros s f; induction f as [|f IH]; intros j H; [discriminate|].
  rewrite cp_ok_S in *; destruct (nth_error (s_cps s) j) as [c|]; [|discriminate].
  rewrite forallb_forall in *; intros d Hd; specialize (H d Hd).
  destruct d as [key l r|k]; [|apply IH; exact H].
  apply andb_true_iff in H; destruct H as (Hl & Hr); apply andb_true_iff.
  assert (Hop : forall o, op_ok s f o = true -> op_ok s (S f) o = true).
  { intros [b|] Ho; [|reflexivity]; unfold op_ok in *.
    destruct (find_action s b) as [act|]; [|discriminate].
    destruct (a_dep act) as [j'|]; [apply IH; exact Ho | reflexivity]. }
  split; apply Hop; auto.
Qed.

Lemma nested_strict_fuel : forall s j k, Nested s j k -> forall f, cp_ok s f j = true -> j = k \/ exists f', f' < f /\ cp_ok s f' k = true.
Proof.
  intros s j k H; induction H as [j|j c k k' Hc Hd Hn IH]; intros f Hf; [left; reflexivity|].
  right; destruct f as [|f]; [discriminate|].
  pose proof (cp_ok_ref s f j c k Hf Hc Hd) as Hk.
  destruct (IH f Hk) as [<-|(f' & Hlt & Hf')]; [exists f; split; [lia|exact Hk] | exists f'; split; [lia|exact Hf']].
Qed.

Lemma wf_no_nesting_cycle : forall s j c k, wf s = true -> cp_at s j c -> In (DRef k) (c_deps c) -> ~ Nested s k j.
Proof.
  intros s j c k Hwf Hc Hd HN; pose proof (wf_facts_of s Hwf) as W.
  assert (Hj : j < length (s_cps s)) by (apply nth_error_Some; unfold cp_at in Hc; congruence).
  pose proof (wf_fuel s W j Hj) as Hf.
  assert (Hdesc : forall f, cp_ok s f j = true -> False).
  { intro f; induction f as [f IHf] using lt_wf_ind; intro Hok.
    destruct f as [|f]; [discriminate|].
    pose proof (cp_ok_ref s f j c k Hok Hc Hd) as Hk.
    destruct (nested_strict_fuel s k j HN f Hk) as [->|(f' & Hlt & Hf')].
    - apply (IHf f); [lia | exact Hk].
    - apply (IHf f'); [lia | exact Hf']. }
  exact (Hdesc _ Hf).
Qed.

(* ================================================================ C20 for graphs of valid schemas *)
Lemma C20_shapes_thm : forall s g coords create rs l,
  wf s = true -> build s = Ok g ->
  emit_log s g coords create rs = (l, Finished) -> shapes_ok s g coords l.
Proof. intros s g coords create rs l Hwf Hb; apply C20_shapes_lemma, board_pre_lemma; auto. Qed.

Lemma C20_connectors_thm : forall s g coords create rs l,
  wf s = true -> build s = Ok g ->
  emit_log s g coords create rs = (l, Finished) -> connectors_ok g coords l.
Proof. intros s g coords create rs l Hwf Hb; eapply C20_connectors_lemma, board_pre_lemma; eauto. Qed.

Lemma C20_error_aborts_thm : forall s g coords create rs reqs st k,
  wf s = true -> build s = Ok g ->
  emit s g coords create rs = (reqs, st) ->
  k < length reqs -> nth_error rs k = Some RErr ->
  st = Aborted /\ length reqs = S k.
Proof. intros s g coords create rs reqs st k Hwf Hb; eapply C20_error_aborts_lemma, board_pre_lemma; eauto. Qed.

Lemma C20_aborts_only_on_error_thm : forall s g coords create rs l,
  wf s = true -> build s = Ok g ->
  emit_log s g coords create rs = (l, Aborted) ->
  exists l0 q, l = l0 ++ [(q, RErr)] /\ all_ok l0 /\ nth_error rs (length l0) = Some RErr.
Proof. intros s g coords create rs l Hwf Hb; eapply aborted_only_by_error, board_pre_lemma; eauto. Qed.

(* ================================================================ the graph of a valid schema is acyclic *)
(* a potential that strictly decreases along every edge: the recursion budget [cp_ok] still available
   below the node, counted in half steps so that action -> gate edges also decrease it *)
Definition pot (s : schema) (n : node) (m : nat) : Prop :=
  match n with
  | NGate j => exists f, 2 * f <= m + 1 /\ cp_ok s f j = true
  | NAct a => forall act j, In act (s_actions s) -> a_id act = a -> a_dep act = Some j ->
                exists f, 2 * f <= m /\ cp_ok s f j = true
  end.

Lemma cp_ok_dep : forall s f j c d, cp_ok s (S f) j = true -> cp_at s j c -> In d (c_deps c) -> dep_ok s f d = true.
Proof.
  intros s f j c d H Hc HI; rewrite cp_ok_S in H; unfold cp_at in Hc; rewrite Hc in H.
  rewrite forallb_forall in H; apply (H _ HI).
Qed.

Lemma find_action_unique : forall s act, NoDup (map a_id (s_actions s)) -> In act (s_actions s) ->
  find_action s (a_id act) = Some act.
Proof.
  intros s act; unfold find_action; induction (s_actions s) as [|a l IH]; intros ND HI; [contradiction|].
  simpl in *; inversion ND as [|? ? Hn Hd]; subst.
  destruct HI as [->|HI]; [rewrite Nat.eqb_refl; reflexivity|].
  destruct (Nat.eqb (a_id a) (a_id act)) eqn:E; [|auto].
  apply Nat.eqb_eq in E; exfalso; apply Hn; rewrite E; apply in_map; exact HI.
Qed.

Lemma dep_ok_names : forall s f k l r b, wf_facts s ->
  dep_ok s f (DCmp k l r) = true -> (l = Some b \/ r = Some b) ->
  forall act j, In act (s_actions s) -> a_id act = b -> a_dep act = Some j -> cp_ok s f j = true.
Proof.
  intros s f k l r b W H Hn act j Hact Hid Hdep; simpl in H.
  apply andb_true_iff in H; destruct H as (Hl & Hr).
  assert (Hb : op_ok s f (Some b) = true) by (destruct Hn as [->| ->]; auto).
  unfold op_ok in Hb; rewrite <- Hid, (find_action_unique s act (wf_ids s W) Hact), Hdep in Hb; exact Hb.
Qed.

Lemma src_pot : forall s d j m, src s d j -> pot s d m ->
  exists f, cp_ok s f j = true /\ match d with NAct _ => 2 * f <= m | NGate _ => 2 * f + 2 <= m + 1 end.
Proof.
  intros s d j m [act j' Ha Hd | i c j' Hu Hc M HI] HP; simpl in HP.
  - destruct (HP act j' Ha eq_refl Hd) as (f & Hf & Hok); exists f; split; auto.
  - destruct HP as (f & Hf & Hok); destruct f as [|f]; [discriminate|].
    exists f; split; [eapply cp_ok_ref; eauto | lia].
Qed.

Lemma edge_desc : forall s x y c, wf_facts s -> esound s (x, y, c) ->
  forall m, pot s x m -> exists m', m' < m /\ pot s y m'.
Proof.
  intros s x y cp W H m HP.
  inversion H as [d j c Hsrc Hc M|j c k l r b Hu Hc M Hin Hn Ha|d j c k l r b Hsrc Hc Hd Hn Ha]; subst.
  - destruct (src_pot s x j m Hsrc HP) as (f & Hok & Hf).
    destruct f as [|f]; [discriminate|].
    destruct m as [|m]; [exfalso; destruct x; lia|].
    exists m; split; [lia|]; simpl.
    exists (S f); split; [destruct x; lia | exact Hok].
  - simpl in HP; destruct HP as (f & Hf & Hok); destruct f as [|f]; [discriminate|].
    destruct m as [|m]; [lia|]; exists m; split; [lia|]; simpl.
    intros act j' Hact Hid Hdep; exists f; split; [lia|].
    eapply dep_ok_names; eauto; eapply cp_ok_dep; eauto.
  - destruct (src_pot s x j m Hsrc HP) as (f & Hok & Hf).
    destruct f as [|f]; [discriminate|].
    assert (Hin : In (DCmp k l r) (c_deps c)) by (rewrite Hd; simpl; auto).
    pose proof (cp_ok_dep s f j c _ Hok Hc Hin) as Hdep.
    destruct m as [|m]; [exfalso; destruct x; lia|].
    exists m; split; [lia|]; simpl.
    intros act j' Hact' Hid Hd'; exists f; split; [destruct x; lia|].
    eapply dep_ok_names; eauto.
Qed.

Lemma path_desc : forall s st, wf_facts s -> Inv s st ->
  forall x y, clos_trans node (sedge st) x y -> forall m, pot s x m -> exists m', m' < m /\ pot s y m'.
Proof.
  intros s st W HI x y H; induction H as [x y He|x y z _ IH1 _ IH2]; intros m HP.
  - destruct (sedge_esound s st x y HI He) as (c & Hc); eapply edge_desc; eauto.
  - destruct (IH1 m HP) as (m1 & L1 & P1); destruct (IH2 m1 P1) as (m2 & L2 & P2).
    exists m2; split; [lia | exact P2].
Qed.

Lemma no_cycle_pot : forall s st, wf_facts s -> Inv s st ->
  forall m x, pot s x m -> ~ clos_trans node (sedge st) x x.
Proof.
  intros s st W HI m; induction m as [m IH] using lt_wf_ind; intros x HP Hc.
  destruct (path_desc s st W HI x x Hc m HP) as (m' & L & P'); exact (IH m' L x P' Hc).
Qed.

Lemma C19_acyclic_lemma : forall s g, wf s = true -> build s = Ok g -> forall n, ~ Reach g n n.
Proof.
  intros s g Hwf E n Hc; pose proof (wf_facts_of s Hwf) as W.
  destruct (build_graph_of s g Hwf E) as (st & -> & F).
  pose proof (fin_inv s st F) as HI.
  assert (Hc' : clos_trans node (sedge st) n n) by exact Hc.
  apply (no_cycle_pot s st W HI (2 * build_fuel s) n); [|exact Hc'].
  (* n starts an edge, so the checkpoint below it exists *)
  assert (Hout : exists y, sedge st n y).
  { clear -Hc'; apply clos_trans_t1n in Hc'; inversion Hc'; eauto. }
  destruct Hout as (y & He); destruct (sedge_esound s st n y HI He) as (c & Hs).
  destruct n as [a|j]; cbn [pot].
  - intros act j Hact Hid Hdep; exists (build_fuel s); split; [lia|].
    apply (wf_fuel s W).
    pose proof (wf_actions s W act Hact) as Hok; unfold action_ok in Hok; rewrite Hdep in Hok.
    apply andb_true_iff in Hok; destruct Hok as (Hok & _); apply Nat.ltb_lt; exact Hok.
  - exists (build_fuel s); split; [lia|]; apply (wf_fuel s W).
    assert (Hcp : exists c', cp_at s j c').
    { inversion Hs as [d j' c' Hsrc Hc1 M|j' c' k l r b Hu Hc1 M Hin Hn Ha|d j' c' k l r b Hsrc Hc1 Hd Hn Ha]; subst.
      - inversion Hsrc; subst; eauto.
      - eauto.
      - inversion Hsrc; subst; eauto. }
    destruct Hcp as (c' & Hc1); apply nth_error_Some; unfold cp_at in Hc1; congruence.
Qed.

Lemma C20_first_error_thm : forall s g coords create rs reqs st k,
  wf s = true -> build s = Ok g ->
  emit s g coords create rs = (reqs, st) ->
  nth_error rs k = Some RErr ->
  (forall i r, i < k -> nth_error rs i = Some r -> is_ok r) ->
  (st = Aborted /\ length reqs = S k) \/ (st = Finished /\ length reqs <= k).
Proof. intros s g coords create rs reqs st k Hwf Hb; eapply first_error_outcomes, board_pre_lemma; eauto. Qed.
