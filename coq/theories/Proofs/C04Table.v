(* C04 (a): the implementation's comparability table, tabulated exhaustively from the current source
   (Gen/Tables.v), equals the declarative specification Spec.Compare.Cmp on all 11 x 14 x 11 triples,
   except on the cells of the known finding "STRING CONTAINS / DOES_NOT_CONTAIN STRING is accepted". *)
From Coq Require Import List Bool.
From OIS Require Import Base.Types Spec.Compare Gen.Tables Proofs.TableLookup.
Import ListNotations.

Definition key := (ty * cop * ty)%type.
Definition key_eqb (a b : key) : bool :=
  let '(l1, o1, r1) := a in let '(l2, o2, r2) := b in ty_eqb l1 l2 && cop_eqb o1 o2 && ty_eqb r1 r2.
Lemma key_eqb_eq a b : key_eqb a b = true <-> a = b.
Proof.
  destruct a as [[l1 o1] r1], b as [[l2 o2] r2]; simpl.
  rewrite !andb_true_iff, !ty_eqb_eq, cop_eqb_eq. split; [intros [[-> ->] ->]; reflexivity | intros H; inversion H; auto].
Qed.

Definition cmp_assoc : list (key * bool) := map (fun '(l, o, r, b) => ((l, o, r), b)) cmp_table.
Definition impl_comparable (l : ty) (o : cop) (r : ty) : option bool := lookup key_eqb cmp_assoc (l, o, r).

Definition all_keys : list key :=
  flat_map (fun l => flat_map (fun o => map (fun r => (l, o, r)) all_ty) all_cop) all_ty.
Lemma all_keys_complete : forall k, In k all_keys.
Proof. intros [[l o] r]. apply in_prod3; [apply all_ty_complete | apply all_cop_complete | apply all_ty_complete]. Qed.

(* known finding C04-string-contains-string: substring containment is accepted although the
   statement's families do not include it *)
Definition kf_string_contains (l : ty) (o : cop) (r : ty) : bool :=
  ty_eqb l STRING && ty_eqb r STRING && match o with CONTAINS | DOES_NOT_CONTAIN => true | _ => false end.

Definition expected (k : key) : bool :=
  let '(l, o, r) := k in if kf_string_contains l o r then true else Cmp l o r.

Lemma table_matches : table_is key_eqb Bool.eqb cmp_assoc all_keys expected = true.
Proof. vm_compute. reflexivity. Qed.

Lemma C04_table_partial_lemma : forall l o r,
  kf_string_contains l o r = false -> impl_comparable l o r = Some (Cmp l o r).
Proof.
  intros l o r Hkf. unfold impl_comparable.
  rewrite (table_is_sound key_eqb Bool.eqb (fun a b H => proj1 (Bool.eqb_true_iff a b) H) _ _ _ table_matches (l, o, r) (all_keys_complete _)).
  simpl. rewrite Hkf. reflexivity.
Qed.

Lemma C04_table_kf_lemma : forall l o r,
  kf_string_contains l o r = true -> impl_comparable l o r = Some true.
Proof.
  intros l o r Hkf. unfold impl_comparable.
  rewrite (table_is_sound key_eqb Bool.eqb (fun a b H => proj1 (Bool.eqb_true_iff a b) H) _ _ _ table_matches (l, o, r) (all_keys_complete _)).
  simpl. rewrite Hkf. reflexivity.
Qed.

(* the full statement and its refutation by the known-finding witness *)
Definition C04_table_statement : Prop := forall l o r, impl_comparable l o r = Some (Cmp l o r).
Lemma C04_table_refuted_lemma : ~ C04_table_statement.
Proof. intro H. specialize (H STRING CONTAINS STRING). vm_compute in H. discriminate. Qed.

(* Cmp agrees with the relational reading *)
Lemma Cmp_Comparable : forall l o r, Cmp l o r = true <-> Comparable l o r.
Proof.
  intros l o r; split.
  - destruct l, o, r; vm_compute; intro H; try discriminate H;
      first [ apply CNullL; discriminate | apply CNullR; discriminate
            | apply CEq; reflexivity | apply COrd; reflexivity
            | eapply CMember; reflexivity | eapply CContain; reflexivity | apply CSet; reflexivity
            | apply CEmptyL; [reflexivity | first [apply CEq; reflexivity | apply CSet; reflexivity]]
            | apply CEmptyR; [reflexivity | first [apply CEq; reflexivity | apply CSet; reflexivity]] ].
  - intro H. induction H;
      repeat match goal with
             | t : ty |- _ => destruct t
             | o : cop |- _ => destruct o
             end; simpl in *; try discriminate; try reflexivity; try congruence;
      try (match goal with H : _ = Some _ |- _ => inversion H; subst end); try reflexivity; try assumption.
Qed.
