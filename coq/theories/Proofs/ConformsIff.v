(* [conforms tbl s = true <-> Conforms tbl s] (Spec/Conforms.v): every boolean rule of Model/Rules.v against its
   declarative clause, in both directions. *)
From Coq Require Import List Bool Arith Lia Relations Permutation.
From OIS Require Import Base.Types Base.PipeTypes Spec.Compare Model.Schema Model.Rules Spec.DepRel.
From OIS Require Import Proofs.DepLemmas Proofs.CycleProofs Proofs.AncestryProofs Proofs.C04Table.
From OIS Require Import Proofs.ConformsInv Proofs.TypingSpec Spec.Conforms.
Import ListNotations.

(* ================================================================== generic list facts *)
Lemma nodup_by_pairs {A} (eqb : A -> A -> bool) (l : list A) :
  nodup_by eqb l = true <-> ForallOrdPairs (fun x y => eqb x y = false) l.
Proof.
  induction l as [|x r IH]; simpl.
  - split; [constructor | reflexivity].
  - rewrite andb_true_iff, negb_true_iff, IH, existsb_false_forall, <- Forall_forall. split.
    + intros [A1 A2]. constructor; assumption.
    + intro H. inversion H; subst. split; assumption.
Qed.

Lemma NoDup_single {A} (l : list A) (f : A) : NoDup l -> In f l -> (forall x, In x l -> x = f) -> l = [f].
Proof.
  intros ND Hin Hall. destruct l as [|x r]; [contradiction|].
  assert (x = f) by (apply Hall; left; reflexivity). subst x.
  destruct r as [|y r]; [reflexivity|]. exfalso.
  assert (y = f) by (apply Hall; right; left; reflexivity). subst y.
  inversion ND as [|? ? N _]; subst. apply N. left; reflexivity.
Qed.

(* ================================================================== references *)
Lemma ref_ok_spec s k r : ref_ok s k r = true <-> RefTo s k r.
Proof.
  unfold ref_ok, RefTo, denotes. rewrite andb_true_iff, rkind_eqb_eq.
  split; intros [K D]; (split; [exact K|]); subst k; revert D; destruct (r_kind r); simpl; apply isSome_true.
Qed.

Lemma oref_ok_spec s k o : oref_ok s k o = true <-> ORefTo s k o.
Proof.
  unfold oref_ok, ORefTo. destruct o as [r|].
  - rewrite ref_ok_spec. split; [intros H r' E; injection E as <-; exact H | intro H; apply H; reflexivity].
  - split; [intros _ r E; discriminate | reflexivity].
Qed.

(* ================================================================== the composite key of checkpoints *)
Lemma lit_same_iff x y : lit_same_value x y = true <-> LitSame x y.
Proof.
  unfold lit_same_value, LitSame. rewrite andb_true_iff, ishape_eqb_eq.
  destruct (l_shape x); rewrite ?Nat.eqb_eq, ?Bool.eqb_true_iff; intuition.
Qed.

Lemma operand_same_iff a b : operand_eqb a b = true <-> OperandSame a b.
Proof.
  destruct a as [x p|x p|x], b as [y q|y q|y]; simpl; try (split; [discriminate | intro H; inversion H]).
  - rewrite andb_true_iff, ref_eqb_eq, list_nat_eqb_eq. split; [intros [-> ->]; constructor | intro H; inversion H; auto].
  - rewrite andb_true_iff, Nat.eqb_eq, list_nat_eqb_eq. split; [intros [-> ->]; constructor | intro H; inversion H; auto].
  - rewrite lit_same_iff. split; [intro H; constructor; exact H | intro H; inversion H; assumption].
Qed.

Lemma dep_same_iff a b : dep_eqb a b = true <-> DepSame a b.
Proof.
  destruct a as [l o r|c], b as [l' o' r'|c']; simpl; try (split; [discriminate | intro H; inversion H]).
  - rewrite !andb_true_iff, !operand_same_iff, cop_eqb_eq.
    split; [intros [[A ->] B]; constructor; assumption | intro H; inversion H; subst; auto].
  - rewrite ref_eqb_eq. split; [intros ->; constructor | intro H; inversion H; reflexivity].
Qed.

Lemma LitSame_sym x y : LitSame x y -> LitSame y x.
Proof.
  intros [A B]. split; [auto|]. rewrite <- A. revert B. destruct (l_shape x); intro B; auto.
Qed.

Lemma LitSame_trans x y z : LitSame x y -> LitSame y z -> LitSame x z.
Proof.
  intros [A B] [C D]. split; [congruence|]. rewrite <- A in D. revert B D. destruct (l_shape x); intros B D; auto; congruence.
Qed.

Lemma OperandSame_sym a b : OperandSame a b -> OperandSame b a.
Proof. destruct 1; constructor. apply LitSame_sym. assumption. Qed.

Lemma OperandSame_trans a b c : OperandSame a b -> OperandSame b c -> OperandSame a c.
Proof.
  intros H1 H2. inversion H1; subst; inversion H2; subst; constructor. eapply LitSame_trans; eassumption.
Qed.

Lemma DepSame_sym a b : DepSame a b -> DepSame b a.
Proof. destruct 1; constructor; apply OperandSame_sym; assumption. Qed.

Lemma DepSame_trans a b c : DepSame a b -> DepSame b c -> DepSame a c.
Proof.
  intros H1 H2. inversion H1; subst; inversion H2; subst; constructor; eapply OperandSame_trans; eassumption.
Qed.

Lemma remove_first_some d : forall l l', remove_first d l = Some l' -> exists y, DepSame d y /\ Permutation l (y :: l').
Proof.
  induction l as [|a l IH]; intros l' H; simpl in H; [discriminate|].
  destruct (dep_eqb d a) eqn:E.
  - injection H as <-. exists a. split; [apply dep_same_iff; exact E | apply Permutation_refl].
  - destruct (remove_first d l) as [r'|] eqn:R; [|discriminate]. injection H as <-.
    destruct (IH r' eq_refl) as (y & S & P). exists y. split; [exact S|].
    eapply perm_trans; [apply perm_skip; exact P | apply perm_swap].
Qed.

Lemma remove_first_found d y : forall l, In y l -> DepSame d y ->
  exists z l', remove_first d l = Some l' /\ DepSame d z /\ Permutation l (z :: l').
Proof.
  induction l as [|a l IH]; intros Hin S; [contradiction|]. simpl.
  destruct (dep_eqb d a) eqn:E.
  - exists a, l. split; [reflexivity|]. split; [apply dep_same_iff; exact E | apply Permutation_refl].
  - destruct Hin as [->|Hin]; [apply dep_same_iff in S; congruence|].
    destruct (IH Hin S) as (z & l' & R & Sz & P). rewrite R. exists z, (a :: l'). split; [reflexivity|]. split; [exact Sz|].
    eapply perm_trans; [apply perm_skip; exact P | apply perm_swap].
Qed.

Lemma msub_sound : forall a b, length a = length b -> msub a b = true ->
  exists l, Permutation b l /\ Forall2 DepSame a l.
Proof.
  induction a as [|x r IH]; intros b Len H.
  - destruct b; [|discriminate Len]. exists []. split; constructor.
  - simpl in H. destruct (remove_first x b) as [b'|] eqn:R; [|discriminate].
    destruct (remove_first_some _ _ _ R) as (y & S & P).
    assert (Len' : length r = length b') by (apply Permutation_length in P; simpl in *; lia).
    destruct (IH b' Len' H) as (l & P' & F). exists (y :: l).
    split; [eapply perm_trans; [exact P | apply perm_skip; exact P'] | constructor; assumption].
Qed.

Lemma msub_complete : forall a b l, Permutation b l -> Forall2 DepSame a l -> msub a b = true.
Proof.
  induction a as [|x r IH]; intros b l P F; [reflexivity|].
  inversion F as [|x' y r' l0 Sxy F']; subst.
  assert (Hy : In y b) by (eapply Permutation_in; [apply Permutation_sym; exact P | left; reflexivity]).
  destruct (remove_first_found x y b Hy Sxy) as (z & b' & R & Sz & Pz). simpl. rewrite R.
  assert (Pzy : Permutation (z :: b') (y :: l0)) by (eapply perm_trans; [apply Permutation_sym; exact Pz | exact P]).
  assert (Hz : In z (y :: l0)) by (eapply Permutation_in; [exact Pzy | left; reflexivity]).
  destruct Hz as [<-|Hz].
  - apply (IH b' l0); [eapply Permutation_cons_inv; exact Pzy | exact F'].
  - apply in_split in Hz. destruct Hz as (l1 & l2 & ->).
    apply Forall2_app_inv_r in F'. destruct F' as (r1 & r2' & F1 & F2 & ->).
    inversion F2 as [|w z' r2 l2' Swz F2']; subst.
    apply (IH b' (l1 ++ y :: l2)).
    + apply (@Permutation_cons_app_inv _ b' (y :: l1) l2 z) in Pzy. simpl in Pzy.
      eapply perm_trans; [exact Pzy | apply Permutation_middle].
    + apply Forall2_app; [exact F1|]. constructor; [|exact F2'].
      eapply DepSame_trans; [exact Swz|]. eapply DepSame_trans; [apply DepSame_sym; exact Sz | exact Sxy].
Qed.

Lemma Forall2_len {A B} (R : A -> B -> Prop) l l' : Forall2 R l l' -> length l = length l'.
Proof. induction 1; simpl; congruence. Qed.

Lemma deps_same_iff a b : deps_same a b = true <-> exists l, Permutation b l /\ Forall2 DepSame a l.
Proof.
  unfold deps_same. rewrite andb_true_iff, Nat.eqb_eq. split.
  - intros [L M]. apply msub_sound; assumption.
  - intros (l & P & F). split; [|eapply msub_complete; eassumption].
    rewrite (Forall2_len _ _ _ F), (Permutation_length P). reflexivity.
Qed.

Lemma gate_opt_eqb_eq a b : gate_opt_eqb a b = true <-> a = b.
Proof. destruct a as [[]|], b as [[]|]; simpl; split; congruence. Qed.

Lemma composite_iff c1 c2 : composite_eqb c1 c2 = true <-> SameKey c1 c2.
Proof. unfold composite_eqb, SameKey. rewrite andb_true_iff, gate_opt_eqb_eq, deps_same_iff. reflexivity. Qed.

Lemma composite_false_iff c1 c2 : composite_eqb c1 c2 = false <-> ~ SameKey c1 c2.
Proof. rewrite <- composite_iff. destruct (composite_eqb c1 c2); intuition congruence. Qed.

Lemma ForallOrdPairs_iff {A} (R R' : A -> A -> Prop) (l : list A) :
  (forall x y, R x y <-> R' x y) -> (ForallOrdPairs R l <-> ForallOrdPairs R' l).
Proof.
  intro E. split; induction 1 as [|a l Fa _ IH]; constructor; try assumption;
    (eapply Forall_impl; [|exact Fa]); intros y Hy; apply E; exact Hy.
Qed.

(* ================================================================== uniqueness *)
Lemma unique_spec s : unique_parts s <-> UniqueIds s.
Proof.
  split; intros []; constructor; try assumption.
  - apply (ForallOrdPairs_iff _ _ _ composite_false_iff). apply nodup_by_pairs. assumption.
  - apply nodup_by_pairs. apply (ForallOrdPairs_iff _ _ _ composite_false_iff). assumption.
Qed.

Lemma unique_ids_spec s : unique_ids s = true <-> UniqueIds s.
Proof. rewrite unique_ids_inv. apply unique_spec. Qed.

(* ================================================================== object types *)
Lemma attr_ok_spec s a : attr_ok s a = true <-> AttrOk s a.
Proof.
  unfold attr_ok, AttrOk. destruct (at_kind a) as [t|tgt|tgt]; [apply isSome_true | apply ref_ok_spec | apply ref_ok_spec].
Qed.

Lemma otype_ok_spec s t : otype_ok s t = true <-> TypeOk s t.
Proof.
  rewrite otype_ok_inv. unfold attr_names. split.
  - intros (A & B & C). constructor; [exact A | exact B | intros a Ha; apply attr_ok_spec; apply C; exact Ha].
  - intros [A B C]. split; [exact A|]. split; [exact B|]. intros a Ha. apply attr_ok_spec. apply C. exact Ha.
Qed.

(* ================================================================== the ground facts, first stage *)
(* what the searches need in order to be complete: distinct ids, resolving scopes, a silent cycle detector *)
Record Ground1 (s : schema) : Prop := {
  g1_unique : unique_parts s;
  g1_scopes : ScopesResolve s;
  g1_nocycle : has_cycle s = false;
  g1_used : forall g, In g (groups s) -> GroupUsed s (g_id g)
}.

Lemma Encloses_trans s a b c : Encloses s a b -> Encloses s b c -> Encloses s a c.
Proof.
  intros Hab Hbc. induction Hbc as [g tg F | g tg r g' F C K _ IH].
  - exact Hab.
  - eapply E_up; try eassumption. apply IH. exact Hab.
Qed.

Lemma rooted_scopes s : (forall g, In g (groups s) -> Rooted s (g_id g)) -> ScopesResolve s.
Proof.
  intro H. apply ScopesResolve_iff. intros g tg F. apply ConformsInv.find_group_some in F. destruct F as [Hin <-].
  apply H. exact Hin.
Qed.

Lemma scopes_rooted s g : ScopesResolve s -> unique_parts s -> In g (groups s) -> Rooted s (g_id g).
Proof.
  intros SR U Hin. apply (proj1 (ScopesResolve_iff s) SR (g_id g) g). apply find_group_in; assumption.
Qed.

(* a silent detector, from the two declarative acyclicity clauses *)
Lemma acyclic_no_cycle s : Acyclic s ->
  (forall a c, In a (actions s) -> HoldsAction s a c -> NestAcyclicBelow s c) -> has_cycle s = false.
Proof.
  intros HA HN. unfold has_cycle. apply orb_false_iff. split.
  - destruct (explore_all s (map a_id (actions s)) []) eqn:E; [|reflexivity].
    exfalso. destruct (explore_all_true_cycle _ _ _ E) as [x Hx]. apply (HA x). apply tEdge_Anc. exact Hx.
  - apply existsb_false_forall. intros act Hact. apply existsb_false_forall. intros c Hc.
    apply cyc_complete. apply (HN act c Hact). apply action_cps_sound. exact Hc.
Qed.

Section G1.
Variable s : schema.
Hypothesis G : Ground1 s.

Let U := g1_unique s G.
Let SR := g1_scopes s G.
Let NC := g1_nocycle s G.

Lemma g1_acyclic : Acyclic s.
Proof. apply has_cycle_false_acyclic; assumption. Qed.

Lemma g1_nesting : forall a c, In a (actions s) -> HoldsAction s a c -> NestAcyclicBelow s c.
Proof.
  intros a c Ha Hc. destruct (has_cycle_false_parts s NC) as [_ H]. apply (H a c Ha).
  apply action_cps_complete; assumption.
Qed.

Lemma acc_iff g g' : has_access s g g' = true <-> Encloses s g' g.
Proof.
  rewrite has_access_encloses. split; [tauto|]. intro E. split; [|exact E].
  destruct (encloses_resolves s _ _ E) as [tg F]. exact (SR _ _ F).
Qed.

Lemma sees_iff from target : ctx_sees s from target = true <-> Sees s from target.
Proof.
  unfold Sees, ctx_sees. destruct target as [g'|].
  - destruct from as [g|].
    + rewrite acc_iff. split.
      * intros E g'' Eq. injection Eq as <-. exists g. auto.
      * intro H. destruct (H g' eq_refl) as (g0 & Eq & E). injection Eq as <-. exact E.
    + split; [discriminate|]. intro H. destruct (H g' eq_refl) as (g0 & Eq & _). discriminate.
  - split; [intros _ g' Eq; discriminate | reflexivity].
Qed.

Lemma sees_false_iff from target : ctx_sees s from target = false <-> ~ Sees s from target.
Proof. rewrite <- sees_iff. destruct (ctx_sees s from target); intuition congruence. Qed.

Lemma anc_iff a b : is_ancestor s a b = true <-> Anc s a b.
Proof. apply is_ancestor_iff_no_cycle; assumption. Qed.

Lemma anc_false_iff a b : is_ancestor s a b = false <-> ~ Anc s a b.
Proof. rewrite <- anc_iff. destruct (is_ancestor s a b); intuition congruence. Qed.

Lemma holds_iff a c : In c (action_cps s a) <-> HoldsAction s a c.
Proof. split; [apply action_cps_sound | apply action_cps_complete; exact SR]. Qed.

(* ------------------------------------------------------------------ creators *)
Lemma acts_on_iff p a : In a (actions_on s p) <-> ActsOn s p a.
Proof. apply actions_on_spec. Qed.

Lemma creators_iff p a : In a (creators s p) <-> Creator s p a.
Proof.
  rewrite creators_In, acts_on_iff. unfold Creator. split; intros [A B]; (split; [exact A|]); intros b Hb Hne.
  - apply anc_false_iff. apply B; [apply acts_on_iff; exact Hb | exact Hne].
  - apply anc_false_iff. apply B; [apply acts_on_iff; exact Hb | exact Hne].
Qed.

Lemma actions_nodup : NoDup (actions s).
Proof. apply (NoDup_map_inv a_id). apply (u_action_id s U). Qed.

Lemma creators_nodup p : NoDup (creators s p).
Proof. unfold creators, actions_on. apply NoDup_filter. apply NoDup_filter. exact actions_nodup. Qed.

Lemma creators_single p f : creators s p = [f] <-> Creator s p f /\ forall f', Creator s p f' -> f' = f.
Proof.
  split.
  - intro E. split.
    + apply creators_iff. rewrite E. left; reflexivity.
    + intros f' C. apply creators_iff in C. rewrite E in C. destruct C as [<-|[]]. reflexivity.
  - intros [C Un]. apply NoDup_single; [apply creators_nodup | apply creators_iff; exact C|].
    intros x Hx. apply Un. apply creators_iff. exact Hx.
Qed.

(* ------------------------------------------------------------------ every thread group contains an action *)
Lemma scope_length g l : scope s g = Some l -> length l <= length (groups s).
Proof.
  intro H. unfold scope in H. pose proof (NoDup_incl_length (chain_nodup _ _ _ _ H) (chain_ids _ _ _ _ H)) as B.
  rewrite map_length in B. exact B.
Qed.

(* the scope of a nested group is the group followed by the scope of its parent *)
Lemma scope_cons h r l' : find_group s (g_id h) = Some h -> g_ctx h = Some r -> r_kind r = RGroup ->
  scope s (g_id h) = Some l' -> exists l, scope s (r_id r) = Some l /\ l' = g_id h :: l.
Proof.
  intros F C K H. unfold scope, fuel_of in H. rewrite chain_S, F, C, (proj2 (rkind_eqb_eq _ _) K) in H.
  match type of H with context [chain s ?f (r_id r)] => destruct (chain s f (r_id r)) as [l0|] eqn:Ch end; [|discriminate].
  injection H as <-.
  assert (D : exists tg, find_group s (r_id r) = Some tg).
  { destruct (chain_rooted _ _ _ _ Ch); eauto. }
  destruct D as [tg Ftg]. destruct (SR _ _ Ftg) as [l Sl]. exists l. split; [exact Sl|].
  f_equal. unfold scope in Sl. exact (chain_det _ _ _ _ _ _ Ch Sl).
Qed.

Lemma group_has_action_aux : forall k g l, In g (groups s) -> scope s (g_id g) = Some l ->
  length (groups s) <= length l + k ->
  exists a r, In a (actions s) /\ a_ctx a = Some r /\ r_kind r = RGroup /\ Encloses s (g_id g) (r_id r).
Proof.
  induction k as [|k IH]; intros g l Hin Sl Bound;
    pose proof (find_group_in s g U Hin) as Fg;
    (destruct (g1_used s G g Hin) as [(a & Ha & Ca)|(h & Hh & Ch)];
     [ apply ctx_group_some in Ca; destruct Ca as (r & Cr & K & I); exists a, r; repeat (split; [assumption|]);
       rewrite I; eapply E_self; exact Fg |]);
    apply ctx_group_some in Ch; destruct Ch as (r & Cr & K & I);
    pose proof (find_group_in s h U Hh) as Fh;
    destruct (SR _ _ Fh) as [l' Sl'];
    destruct (scope_cons h r l' Fh Cr K Sl') as (l0 & Sl0 & ->);
    rewrite I, Sl in Sl0; injection Sl0 as <-.
  - exfalso. pose proof (scope_length _ _ Sl') as B. simpl in B. lia.
  - destruct (IH h (g_id h :: l) Hh Sl') as (a & ra & Ha & Ca & Ka & Ea); [simpl; lia|].
    exists a, ra. repeat (split; [assumption|]).
    apply (Encloses_trans s _ (g_id h)); [|exact Ea].
    eapply E_up; [exact Fh | exact Cr | exact K |]. rewrite I. eapply E_self. exact Fg.
Qed.

Lemma group_has_action g : In g (groups s) ->
  exists a r, In a (actions s) /\ a_ctx a = Some r /\ r_kind r = RGroup /\ Encloses s (g_id g) (r_id r).
Proof.
  intro Hin. destruct (SR _ _ (find_group_in s g U Hin)) as [l Sl].
  apply (group_has_action_aux (length (groups s)) g l Hin Sl). lia.
Qed.

(* hence a checkpoint holding a thread group holds an action, and nesting below it is acyclic *)
Lemma group_holder_holds_action g c : HoldsGroup s g c -> exists a, In a (actions s) /\ HoldsAction s a c.
Proof.
  intro H. destruct (holds_group_resolves s _ _ H) as [tg F]. apply ConformsInv.find_group_some in F. destruct F as [Hin <-].
  destruct (group_has_action tg Hin) as (a & r & Ha & Ca & K & E). exists a. split; [exact Ha|].
  right. exists r. split; [exact Ca|]. split; [exact K|].
  destruct H as (g' & tg' & r' & E' & F' & D' & K' & I'). exists g', tg', r'. split; [|auto].
  eapply Encloses_trans; eassumption.
Qed.

Lemma group_holder_nesting g c : HoldsGroup s g c -> NestAcyclicFrom s c.
Proof. intro H. destruct (group_holder_holds_action g c H) as (a & Ha & Hc). exact (g1_nesting a c Ha Hc). Qed.

Lemma group_anc_iff g b : In b (group_ancestors s g) <-> GroupAncestor s g b.
Proof.
  split; [intro H; exact (AncestryProofs.group_ancestors_sound s g b H)|].
  intros [c [Hh H]]. unfold group_ancestors.
  assert (Hc : In c (group_eff_cps s g)) by (apply group_eff_cps_complete; assumption).
  assert (HA : NestAcyclicFrom s c) by (eapply group_holder_nesting; exact Hh).
  destruct H as [Hm|[x [Hm Hx]]].
  - apply close_incl_acc. apply group_seed_In. exists c. split; [exact Hc|]. apply mentions_iff; assumption.
  - apply (reach_close _ _ x).
    + apply group_seed_In. exists c. split; [exact Hc|]. apply mentions_iff; assumption.
    + apply has_cycle_false_anc_tedge; assumption.
Qed.

End G1.

(* ================================================================== guaranteed ancestry *)
Scheme Guar_mind := Minimality for Guar Sort Prop
  with GuarD_mind := Minimality for GuarD Sort Prop.
Combined Scheme GuarU_mutind from Guar_mind, GuarD_mind.

Section G1b.
Variable s : schema.
Hypothesis G : Ground1 s.

Lemma GuarCp_Guar b : (forall c, GuarCp s b c -> Guar s b c) /\ (forall d, GuarDep s b d -> GuarD s b d).
Proof.
  apply Guar_mutind.
  - intros c cp F Gt _ IH. eapply GU_or; eassumption.
  - intros c cp d F Gt Hd _ IH. eapply GU_any; eassumption.
  - intros l o r Hb. apply GUD_direct. exact Hb.
  - intros l o r x act c Hx Fa Hc _ IH. eapply GUD_via; try eassumption. apply (holds_iff s G). exact Hc.
  - intros r K _ IH. apply GUD_ref; assumption.
Qed.

Lemma Guar_GuarCp b : (forall c, Guar s b c -> GuarCp s b c) /\ (forall d, GuarD s b d -> GuarDep s b d).
Proof.
  apply GuarU_mutind.
  - intros c cp F Gt _ IH. eapply G_or; eassumption.
  - intros c cp d F Gt Hd _ IH. eapply G_any; eassumption.
  - intros l o r Hb. apply GD_direct. exact Hb.
  - intros l o r x act c Hx Fa Hc _ IH. eapply GD_via; try eassumption. apply (holds_iff s G). exact Hc.
  - intros r K _ IH. apply GD_ref; assumption.
Qed.

Lemma guar_iff a b : guaranteed_ancestor s a b = true <-> GuaranteedAfter s a b.
Proof.
  rewrite guaranteed_ancestor_iff. unfold GuaranteedAfter.
  split; intros (c & Hc & Gc); exists c; (split; [apply (holds_iff s G); exact Hc|]).
  - apply GuarCp_Guar. exact Gc.
  - apply Guar_GuarCp. exact Gc.
Qed.

(* ------------------------------------------------------------------ the promise rules *)
Lemma promise_ok_spec p : promise_ok s p = true <->
  exists f, creators s (pr_id p) = [f] /\ ctx_group (pr_ctx p) = ctx_group (a_ctx f) /\
            (forall r, pr_ctx p = Some r -> r_kind r = RGroup).
Proof.
  unfold promise_ok. destruct (creators s (pr_id p)) as [|f [|f2 rest]].
  - split; [discriminate | intros (f & E & _); discriminate].
  - rewrite andb_true_iff, opt_nat_eqb_eq. split.
    + intros [A B]. exists f. split; [reflexivity|]. split; [exact A|]. intros r E. rewrite E in B.
      apply isSome_true in B. destruct B as [g B]. apply ctx_group_some in B. destruct B as (r' & E' & K & _).
      injection E' as <-. exact K.
    + intros (f' & E & A & B). injection E as <-. split; [exact A|].
      destruct (pr_ctx p) as [r|] eqn:C; [|reflexivity]. apply isSome_true. exists (r_id r).
      apply (ctx_group_of_group _ r eq_refl (B r eq_refl)).
  - split; [discriminate | intros (f0 & E & _); discriminate].
Qed.

Lemma promise_spec p : promise_refs_ok s p = true /\ promise_ok s p = true <-> PromiseOk s p.
Proof.
  rewrite promise_refs_ok_inv, promise_ok_spec, ref_ok_spec, oref_ok_spec. split.
  - intros [[A B] (f & Cr & Cx & _)]. apply (creators_single s G) in Cr. destruct Cr as [Cr Un].
    constructor; [exact A | exact B | exists f; auto].
  - intros [A B (f & Cr & Un & Cx)]. split; [split; assumption|]. exists f.
    split; [apply (creators_single s G); split; assumption|]. split; [exact Cx|].
    intros r E. apply (B r E).
Qed.

End G1b.

(* ================================================================== the ground facts, second stage *)
(* ... and every declared promise has its one creator and a declared object type *)
Record Ground2 (s : schema) : Prop := {
  g2_ground1 : Ground1 s;
  g2_promises : forall p, In p (promises s) -> PromiseOk s p
}.

Section G2.
Variable s : schema.
Hypothesis GG : Ground2 s.

Let G := g2_ground1 s GG.
Let U := g1_unique s G.
Let SR := g1_scopes s G.

Lemma declared_promise p pr : find_promise s p = Some pr ->
  exists t f, find_type_ref s (pr_type pr) = Some t /\ type_of_promise s p = Some t /\
              creators s p = [f] /\ fulfiller s p = Some f /\ Creator s p f /\
              ctx_group (pr_ctx pr) = ctx_group (a_ctx f).
Proof.
  intro F. destruct (find_promise_some _ _ _ F) as [Hin Hid].
  destruct (g2_promises s GG pr Hin) as [[K [t Ft]] _ (f & Cr & Un & Cx)]. rewrite Hid in Cr, Un.
  assert (Ftr : find_type_ref s (pr_type pr) = Some t) by (apply find_type_ref_some; auto).
  assert (E : creators s p = [f]) by (apply (creators_single s G); auto).
  exists t, f. split; [exact Ftr|]. split; [unfold type_of_promise; rewrite F; exact Ftr|]. split; [exact E|].
  split; [unfold fulfiller; rewrite E; reflexivity|]. auto.
Qed.

Lemma fulfiller_iff p pr f : find_promise s p = Some pr -> (fulfiller s p = Some f <-> Creator s p f).
Proof.
  intro F. destruct (declared_promise p pr F) as (t & f0 & _ & _ & E & Fu & C0 & _). rewrite Fu. split.
  - intro H. injection H as <-. exact C0.
  - intro C. f_equal. symmetry. apply (proj1 (creators_single s G p f0) E). exact C.
Qed.

(* ------------------------------------------------------------------ typing *)
Lemma ppt_equiv from p path td : PromisePathType s from p path td <-> PromisePath s from p path td.
Proof.
  unfold PromisePathType, PromisePath.
  split; intros (pr & f & base & Fp & Fu & B & Hl); exists pr, f, base;
    (split; [exact Fp|]); (split; [apply (fulfiller_iff p pr f Fp); exact Fu|]); (split; [exact B|]);
    (destruct Hl as [[S E]|(S & L & E)]; [left; split; [apply (sees_iff s G); exact S | exact E] | right; split; [|auto]]).
  - apply (sees_false_iff s G). exact S.
  - apply (sees_false_iff s G). exact S.
Qed.

Lemma ppt_iff from p path td : promise_path_type s from p path = TOk td <-> PromisePath s from p path td.
Proof. rewrite promise_path_type_spec. apply ppt_equiv. Qed.

Lemma VarType_VarTy g vt : VarType s g vt -> VarTy s g vt.
Proof.
  induction 1 as [g tg p path td F Sr K P L | g tg g' path vt tr td F Sr N E V IH It Ob P L].
  - eapply VY_promise; try eassumption. apply ppt_equiv. exact P.
  - eapply VY_variable; eassumption.
Qed.

(* the fuel of the model is enough: a derivation of [VarTy] for g is no deeper than g's chain of contexts *)
Lemma varty_fuel : forall g vt, VarTy s g vt -> forall l, scope s g = Some l -> var_type s (length l) g = TOk vt.
Proof.
  induction 1 as [g tg p path td F Sr K P L | g tg g' path vt tr td F Sr N E V IH It Ob P L]; intros l Sl.
  - assert (Hin : In g l) by (apply (scope_encloses s g l Sl); eapply E_self; exact F).
    destruct l as [|x l]; [contradiction|]. cbn [length var_type].
    rewrite F, Sr, (proj2 (rkind_eqb_eq _ _) K), (proj2 (ppt_iff _ _ _ _) P), L. reflexivity.
  - assert (Hin : In g' l) by (apply (scope_encloses s g l Sl); exact E).
    unfold scope, fuel_of in Sl. rewrite chain_S, F in Sl.
    destruct (g_ctx tg) as [r|] eqn:C.
    + destruct (rkind_eqb (r_kind r) RGroup) eqn:Kr; [|discriminate].
      match type of Sl with context [chain s ?f (r_id r)] => destruct (chain s f (r_id r)) as [l1|] eqn:Ch end; [|discriminate].
      injection Sl as <-. destruct Hin as [Hin|Hin]; [exfalso; apply N; symmetry; exact Hin|].
      destruct (chain_suffix _ _ _ _ _ Ch Hin) as (f' & l' & Ch' & Len).
      destruct (encloses_outer_resolves s _ _ E) as [tg' F'].
      destruct (SR _ _ F') as [l'' Sl'']. pose proof Sl'' as Sl0. unfold scope in Sl0.
      pose proof (chain_det _ _ _ _ _ _ Ch' Sl0) as <-.
      pose proof (var_type_mono s _ _ g' vt Len (IH _ Sl'')) as V'.
      cbn [length var_type]. rewrite F, Sr.
      rewrite (proj2 (Nat.eqb_neq g' g) N), (proj2 (acc_iff s G g g') E). cbn [negb andb].
      rewrite V'. cbv beta iota. rewrite It, Ob, (proj2 (resolve_path_spec _ _ _ _) P), L. reflexivity.
    + injection Sl as <-. destruct Hin as [Hin|[]]. exfalso; apply N; symmetry; exact Hin.
Qed.

Lemma var_type_iff g vt : var_type s (fuel_of s) g = TOk vt <-> VarTy s g vt.
Proof.
  split.
  - intro H. apply VarType_VarTy. eapply var_type_sound. exact H.
  - intro V. assert (D : exists tg, find_group s g = Some tg) by (destruct V; eauto).
    destruct D as [tg F]. destruct (SR _ _ F) as [l Sl].
    apply (var_type_mono s (length l)); [|apply varty_fuel; assumption].
    pose proof (scope_length s g l Sl). unfold fuel_of. lia.
Qed.

Lemma operand_type_iff cctx o t : operand_type s cctx o = Some t <-> OperandTy s cctx o t.
Proof.
  split.
  - intro H. apply operand_type_sound in H.
    destruct H as [l t E | a path act p td K F Ep P | g cg vt Ec E V | g cg path vt tr td Ec E V Np It Ob P].
    + apply OY_literal. exact E.
    + eapply OY_action; try eassumption. apply ppt_equiv. exact P.
    + eapply OY_variable; try eassumption. apply VarType_VarTy. exact V.
    + eapply OY_variable_path; try eassumption. apply VarType_VarTy. exact V.
  - intro H.
    destruct H as [l t E | a path act p td K F Ep P | g cg vt Ec E V | g cg path vt tr td Ec E V Np It Ob P]; unfold operand_type.
    + exact E.
    + rewrite (proj2 (rkind_eqb_eq _ _) K), F, (proj2 (promise_of_some _ _) Ep), (proj2 (ppt_iff _ _ _ _) P). reflexivity.
    + subst cctx. rewrite (proj2 (acc_iff s G cg g) E), (proj2 (var_type_iff g vt) V). reflexivity.
    + subst cctx. rewrite (proj2 (acc_iff s G cg g) E), (proj2 (var_type_iff g vt) V). cbv beta iota.
      destruct path as [|seg rest]; [exfalso; apply Np; reflexivity|].
      rewrite It, Ob, (proj2 (resolve_path_spec _ _ _ _) P). reflexivity.
Qed.

End G2.

(* ================================================================== operations: settable attributes, dependees *)
Lemma settable_by_iff t op n : In n (settable_by t op) <-> SettableBy t op n.
Proof.
  unfold settable_by. rewrite !in_app_iff. split.
  - intros [H|[H|H]].
    + destruct (op_incl op) as [[l|]|[l|]] eqn:I.
      * apply filter_In in H. destruct H as [Hl Hm]. apply ConformsInv.mem_nat_In, attr_names_find in Hm.
        eapply SB_include; eassumption.
      * contradiction.
      * apply filter_In in H. destruct H as [Ha Hm]. apply negb_true_iff, ConformsInv.mem_nat_false in Hm.
        apply attr_names_find in Ha. eapply SB_exclude; eassumption.
      * apply attr_names_find in H. apply SB_exclude_none; assumption.
    + apply filter_In in H. destruct H as [Hm Ha]. apply ConformsInv.mem_nat_In, attr_names_find in Ha.
      apply in_map_iff in Hm. destruct Hm as ([n' sh] & E & Hd). simpl in E. subst n'.
      eapply SB_default; eassumption.
    + apply filter_In in H. destruct H as [Hm Hk]. apply in_map_iff in Hm. destruct Hm as ([n' q] & E & He). simpl in E. subst n'.
      destruct (find_attr t n) as [a|] eqn:Fa; [|discriminate]. destruct (at_kind a) as [ft|tgt|tgt] eqn:Ka; try discriminate.
      eapply SB_edge; eassumption.
  - intros [l I Hl Ha | I Ha | l I Hl Ha | sh Hd Ha | q a tgt He Fa Ka].
    + left. rewrite I. apply filter_In. split; [exact Hl|]. apply ConformsInv.mem_nat_In, attr_names_find. exact Ha.
    + left. rewrite I. apply attr_names_find. exact Ha.
    + left. rewrite I. apply filter_In. split; [apply attr_names_find; exact Ha|].
      apply negb_true_iff, ConformsInv.mem_nat_false. exact Hl.
    + right. left. apply filter_In. split.
      * apply in_map_iff. exists (n, sh). split; [reflexivity | exact Hd].
      * apply ConformsInv.mem_nat_In, attr_names_find. exact Ha.
    + right. right. apply filter_In. split.
      * apply in_map_iff. exists (n, q). split; [reflexivity | exact He].
      * rewrite Fa, Ka. reflexivity.
Qed.

Lemma settable_iff s p n : In n (settable s p) <-> Settable s p n.
Proof.
  rewrite settable_In. unfold Settable, type_of_promise. split.
  - intros (t & a & Tp & Ha & Hn). destruct (find_promise s p) as [pr|] eqn:F; [|discriminate].
    exists pr, t, a. split; [reflexivity|]. split; [exact Tp|].
    split; [apply actions_on_spec; exact Ha | apply settable_by_iff; exact Hn].
  - intros (pr & t & a & F & Tp & Ha & Hn). exists t, a. rewrite F. split; [exact Tp|].
    split; [apply actions_on_spec; exact Ha | apply settable_by_iff; exact Hn].
Qed.

(* ------------------------------------------------------------------ action_op_ok: the converse of [action_op_ok_inv] *)
Definition op_facts (tbl : list (ishape * ty * bool)) (s : schema) (a : action) (p : nat) (t : otype) (f : action) : Prop :=
  (forall n, In n (incl_list (op_incl (a_op a))) -> In n (attr_names t)) /\
  ((a_id f = a_id a /\
    (forall d, In d (op_defaults (a_op a)) ->
       exists at_ ft, find_attr t (fst d) = Some at_ /\ at_kind at_ = KField ft /\ default_fits tbl (snd d) ft = true) /\
    (forall e, In e (op_edges (a_op a)) ->
       exists at_ q fq, find_attr t (fst e) = Some at_ /\ at_kind at_ = KEdge (pr_type q) /\
         ref_ok s RPromise (snd e) = true /\ find_promise s (r_id (snd e)) = Some q /\
         fulfiller s (pr_id q) = Some fq /\ is_ancestor s (a_id a) (a_id fq) = true) /\
    (forall q path, op_appends (a_op a) = Some (q, path) ->
       ref_ok s RPromise q = true /\ is_dependee s (a_id a) = false /\ ~ In (last path 0) (settable s (r_id q)) /\
       exists fq td pr, fulfiller s (r_id q) = Some fq /\ guaranteed_ancestor s a (a_id fq) = true /\
         promise_path_type s (ctx_group (a_ctx a)) (r_id q) path = TOk td /\
         td_list td = true /\ td_item td = IObject /\
         find_promise s p = Some pr /\ td_obj td = Some (pr_type pr) /\
         ctx_group (a_ctx a) = ctx_group (a_ctx fq)))
   \/
   (a_id f <> a_id a /\ op_defaults (a_op a) = [] /\ op_edges (a_op a) = [] /\ op_appends (a_op a) = None /\
    is_ancestor s (a_id a) (a_id f) = true /\ ctx_group (a_ctx a) = ctx_group (a_ctx f))).

Lemma action_op_ok_elim tbl s a p t f :
  action_op_ok tbl s a = true -> promise_of a = Some p -> type_of_promise s p = Some t -> fulfiller s p = Some f ->
  op_facts tbl s a p t f.
Proof. exact (action_op_ok_inv tbl s a p t f). Qed.

Lemma action_op_ok_intro tbl s a p t f :
  promise_of a = Some p -> type_of_promise s p = Some t -> fulfiller s p = Some f ->
  op_facts tbl s a p t f -> action_op_ok tbl s a = true.
Proof.
  intros Hp Ht Hf [Hincl Br]. unfold action_op_ok.
  rewrite Hp; cbv beta iota. rewrite Ht; cbv beta iota zeta. rewrite Hf; cbv beta iota.
  apply andb_true_iff. split.
  { apply forallb_forall. intros n Hn. apply ConformsInv.mem_nat_In. apply Hincl. exact Hn. }
  destruct Br as [(E & Df & Ed & Ap)|(E & Df & Ed & Ap & An & Cx)].
  - rewrite (proj2 (Nat.eqb_eq _ _) E). apply andb_true_iff. split; [apply andb_true_iff; split|].
    + apply forallb_forall. intros d Hd. destruct (Df d Hd) as (at_ & ft & Fa & Ka & Fit). rewrite Fa, Ka. exact Fit.
    + apply forallb_forall. intros e He. destruct (Ed e He) as (at_ & q & fq & Fa & Ka & R & Fq & Fu & An).
      rewrite Fa, Ka, R, Fq, Fu, An, (proj2 (ref_eqb_eq _ _) eq_refl). reflexivity.
    + destruct (op_appends (a_op a)) as [[q path]|] eqn:Eapp; [|reflexivity].
      destruct (Ap q path eq_refl) as (R & Dp & St & fq & td & pr & Fu & Gu & Pt & L & It & Fp & Ob & Cx).
      unfold promise_context. rewrite R, Fu, Gu, Pt, L, It, Ob, Fp, Dp, (proj2 (ConformsInv.mem_nat_false _ _) St).
      rewrite (proj2 (ref_eqb_eq _ _) eq_refl), (proj2 (opt_nat_eqb_eq _ _) Cx). reflexivity.
  - rewrite (proj2 (Nat.eqb_neq _ _) E), Df, Ed, Ap, An, (proj2 (opt_nat_eqb_eq _ _) Cx). reflexivity.
Qed.

(* ================================================================== the remaining rules *)
Lemma gate_shape_spec cp : gate_shape_ok cp = true <-> GateShape cp.
Proof.
  unfold gate_shape_ok, GateShape.
  destruct (cp_deps cp) as [|d1 [|d2 rest]]; [| destruct d1 as [l o r|c] | destruct d1 as [l o r|c]]; destruct (cp_gate cp) as [g|];
    (split;
     [ intro H; try discriminate H; first [left; eauto 6; fail | right; eauto 8]
     | intros [(l' & o' & r' & E & Gt)|(d1' & d2' & rest' & g' & E & Gt)]; try discriminate E; try discriminate Gt; reflexivity ]).
Qed.

Lemma group_used_spec s g : group_used s g = true <-> GroupUsed s g.
Proof.
  unfold group_used, GroupUsed. rewrite orb_true_iff, !existsb_exists.
  split; (intros [(a & Ha & E)|(h & Hh & E)]; [left; exists a | right; exists h]); (split; [assumption|]);
    apply opt_nat_eqb_eq; exact E.
Qed.

Lemma cp_referenced_spec s c : cp_referenced s c = true <-> Referenced s c.
Proof.
  unfold cp_referenced, Referenced. rewrite !orb_true_iff, !existsb_exists. split.
  - intros [[(a & Ha & M)|(g & Hg & M)]|(cp & Hcp & M)].
    + apply ConformsInv.mem_nat_In, ConformsInv.own_cp_In in M. destruct M as (r & E & K & I). left. exists a, r. auto.
    + apply ConformsInv.mem_nat_In, ConformsInv.own_cp_In in M. destruct M as (r & E & K & I). right. left. exists g, r. auto.
    + apply existsb_exists in M. destruct M as (d & Hd & M). destruct d as [l o r|r]; [discriminate|].
      apply ConformsInv.mem_nat_In, ConformsInv.own_cp_In in M. destruct M as (r' & E & K & I). injection E as <-.
      right. right. exists cp, r. auto.
  - intros [(a & r & Ha & E & K & I)|[(g & r & Hg & E & K & I)|(cp & r & Hcp & Hd & K & I)]].
    + left. left. exists a. split; [exact Ha|]. apply ConformsInv.mem_nat_In, ConformsInv.own_cp_In. exists r. auto.
    + left. right. exists g. split; [exact Hg|]. apply ConformsInv.mem_nat_In, ConformsInv.own_cp_In. exists r. auto.
    + right. exists cp. split; [exact Hcp|]. apply existsb_exists. exists (DRef r). split; [exact Hd|].
      apply ConformsInv.mem_nat_In, ConformsInv.own_cp_In. exists r. auto.
Qed.

Section Rules.
Variable s : schema.
Hypothesis GG : Ground2 s.

Let G := g2_ground1 s GG.
Let U := g1_unique s G.
Let SR := g1_scopes s G.

Lemma depends_scope_spec h d : depends_scope_ok s h d = true <->
  forall r cp, d = Some r -> find_checkpoint s (r_id r) = Some cp -> Sees s h (ctx_group (cp_ctx cp)).
Proof.
  unfold depends_scope_ok. destruct d as [r|].
  - destruct (find_checkpoint s (r_id r)) as [cp|] eqn:Fc.
    + rewrite (sees_iff s G). split.
      * intros H r' cp' E F. injection E as <-. rewrite Fc in F. injection F as <-. exact H.
      * intro H. apply (H r cp); [reflexivity | exact Fc].
    + split; [intros _ r' cp' E F; injection E as <-; rewrite Fc in F; discriminate | reflexivity].
  - split; [intros _ r cp E; discriminate | reflexivity].
Qed.

(* ------------------------------------------------------------------ actions *)
Lemma action_spec tbl a : In a (actions s) -> (action_ok tbl s a = true <-> ActionOk tbl s a).
Proof.
  intro Ha. rewrite action_ok_inv. split.
  - intros (Pa & Pp & Cx & Dp & Sc & Op).
    apply ref_ok_promise in Pp. destruct Pp as [K [pr F]].
    assert (Ep : a_promise a = Ref RPromise (r_id (a_promise a))) by (rewrite <- K; apply ref_eta).
    pose proof (proj2 (promise_of_some _ _) Ep) as Po.
    destruct (declared_promise s GG _ pr F) as (t & f & Ftr & Tp & Cr & Fu & C & Cxp).
    destruct (action_op_ok_elim _ _ _ _ _ _ Op Po Tp Fu) as (Inc & Br).
    constructor.
    + apply ref_ok_spec. exact Pa.
    + apply oref_ok_spec. exact Cx.
    + apply oref_ok_spec. exact Dp.
    + apply depends_scope_spec. exact Sc.
    + exists (r_id (a_promise a)), pr, t, f. split; [exact Ep|]. split; [exact F|]. split; [exact Ftr|]. split; [exact C|].
      split; [intros n Hn; apply attr_names_find; apply Inc; exact Hn|].
      destruct Br as [(E & Df & Ed & Ap)|(E & Df & Ed & Ap & An & Cxa)].
      * left. assert (Eq : a = f) by (apply (action_id_inj s a f U Ha (proj1 (proj1 C))); symmetry; exact E).
        split; [exact Eq|]. constructor.
        -- intros n sh Hd. exact (Df (n, sh) Hd).
        -- intros n q He. destruct (Ed (n, q) He) as (at_ & pq & fq & Fa & Ka & R & Fq & Fu' & An). cbn [fst snd] in *.
           exists at_, pq, fq. split; [exact Fa|]. split; [exact Ka|]. split; [apply ref_ok_spec; exact R|]. split; [exact Fq|].
           destruct (find_promise_some _ _ _ Fq) as [_ Iq]. rewrite Iq in Fu'.
           split; [apply (fulfiller_iff s GG _ pq fq Fq); exact Fu' | apply (anc_iff s G); exact An].
        -- intros q path Hap. destruct (Ap q path Hap) as (R & Dpd & St & fq & td & pr' & Fu' & Gu & Pt & L & It & Fp' & Ob & Cxa).
           rewrite F in Fp'. injection Fp' as <-.
           split; [apply ref_ok_spec; exact R|]. split; [exact (proj1 (is_dependee_false _ _) Dpd)|].
           split; [intro N; apply St; apply settable_iff; exact N|].
           apply ref_ok_promise in R. destruct R as [_ [pq Fq]].
           exists fq, td. split; [apply (fulfiller_iff s GG _ pq fq Fq); exact Fu'|].
           split; [apply (guar_iff s G); exact Gu|]. split; [apply (ppt_iff s GG); exact Pt|]. auto.
      * right. split; [intro Eq; apply E; rewrite Eq; reflexivity|].
        constructor; try assumption. apply (anc_iff s G). exact An.
  - intros [Pa Cx Dp Sc (p & pr & t & f & Ep & F & Ftr & C & Inc & Br)].
    pose proof (proj2 (promise_of_some _ _) Ep) as Po.
    assert (Tp : type_of_promise s p = Some t) by (unfold type_of_promise; rewrite F; exact Ftr).
    pose proof (proj2 (fulfiller_iff s GG p pr f F) C) as Fu.
    split; [apply ref_ok_spec; exact Pa|].
    split; [apply ref_ok_spec; rewrite Ep; split; [reflexivity | exists pr; exact F]|].
    split; [apply oref_ok_spec; exact Cx|]. split; [apply oref_ok_spec; exact Dp|].
    split; [apply depends_scope_spec; exact Sc|].
    apply (action_op_ok_intro tbl s a p t f Po Tp Fu). split.
    { intros n Hn. apply attr_names_find. apply Inc. exact Hn. }
    destruct Br as [[Eq [Df Ed Ap]]|[Ne [Df Ed Ap An Cxa]]].
    + left. split; [rewrite Eq; reflexivity|]. split; [|split].
      * intros [n sh] Hd. exact (Df n sh Hd).
      * intros [n q] He. destruct (Ed n q He) as (at_ & pq & fq & Fa & Ka & R & Fq & Cq & An). cbn [fst snd].
        exists at_, pq, fq. split; [exact Fa|]. split; [exact Ka|]. split; [apply ref_ok_spec; exact R|]. split; [exact Fq|].
        destruct (find_promise_some _ _ _ Fq) as [_ Iq]. rewrite Iq.
        split; [apply (fulfiller_iff s GG _ pq fq Fq); exact Cq | apply (anc_iff s G); exact An].
      * intros q path Hap. destruct (Ap q path Hap) as (R & Nd & Ns & fq & td & Cq & Gu & Pt & L & It & Ob & Cxa).
        split; [apply ref_ok_spec; exact R|]. split; [exact (proj2 (is_dependee_false _ _) Nd)|].
        split; [intro N; apply Ns; apply settable_iff; exact N|].
        destruct R as [_ [pq Fq]]. exists fq, td, pr.
        split; [apply (fulfiller_iff s GG _ pq fq Fq); exact Cq|].
        split; [apply (guar_iff s G); exact Gu|]. split; [apply (ppt_iff s GG); exact Pt|]. auto 10.
    + right. split.
      { intro E. apply Ne. apply (action_id_inj s a f U Ha (proj1 (proj1 C))). symmetry. exact E. }
      split; [exact Df|]. split; [exact Ed|]. split; [exact Ap|]. split; [apply (anc_iff s G); exact An | exact Cxa].
Qed.

(* ------------------------------------------------------------------ checkpoints *)
Lemma operand_refs_spec o : operand_refs_ok s o = true <-> OperandRefs s o.
Proof. destruct o as [a path|g path|l]; simpl; [apply ref_ok_spec | tauto | tauto]. Qed.

Lemma operand_scope_spec cctx o : operand_scope_ok s cctx o = true <-> OperandScope s cctx o.
Proof.
  destruct o as [a path|g path|l]; simpl; [|tauto|tauto].
  destruct (find_action s (r_id a)) as [act|].
  - rewrite (sees_iff s G). split; [intros H act' E; injection E as <-; exact H | intro H; apply H; reflexivity].
  - split; [intros _ act E; discriminate | reflexivity].
Qed.

Lemma dep_spec cp d : dep_ok Cmp s cp d = true <-> DepOk s cp d.
Proof.
  destruct d as [l o r|c].
  - rewrite dep_ok_cmp_inv, comparison_ok_iff, !operand_refs_spec, !operand_scope_spec. unfold DepOk. split.
    + intros (A & B & (C1 & C2 & tl & tr & Tl & Tr & Cm) & D & E). constructor; auto.
      exists tl, tr. split; [apply (operand_type_iff s GG); exact Tl|]. split; [apply (operand_type_iff s GG); exact Tr|].
      apply Cmp_Comparable. exact Cm.
    + intros [[A B] C1 C2 (tl & tr & Tl & Tr & Cm) [D E]]. split; [exact A|]. split; [exact B|]. split; [|auto].
      split; [exact C1|]. split; [exact C2|]. exists tl, tr.
      split; [apply (operand_type_iff s GG); exact Tl|]. split; [apply (operand_type_iff s GG); exact Tr|].
      apply Cmp_Comparable. exact Cm.
  - rewrite dep_ok_ref_inv, ref_ok_spec. unfold DepOk.
    split; intros [A B]; (split; [exact A|]); intros c' F; apply (sees_iff s G); apply B; exact F.
Qed.

Lemma checkpoint_spec cp : checkpoint_ok Cmp s cp = true <-> CheckpointOk s cp.
Proof.
  rewrite checkpoint_ok_inv, gate_shape_spec, oref_ok_spec, cp_referenced_spec. split.
  - intros (A & B & C & D). constructor; try assumption. intros d Hd. apply dep_spec. apply C. exact Hd.
  - intros [A B C D]. split; [exact A|]. split; [exact B|]. split; [|exact D]. intros d Hd. apply dep_spec. apply C. exact Hd.
Qed.

(* ------------------------------------------------------------------ thread groups *)
Lemma group_spec g : In g (groups s) -> (group_ok s g = true <-> GroupOk s g).
Proof.
  intro Hin. pose proof (find_group_in s g U Hin) as Fg. destruct (SR _ _ Fg) as [sc Sc].
  unfold group_ok. rewrite !andb_true_iff, !oref_ok_spec, depends_scope_spec, group_used_spec. split.
  - intros [[[[[[[A B] C] D] E] F] V] H]. constructor; try assumption.
    + apply scopes_rooted; assumption.
    + intros p path Sr. rewrite Sr in F. apply andb_true_iff in F. destruct F as [F1 F2].
      split; [apply ref_ok_spec; exact F1|]. apply ref_ok_promise in F1. destruct F1 as [_ [pq Fq]].
      destruct (fulfiller s (r_id p)) as [f|] eqn:Fu; [|discriminate]. exists f.
      split; [apply (fulfiller_iff s GG _ pq f Fq); exact Fu|].
      apply (group_anc_iff s G). apply ConformsInv.mem_nat_In. exact F2.
    + destruct (var_type s (fuel_of s) (g_id g)) as [| |vt] eqn:Vt; try discriminate.
      exists vt. apply (var_type_iff s GG). exact Vt.
    + intros g' h En N Fh Ev. rewrite Sc in H. apply negb_true_iff in H.
      pose proof (proj1 (existsb_false_forall _ _ _) H g' (proj2 (scope_encloses s _ _ Sc g') En)) as H'.
      cbv beta in H'. rewrite Fh, (proj2 (Nat.eqb_neq _ _) N), (proj2 (Nat.eqb_eq _ _) Ev) in H'. discriminate.
  - intros [A B R D E S5 [vt V] S7].
    split; [split; [split; [split; [split; [split; [split; [exact A | exact B]|] | exact D] | exact E]|]|]|].
    + rewrite Sc. reflexivity.
    + destruct (g_src g) as [p path|g' path] eqn:Sr; [|reflexivity].
      destruct (S5 p path eq_refl) as (Rp & f & Cf & An).
      rewrite (proj2 (ref_ok_spec _ _ _) Rp). destruct Rp as [_ [pq Fq]].
      rewrite (proj2 (fulfiller_iff s GG _ pq f Fq) Cf). simpl.
      apply ConformsInv.mem_nat_In. apply (group_anc_iff s G). exact An.
    + rewrite (proj2 (var_type_iff s GG _ _) V). reflexivity.
    + rewrite Sc. apply negb_true_iff. apply existsb_false_forall. intros g' Hg'.
      destruct (Nat.eqb g' (g_id g)) eqn:En; [reflexivity|]. simpl.
      destruct (find_group s g') as [h|] eqn:Fh; [|reflexivity]. apply Nat.eqb_neq.
      apply (S7 g' h); [apply (scope_encloses s _ _ Sc); exact Hg' | apply Nat.eqb_neq; exact En | exact Fh].
Qed.

End Rules.

(* ================================================================== the ground facts hold on both sides *)
Lemma conforms_ground1 cmp tbl s : conforms_with cmp tbl s = true -> Ground1 s.
Proof.
  intro H. pose proof (proj1 (conforms_inv cmp tbl s) H) as P. constructor.
  - exact (conforms_unique cmp tbl s H).
  - exact (conforms_with_scopes s cmp tbl H).
  - exact (ci_acyclic _ _ _ P).
  - intros g Hg. apply group_used_spec. pose proof (ci_groups _ _ _ P g Hg) as K. apply group_ok_inv in K. tauto.
Qed.

Lemma conforms_ground2 cmp tbl s : conforms_with cmp tbl s = true -> Ground2 s.
Proof.
  intro H. pose proof (proj1 (conforms_inv cmp tbl s) H) as P. pose proof (conforms_ground1 cmp tbl s H) as G.
  constructor; [exact G|]. intros p Hp. apply (promise_spec s G). split; [apply (ci_prefs _ _ _ P) | apply (ci_promises _ _ _ P)]; exact Hp.
Qed.

Lemma Conforms_ground1 tbl s : Conforms tbl s -> Ground1 s.
Proof.
  intros [Un Ty Pr Ac Cp Gr Acy Ne]. constructor.
  - apply unique_spec. exact Un.
  - apply rooted_scopes. intros g Hg. exact (gk_rooted s g (Gr g Hg)).
  - apply acyclic_no_cycle; assumption.
  - intros g Hg. exact (gk_SC6 s g (Gr g Hg)).
Qed.

Lemma Conforms_ground2 tbl s : Conforms tbl s -> Ground2 s.
Proof. intro H. constructor; [exact (Conforms_ground1 tbl s H) | exact (cf_promises tbl s H)]. Qed.

(* ================================================================== C03 *)
Lemma C03_sound_lemma : forall tbl s, conforms tbl s = true -> Conforms tbl s.
Proof.
  intros tbl s H. pose proof (proj1 (conforms_inv Cmp tbl s) H) as P.
  pose proof (conforms_ground2 Cmp tbl s H) as GG. pose proof (g2_ground1 s GG) as G.
  constructor.
  - apply unique_spec. exact (g1_unique s G).
  - intros t Ht. apply otype_ok_spec. exact (ci_otypes _ _ _ P t Ht).
  - exact (g2_promises s GG).
  - intros a Ha. apply (action_spec s GG tbl a Ha). exact (ci_actions _ _ _ P a Ha).
  - intros c Hc. apply (checkpoint_spec s GG). exact (ci_checkpoints _ _ _ P c Hc).
  - intros g Hg. apply (group_spec s GG g Hg). exact (ci_groups _ _ _ P g Hg).
  - exact (g1_acyclic s G).
  - exact (g1_nesting s G).
Qed.

Lemma C03_complete_lemma : forall tbl s, Conforms tbl s -> conforms tbl s = true.
Proof.
  intros tbl s H. pose proof (Conforms_ground2 tbl s H) as GG. pose proof (g2_ground1 s GG) as G.
  destruct H as [Un Ty Pr Ac Cp Gr Acy Ne]. apply (conforms_inv Cmp tbl s). constructor.
  - apply unique_ids_spec. exact Un.
  - intros t Ht. apply otype_ok_spec. exact (Ty t Ht).
  - intros p Hp. exact (proj1 (proj2 (promise_spec s G p) (Pr p Hp))).
  - intros p Hp. exact (proj2 (proj2 (promise_spec s G p) (Pr p Hp))).
  - intros a Ha. apply (action_spec s GG tbl a Ha). exact (Ac a Ha).
  - intros c Hc. apply (checkpoint_spec s GG). exact (Cp c Hc).
  - intros g Hg. apply (group_spec s GG g Hg). exact (Gr g Hg).
  - exact (g1_nocycle s G).
Qed.

Lemma C03_iff_lemma : forall tbl s, conforms tbl s = true <-> Conforms tbl s.
Proof. intros tbl s. split; [apply C03_sound_lemma | apply C03_complete_lemma]. Qed.

(* the specification is satisfiable *)
Example example_Conforms : Conforms Gen.Tables.default_value_table example_schema.
Proof. apply C03_sound_lemma. exact example_conforms. Qed.

(* ================================================================== the search-free relations agree with the originals *)
Lemma relations_agree tbl s : Conforms tbl s ->
  (forall from p path td, PromisePath s from p path td <-> PromisePathType s from p path td) /\
  (forall g vt, VarTy s g vt <-> VarType s g vt) /\
  (forall cctx o t, OperandTy s cctx o t <-> OperandType s cctx o t) /\
  (forall b c, Guar s b c <-> GuarCp s b c) /\
  (forall p f, Declared s RPromise p -> (Creator s p f <-> creators s p = [f])) /\
  (forall a b, Anc s a b <-> is_ancestor s a b = true).
Proof.
  intro H. pose proof (Conforms_ground2 tbl s H) as GG. pose proof (g2_ground1 s GG) as G.
  split; [|split; [|split; [|split; [|split]]]].
  - intros from p path td. symmetry. apply (ppt_equiv s GG).
  - intros g vt. split.
    + intro V. apply (var_type_sound s (fuel_of s)). apply (var_type_iff s GG). exact V.
    + apply (VarType_VarTy s GG).
  - intros cctx o t. split.
    + intro O. apply operand_type_sound. apply (operand_type_iff s GG). exact O.
    + intro O. destruct O as [l t E | a path act p td K F Ep P | g cg vt Ec E V | g cg path vt tr td Ec E V Np It Ob P].
      * apply OY_literal. exact E.
      * eapply OY_action; try eassumption. apply (ppt_equiv s GG). exact P.
      * eapply OY_variable; try eassumption. apply (VarType_VarTy s GG). exact V.
      * eapply OY_variable_path; try eassumption. apply (VarType_VarTy s GG). exact V.
  - intros b c. split; [apply (Guar_GuarCp s G) | apply (GuarCp_Guar s G)].
  - intros p f [pr F]. destruct (declared_promise s GG p pr F) as (t & f0 & _ & _ & E & _ & C0 & _). split.
    + intro C. rewrite E. f_equal. symmetry. apply (proj1 (creators_single s G p f0) E). exact C.
    + intro E'. apply (creators_single s G). exact E'.
  - intros a b. symmetry. apply (anc_iff s G).
Qed.

(* C01 in the form of Properties/C01.v: every reference position of the model ([RefAt] of Proofs/ConformsInv.v,
   seventeen positions including the thread variables named by operands and spawn sources, which [Conforms]
   constrains through [OperandTy] and [VarTy]) names a declared entity of the kind allowed there *)
Lemma Conforms_refs tbl s : Conforms tbl s -> forall k r, RefAt s k r -> RefTo s k r.
Proof.
  intros H k r Hr. pose proof (C01_refs_lemma Cmp tbl s (C03_complete_lemma tbl s H) k r Hr) as [K D].
  split; [exact K|]. destruct k; destruct D as (e & F & _); exists e; exact F.
Qed.

(* ================================================================== why [cf_nesting] is stated below action holders only *)
(* [conforms] does not imply [NestingAcyclic]: checkpoints 6 and 7 reference each other; each is "referenced"
   (by the other), no action or thread group depends on either, so the cycle detector never visits them *)
Definition cycle_cp6 : checkpoint :=
  Build_checkpoint 6 506 (Some G_AND) [DCmp (OAct (Ref RAction 1) [1]) EQUALS (OLit (Lit SStr 6)); DRef (Ref RCheckpoint 7)] None.
Definition cycle_cp7 : checkpoint :=
  Build_checkpoint 7 507 (Some G_OR) [DCmp (OAct (Ref RAction 1) [1]) EQUALS (OLit (Lit SStr 7)); DRef (Ref RCheckpoint 6)] None.
Definition nesting_cycle_schema : schema :=
  Build_schema (parties example_schema) (otypes example_schema) (promises example_schema) (actions example_schema)
    (checkpoints example_schema ++ [cycle_cp6; cycle_cp7]) (groups example_schema).

Example nesting_cycle_accepted :
  conforms Gen.Tables.default_value_table nesting_cycle_schema = true /\ ~ NestingAcyclic nesting_cycle_schema.
Proof.
  split; [vm_compute; reflexivity|]. intro N. apply (N 6). apply (N_trans _ 6 7 6).
  - exact (N_step nesting_cycle_schema 6 cycle_cp6 (Ref RCheckpoint 7) eq_refl (or_intror (or_introl eq_refl)) eq_refl).
  - exact (N_step nesting_cycle_schema 7 cycle_cp7 (Ref RCheckpoint 6) eq_refl (or_intror (or_introl eq_refl)) eq_refl).
Qed.
