(* C17 / C18: the lemmas the property theorems are closed with, obtained by combining
   Proofs/LayoutDepth.v (depth computation) and Proofs/LayoutPlace.v (placement), plus worked examples
   whose expected coordinates are the ones the python implementation returns. *)
From Coq Require Import List Arith ZArith Bool Lia Relations.
From OIS Require Import Model.Layout Spec.LayoutSpec Proofs.LayoutDepth Proofs.LayoutPlace.
Import ListNotations.
Local Open Scope Z_scope.

(* ------------------------------------------------------------------ boolean well-formedness *)
Lemma nodupb_NoDup : forall l, nodupb l = true -> NoDup l.
Proof.
  induction l as [|x l IH]; intros H; [constructor|]. simpl in H. apply andb_true_iff in H. destruct H as [H1 H2].
  constructor; [|apply IH; exact H2]. apply negb_true_iff in H1. apply memb_false. exact H1.
Qed.

Lemma wf_WF : forall nodes edges, wf nodes edges = true -> WF nodes edges.
Proof.
  intros nodes edges H. unfold wf in H. apply andb_true_iff in H. destruct H as [H1 H2].
  split; [apply nodupb_NoDup; exact H1|]. intros a b Hin.
  rewrite forallb_forall in H2. specialize (H2 _ Hin). simpl in H2. apply andb_true_iff in H2.
  destruct H2 as [Ha Hb]. split; apply memb_In; assumption.
Qed.

(* a rank function that strictly increases along every edge witnesses acyclicity (used by the examples) *)
Lemma acyclic_by_rank : forall (edges : list (nat * nat)) (r : nat -> nat),
  forallb (fun e => Nat.ltb (r (fst e)) (r (snd e))) edges = true -> Acyclic edges.
Proof.
  intros edges r H x Hx. rewrite forallb_forall in H.
  assert (G : forall a b, clos_trans nat (Edge edges) a b -> (r a < r b)%nat).
  { intros a b T. induction T as [a b E|a w b _ IH1 _ IH2]; [|lia].
    specialize (H _ E). simpl in H. apply Nat.ltb_lt in H. exact H. }
  specialize (G _ _ Hx). lia.
Qed.

(* ------------------------------------------------------------------ combination *)
Section Main.
Variable nodes : list nat.
Variable edges : list (nat * nat).
Hypothesis Hwf : wf nodes edges = true.
Hypothesis Hacyc : Acyclic edges.

Let HWF : WF nodes edges := wf_WF _ _ Hwf.

Lemma layout_main : exists m out,
  node_depths nodes edges = Some m /\ layout nodes edges = Some out /\
  NoDup (map fst m) /\
  (forall v, In v (map fst m) <-> In v nodes) /\
  (forall v d, dget m v = Some d -> LongestPath nodes edges v d) /\
  (forall a b da, Edge edges a b -> dget m a = Some da -> exists db, dget m b = Some db /\ (da < db)%nat) /\
  NoDup (map fst out) /\
  (forall v, In v (map fst out) <-> In v (map fst m)) /\
  (forall v x y, In (v, (x, y)) out -> exists d, dget m v = Some d /\ x = - Z.of_nat d) /\
  (forall v1 v2 p, In (v1, p) out -> In (v2, p) out -> v1 = v2) /\
  (forall a b w xa xb xw y, Edge edges a b ->
     In (a, (xa, y)) out -> In (b, (xb, y)) out -> In (w, (xw, y)) out -> xb < xw < xa -> False).
Proof.
  destruct (node_depths nodes edges) as [m|] eqn:Em.
  2:{ exfalso. eapply node_depths_terminates; eassumption. }
  destruct (node_depths_correct nodes edges HWF Hacyc m Em) as [A [B [C D]]].
  destruct (layout_of_depths_ok edges m A D) as [out [Ho [E [F [G [H I]]]]]].
  exists m, out. split; [reflexivity|]. split; [unfold layout; rewrite Em; exact Ho|].
  repeat (split; [assumption|]). assumption.
Qed.

Lemma C17_terminates_lemma : layout nodes edges <> None.
Proof. destruct layout_main as [m [out [_ [H _]]]]. rewrite H. discriminate. Qed.

Lemma NoDup_snd_of_inj : forall (l : list (nat * (Z * Z))),
  NoDup (map fst l) -> (forall v1 v2 p, In (v1, p) l -> In (v2, p) l -> v1 = v2) -> NoDup (map snd l).
Proof.
  induction l as [|[v p] l IH]; intros Hnd Hinj; simpl; [constructor|].
  simpl in Hnd. inversion Hnd as [|? ? Hn Hd]; subst. constructor.
  - intro Hin. apply in_map_iff in Hin. destruct Hin as [[v' p'] [E Hin]]. simpl in E. subst p'.
    assert (v' = v) by (apply (Hinj v' v p); [right; exact Hin|left; reflexivity]). subst v'.
    apply Hn. apply in_map_iff. exists (v, p). split; [reflexivity|exact Hin].
  - apply IH; [exact Hd|]. intros v1 v2 q H1 H2. apply (Hinj v1 v2 q); right; assumption.
Qed.

Lemma C17_total_injective_lemma : forall out, layout nodes edges = Some out ->
  Total nodes out /\ Injective out /\ NoDup (map snd out).
Proof.
  intros out Ho. destruct layout_main as [m [out' [_ [H [_ [B [_ [_ [E [F [_ [J _]]]]]]]]]]]].
  rewrite Ho in H. inversion H; subst out'.
  split; [split; [exact E|]|split; [exact J|apply NoDup_snd_of_inj; assumption]].
  intros v. rewrite F. symmetry. apply B.
Qed.

Lemma C17_depth_is_longest_lemma : forall out, layout nodes edges = Some out ->
  forall v x y, In (v, (x, y)) out -> exists n, LongestPath nodes edges v n /\ x = - Z.of_nat n.
Proof.
  intros out Ho v x y Hv. destruct layout_main as [m [out' [_ [H [_ [_ [C [_ [_ [_ [G _]]]]]]]]]]].
  rewrite Ho in H. inversion H; subst out'.
  destruct (G _ _ _ Hv) as [d [Hd Hx]]. exists d. split; [apply C; exact Hd|exact Hx].
Qed.

Lemma C17_edge_left_lemma : forall out, layout nodes edges = Some out ->
  forall a b xa ya xb yb, In (a, b) edges -> In (a, (xa, ya)) out -> In (b, (xb, yb)) out -> xb < xa.
Proof.
  intros out Ho a b xa ya xb yb E Ha Hb.
  destruct layout_main as [m [out' [_ [H [_ [_ [_ [D [_ [_ [G _]]]]]]]]]]].
  rewrite Ho in H. inversion H; subst out'.
  destruct (G _ _ _ Ha) as [da [Hda ->]]. destruct (G _ _ _ Hb) as [db [Hdb ->]].
  destruct (D _ _ _ E Hda) as [db' [Hdb' L]]. rewrite Hdb in Hdb'. inversion Hdb'; subst. lia.
Qed.

Lemma C18_no_overlap_lemma : forall out, layout nodes edges = Some out -> ~ EdgeThroughNode edges out.
Proof.
  intros out Ho [a [b [w [xa [xb [xw [y [E [Ha [Hb [Hw [Hfar Hbetween]]]]]]]]]]]].
  pose proof (C17_edge_left_lemma out Ho a b xa y xb y E Ha Hb) as L.
  destruct layout_main as [m [out' [_ [H [_ [_ [_ [_ [_ [_ [_ [_ N]]]]]]]]]]]].
  rewrite Ho in H. inversion H; subst out'.
  apply (N a b w xa xb xw y E Ha Hb Hw). lia.
Qed.

(* the same statement spelled out without the auxiliary predicate *)
Lemma C18_no_overlap_explicit_lemma : forall out, layout nodes edges = Some out ->
  forall a b w xa ya xb yb xw yw,
    In (a, b) edges -> In (a, (xa, ya)) out -> In (b, (xb, yb)) out -> In (w, (xw, yw)) out ->
    ya = yb -> 1 < Z.abs (xa - xb) -> Z.min xa xb < xw < Z.max xa xb -> yw <> ya.
Proof.
  intros out Ho a b w xa ya xb yb xw yw E Ha Hb Hw Hy Hfar Hbt Hyw. subst yb yw.
  apply (C18_no_overlap_lemma out Ho). exists a, b, w, xa, xb, xw, ya. repeat split; try assumption; lia.
Qed.

End Main.

Lemma C17_deterministic_lemma : forall nodes edges o1 o2,
  layout nodes edges = o1 -> layout nodes edges = o2 -> o1 = o2.
Proof. intros nodes edges o1 o2 H1 H2. congruence. Qed.

(* ------------------------------------------------------------------ worked examples *)
(* Example 1: 10 nodes, 6 columns, parallel edges, several edges spanning more than one column,
   equal-parity adjacent columns; the offset loop fires twice in the implementation.
   Expected coordinates = output of DependencyChartLayout().from_graph_data on /repo (node ids as
   strings, edge_dict built like DependencyGraph._add_edge), as (node, (x, 2*y)) in insertion order. *)
Definition ex1_nodes : list nat := [5; 2; 0; 1; 6; 8; 7; 9; 3; 4]%nat.
Definition ex1_edges : list (nat * nat) :=
  [(2, 4); (8, 6); (8, 6); (0, 9); (0, 7); (0, 3); (4, 5); (6, 5); (0, 4); (0, 8); (9, 6); (6, 3);
   (7, 6); (9, 3); (3, 5); (2, 6); (4, 8); (8, 5); (1, 3); (4, 8); (7, 5); (0, 4); (7, 5)]%nat.
Definition ex1_expected : list (nat * (Z * Z)) :=
  [(5%nat, (-5, -2)); (3%nat, (-4, -2)); (6%nat, (-3, 0)); (8%nat, (-2, 0)); (4%nat, (-1, -4)); (9%nat, (-1, 2)); (7%nat, (-1, 8));
   (2%nat, (0, -12)); (0%nat, (0, -6)); (1%nat, (0, 0))].

Example ex1_wf : wf ex1_nodes ex1_edges = true.
Proof. vm_compute. reflexivity. Qed.

Example ex1_acyclic : Acyclic ex1_edges.
Proof.
  apply acyclic_by_rank with
    (r := fun v => match cget ex1_expected v with Some (x, _) => Z.to_nat (- x) | None => 0%nat end).
  vm_compute. reflexivity.
Qed.

Example ex1_layout : layout ex1_nodes ex1_edges = Some ex1_expected.
Proof. vm_compute. reflexivity. Qed.

(* the theorems instantiate on it (their hypotheses are satisfiable) *)
Example ex1_C17_terminates : layout ex1_nodes ex1_edges <> None.
Proof. exact (C17_terminates_lemma _ _ ex1_wf ex1_acyclic). Qed.

Example ex1_C17_total_injective :
  Total ex1_nodes ex1_expected /\ Injective ex1_expected /\ NoDup (map snd ex1_expected).
Proof. exact (C17_total_injective_lemma _ _ ex1_wf ex1_acyclic _ ex1_layout). Qed.

Example ex1_C17_depth : exists n, LongestPath ex1_nodes ex1_edges 5%nat n /\ (-5) = - Z.of_nat n.
Proof.
  apply (C17_depth_is_longest_lemma _ _ ex1_wf ex1_acyclic _ ex1_layout 5%nat (-5) (-2)).
  vm_compute. tauto.
Qed.

Example ex1_C17_edge_left : forall a b xa ya xb yb,
  In (a, b) ex1_edges -> In (a, (xa, ya)) ex1_expected -> In (b, (xb, yb)) ex1_expected -> xb < xa.
Proof. exact (C17_edge_left_lemma _ _ ex1_wf ex1_acyclic _ ex1_layout). Qed.

Example ex1_C18 : ~ EdgeThroughNode ex1_edges ex1_expected.
Proof. exact (C18_no_overlap_lemma _ _ ex1_wf ex1_acyclic _ ex1_layout). Qed.

(* Example 2: the smallest graph on which the offset loop fires: 2 -> 1 -> 0 plus a doubled edge 2 -> 0;
   without the loop all three nodes would sit at height -1 and the edge (2,0) would run through node 1. *)
Definition ex2_nodes : list nat := [0; 1; 2]%nat.
Definition ex2_edges : list (nat * nat) := [(2, 0); (1, 0); (2, 0); (2, 1)]%nat.
Definition ex2_expected : list (nat * (Z * Z)) := [(0%nat, (-2, -2)); (1%nat, (-1, -2)); (2%nat, (0, 0))].

Example ex2_wf : wf ex2_nodes ex2_edges = true.
Proof. vm_compute. reflexivity. Qed.
Example ex2_acyclic : Acyclic ex2_edges.
Proof. apply acyclic_by_rank with (r := fun v => (3 - v)%nat). vm_compute. reflexivity. Qed.
Example ex2_layout : layout ex2_nodes ex2_edges = Some ex2_expected.
Proof. vm_compute. reflexivity. Qed.
Example ex2_C18 : ~ EdgeThroughNode ex2_edges ex2_expected.
Proof. exact (C18_no_overlap_lemma _ _ ex2_wf ex2_acyclic _ ex2_layout). Qed.
