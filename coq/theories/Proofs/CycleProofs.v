(* The cycle detector of Model/Rules.v ([explore], [explore_all], [cp_nesting_cyclic], [has_cycle]) against the
   declarative dependency relation [Dep] of Spec/DepRel.v.

     has_cycle_false_acyclic : ScopesResolve s -> has_cycle s = false -> Acyclic s
     acyclic_has_cycle_false : Acyclic s -> NestingAcyclic s -> has_cycle s = false
     conforms_acyclic        : conforms tbl s = true -> Acyclic s

   The search is a depth-first search with a visited set shared between branches and roots and a path copied per
   branch.  Invariant for the negative answer (ghost list [fin] of finished nodes, as in the spike Dfs.v):
   visited = path U fin as sets, and [fin] is topologically ordered (every successor of a member occurs later in
   the list), hence closed under successors and free of cycles.  A [false] answer never comes from exhausted fuel
   (exhausted fuel answers [true]), so no fuel argument is needed in that direction.  For the positive answer:
   the path is a duplicate-free chain of existing actions, hence never longer than [length (actions s)], so the
   fuel [S (length (actions s))] is never exhausted and a [true] answer exhibits a real cycle.
   Neither direction needs the action ids to be duplicate-free. *)
From Coq Require Import List Bool Arith Lia Relations.
From OIS Require Import Base.Types Base.PipeTypes Spec.Compare Model.Schema Model.Rules Spec.DepRel Proofs.DepLemmas.
From OIS Require Gen.Tables.
Import ListNotations.

Section Cycle.
Variable s : schema.

Definition Edge (x y : nat) : Prop := In y (succ s x).

Lemma Edge_Dep : forall x y, Edge x y -> Dep s x y.
Proof. intros x y H. apply succ_sound. exact H. Qed.

Lemma tEdge_Anc : forall x y, clos_trans nat Edge x y -> Anc s x y.
Proof.
  intros x y H. induction H as [x y H|x y z _ IH1 _ IH2].
  - apply t_step. apply Edge_Dep. exact H.
  - eapply t_trans; eassumption.
Qed.

(* ------------------------------------------------------------------ the inner loop, named *)
Definition loopf (f a : nat) (path : list nat) :=
  fix loop (l : list nat) (vis : list nat) : bool * list nat :=
    match l with
    | [] => (false, vis)
    | b :: l' => match explore s f b vis (a :: path) with
                 | (true, v) => (true, v)
                 | (false, v) => loop l' v
                 end
    end.

Lemma explore_S : forall f a visited path,
  explore s (S f) a visited path =
  if mem_nat a path then (true, visited)
  else if mem_nat a visited then (false, visited)
  else loopf f a path (succ s a) (a :: visited).
Proof. reflexivity. Qed.

Lemma loopf_nil : forall f a path vis, loopf f a path [] vis = (false, vis).
Proof. reflexivity. Qed.

Lemma loopf_cons : forall f a path b l vis,
  loopf f a path (b :: l) vis =
  match explore s f b vis (a :: path) with (true, v) => (true, v) | (false, v) => loopf f a path l v end.
Proof. reflexivity. Qed.

(* ------------------------------------------------------------------ finished nodes *)
Fixpoint Topo (fin : list nat) : Prop :=
  match fin with [] => True | x :: rest => incl (succ s x) rest /\ Topo rest end.

Lemma Topo_closed : forall fin, Topo fin -> forall u v, In u fin -> Edge u v -> In v fin.
Proof.
  induction fin as [|z rest IH]; simpl; intros T u v Hu He; [tauto|].
  destruct T as [Hi T]. destruct Hu as [Hu|Hu].
  - subst u. right. apply Hi. exact He.
  - right. eapply IH; eassumption.
Qed.

Lemma Topo_tc_closed : forall fin, Topo fin -> forall u v, In u fin -> clos_trans nat Edge u v -> In v fin.
Proof.
  intros fin T u v Hu H. induction H as [x y H|x y z _ IH1 _ IH2].
  - eapply Topo_closed; eassumption.
  - apply IH2. apply IH1. exact Hu.
Qed.

Lemma Topo_acyclic : forall fin, Topo fin -> forall x, In x fin -> ~ clos_trans nat Edge x x.
Proof.
  induction fin as [|z rest IH]; simpl; intros T x Hx Hc; [tauto|].
  destruct T as [Hi T].
  assert (Hrest : In x rest -> False) by (intro Hr; eapply IH; eassumption).
  destruct Hx as [Hx|Hx]; [subst z|tauto].
  apply Hrest.
  apply clos_trans_t1n in Hc. destruct Hc as [y Hs|y w Hs Hr].
  - apply Hi. exact Hs.
  - apply clos_t1n_trans in Hr. eapply Topo_tc_closed; [exact T| |exact Hr]. apply Hi. exact Hs.
Qed.

Definition seteq (a b : list nat) : Prop := incl a b /\ incl b a.

(* visited = path U fin, fin topologically ordered *)
Definition Inv (visited path fin : list nat) : Prop := seteq visited (path ++ fin) /\ Topo fin.

(* ------------------------------------------------------------------ the negative answer *)
Lemma explore_false_inv : forall fuel a visited path fin visited',
  Inv visited path fin ->
  explore s fuel a visited path = (false, visited') ->
  exists fin', Inv visited' path fin' /\ In a fin' /\ incl fin fin'.
Proof.
  induction fuel as [|f IH]; intros a visited path fin visited' HI H; [discriminate|].
  rewrite explore_S in H.
  destruct (mem_nat a path) eqn:Hp; [discriminate|].
  destruct (mem_nat a visited) eqn:Hv.
  - inversion H; subst visited'. exists fin. split; [exact HI|]. split; [|apply incl_refl].
    apply mem_nat_In in Hv. destruct HI as [[H1 _] _]. apply H1 in Hv. apply in_app_or in Hv.
    destruct Hv as [Hv|Hv]; [|exact Hv]. apply mem_nat_In in Hv. congruence.
  - assert (L : forall l vis fin0 vis', Inv vis (a :: path) fin0 -> loopf f a path l vis = (false, vis') ->
                exists fin1, Inv vis' (a :: path) fin1 /\ incl l fin1 /\ incl fin0 fin1).
    { induction l as [|b l IHl]; intros vis fin0 vis' HI0 HL.
      - rewrite loopf_nil in HL. inversion HL; subst vis'. exists fin0.
        split; [exact HI0|]. split; [intros x []|apply incl_refl].
      - rewrite loopf_cons in HL.
        destruct (explore s f b vis (a :: path)) as [[|] v] eqn:E; [discriminate|].
        destruct (IH _ _ _ _ _ HI0 E) as [fin1 [HI1 [Hb Hinc]]].
        destruct (IHl _ _ _ HI1 HL) as [fin2 [HI2 [Hl Hinc2]]].
        exists fin2. split; [exact HI2|]. split.
        + intros x [Hx|Hx]; [subst x; apply Hinc2; exact Hb|apply Hl; exact Hx].
        + eapply incl_tran; eassumption. }
    assert (HI0 : Inv (a :: visited) (a :: path) fin).
    { destruct HI as [[H1 H2] T]. split; [|exact T]. split; intros x Hx; simpl in *.
      - destruct Hx as [Hx|Hx]; [left; exact Hx|right; apply H1; exact Hx].
      - destruct Hx as [Hx|Hx]; [left; exact Hx|right; apply H2; exact Hx]. }
    destruct (L _ _ _ _ HI0 H) as [fin1 [[[H1 H2] T] [Hs Hinc]]].
    exists (a :: fin1). split; [split|split].
    + split; intros x Hx.
      * apply H1 in Hx. simpl in Hx. destruct Hx as [Hx|Hx]; [subst x; apply in_or_app; right; left; reflexivity|].
        apply in_app_or in Hx. apply in_or_app. destruct Hx as [Hx|Hx]; [left|right; right]; exact Hx.
      * apply H2. simpl. apply in_app_or in Hx.
        destruct Hx as [Hx|[Hx|Hx]];
          [right; apply in_or_app; left; exact Hx|left; exact Hx|right; apply in_or_app; right; exact Hx].
    + simpl. split; [exact Hs|exact T].
    + left; reflexivity.
    + apply incl_tl. exact Hinc.
Qed.

Lemma explore_all_false_inv : forall roots visited fin,
  Inv visited [] fin -> explore_all s roots visited = false ->
  exists fin', Topo fin' /\ incl roots fin' /\ incl fin fin'.
Proof.
  induction roots as [|a r IH]; intros visited fin HI H.
  - exists fin. split; [exact (proj2 HI)|]. split; [intros x []|apply incl_refl].
  - cbn [explore_all] in H.
    destruct (explore s (S (length (actions s))) a visited []) as [[|] v] eqn:E; [discriminate|].
    destruct (explore_false_inv _ _ _ _ _ _ HI E) as [fin1 [HI1 [Ha Hinc1]]].
    destruct (IH _ _ HI1 H) as [fin2 [T2 [Hr Hinc2]]].
    exists fin2. split; [exact T2|]. split.
    + intros x [Hx|Hx]; [subst x; apply Hinc2; exact Ha|apply Hr; exact Hx].
    + eapply incl_tran; eassumption.
Qed.

(* no dependency cycle (of the computed successor relation) through an existing action *)
Lemma explore_all_false_acyclic : explore_all s (map a_id (actions s)) [] = false ->
  forall a, In a (map a_id (actions s)) -> ~ clos_trans nat Edge a a.
Proof.
  intros H a Ha.
  assert (HI : Inv [] [] []).
  { split; [split; intros x []|exact I]. }
  destruct (explore_all_false_inv _ _ _ HI H) as [fin [T [Hr _]]].
  apply (Topo_acyclic _ T). apply Hr. exact Ha.
Qed.

Lemma has_cycle_false_parts : has_cycle s = false ->
  explore_all s (map a_id (actions s)) [] = false /\
  (forall act c, In act (actions s) -> In c (action_cps s act) -> NestAcyclicFrom s c).
Proof.
  intros H. unfold has_cycle in H. apply orb_false_iff in H. destruct H as [H1 H2]. split; [exact H1|].
  intros act c Hact Hc.
  pose proof (proj1 (existsb_false_forall _ _ _) H2 _ Hact) as H3. cbn beta in H3.
  pose proof (proj1 (existsb_false_forall _ _ _) H3 _ Hc) as H4.
  eapply cyc_false_acyclic. exact H4.
Qed.

(* where the detector is silent, the computed successors are exactly the dependencies *)
Lemma has_cycle_false_dep_edge : ScopesResolve s -> has_cycle s = false -> forall a b, Dep s a b -> Edge a b.
Proof.
  intros SR H a b HD. destruct (has_cycle_false_parts H) as [_ HN].
  unfold Edge. apply succ_complete_local; [exact SR| |exact HD].
  intros act c Hf Hc. apply (HN act c); [|exact Hc]. apply find_action_some in Hf. exact (proj1 Hf).
Qed.

Lemma anc_exists : forall a b, Anc s a b -> In a (map a_id (actions s)).
Proof.
  intros a b H. induction H as [x y H|x y z _ IH1 _ _]; [eapply dep_exists; eassumption|exact IH1].
Qed.

Lemma has_cycle_false_anc_tedge : ScopesResolve s -> has_cycle s = false ->
  forall a b, Anc s a b -> clos_trans nat Edge a b.
Proof.
  intros SR H a b Ha. induction Ha as [x y Hxy|x y z _ IH1 _ IH2].
  - apply t_step. apply has_cycle_false_dep_edge; assumption.
  - eapply t_trans; eassumption.
Qed.

(* (a) soundness of the negative answer *)
Theorem has_cycle_false_acyclic : ScopesResolve s -> has_cycle s = false -> Acyclic s.
Proof.
  intros SR H a Ha.
  destruct (has_cycle_false_parts H) as [H1 _].
  apply (explore_all_false_acyclic H1 a (anc_exists _ _ Ha)).
  apply has_cycle_false_anc_tedge; assumption.
Qed.

(* ------------------------------------------------------------------ the positive answer *)
Fixpoint pchain (path : list nat) : Prop :=
  match path with
  | [] => True
  | x :: rest => match rest with [] => True | y :: _ => Edge y x end /\ pchain rest
  end.

Lemma pchain_reach : forall path x, pchain path -> In x path ->
  forall h, hd_error path = Some h -> x = h \/ clos_trans nat Edge x h.
Proof.
  induction path as [|p rest IH]; simpl; intros x C Hx h Hh; [tauto|].
  inversion Hh; subst p. destruct Hx as [Hx|Hx]; [left; symmetry; exact Hx|]. right.
  destruct rest as [|y r]; [destruct Hx|]. destruct C as [E C].
  destruct (IH x C Hx y eq_refl) as [Heq|T].
  - subst x. apply t_step. exact E.
  - eapply t_trans; [exact T|apply t_step; exact E].
Qed.

Lemma explore_true_cycle : forall fuel a visited path visited',
  pchain path -> (match path with [] => True | h :: _ => Edge h a end) ->
  NoDup path -> incl path (map a_id (actions s)) -> length (actions s) < length path + fuel ->
  explore s fuel a visited path = (true, visited') -> exists x, clos_trans nat Edge x x.
Proof.
  induction fuel as [|f IH]; intros a visited path visited' C E ND HI HL H.
  - exfalso. pose proof (NoDup_incl_length ND HI) as Hb. rewrite map_length in Hb. lia.
  - rewrite explore_S in H. destruct (mem_nat a path) eqn:Hp.
    + apply mem_nat_In in Hp. destruct path as [|h r]; [destruct Hp|].
      destruct (pchain_reach _ _ C Hp h eq_refl) as [Heq|T].
      * subst a. exists h. apply t_step. exact E.
      * exists a. eapply t_trans; [exact T|apply t_step; exact E].
    + destruct (mem_nat a visited); [discriminate|].
      assert (L : forall l vis vis', incl l (succ s a) -> loopf f a path l vis = (true, vis') ->
                  exists x, clos_trans nat Edge x x).
      { induction l as [|b l IHl]; intros vis vis' Hin HL2.
        - rewrite loopf_nil in HL2. discriminate.
        - rewrite loopf_cons in HL2.
          assert (Hb : In b (succ s a)) by (apply Hin; left; reflexivity).
          destruct (explore s f b vis (a :: path)) as [[|] v] eqn:E2.
          + apply (IH b vis (a :: path) v); try exact E2.
            * simpl. split; [|exact C]. destruct path; [exact I|exact E].
            * exact Hb.
            * constructor; [apply mem_nat_false; exact Hp|exact ND].
            * intros x [Hx|Hx]; [subst x; eapply succ_exists; exact Hb|apply HI; exact Hx].
            * cbn [length]. lia.
          + eapply IHl; [|exact HL2]. intros x Hx. apply Hin. right; exact Hx. }
      eapply L; [apply incl_refl|exact H].
Qed.

Lemma explore_all_true_cycle : forall roots visited,
  explore_all s roots visited = true -> exists x, clos_trans nat Edge x x.
Proof.
  induction roots as [|a r IH]; intros visited H; [discriminate|].
  cbn [explore_all] in H.
  destruct (explore s (S (length (actions s))) a visited []) as [[|] v] eqn:E.
  - eapply (explore_true_cycle _ _ _ [] v); try exact E.
    + exact I.
    + exact I.
    + constructor.
    + intros x [].
    + cbn [length]. lia.
  - eapply IH. exact H.
Qed.

(* (b) completeness: an acyclic schema is never flagged *)
Theorem acyclic_has_cycle_false : Acyclic s -> NestingAcyclic s -> has_cycle s = false.
Proof.
  intros HA HN. unfold has_cycle. apply orb_false_iff. split.
  - destruct (explore_all s (map a_id (actions s)) []) eqn:E; [|reflexivity].
    exfalso. destruct (explore_all_true_cycle _ _ E) as [x Hx]. apply (HA x). apply tEdge_Anc. exact Hx.
  - apply existsb_false_forall. intros act _. apply existsb_false_forall. intros c _.
    apply cyc_complete. apply NestingAcyclic_from. exact HN.
Qed.

(* the dependency relation of the property is what the model computes *)
Theorem dep_characterisation : NestingAcyclic s -> ScopesResolve s -> forall a b, In b (succ s a) <-> Dep s a b.
Proof. intros NA SR a b. apply succ_iff; assumption. Qed.

(* ------------------------------------------------------------------ what [conforms] provides *)
Lemma conforms_with_parts : forall cmp tbl, conforms_with cmp tbl s = true ->
  unique_ids s = true /\ forallb (group_ok s) (groups s) = true /\ has_cycle s = false.
Proof.
  intros cmp tbl H. unfold conforms_with in H.
  apply andb_true_iff in H. destruct H as [H Hcyc].
  apply andb_true_iff in H. destruct H as [H Hgrp].
  apply andb_true_iff in H. destruct H as [H _].
  apply andb_true_iff in H. destruct H as [H _].
  apply andb_true_iff in H. destruct H as [H _].
  apply andb_true_iff in H. destruct H as [Huniq _].
  apply negb_true_iff in Hcyc. repeat split; assumption.
Qed.

Lemma conforms_with_scopes : forall cmp tbl, conforms_with cmp tbl s = true -> ScopesResolve s.
Proof.
  intros cmp tbl H g tg Hf. destruct (conforms_with_parts _ _ H) as [_ [HG _]].
  apply find_group_some in Hf. destruct Hf as [Hin Hid].
  pose proof (proj1 (forallb_forall _ _) HG _ Hin) as Hok. unfold group_ok in Hok.
  do 5 (apply andb_true_iff in Hok; destruct Hok as [Hok _]).
  apply andb_true_iff in Hok. destruct Hok as [_ Hok].
  rewrite Hid in Hok.
  destruct (scope s g) as [l|]; [exists l; reflexivity|discriminate].
Qed.

Lemma conforms_with_nodup : forall cmp tbl, conforms_with cmp tbl s = true -> nodup_nat (map a_id (actions s)) = true.
Proof.
  intros cmp tbl H. destruct (conforms_with_parts _ _ H) as [HU _]. unfold unique_ids in HU.
  do 7 (apply andb_true_iff in HU; destruct HU as [HU _]).
  apply andb_true_iff in HU. destruct HU as [_ HU]. exact HU.
Qed.

Theorem conforms_with_acyclic : forall cmp tbl, conforms_with cmp tbl s = true -> Acyclic s.
Proof.
  intros cmp tbl H. apply has_cycle_false_acyclic.
  - eapply conforms_with_scopes; exact H.
  - exact (proj2 (proj2 (conforms_with_parts _ _ H))).
Qed.

End Cycle.

(* ------------------------------------------------------------------ statements in the form used by Properties/C02.v *)
Lemma C02_cycle_never_accepted_lemma : forall tbl s, conforms tbl s = true -> Acyclic s.
Proof. intros tbl s H. eapply conforms_with_acyclic. exact H. Qed.

(* the detector also rejects every schema the known-finding variant of the comparison table would accept *)
Lemma C02_cycle_never_accepted_kf_lemma : forall tbl s, conforms_kf tbl s = true -> Acyclic s.
Proof. intros tbl s H. eapply conforms_with_acyclic. exact H. Qed.

(* duplicate-freeness of the action ids is not needed; the hypothesis is kept because the property lists it *)
Lemma C02_acyclic_never_flagged_lemma : forall s,
  nodup_nat (map a_id (actions s)) = true -> Acyclic s -> NestingAcyclic s -> has_cycle s = false.
Proof. intros s _ HA HN. apply acyclic_has_cycle_false; assumption. Qed.

Lemma C02_dep_characterisation_lemma : forall s, NestingAcyclic s -> ScopesResolve s ->
  forall a b, In b (succ s a) <-> Dep s a b.
Proof. exact dep_characterisation. Qed.

(* every accepted schema satisfies the side conditions of the characterisation, so that on accepted schemas
   [succ] is [Dep]: nesting below checkpoints that hold actions is acyclic, scopes resolve *)
Lemma C02_dep_characterisation_conforms_lemma : forall tbl s, conforms tbl s = true ->
  forall a b, In b (succ s a) <-> Dep s a b.
Proof.
  intros tbl s H a b. split; [apply succ_sound|].
  apply has_cycle_false_dep_edge.
  - eapply conforms_with_scopes; exact H.
  - exact (proj2 (proj2 (conforms_with_parts _ _ _ H))).
Qed.

(* ------------------------------------------------------------------ examples *)
Module Examples.
Import OIS.Gen.Tables.

(* one party, one object type (attributes 1: string, 2: numeric, 3: boolean, 4: collection of edges to the type),
   three promises, four actions, three checkpoints, one thread group:
     action 2 depends on checkpoint 1 (compares action 1);
     action 3 depends on checkpoint 2 = XOR [checkpoint 1 (nested reference); action 2 = action 1];
     action 4 runs in thread group 1, which depends on checkpoint 3 (compares action 2). *)
Definition ex_type : otype :=
  Build_otype 1 101 [Build_attr 1 (KField STRING); Build_attr 2 (KField NUMERIC); Build_attr 3 (KField BOOLEAN);
                     Build_attr 4 (KEdgeColl (Ref RType 1))].

Definition ex_with (cp1_operand : nat) : schema :=
  Build_schema
    [Build_party 1 201]
    [ex_type]
    [Build_promise 1 301 (Ref RType 1) None; Build_promise 2 302 (Ref RType 1) None;
     Build_promise 3 303 (Ref RType 1) (Some (Ref RGroup 1))]
    [Build_action 1 401 (Ref RParty 1) (Ref RPromise 1) None None
       (Build_operation (Exclude (Some [1; 2])) [] [] None) [];
     Build_action 2 402 (Ref RParty 1) (Ref RPromise 2) None (Some (Ref RCheckpoint 1))
       (Build_operation (Include (Some [2])) [] [] None) [];
     Build_action 3 403 (Ref RParty 1) (Ref RPromise 1) None (Some (Ref RCheckpoint 2))
       (Build_operation (Exclude (Some [4; 2])) [] [] None) [];
     Build_action 4 404 (Ref RParty 1) (Ref RPromise 3) (Some (Ref RGroup 1)) None
       (Build_operation (Include (Some [4; 1])) [] [] None) []]
    [Build_checkpoint 1 501 None
       [DCmp (OAct (Ref RAction cp1_operand) [4]) LESS_THAN_OR_EQUAL_TO (OLit (Lit SNull 1))] None;
     Build_checkpoint 2 502 (Some G_XOR)
       [DRef (Ref RCheckpoint 1); DCmp (OAct (Ref RAction 2) [4; 3]) EQUALS (OAct (Ref RAction 1) [4; 3])] None;
     Build_checkpoint 3 503 None [DCmp (OAct (Ref RAction 2) []) CONTAINS (OLit (Lit SNull 2))] None]
    [Build_tgroup 1 601 None (Some (Ref RCheckpoint 3)) (SpPromise (Ref RPromise 2) [4; 2]) 32].

Definition ex : schema := ex_with 1.

Example ex_conforms : conforms default_value_table ex = true.
Proof. vm_compute. reflexivity. Qed.

Example ex_succ : (succ ex 1, succ ex 2, succ ex 3, succ ex 4) = ([], [1], [1; 2; 1], [2]).
Proof. vm_compute. reflexivity. Qed.

Example ex_acyclic : Acyclic ex.
Proof. exact (C02_cycle_never_accepted_lemma _ _ ex_conforms). Qed.

(* the same schema with checkpoint 1 comparing action 3: action 3 now depends on itself through the
   nested reference checkpoint 2 -> checkpoint 1; the detector reports it and the schema is rejected *)
Definition ex_cyc : schema := ex_with 3.

Example ex_cyc_detected : has_cycle ex_cyc = true /\ conforms default_value_table ex_cyc = false.
Proof. vm_compute. split; reflexivity. Qed.

Example ex_cyc_dep : Dep ex_cyc 3 3.
Proof. apply succ_sound. vm_compute. left; reflexivity. Qed.
End Examples.
