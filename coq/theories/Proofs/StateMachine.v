(* A validator instance as a state machine (property C13).
   The instance state is a finite map from field names to values.  One validate() call first re-initialises
   the fields in [R] (what tools/gen_state.py finds unconditionally re-assigned at the start of the call) and then
   runs a body that may read and write fields.  If the body reads only fields of [R] -- which the def/use pass
   establishes by showing that every field that is EVER written outside __init__ belongs to R (a field that is
   never written holds its initial value forever) -- then the result of a call does not depend on the calls made
   before it, for histories of any length. *)
From Coq Require Import List String Bool.
Import ListNotations.

Section SM.
  Variable value doc out : Type.
  Definition state := string -> value.
  Variable init : state.                       (* the state __init__ builds *)
  Variable R : list string.                    (* fields re-initialised at the start of every call *)
  Variable W : list string.                    (* fields written anywhere outside __init__ *)
  Variable body : state -> doc -> state * out.

  Definition memb (f : string) (l : list string) : bool := existsb (String.eqb f) l.

  Definition reset (st : state) : state := fun f => if memb f R then init f else st f.
  Definition call (st : state) (d : doc) : state * out := body (reset st) d.

  (* the body writes only fields of W *)
  Hypothesis body_writes : forall st d f, memb f W = false -> fst (body st d) f = st f.
  (* every written field is re-initialised *)
  Hypothesis covered : forallb (fun f => memb f R) W = true.
  (* the result of the body is a function of the state it starts from (Python is deterministic here) --
     stated extensionally *)
  Hypothesis body_ext : forall st1 st2 d, (forall f, st1 f = st2 f) -> snd (body st1 d) = snd (body st2 d).

  Lemma covered_in : forall f, memb f W = true -> memb f R = true.
  Proof.
    intros f Hf. unfold memb in Hf. apply existsb_exists in Hf. destruct Hf as [g [Hg Heq]].
    apply String.eqb_eq in Heq. subst g.
    rewrite forallb_forall in covered. apply covered. exact Hg.
  Qed.

  (* reachable states agree with init outside W *)
  Definition Inv (st : state) : Prop := forall f, memb f W = false -> st f = init f.

  Lemma inv_init : Inv init.
  Proof. intros f _. reflexivity. Qed.

  Lemma inv_call : forall st d, Inv st -> Inv (fst (call st d)).
  Proof.
    intros st d H f Hf. unfold call. rewrite body_writes by exact Hf.
    unfold reset. destruct (memb f R); [reflexivity | apply H; exact Hf].
  Qed.

  Lemma reset_of_inv : forall st f, Inv st -> reset st f = init f.
  Proof.
    intros st f H. unfold reset. destruct (memb f R) eqn:ER; [reflexivity|].
    apply H. destruct (memb f W) eqn:EW; [|reflexivity].
    apply covered_in in EW. congruence.
  Qed.

  Theorem no_carry_over : forall st d, Inv st -> snd (call st d) = snd (call init d).
  Proof.
    intros st d H. unfold call. apply body_ext. intro f.
    rewrite (reset_of_inv st f H). rewrite (reset_of_inv init f inv_init). reflexivity.
  Qed.

  (* histories *)
  Fixpoint run (st : state) (h : list doc) : state :=
    match h with [] => st | d :: h' => run (fst (call st d)) h' end.

  Lemma inv_run : forall h st, Inv st -> Inv (run st h).
  Proof. induction h as [|d h IH]; intros st H; simpl; [exact H | apply IH, inv_call, H]. Qed.

  Theorem history_independent : forall h d, snd (call (run init h) d) = snd (call init d).
  Proof. intros h d. apply no_carry_over. apply inv_run. apply inv_init. Qed.
End SM.
