(* Property C15: the verdict depends neither on the numbering of entities nor on their names.
   Module Renumber (first part of this file), module Names (second part).

   Renumber: the verdict does not depend on the numbering of entities.
   [renumber rho s] applies an injective renumbering per entity kind to every id and every reference;
   list order is kept, so every order-dependent computation of Model/Rules.v commutes with it exactly.
   The proof goes rule by rule: one commutation lemma per function of Rules.v. *)
From Coq Require Import List Bool Arith Lia.
From OIS Require Import Base.Types Base.PipeTypes Spec.Compare Model.Schema Model.Rules.
Import ListNotations.

Module Renumber.

Definition injective (f : nat -> nat) := forall x y, f x = f y -> x = y.

(* ================================================================== the renumbering *)
Section Defs.
Variable rho : rkind -> nat -> nat.

Definition ren_ref (r : ref) : ref := Ref (r_kind r) (rho (r_kind r) (r_id r)).
Definition ren_oref (o : option ref) : option ref := option_map ren_ref o.
Definition ren_akind (k : akind) : akind :=
  match k with
  | KField t => KField t
  | KEdge r => KEdge (ren_ref r)
  | KEdgeColl r => KEdgeColl (ren_ref r)
  end.
Definition ren_attr (a : attr) : attr := {| at_name := at_name a; at_kind := ren_akind (at_kind a) |}.
Definition ren_otype (t : otype) : otype :=
  {| ot_id := rho RType (ot_id t); ot_name := ot_name t; ot_attrs := map ren_attr (ot_attrs t) |}.
Definition ren_party (p : party) : party := {| pa_id := rho RParty (pa_id p); pa_name := pa_name p |}.
Definition ren_promise (p : promise) : promise :=
  {| pr_id := rho RPromise (pr_id p); pr_name := pr_name p;
     pr_type := ren_ref (pr_type p); pr_ctx := ren_oref (pr_ctx p) |}.
Definition ren_operand (o : operand) : operand :=
  match o with
  | OAct a p => OAct (ren_ref a) p
  | OVar g p => OVar (rho RGroup g) p
  | OLit l => OLit l
  end.
Definition ren_dep (d : dep) : dep :=
  match d with
  | DCmp l o r => DCmp (ren_operand l) o (ren_operand r)
  | DRef c => DRef (ren_ref c)
  end.
Definition ren_checkpoint (c : checkpoint) : checkpoint :=
  {| cp_id := rho RCheckpoint (cp_id c); cp_alias := cp_alias c; cp_gate := cp_gate c;
     cp_deps := map ren_dep (cp_deps c); cp_ctx := ren_oref (cp_ctx c) |}.
Definition ren_edge (e : nat * ref) : nat * ref := (fst e, ren_ref (snd e)).
Definition ren_appends (o : option (ref * list nat)) : option (ref * list nat) :=
  match o with Some (q, path) => Some (ren_ref q, path) | None => None end.
Definition ren_operation (op : operation) : operation :=
  {| op_incl := op_incl op; op_defaults := op_defaults op;
     op_edges := map ren_edge (op_edges op); op_appends := ren_appends (op_appends op) |}.
Definition ren_action (a : action) : action :=
  {| a_id := rho RAction (a_id a); a_name := a_name a; a_party := ren_ref (a_party a);
     a_promise := ren_ref (a_promise a); a_ctx := ren_oref (a_ctx a); a_dep := ren_oref (a_dep a);
     a_op := ren_operation (a_op a); a_milestones := a_milestones a |}.
Definition ren_src (sp : spawn_src) : spawn_src :=
  match sp with
  | SpPromise p path => SpPromise (ren_ref p) path
  | SpVar g path => SpVar (rho RGroup g) path
  end.
Definition ren_group (g : tgroup) : tgroup :=
  {| g_id := rho RGroup (g_id g); g_name := g_name g; g_ctx := ren_oref (g_ctx g); g_dep := ren_oref (g_dep g);
     g_src := ren_src (g_src g); g_var := g_var g |}.

Definition renumber (s : schema) : schema :=
  {| parties := map ren_party (parties s);
     otypes := map ren_otype (otypes s);
     promises := map ren_promise (promises s);
     actions := map ren_action (actions s);
     checkpoints := map ren_checkpoint (checkpoints s);
     groups := map ren_group (groups s) |}.

(* renumbered typing results: only the object type reference carried along changes *)
Definition ren_tdet (t : tdet) : tdet := TD (td_list t) (td_item t) (ren_oref (td_obj t)).
Definition ren_tres (t : tres) : tres :=
  match t with TNone => TNone | TRaise => TRaise | TOk td => TOk (ren_tdet td) end.
End Defs.

(* ================================================================== generic list lemmas *)
Lemma andb_congr (a a' b b' : bool) : a = a' -> (a' = true -> b = b') -> a && b = a' && b'.
Proof. intros -> H. destruct a'; [rewrite H by reflexivity; reflexivity | reflexivity]. Qed.

Lemma forallb_map_ext {A B} (f' : B -> bool) (f : A -> bool) (g : A -> B) (l : list A) :
  (forall x, In x l -> f' (g x) = f x) -> forallb f' (map g l) = forallb f l.
Proof.
  induction l as [|x l IH]; intros H; [reflexivity|]. cbn [map forallb].
  rewrite H by (left; reflexivity). rewrite IH; [reflexivity|]. intros y Hy. apply H. right. exact Hy.
Qed.

Lemma existsb_map_ext {A B} (f' : B -> bool) (f : A -> bool) (g : A -> B) (l : list A) :
  (forall x, In x l -> f' (g x) = f x) -> existsb f' (map g l) = existsb f l.
Proof.
  induction l as [|x l IH]; intros H; [reflexivity|]. cbn [map existsb].
  rewrite H by (left; reflexivity). rewrite IH; [reflexivity|]. intros y Hy. apply H. right. exact Hy.
Qed.

Lemma forallb_ext_in {A} (f g : A -> bool) (l : list A) :
  (forall x, In x l -> f x = g x) -> forallb f l = forallb g l.
Proof. intros H. rewrite <- (map_id l) at 1. apply forallb_map_ext. exact H. Qed.

Lemma existsb_ext_in {A} (f g : A -> bool) (l : list A) :
  (forall x, In x l -> f x = g x) -> existsb f l = existsb g l.
Proof. intros H. rewrite <- (map_id l) at 1. apply existsb_map_ext. exact H. Qed.

Lemma filter_map_ext {A B} (p' : B -> bool) (p : A -> bool) (g : A -> B) (l : list A) :
  (forall x, In x l -> p' (g x) = p x) -> filter p' (map g l) = map g (filter p l).
Proof.
  induction l as [|x l IH]; intros H; [reflexivity|]. cbn [map filter].
  rewrite H by (left; reflexivity). rewrite IH by (intros y Hy; apply H; right; exact Hy).
  destruct (p x); reflexivity.
Qed.

Lemma filter_ext_in' {A} (p q : A -> bool) (l : list A) :
  (forall x, In x l -> p x = q x) -> filter p l = filter q l.
Proof.
  intros H. pose proof (filter_map_ext p q (fun x => x) l H) as E. rewrite !map_id in E. exact E.
Qed.

Lemma flat_map_map_ext {A B C D} (f' : B -> list D) (f : A -> list C) (g : A -> B) (r : C -> D) (l : list A) :
  (forall x, In x l -> f' (g x) = map r (f x)) -> flat_map f' (map g l) = map r (flat_map f l).
Proof.
  induction l as [|x l IH]; intros H; [reflexivity|]. cbn [map flat_map].
  rewrite map_app. rewrite H by (left; reflexivity). rewrite IH; [reflexivity|].
  intros y Hy. apply H. right. exact Hy.
Qed.

Lemma flat_map_map_same {A B C} (f' : B -> list C) (f : A -> list C) (g : A -> B) (l : list A) :
  (forall x, In x l -> f' (g x) = f x) -> flat_map f' (map g l) = flat_map f l.
Proof.
  intros H. rewrite <- (map_id (flat_map f l)). apply flat_map_map_ext.
  intros x Hx. rewrite map_id. apply H. exact Hx.
Qed.

Lemma find_map_ext {A B} (p' : B -> bool) (p : A -> bool) (g : A -> B) (l : list A) :
  (forall x, p' (g x) = p x) -> find p' (map g l) = option_map g (find p l).
Proof.
  intros H. induction l as [|x l IH]; [reflexivity|]. cbn [map find]. rewrite H.
  destruct (p x); [reflexivity | exact IH].
Qed.

Lemma hd_error_map {A B} (g : A -> B) (l : list A) : hd_error (map g l) = option_map g (hd_error l).
Proof. destruct l; reflexivity. Qed.

Lemma isSome_map {A B} (g : A -> B) (o : option A) : isSome (option_map g o) = isSome o.
Proof. destruct o; reflexivity. Qed.

(* ------------------------------------------------------------------ injective maps on nat lists *)
Section Inj.
Variable r : nat -> nat.
Hypothesis r_inj : injective r.

Lemma eqb_inj (a b : nat) : Nat.eqb (r a) (r b) = Nat.eqb a b.
Proof.
  destruct (Nat.eqb a b) eqn:E.
  - apply Nat.eqb_eq in E. subst b. apply Nat.eqb_refl.
  - apply Nat.eqb_neq. intros H. apply r_inj in H. apply Nat.eqb_neq in E. contradiction.
Qed.

Lemma mem_nat_map (a : nat) (l : list nat) : mem_nat (r a) (map r l) = mem_nat a l.
Proof. unfold mem_nat. apply existsb_map_ext. intros x _. apply eqb_inj. Qed.

Lemma nodup_nat_map (l : list nat) : nodup_nat (map r l) = nodup_nat l.
Proof.
  induction l as [|x l IH]; [reflexivity|]. cbn [map nodup_nat]. rewrite mem_nat_map, IH. reflexivity.
Qed.

Lemma union_nat_map (a b : list nat) : union_nat (map r a) (map r b) = map r (union_nat a b).
Proof.
  revert a. induction b as [|x b IH]; intros a; [reflexivity|]. cbn [map union_nat].
  rewrite mem_nat_map. destruct (mem_nat x a); [apply IH|].
  rewrite <- IH. rewrite map_app. reflexivity.
Qed.

Lemma opt_nat_eqb_map (a b : option nat) : opt_nat_eqb (option_map r a) (option_map r b) = opt_nat_eqb a b.
Proof. destruct a, b; cbn [option_map opt_nat_eqb]; try reflexivity. apply eqb_inj. Qed.
End Inj.

Lemma nodup_by_map {A} (eqb : A -> A -> bool) (g : A -> A) (l : list A) :
  (forall x y, eqb (g x) (g y) = eqb x y) -> nodup_by eqb (map g l) = nodup_by eqb l.
Proof.
  intros H. induction l as [|x l IH]; [reflexivity|]. cbn [map nodup_by]. rewrite IH.
  rewrite (existsb_map_ext (eqb (g x)) (eqb x) g l) by (intros y _; apply H). reflexivity.
Qed.

(* ================================================================== the proof proper *)
Section Proof.
Variable rho : rkind -> nat -> nat.
Hypothesis rho_inj : forall k, injective (rho k).
Variable s : schema.
Local Notation s' := (renumber rho s).
Local Notation rPa := (rho RParty).
Local Notation rT := (rho RType).
Local Notation rP := (rho RPromise).
Local Notation rA := (rho RAction).
Local Notation rC := (rho RCheckpoint).
Local Notation rG := (rho RGroup).

(* ------------------------------------------------------------------ references, lookups *)
Lemma ren_ref_kind (r : ref) : r_kind (ren_ref rho r) = r_kind r.
Proof. reflexivity. Qed.

Lemma ren_ref_id (r : ref) (k : rkind) : r_kind r = k -> r_id (ren_ref rho r) = rho k (r_id r).
Proof. intros <-. reflexivity. Qed.

Lemma ren_ref_id_eqb (r : ref) (k : rkind) :
  rkind_eqb (r_kind r) k = true -> r_id (ren_ref rho r) = rho k (r_id r).
Proof. intros H. apply ren_ref_id. apply rkind_eqb_eq. exact H. Qed.

Lemma ref_eqb_ren (a b : ref) : ref_eqb (ren_ref rho a) (ren_ref rho b) = ref_eqb a b.
Proof.
  unfold ref_eqb. rewrite !ren_ref_kind.
  destruct (rkind_eqb (r_kind a) (r_kind b)) eqn:E; [|reflexivity]. cbn [andb].
  apply rkind_eqb_eq in E. rewrite (ren_ref_id a (r_kind b) E), (ren_ref_id b (r_kind b) eq_refl).
  apply eqb_inj. apply rho_inj.
Qed.

Lemma find_party_ren (i : nat) : find_party s' (rPa i) = option_map (ren_party rho) (find_party s i).
Proof. unfold find_party. cbn [renumber parties]. apply find_map_ext. intros x. cbn [ren_party pa_id]. apply eqb_inj, rho_inj. Qed.
Lemma find_type_ren (i : nat) : find_type s' (rT i) = option_map (ren_otype rho) (find_type s i).
Proof. unfold find_type. cbn [renumber otypes]. apply find_map_ext. intros x. cbn [ren_otype ot_id]. apply eqb_inj, rho_inj. Qed.
Lemma find_promise_ren (i : nat) : find_promise s' (rP i) = option_map (ren_promise rho) (find_promise s i).
Proof. unfold find_promise. cbn [renumber promises]. apply find_map_ext. intros x. cbn [ren_promise pr_id]. apply eqb_inj, rho_inj. Qed.
Lemma find_action_ren (i : nat) : find_action s' (rA i) = option_map (ren_action rho) (find_action s i).
Proof. unfold find_action. cbn [renumber actions]. apply find_map_ext. intros x. cbn [ren_action a_id]. apply eqb_inj, rho_inj. Qed.
Lemma find_checkpoint_ren (i : nat) : find_checkpoint s' (rC i) = option_map (ren_checkpoint rho) (find_checkpoint s i).
Proof. unfold find_checkpoint. cbn [renumber checkpoints]. apply find_map_ext. intros x. cbn [ren_checkpoint cp_id]. apply eqb_inj, rho_inj. Qed.
Lemma find_group_ren (i : nat) : find_group s' (rG i) = option_map (ren_group rho) (find_group s i).
Proof. unfold find_group. cbn [renumber groups]. apply find_map_ext. intros x. cbn [ren_group g_id]. apply eqb_inj, rho_inj. Qed.

Lemma find_attr_ren (t : otype) (n : nat) : find_attr (ren_otype rho t) n = option_map (ren_attr rho) (find_attr t n).
Proof. unfold find_attr. cbn [ren_otype ot_attrs]. apply find_map_ext. intros x. reflexivity. Qed.

Lemma fuel_of_ren : fuel_of s' = fuel_of s.
Proof. unfold fuel_of. cbn [renumber actions checkpoints groups]. rewrite !map_length. reflexivity. Qed.

Lemma actions_len_ren : length (actions s') = length (actions s).
Proof. cbn [renumber actions]. apply map_length. Qed.
Lemma checkpoints_len_ren : length (checkpoints s') = length (checkpoints s).
Proof. cbn [renumber checkpoints]. apply map_length. Qed.

Lemma denotes_ren (r : ref) : denotes s' (ren_ref rho r) = denotes s r.
Proof.
  unfold denotes. rewrite ren_ref_kind.
  destruct (r_kind r) eqn:E; rewrite (ren_ref_id r _ E).
  - rewrite find_party_ren. apply isSome_map.
  - rewrite find_type_ren. apply isSome_map.
  - rewrite find_promise_ren. apply isSome_map.
  - rewrite find_action_ren. apply isSome_map.
  - rewrite find_checkpoint_ren. apply isSome_map.
  - rewrite find_group_ren. apply isSome_map.
Qed.

Lemma ref_ok_ren (k : rkind) (r : ref) : ref_ok s' k (ren_ref rho r) = ref_ok s k r.
Proof. unfold ref_ok. rewrite ren_ref_kind, denotes_ren. reflexivity. Qed.

Lemma oref_ok_ren (k : rkind) (r : option ref) : oref_ok s' k (ren_oref rho r) = oref_ok s k r.
Proof. destruct r as [r|]; [apply ref_ok_ren | reflexivity]. Qed.

Lemma ref_ok_kind (k : rkind) (r : ref) : ref_ok s k r = true -> r_kind r = k.
Proof. unfold ref_ok. intros H. apply andb_true_iff in H. destruct H as [H _]. apply rkind_eqb_eq. exact H. Qed.

(* ------------------------------------------------------------------ thread scopes *)
Lemma chain_S (sc : schema) (f g : nat) :
  chain sc (S f) g =
  match find_group sc g with
  | None => None
  | Some tg =>
    match g_ctx tg with
    | None => Some [g]
    | Some r => if rkind_eqb (r_kind r) RGroup
                then match chain sc f (r_id r) with Some l => Some (g :: l) | None => None end
                else None
    end
  end.
Proof. reflexivity. Qed.

Lemma chain_ren (f g : nat) : chain s' f (rG g) = option_map (map rG) (chain s f g).
Proof.
  revert g. induction f as [|f IH]; intros g; [reflexivity|].
  rewrite !chain_S, find_group_ren.
  destruct (find_group s g) as [tg|]; cbn [option_map]; [|reflexivity].
  cbn [ren_group g_ctx]. destruct (g_ctx tg) as [r|]; cbn [ren_oref option_map]; [|reflexivity].
  rewrite ren_ref_kind. destruct (rkind_eqb (r_kind r) RGroup) eqn:E; [|reflexivity].
  rewrite (ren_ref_id_eqb r _ E), IH.
  destruct (chain s f (r_id r)); reflexivity.
Qed.

Lemma scope_ren (g : nat) : scope s' (rG g) = option_map (map rG) (scope s g).
Proof. unfold scope. rewrite fuel_of_ren. apply chain_ren. Qed.

Lemma has_access_ren (g g' : nat) : has_access s' (rG g) (rG g') = has_access s g g'.
Proof.
  unfold has_access. rewrite scope_ren. destruct (scope s g); cbn [option_map]; [|reflexivity].
  apply mem_nat_map, rho_inj.
Qed.

Lemma ctx_group_ren (c : option ref) : ctx_group (ren_oref rho c) = option_map rG (ctx_group c).
Proof.
  destruct c as [r|]; [|reflexivity]. cbn [ren_oref option_map ctx_group]. rewrite ren_ref_kind.
  destruct (rkind_eqb (r_kind r) RGroup) eqn:E; [|reflexivity].
  rewrite (ren_ref_id_eqb r _ E). reflexivity.
Qed.

Lemma ctx_sees_ren (from target : option nat) :
  ctx_sees s' (option_map rG from) (option_map rG target) = ctx_sees s from target.
Proof.
  destruct target as [g'|]; [|reflexivity]. destruct from as [g|]; [|reflexivity].
  cbn [option_map ctx_sees]. apply has_access_ren.
Qed.

(* ------------------------------------------------------------------ dependency structure *)
Lemma own_cp_ren (r : option ref) : own_cp (ren_oref rho r) = map rC (own_cp r).
Proof.
  destruct r as [r|]; [|reflexivity]. cbn [ren_oref option_map own_cp]. rewrite ren_ref_kind.
  destruct (rkind_eqb (r_kind r) RCheckpoint) eqn:E; [|reflexivity].
  rewrite (ren_ref_id_eqb r _ E). reflexivity.
Qed.

Lemma group_cps_ren (g : option nat) : group_cps s' (option_map rG g) = map rC (group_cps s g).
Proof.
  destruct g as [g|]; [|reflexivity]. cbn [option_map group_cps]. rewrite scope_ren.
  destruct (scope s g) as [l|]; cbn [option_map]; [|reflexivity].
  apply flat_map_map_ext. intros g' _. rewrite find_group_ren.
  destruct (find_group s g') as [tg|]; cbn [option_map]; [|reflexivity].
  cbn [ren_group g_dep]. apply own_cp_ren.
Qed.

Lemma action_cps_ren (a : action) : action_cps s' (ren_action rho a) = map rC (action_cps s a).
Proof.
  unfold action_cps. cbn [ren_action a_dep a_ctx]. rewrite own_cp_ren, ctx_group_ren, group_cps_ren, map_app.
  reflexivity.
Qed.

Lemma group_eff_cps_ren (g : nat) : group_eff_cps s' (rG g) = map rC (group_eff_cps s g).
Proof. unfold group_eff_cps. apply (group_cps_ren (Some g)). Qed.

Lemma operand_action_ren (o : operand) : operand_action (ren_operand rho o) = map rA (operand_action o).
Proof.
  destruct o as [a p|g p|l]; try reflexivity. cbn [ren_operand operand_action]. rewrite ren_ref_kind.
  destruct (rkind_eqb (r_kind a) RAction) eqn:E; [|reflexivity].
  rewrite (ren_ref_id_eqb a _ E). reflexivity.
Qed.

Lemma operand_actions_ren (l r : operand) :
  operand_action (ren_operand rho l) ++ operand_action (ren_operand rho r)
  = map rA (operand_action l ++ operand_action r).
Proof. rewrite !operand_action_ren, map_app. reflexivity. Qed.

Definition ment_dep (sc : schema) (f : nat) (d : dep) : list nat :=
  match d with
  | DCmp l _ r => operand_action l ++ operand_action r
  | DRef r => if rkind_eqb (r_kind r) RCheckpoint then mentions sc f (r_id r) else []
  end.

Lemma mentions_S (sc : schema) (f c : nat) :
  mentions sc (S f) c =
  match find_checkpoint sc c with None => [] | Some cp => flat_map (ment_dep sc f) (cp_deps cp) end.
Proof. reflexivity. Qed.

Lemma mentions_ren (f c : nat) : mentions s' f (rC c) = map rA (mentions s f c).
Proof.
  revert c. induction f as [|f IH]; intros c; [reflexivity|].
  rewrite !mentions_S, find_checkpoint_ren.
  destruct (find_checkpoint s c) as [cp|]; cbn [option_map]; [|reflexivity].
  cbn [ren_checkpoint cp_deps]. apply flat_map_map_ext. intros d _.
  destruct d as [l o r|r]; cbn [ren_dep ment_dep].
  - apply operand_actions_ren.
  - rewrite ren_ref_kind. destruct (rkind_eqb (r_kind r) RCheckpoint) eqn:E; [|reflexivity].
    rewrite (ren_ref_id_eqb r _ E). apply IH.
Qed.

Lemma mentions_flat_ren (l : list nat) :
  flat_map (mentions s' (fuel_of s')) (map rC l) = map rA (flat_map (mentions s (fuel_of s)) l).
Proof. apply flat_map_map_ext. intros c _. rewrite fuel_of_ren. apply mentions_ren. Qed.

Lemma succ_ren (a : nat) : succ s' (rA a) = map rA (succ s a).
Proof.
  unfold succ. rewrite find_action_ren. destruct (find_action s a) as [act|]; cbn [option_map]; [|reflexivity].
  rewrite action_cps_ren. apply mentions_flat_ren.
Qed.

(* ------------------------------------------------------------------ cycle search *)
Definition loopf (sc : schema) (f : nat) (a : nat) (path : list nat) :=
  fix loop (l : list nat) (vis : list nat) : bool * list nat :=
    match l with
    | [] => (false, vis)
    | b :: l' => match explore sc f b vis (a :: path) with
                 | (true, v) => (true, v)
                 | (false, v) => loop l' v
                 end
    end.

Lemma explore_S (sc : schema) (f a : nat) (vis path : list nat) :
  explore sc (S f) a vis path =
  if mem_nat a path then (true, vis)
  else if mem_nat a vis then (false, vis)
  else loopf sc f a path (succ sc a) (a :: vis).
Proof. reflexivity. Qed.

Lemma loopf_nil (sc : schema) (f a : nat) (path vis : list nat) : loopf sc f a path [] vis = (false, vis).
Proof. reflexivity. Qed.

Lemma loopf_cons (sc : schema) (f a : nat) (path : list nat) (b : nat) (l vis : list nat) :
  loopf sc f a path (b :: l) vis =
  match explore sc f b vis (a :: path) with
  | (true, v) => (true, v)
  | (false, v) => loopf sc f a path l v
  end.
Proof. reflexivity. Qed.

Definition mapres (r : nat -> nat) (p : bool * list nat) : bool * list nat := (fst p, map r (snd p)).

Lemma explore_ren (f a : nat) (vis path : list nat) :
  explore s' f (rA a) (map rA vis) (map rA path) = mapres rA (explore s f a vis path).
Proof.
  revert a vis path. induction f as [|f IH]; intros a vis path; [reflexivity|].
  rewrite !explore_S, !(mem_nat_map rA (rho_inj RAction)).
  destruct (mem_nat a path); [reflexivity|]. destruct (mem_nat a vis); [reflexivity|].
  rewrite succ_ren. change (rA a :: map rA vis) with (map rA (a :: vis)).
  generalize (a :: vis) as v0. generalize (succ s a) as l.
  induction l as [|b l IHl]; intros v0; [reflexivity|].
  cbn [map]. rewrite !loopf_cons. change (rA a :: map rA path) with (map rA (a :: path)).
  rewrite IH. destruct (explore s f b v0 (a :: path)) as [[|] v]; cbn [mapres fst snd]; [reflexivity|].
  apply IHl.
Qed.

Lemma explore_all_ren (roots vis : list nat) :
  explore_all s' (map rA roots) (map rA vis) = explore_all s roots vis.
Proof.
  revert vis. induction roots as [|a roots IH]; intros vis; [reflexivity|].
  cbn [map explore_all]. rewrite actions_len_ren.
  change (@nil nat) with (map rA []) at 1. rewrite explore_ren.
  destruct (explore s (S (length (actions s))) a vis []) as [[|] v]; cbn [mapres fst snd]; [reflexivity|].
  apply IH.
Qed.

Definition nest_dep (sc : schema) (f : nat) (stack : list nat) (d : dep) : bool :=
  match d with
  | DRef r => if rkind_eqb (r_kind r) RCheckpoint then cp_nesting_cyclic sc f stack (r_id r) else false
  | _ => false
  end.

Lemma cp_nesting_cyclic_S (sc : schema) (f : nat) (stack : list nat) (c : nat) :
  cp_nesting_cyclic sc (S f) stack c =
  if mem_nat c stack then true
  else match find_checkpoint sc c with
       | None => false
       | Some cp => existsb (nest_dep sc f (c :: stack)) (cp_deps cp)
       end.
Proof. reflexivity. Qed.

Lemma cp_nesting_cyclic_ren (f : nat) (stack : list nat) (c : nat) :
  cp_nesting_cyclic s' f (map rC stack) (rC c) = cp_nesting_cyclic s f stack c.
Proof.
  revert stack c. induction f as [|f IH]; intros stack c; [reflexivity|].
  rewrite !cp_nesting_cyclic_S, (mem_nat_map rC (rho_inj RCheckpoint)).
  destruct (mem_nat c stack); [reflexivity|]. rewrite find_checkpoint_ren.
  destruct (find_checkpoint s c) as [cp|]; cbn [option_map]; [|reflexivity].
  cbn [ren_checkpoint cp_deps]. apply existsb_map_ext. intros d _.
  destruct d as [l o r|r]; cbn [ren_dep nest_dep]; [reflexivity|].
  rewrite ren_ref_kind. destruct (rkind_eqb (r_kind r) RCheckpoint) eqn:E; [|reflexivity].
  rewrite (ren_ref_id_eqb r _ E). change (rC c :: map rC stack) with (map rC (c :: stack)). apply IH.
Qed.

Lemma has_cycle_ren : has_cycle s' = has_cycle s.
Proof.
  unfold has_cycle. f_equal.
  - cbn [renumber actions]. rewrite map_map. cbn [ren_action a_id]. rewrite <- (map_map a_id rA).
    apply (explore_all_ren _ []).
  - cbn [renumber actions]. apply existsb_map_ext. intros a _.
    rewrite action_cps_ren. apply existsb_map_ext. intros c _.
    rewrite checkpoints_len_ren. apply (cp_nesting_cyclic_ren _ []).
Qed.

(* ------------------------------------------------------------------ ancestry search *)
Lemma succ_flat_ren (l : list nat) : flat_map (succ s') (map rA l) = map rA (flat_map (succ s) l).
Proof. apply flat_map_map_ext. intros a _. apply succ_ren. Qed.

Lemma close_ren (n : nat) (acc : list nat) : close s' n (map rA acc) = map rA (close s n acc).
Proof.
  revert acc. induction n as [|n IH]; intros acc; [reflexivity|]. cbn [close].
  rewrite succ_flat_ren, (union_nat_map rA (rho_inj RAction)). apply IH.
Qed.

Lemma ancestors_ren (a : nat) : ancestors s' (rA a) = map rA (ancestors s a).
Proof.
  unfold ancestors. rewrite actions_len_ren, succ_ren.
  change (@nil nat) with (map rA []) at 1. rewrite (union_nat_map rA (rho_inj RAction)). apply close_ren.
Qed.

Lemma is_ancestor_ren (a b : nat) : is_ancestor s' (rA a) (rA b) = is_ancestor s a b.
Proof. unfold is_ancestor. rewrite ancestors_ren. apply mem_nat_map, rho_inj. Qed.

Lemma group_ancestors_ren (g : nat) : group_ancestors s' (rG g) = map rA (group_ancestors s g).
Proof.
  unfold group_ancestors. rewrite actions_len_ren, group_eff_cps_ren, mentions_flat_ren.
  change (@nil nat) with (map rA []) at 1. rewrite (union_nat_map rA (rho_inj RAction)). apply close_ren.
Qed.

Definition guar_dep (sc : schema) (f b : nat) (d : dep) : bool :=
  match d with
  | DCmp l _ r =>
    existsb (fun x => Nat.eqb x b ||
                      match find_action sc x with
                      | Some act => existsb (guar_cp sc f b) (action_cps sc act)
                      | None => false end) (operand_action l ++ operand_action r)
  | DRef r => if rkind_eqb (r_kind r) RCheckpoint then guar_cp sc f b (r_id r) else false
  end.

Lemma guar_cp_S (sc : schema) (f b c : nat) :
  guar_cp sc (S f) b c =
  match find_checkpoint sc c with
  | None => false
  | Some cp =>
    match cp_gate cp with
    | Some G_OR => forallb (guar_dep sc f b) (cp_deps cp)
    | _ => existsb (guar_dep sc f b) (cp_deps cp)
    end
  end.
Proof. reflexivity. Qed.

Lemma guar_cp_ren (f b c : nat) : guar_cp s' f (rA b) (rC c) = guar_cp s f b c.
Proof.
  revert c. induction f as [|f IH]; intros c; [reflexivity|].
  rewrite !guar_cp_S, find_checkpoint_ren.
  destruct (find_checkpoint s c) as [cp|]; cbn [option_map]; [|reflexivity].
  assert (D : forall d, guar_dep s' f (rA b) (ren_dep rho d) = guar_dep s f b d).
  { intros d. destruct d as [l o r|r]; cbn [ren_dep guar_dep].
    - rewrite operand_actions_ren. apply existsb_map_ext. intros x _.
      rewrite (eqb_inj rA (rho_inj RAction)), find_action_ren.
      destruct (find_action s x) as [act|]; cbn [option_map]; [|reflexivity].
      f_equal. rewrite action_cps_ren. apply existsb_map_ext. intros c' _. apply IH.
    - rewrite ren_ref_kind. destruct (rkind_eqb (r_kind r) RCheckpoint) eqn:E; [|reflexivity].
      rewrite (ren_ref_id_eqb r _ E). apply IH. }
  cbn [ren_checkpoint cp_gate cp_deps].
  destruct (cp_gate cp) as [[| | | |]|];
    first [ apply forallb_map_ext; intros d _; apply D | apply existsb_map_ext; intros d _; apply D ].
Qed.

Lemma guaranteed_ancestor_ren (a : action) (b : nat) :
  guaranteed_ancestor s' (ren_action rho a) (rA b) = guaranteed_ancestor s a b.
Proof.
  unfold guaranteed_ancestor. rewrite action_cps_ren, actions_len_ren, checkpoints_len_ren.
  apply existsb_map_ext. intros c _. apply guar_cp_ren.
Qed.

(* ------------------------------------------------------------------ object-promise lifecycle *)
Lemma promise_of_ren (a : action) : promise_of (ren_action rho a) = option_map rP (promise_of a).
Proof.
  unfold promise_of. cbn [ren_action a_promise]. rewrite ren_ref_kind.
  destruct (rkind_eqb (r_kind (a_promise a)) RPromise) eqn:E; [|reflexivity].
  rewrite (ren_ref_id_eqb _ _ E). reflexivity.
Qed.

Lemma actions_on_ren (p : nat) : actions_on s' (rP p) = map (ren_action rho) (actions_on s p).
Proof.
  unfold actions_on. cbn [renumber actions]. apply filter_map_ext. intros a _.
  rewrite promise_of_ren. destruct (promise_of a) as [q|]; cbn [option_map]; [|reflexivity].
  apply eqb_inj, rho_inj.
Qed.

Lemma creators_ren (p : nat) : creators s' (rP p) = map (ren_action rho) (creators s p).
Proof.
  unfold creators. rewrite actions_on_ren. apply filter_map_ext. intros a _. f_equal.
  apply existsb_map_ext. intros b _. cbn [ren_action a_id].
  rewrite (eqb_inj rA (rho_inj RAction)), is_ancestor_ren. reflexivity.
Qed.

Lemma fulfiller_ren (p : nat) : fulfiller s' (rP p) = option_map (ren_action rho) (fulfiller s p).
Proof. unfold fulfiller. rewrite creators_ren. apply hd_error_map. Qed.

Lemma promise_ok_ren (p : promise) : promise_ok s' (ren_promise rho p) = promise_ok s p.
Proof.
  unfold promise_ok. cbn [ren_promise pr_id pr_ctx]. rewrite creators_ren.
  destruct (creators s (pr_id p)) as [|f [|f2 l]]; try reflexivity. cbn [map].
  cbn [ren_action a_ctx]. rewrite !ctx_group_ren, (opt_nat_eqb_map rG (rho_inj RGroup)). f_equal.
  destruct (pr_ctx p) as [r|]; [|reflexivity].
  rewrite isSome_map. reflexivity.
Qed.

Lemma promise_context_ren (p : nat) :
  promise_context s' (rP p) = option_map (option_map rG) (promise_context s p).
Proof.
  unfold promise_context. rewrite fulfiller_ren. destruct (fulfiller s p) as [f|]; [|reflexivity].
  cbn [option_map ren_action a_ctx]. rewrite ctx_group_ren. reflexivity.
Qed.

(* ------------------------------------------------------------------ typing of paths and operands *)
Lemma ty_of_tdet_ren (td : tdet) : ty_of_tdet (ren_tdet rho td) = ty_of_tdet td.
Proof. reflexivity. Qed.

Lemma walk_cons (sc : schema) (def : option otype) (td : tdet) (seg : nat) (rest : list nat) :
  walk sc def td (seg :: rest) =
  match def with
  | None => TNone
  | Some d =>
    match find_attr d seg with
    | None => TNone
    | Some a =>
      match at_kind a with
      | KField t =>
        match rest with
        | _ :: _ => TNone
        | [] => match field_item t with
                | Some (true, it) => if td_list td then TRaise else TOk (TD true it None)
                | Some (false, it) => TOk (TD (td_list td) it None)
                | None => TNone
                end
        end
      | KEdge tgt =>
        if rkind_eqb (r_kind tgt) RType
        then walk sc (find_type sc (r_id tgt)) (TD (td_list td) IObject (Some tgt)) rest
        else TRaise
      | KEdgeColl tgt =>
        if rkind_eqb (r_kind tgt) RType
        then (if td_list td then TRaise else walk sc (find_type sc (r_id tgt)) (TD true IObject (Some tgt)) rest)
        else TRaise
      end
    end
  end.
Proof. reflexivity. Qed.

Lemma walk_ren (path : list nat) : forall (def : option otype) (td : tdet),
  walk s' (option_map (ren_otype rho) def) (ren_tdet rho td) path = ren_tres rho (walk s def td path).
Proof.
  induction path as [|seg rest IH]; intros def td; [reflexivity|].
  rewrite !walk_cons. destruct def as [d|]; cbn [option_map]; [|reflexivity].
  rewrite find_attr_ren. destruct (find_attr d seg) as [a|]; cbn [option_map]; [|reflexivity].
  cbn [ren_attr at_kind]. destruct (at_kind a) as [t|tgt|tgt]; cbn [ren_akind].
  - destruct rest; [|reflexivity]. cbn [ren_tdet td_list].
    destruct (field_item t) as [[[|] it]|]; try reflexivity. destruct (td_list td); reflexivity.
  - rewrite ren_ref_kind. destruct (rkind_eqb (r_kind tgt) RType) eqn:E; [|reflexivity].
    rewrite (ren_ref_id_eqb _ _ E), find_type_ren. cbn [ren_tdet td_list].
    apply (IH _ (TD (td_list td) IObject (Some tgt))).
  - rewrite ren_ref_kind. destruct (rkind_eqb (r_kind tgt) RType) eqn:E; [|reflexivity].
    rewrite (ren_ref_id_eqb _ _ E), find_type_ren. cbn [ren_tdet td_list].
    destruct (td_list td); [reflexivity|].
    apply (IH _ (TD true IObject (Some tgt))).
Qed.

Lemma find_type_ref_ren (r : ref) :
  find_type_ref s' (ren_ref rho r) = option_map (ren_otype rho) (find_type_ref s r).
Proof.
  unfold find_type_ref. rewrite ren_ref_kind. destruct (rkind_eqb (r_kind r) RType) eqn:E; [|reflexivity].
  rewrite (ren_ref_id_eqb _ _ E). apply find_type_ren.
Qed.

Lemma resolve_path_ren (tr : ref) (path : list nat) :
  resolve_path s' (ren_ref rho tr) path = ren_tres rho (resolve_path s tr path).
Proof.
  unfold resolve_path. rewrite find_type_ref_ren.
  destruct (find_type_ref s tr) as [d|]; cbn [option_map]; [|reflexivity].
  apply (walk_ren path (Some d) (TD false IObject (Some tr))).
Qed.

Definition many_of (sc : schema) (from pctx : option nat) : bool :=
  match pctx with
  | None => false
  | Some g' => negb (match from with Some g => has_access sc g g' | None => false end)
  end.

Definition ppt_lift (many : bool) (t : tres) : tres :=
  match t with
  | TOk td => if many then (if td_list td then TRaise else TOk (TD true (td_item td) (td_obj td))) else TOk td
  | TNone => TNone
  | TRaise => TRaise
  end.

Lemma ppt_unfold (sc : schema) (from : option nat) (p : nat) (path : list nat) :
  promise_path_type sc from p path =
  match find_promise sc p, promise_context sc p with
  | Some pr, Some pctx =>
    match path with
    | [] => if rkind_eqb (r_kind (pr_type pr)) RType
            then TOk (TD (many_of sc from pctx) IObject (Some (pr_type pr))) else TRaise
    | _ :: _ => ppt_lift (many_of sc from pctx) (resolve_path sc (pr_type pr) path)
    end
  | _, _ => TNone
  end.
Proof.
  unfold promise_path_type. destruct (find_promise sc p); [|reflexivity].
  destruct (promise_context sc p); [|reflexivity]. destruct path; reflexivity.
Qed.

Lemma many_of_ren (from pctx : option nat) :
  many_of s' (option_map rG from) (option_map rG pctx) = many_of s from pctx.
Proof.
  destruct pctx as [g'|]; [|reflexivity]. destruct from as [g|]; [|reflexivity].
  cbn [option_map many_of]. rewrite has_access_ren. reflexivity.
Qed.

Lemma ppt_lift_ren (m : bool) (t : tres) : ppt_lift m (ren_tres rho t) = ren_tres rho (ppt_lift m t).
Proof.
  destruct t as [| |td]; try reflexivity. cbn [ren_tres ppt_lift]. destruct m; [|reflexivity].
  cbn [ren_tdet td_list]. destruct (td_list td); reflexivity.
Qed.

Lemma promise_path_type_ren (from : option nat) (p : nat) (path : list nat) :
  promise_path_type s' (option_map rG from) (rP p) path = ren_tres rho (promise_path_type s from p path).
Proof.
  rewrite !ppt_unfold, find_promise_ren, promise_context_ren.
  destruct (find_promise s p) as [pr|]; cbn [option_map]; [|reflexivity].
  destruct (promise_context s p) as [pctx|]; [|reflexivity].
  change (option_map (option_map rG) (Some pctx)) with (Some (option_map rG pctx)). cbv iota.
  rewrite many_of_ren. cbn [ren_promise pr_type]. destruct path as [|seg rest].
  - rewrite ren_ref_kind. destruct (rkind_eqb (r_kind (pr_type pr)) RType); reflexivity.
  - rewrite resolve_path_ren. apply ppt_lift_ren.
Qed.

Definition var_src (sc : schema) (f g : nat) (tg : tgroup) : tres :=
  match g_src tg with
  | SpPromise p path =>
    if rkind_eqb (r_kind p) RPromise then promise_path_type sc (ctx_group (g_ctx tg)) (r_id p) path else TNone
  | SpVar g' path =>
    if negb (Nat.eqb g' g) && has_access sc g g' then
      match var_type sc f g' with
      | TOk vt =>
        match td_item vt, td_obj vt with
        | IObject, Some tr => resolve_path sc tr path
        | _, _ => match path with [] => TOk vt | _ => TRaise end
        end
      | TNone => TNone
      | TRaise => TRaise
      end
    else TNone
  end.

Definition delist (src : tres) : tres :=
  match src with
  | TOk td => if td_list td then TOk (TD false (td_item td) (td_obj td)) else TNone
  | TNone => TNone
  | TRaise => TRaise
  end.

Lemma var_type_S (sc : schema) (f g : nat) :
  var_type sc (S f) g =
  match find_group sc g with None => TNone | Some tg => delist (var_src sc f g tg) end.
Proof.
  assert (H : forall src : tres,
             match src with
             | TOk td => if td_list td then TOk (TD false (td_item td) (td_obj td)) else TNone
             | _ => src
             end = delist src) by (intros [| |]; reflexivity).
  cbn [var_type]. destruct (find_group sc g) as [tg|]; [|reflexivity].
  exact (H (var_src sc f g tg)).
Qed.

Lemma delist_ren (t : tres) : delist (ren_tres rho t) = ren_tres rho (delist t).
Proof.
  destruct t as [| |td]; try reflexivity. cbn [ren_tres delist ren_tdet td_list].
  destruct (td_list td); reflexivity.
Qed.

Lemma var_type_ren (f g : nat) : var_type s' f (rG g) = ren_tres rho (var_type s f g).
Proof.
  revert g. induction f as [|f IH]; intros g; [reflexivity|].
  rewrite !var_type_S, find_group_ren.
  destruct (find_group s g) as [tg|]; cbn [option_map]; [|reflexivity].
  rewrite <- delist_ren. f_equal. unfold var_src. cbn [ren_group g_src g_ctx].
  destruct (g_src tg) as [p path|g' path]; cbn [ren_src].
  - rewrite ren_ref_kind. destruct (rkind_eqb (r_kind p) RPromise) eqn:E; [|reflexivity].
    rewrite (ren_ref_id_eqb _ _ E), ctx_group_ren. apply promise_path_type_ren.
  - rewrite (eqb_inj rG (rho_inj RGroup)), has_access_ren.
    destruct (negb (Nat.eqb g' g) && has_access s g g'); [|reflexivity].
    rewrite IH. destruct (var_type s f g') as [| |vt]; try reflexivity.
    cbn [ren_tres]. cbn [ren_tdet td_item td_obj].
    destruct (td_item vt); destruct (td_obj vt) as [tr|]; cbn [ren_oref option_map];
      try (destruct path; reflexivity).
    apply resolve_path_ren.
Qed.

Lemma operand_type_ren (cctx : option nat) (o : operand) :
  operand_type s' (option_map rG cctx) (ren_operand rho o) = operand_type s cctx o.
Proof.
  destruct o as [a path|g path|l]; cbn [ren_operand operand_type].
  - rewrite ren_ref_kind. destruct (rkind_eqb (r_kind a) RAction) eqn:E; [|reflexivity].
    rewrite (ren_ref_id_eqb _ _ E), find_action_ren.
    destruct (find_action s (r_id a)) as [act|]; cbn [option_map]; [|reflexivity].
    rewrite promise_of_ren. destruct (promise_of act) as [p|]; cbn [option_map]; [|reflexivity].
    rewrite promise_path_type_ren. destruct (promise_path_type s cctx p path) as [| |td]; reflexivity.
  - destruct cctx as [cg|]; cbn [option_map]; [|reflexivity].
    rewrite has_access_ren. destruct (has_access s cg g); [|reflexivity].
    rewrite fuel_of_ren, var_type_ren. destruct (var_type s (fuel_of s) g) as [| |vt]; try reflexivity.
    cbn [ren_tres]. destruct path as [|seg rest]; [reflexivity|].
    cbn [ren_tdet td_item td_obj]. destruct (td_item vt); try reflexivity.
    destruct (td_obj vt) as [tr|]; cbn [ren_oref option_map]; [|reflexivity].
    rewrite resolve_path_ren. destruct (resolve_path s tr (seg :: rest)) as [| |td]; reflexivity.
  - reflexivity.
Qed.

(* ------------------------------------------------------------------ equality of dependencies, composite keys *)
Lemma operand_eqb_ren (a b : operand) : operand_eqb (ren_operand rho a) (ren_operand rho b) = operand_eqb a b.
Proof.
  destruct a as [x p|x p|x], b as [y q|y q|y]; cbn [ren_operand operand_eqb]; try reflexivity.
  - rewrite ref_eqb_ren. reflexivity.
  - rewrite (eqb_inj rG (rho_inj RGroup)). reflexivity.
Qed.

Lemma dep_eqb_ren (a b : dep) : dep_eqb (ren_dep rho a) (ren_dep rho b) = dep_eqb a b.
Proof.
  destruct a as [l o r|c], b as [l2 o2 r2|c2]; cbn [ren_dep dep_eqb]; try reflexivity.
  - rewrite !operand_eqb_ren. reflexivity.
  - apply ref_eqb_ren.
Qed.

Lemma remove_first_ren (d : dep) (l : list dep) :
  remove_first (ren_dep rho d) (map (ren_dep rho) l) = option_map (map (ren_dep rho)) (remove_first d l).
Proof.
  induction l as [|x l IH]; [reflexivity|]. cbn [map remove_first]. rewrite dep_eqb_ren.
  destruct (dep_eqb d x); [reflexivity|]. rewrite IH. destruct (remove_first d l); reflexivity.
Qed.

Lemma msub_ren (a b : list dep) : msub (map (ren_dep rho) a) (map (ren_dep rho) b) = msub a b.
Proof.
  revert b. induction a as [|x a IH]; intros b; [reflexivity|]. cbn [map msub]. rewrite remove_first_ren.
  destruct (remove_first x b) as [b'|]; cbn [option_map]; [apply IH | reflexivity].
Qed.

Lemma deps_same_ren (a b : list dep) : deps_same (map (ren_dep rho) a) (map (ren_dep rho) b) = deps_same a b.
Proof. unfold deps_same. rewrite !map_length, msub_ren. reflexivity. Qed.

Lemma composite_eqb_ren (c1 c2 : checkpoint) :
  composite_eqb (ren_checkpoint rho c1) (ren_checkpoint rho c2) = composite_eqb c1 c2.
Proof. unfold composite_eqb. cbn [ren_checkpoint cp_gate cp_deps]. rewrite deps_same_ren. reflexivity. Qed.

Lemma is_lit_ren (o : operand) : is_lit (ren_operand rho o) = is_lit o.
Proof. destruct o; reflexivity. Qed.

Lemma comparison_ok_ren (cmp : ty -> cop -> ty -> bool) (cctx : option nat) (l : operand) (o : cop) (r : operand) :
  comparison_ok cmp s' (option_map rG cctx) (ren_operand rho l) o (ren_operand rho r)
  = comparison_ok cmp s cctx l o r.
Proof. unfold comparison_ok. rewrite !is_lit_ren, operand_eqb_ren, !operand_type_ren. reflexivity. Qed.

(* ------------------------------------------------------------------ checkpoints *)
Lemma operand_refs_ok_ren (o : operand) : operand_refs_ok s' (ren_operand rho o) = operand_refs_ok s o.
Proof. destruct o as [a p|g p|l]; try reflexivity. apply ref_ok_ren. Qed.

(* the action is looked up without a kind test: invariant only together with [operand_refs_ok] *)
Lemma operand_scope_ok_ren (cctx : option nat) (o : operand) :
  operand_refs_ok s o = true ->
  operand_scope_ok s' (option_map rG cctx) (ren_operand rho o) = operand_scope_ok s cctx o.
Proof.
  destruct o as [a path|g path|l]; intros H; try reflexivity.
  cbn [operand_refs_ok] in H. cbn [ren_operand operand_scope_ok].
  rewrite (ren_ref_id a _ (ref_ok_kind _ _ H)), find_action_ren.
  destruct (find_action s (r_id a)) as [act|]; cbn [option_map]; [|reflexivity].
  cbn [ren_action a_ctx]. rewrite ctx_group_ren. apply ctx_sees_ren.
Qed.

Lemma dep_ok_ren (cmp : ty -> cop -> ty -> bool) (cp : checkpoint) (d : dep) :
  dep_ok cmp s' (ren_checkpoint rho cp) (ren_dep rho d) = dep_ok cmp s cp d.
Proof.
  unfold dep_ok. cbn [ren_checkpoint cp_ctx]. rewrite ctx_group_ren.
  destruct d as [l o r|c]; cbn [ren_dep].
  - apply andb_congr; [apply andb_congr|].
    + rewrite !operand_refs_ok_ren, comparison_ok_ren. reflexivity.
    + intros H. rewrite !andb_true_iff in H. destruct H as [[Hl Hr] Hc].
      apply operand_scope_ok_ren. exact Hl.
    + intros H. rewrite !andb_true_iff in H. destruct H as [[[Hl Hr] Hc] Hs].
      apply operand_scope_ok_ren. exact Hr.
  - apply andb_congr; [apply ref_ok_ren|]. intros H.
    rewrite (ren_ref_id c _ (ref_ok_kind _ _ H)), find_checkpoint_ren.
    destruct (find_checkpoint s (r_id c)) as [c'|]; cbn [option_map]; [|reflexivity].
    cbn [ren_checkpoint cp_ctx]. rewrite ctx_group_ren. apply ctx_sees_ren.
Qed.

Lemma cp_referenced_ren (c : nat) : cp_referenced s' (rC c) = cp_referenced s c.
Proof.
  unfold cp_referenced. cbn [renumber actions groups checkpoints]. f_equal; [f_equal|].
  - apply existsb_map_ext. intros a _. cbn [ren_action a_dep]. rewrite own_cp_ren. apply mem_nat_map, rho_inj.
  - apply existsb_map_ext. intros g _. cbn [ren_group g_dep]. rewrite own_cp_ren. apply mem_nat_map, rho_inj.
  - apply existsb_map_ext. intros cp _. cbn [ren_checkpoint cp_deps]. apply existsb_map_ext. intros d _.
    destruct d as [l o r|r]; cbn [ren_dep]; [reflexivity|].
    change (Some (ren_ref rho r)) with (ren_oref rho (Some r)). rewrite own_cp_ren. apply mem_nat_map, rho_inj.
Qed.

Lemma gate_shape_ok_ren (cp : checkpoint) : gate_shape_ok (ren_checkpoint rho cp) = gate_shape_ok cp.
Proof.
  unfold gate_shape_ok. cbn [ren_checkpoint cp_deps cp_gate].
  destruct (cp_deps cp) as [|[l o r|c] [|d2 l2]]; reflexivity.
Qed.

Lemma checkpoint_ok_ren (cmp : ty -> cop -> ty -> bool) (cp : checkpoint) :
  checkpoint_ok cmp s' (ren_checkpoint rho cp) = checkpoint_ok cmp s cp.
Proof.
  unfold checkpoint_ok. f_equal; [f_equal; [f_equal|]|].
  - apply gate_shape_ok_ren.
  - apply oref_ok_ren.
  - cbn [ren_checkpoint cp_deps]. apply forallb_map_ext. intros d _. apply dep_ok_ren.
  - apply cp_referenced_ren.
Qed.

(* ------------------------------------------------------------------ depends_on scope *)
(* the checkpoint is looked up without a kind test: invariant only together with [oref_ok _ RCheckpoint] *)
Lemma depends_scope_ok_ren (holder : option nat) (d : option ref) :
  oref_ok s RCheckpoint d = true ->
  depends_scope_ok s' (option_map rG holder) (ren_oref rho d) = depends_scope_ok s holder d.
Proof.
  destruct d as [r|]; intros H; [|reflexivity]. cbn [oref_ok] in H.
  cbn [ren_oref option_map depends_scope_ok].
  rewrite (ren_ref_id r _ (ref_ok_kind _ _ H)), find_checkpoint_ren.
  destruct (find_checkpoint s (r_id r)) as [cp|]; cbn [option_map]; [|reflexivity].
  cbn [ren_checkpoint cp_ctx]. rewrite ctx_group_ren. apply ctx_sees_ren.
Qed.

(* ------------------------------------------------------------------ operations *)
Lemma type_of_promise_ren (p : nat) :
  type_of_promise s' (rP p) = option_map (ren_otype rho) (type_of_promise s p).
Proof.
  unfold type_of_promise. rewrite find_promise_ren.
  destruct (find_promise s p) as [pr|]; cbn [option_map]; [|reflexivity].
  cbn [ren_promise pr_type]. apply find_type_ref_ren.
Qed.

Lemma attr_names_ren (t : otype) : attr_names (ren_otype rho t) = attr_names t.
Proof. unfold attr_names. cbn [ren_otype ot_attrs]. rewrite map_map. reflexivity. Qed.

Lemma edges_fst_ren (l : list (nat * ref)) : map fst (map (ren_edge rho) l) = map fst l.
Proof. rewrite map_map. reflexivity. Qed.

Lemma settable_by_ren (t : otype) (op : operation) :
  settable_by (ren_otype rho t) (ren_operation rho op) = settable_by t op.
Proof.
  unfold settable_by. rewrite attr_names_ren. cbn [ren_operation op_incl op_defaults op_edges].
  rewrite edges_fst_ren. f_equal. f_equal.
  apply filter_ext_in'. intros n _. rewrite find_attr_ren.
  destruct (find_attr t n) as [a|]; cbn [option_map]; [|reflexivity].
  cbn [ren_attr at_kind]. destruct (at_kind a); reflexivity.
Qed.

Lemma settable_ren (p : nat) : settable s' (rP p) = settable s p.
Proof.
  unfold settable. rewrite type_of_promise_ren.
  destruct (type_of_promise s p) as [t|]; cbn [option_map]; [|reflexivity].
  rewrite actions_on_ren. apply flat_map_map_same. intros a _. cbn [ren_action a_op]. apply settable_by_ren.
Qed.

Lemma is_dependee_ren (a : nat) : is_dependee s' (rA a) = is_dependee s a.
Proof.
  unfold is_dependee. cbn [renumber checkpoints]. apply existsb_map_ext. intros cp _.
  cbn [ren_checkpoint cp_deps]. apply existsb_map_ext. intros d _.
  destruct d as [l o r|c]; cbn [ren_dep]; [|reflexivity].
  rewrite operand_actions_ren. apply mem_nat_map, rho_inj.
Qed.

Definition defaults_ok (tbl : list (ishape * ty * bool)) (t : otype) (d : nat * ishape) : bool :=
  match find_attr t (fst d) with
  | Some at_ => match at_kind at_ with
                | KField ft => default_fits tbl (snd d) ft
                | _ => false end
  | None => false end.

Definition edge_ok (sc : schema) (t : otype) (a : action) (e : nat * ref) : bool :=
  match find_attr t (fst e) with
  | Some at_ =>
    match at_kind at_ with
    | KEdge tgt =>
      ref_ok sc RPromise (snd e) &&
      match find_promise sc (r_id (snd e)) with
      | Some q =>
        ref_eqb (pr_type q) tgt &&
        match fulfiller sc (pr_id q) with
        | Some fq => is_ancestor sc (a_id a) (a_id fq)
        | None => false end
      | None => false end
    | _ => false end
  | None => false end.

Definition appends_ok (sc : schema) (p : nat) (a : action) (ap : option (ref * list nat)) : bool :=
  match ap with
  | None => true
  | Some (q, path) =>
    ref_ok sc RPromise q &&
    match fulfiller sc (r_id q) with
    | Some fq => guaranteed_ancestor sc a (a_id fq)
    | None => false end &&
    match promise_path_type sc (ctx_group (a_ctx a)) (r_id q) path with
    | TOk td => td_list td && item_eqb (td_item td) IObject &&
                match td_obj td, find_promise sc p with
                | Some tr, Some pr => ref_eqb tr (pr_type pr)
                | _, _ => false end
    | _ => false end &&
    negb (mem_nat (last path 0) (settable sc (r_id q))) &&
    negb (is_dependee sc (a_id a)) &&
    match promise_context sc (r_id q) with
    | Some qc => opt_nat_eqb (ctx_group (a_ctx a)) qc
    | None => opt_nat_eqb (ctx_group (a_ctx a)) None
    end
  end.

Definition edit_shape (op : operation) : bool :=
  match op_defaults op, op_edges op, op_appends op with
  | [], [], None => true
  | _, _, _ => false
  end.

Lemma action_op_ok_unfold (tbl : list (ishape * ty * bool)) (sc : schema) (a : action) :
  action_op_ok tbl sc a =
  match promise_of a with
  | None => true
  | Some p =>
    match type_of_promise sc p with
    | None => true
    | Some t =>
      forallb (fun n => mem_nat n (attr_names t)) (incl_list (op_incl (a_op a))) &&
      match fulfiller sc p with
      | None => true
      | Some f =>
        if Nat.eqb (a_id f) (a_id a) then
          forallb (defaults_ok tbl t) (op_defaults (a_op a)) &&
          forallb (edge_ok sc t a) (op_edges (a_op a)) &&
          appends_ok sc p a (op_appends (a_op a))
        else
          edit_shape (a_op a) &&
          is_ancestor sc (a_id a) (a_id f) &&
          opt_nat_eqb (ctx_group (a_ctx a)) (ctx_group (a_ctx f))
      end
    end
  end.
Proof. reflexivity. Qed.

Lemma defaults_ok_ren (tbl : list (ishape * ty * bool)) (t : otype) (d : nat * ishape) :
  defaults_ok tbl (ren_otype rho t) d = defaults_ok tbl t d.
Proof.
  unfold defaults_ok. rewrite find_attr_ren.
  destruct (find_attr t (fst d)) as [at_|]; cbn [option_map]; [|reflexivity].
  cbn [ren_attr at_kind]. destruct (at_kind at_); reflexivity.
Qed.

(* the promise is looked up without a kind test: invariant together with the [ref_ok] conjunct *)
Lemma edge_ok_ren (t : otype) (a : action) (e : nat * ref) :
  edge_ok s' (ren_otype rho t) (ren_action rho a) (ren_edge rho e) = edge_ok s t a e.
Proof.
  unfold edge_ok. cbn [ren_edge fst snd]. rewrite find_attr_ren.
  destruct (find_attr t (fst e)) as [at_|]; cbn [option_map]; [|reflexivity].
  cbn [ren_attr at_kind]. destruct (at_kind at_) as [ft|tgt|tgt]; cbn [ren_akind]; try reflexivity.
  apply andb_congr; [apply ref_ok_ren|]. intros H.
  rewrite (ren_ref_id _ _ (ref_ok_kind _ _ H)), find_promise_ren.
  destruct (find_promise s (r_id (snd e))) as [q|]; cbn [option_map]; [|reflexivity].
  cbn [ren_promise pr_type pr_id]. rewrite ref_eqb_ren, fulfiller_ren. f_equal.
  destruct (fulfiller s (pr_id q)) as [fq|]; cbn [option_map]; [|reflexivity].
  cbn [ren_action a_id]. apply is_ancestor_ren.
Qed.

Lemma appends_ok_ren (p : nat) (a : action) (ap : option (ref * list nat)) :
  appends_ok s' (rP p) (ren_action rho a) (ren_appends rho ap) = appends_ok s p a ap.
Proof.
  destruct ap as [[q path]|]; [|reflexivity]. cbn [ren_appends appends_ok].
  rewrite ref_ok_ren. destruct (ref_ok s RPromise q) eqn:H; [|reflexivity].
  pose proof (ref_ok_kind _ _ H) as K. rewrite !(ren_ref_id q _ K). cbn [andb].
  f_equal; [f_equal; [f_equal; [f_equal|]|]|].
  - rewrite fulfiller_ren. destruct (fulfiller s (r_id q)) as [fq|]; cbn [option_map]; [|reflexivity].
    cbn [ren_action a_id]. apply guaranteed_ancestor_ren.
  - cbn [ren_action a_ctx]. rewrite ctx_group_ren, promise_path_type_ren.
    destruct (promise_path_type s (ctx_group (a_ctx a)) (r_id q) path) as [| |td]; try reflexivity.
    cbn [ren_tres]. cbn [ren_tdet td_list td_item td_obj]. f_equal. rewrite find_promise_ren.
    destruct (td_obj td) as [tr|]; cbn [ren_oref option_map]; [|reflexivity].
    destruct (find_promise s p) as [pr|]; cbn [option_map]; [|reflexivity].
    cbn [ren_promise pr_type]. apply ref_eqb_ren.
  - rewrite settable_ren. reflexivity.
  - cbn [ren_action a_id]. rewrite is_dependee_ren. reflexivity.
  - rewrite promise_context_ren. cbn [ren_action a_ctx]. rewrite ctx_group_ren.
    destruct (promise_context s (r_id q)) as [qc|]; cbn [option_map].
    + apply (opt_nat_eqb_map rG (rho_inj RGroup)).
    + apply (opt_nat_eqb_map rG (rho_inj RGroup) _ None).
Qed.

Lemma edit_shape_ren (op : operation) : edit_shape (ren_operation rho op) = edit_shape op.
Proof.
  unfold edit_shape. cbn [ren_operation op_defaults op_edges op_appends].
  destruct (op_defaults op); [|reflexivity]. destruct (op_edges op); [|reflexivity].
  destruct (op_appends op) as [[q path]|]; reflexivity.
Qed.

Lemma action_op_ok_ren (tbl : list (ishape * ty * bool)) (a : action) :
  action_op_ok tbl s' (ren_action rho a) = action_op_ok tbl s a.
Proof.
  rewrite !action_op_ok_unfold, promise_of_ren.
  destruct (promise_of a) as [p|]; cbn [option_map]; [|reflexivity].
  rewrite type_of_promise_ren. destruct (type_of_promise s p) as [t|]; cbn [option_map]; [|reflexivity].
  rewrite attr_names_ren, fulfiller_ren. f_equal.
  destruct (fulfiller s p) as [f|]; cbn [option_map]; [|reflexivity].
  change (a_id (ren_action rho f)) with (rA (a_id f)). change (a_id (ren_action rho a)) with (rA (a_id a)).
  rewrite (eqb_inj rA (rho_inj RAction)). destruct (Nat.eqb (a_id f) (a_id a)).
  - f_equal; [f_equal|].
    + apply forallb_ext_in. intros d _. apply defaults_ok_ren.
    + change (op_edges (a_op (ren_action rho a))) with (map (ren_edge rho) (op_edges (a_op a))).
      apply forallb_map_ext. intros e _. apply edge_ok_ren.
    + apply appends_ok_ren.
  - f_equal; [f_equal|].
    + apply edit_shape_ren.
    + apply is_ancestor_ren.
    + change (a_ctx (ren_action rho a)) with (ren_oref rho (a_ctx a)).
      change (a_ctx (ren_action rho f)) with (ren_oref rho (a_ctx f)).
      rewrite !ctx_group_ren. apply (opt_nat_eqb_map rG (rho_inj RGroup)).
Qed.

Lemma action_ok_ren (tbl : list (ishape * ty * bool)) (a : action) :
  action_ok tbl s' (ren_action rho a) = action_ok tbl s a.
Proof.
  unfold action_ok. apply andb_congr; [apply andb_congr|].
  - cbn [ren_action a_party a_promise a_ctx a_dep]. rewrite !ref_ok_ren, !oref_ok_ren. reflexivity.
  - intros H. rewrite !andb_true_iff in H. destruct H as [_ H].
    cbn [ren_action a_ctx a_dep]. rewrite ctx_group_ren. apply depends_scope_ok_ren. exact H.
  - intros _. apply action_op_ok_ren.
Qed.

(* ------------------------------------------------------------------ thread groups *)
Lemma group_used_ren (g : nat) : group_used s' (rG g) = group_used s g.
Proof.
  unfold group_used. cbn [renumber actions groups]. f_equal; apply existsb_map_ext; intros x _.
  - cbn [ren_action a_ctx]. rewrite ctx_group_ren. apply (opt_nat_eqb_map rG (rho_inj RGroup) _ (Some g)).
  - cbn [ren_group g_ctx]. rewrite ctx_group_ren. apply (opt_nat_eqb_map rG (rho_inj RGroup) _ (Some g)).
Qed.

Definition src_ok (sc : schema) (g : tgroup) : bool :=
  match g_src g with
  | SpPromise p _ =>
    ref_ok sc RPromise p &&
    match fulfiller sc (r_id p) with
    | Some f => mem_nat (a_id f) (group_ancestors sc (g_id g))
    | None => false end
  | SpVar _ _ => true
  end.

Definition var_unique (sc : schema) (g : tgroup) : bool :=
  match scope sc (g_id g) with
  | Some l => negb (existsb (fun g' => negb (Nat.eqb g' (g_id g)) &&
                                       match find_group sc g' with
                                       | Some h => Nat.eqb (g_var h) (g_var g)
                                       | None => false end) l)
  | None => false
  end.

Lemma group_ok_unfold (sc : schema) (g : tgroup) :
  group_ok sc g =
  oref_ok sc RGroup (g_ctx g) &&
  oref_ok sc RCheckpoint (g_dep g) &&
  isSome (scope sc (g_id g)) &&
  depends_scope_ok sc (ctx_group (g_ctx g)) (g_dep g) &&
  group_used sc (g_id g) &&
  src_ok sc g &&
  match var_type sc (fuel_of sc) (g_id g) with TOk _ => true | _ => false end &&
  var_unique sc g.
Proof. reflexivity. Qed.

(* the promise is looked up without a kind test: invariant together with the [ref_ok] conjunct *)
Lemma src_ok_ren (g : tgroup) : src_ok s' (ren_group rho g) = src_ok s g.
Proof.
  unfold src_ok. cbn [ren_group g_src g_id]. destruct (g_src g) as [p path|g' path]; cbn [ren_src]; [|reflexivity].
  apply andb_congr; [apply ref_ok_ren|]. intros H.
  rewrite (ren_ref_id p _ (ref_ok_kind _ _ H)), fulfiller_ren.
  destruct (fulfiller s (r_id p)) as [f|]; cbn [option_map]; [|reflexivity].
  cbn [ren_action a_id]. rewrite group_ancestors_ren. apply mem_nat_map, rho_inj.
Qed.

Lemma var_unique_ren (g : tgroup) : var_unique s' (ren_group rho g) = var_unique s g.
Proof.
  unfold var_unique. cbn [ren_group g_id g_var]. rewrite scope_ren.
  destruct (scope s (g_id g)) as [l|]; cbn [option_map]; [|reflexivity].
  f_equal. apply existsb_map_ext. intros g' _.
  rewrite (eqb_inj rG (rho_inj RGroup)), find_group_ren. f_equal.
  destruct (find_group s g') as [h|]; reflexivity.
Qed.

Lemma group_ok_ren (g : tgroup) : group_ok s' (ren_group rho g) = group_ok s g.
Proof.
  rewrite !group_ok_unfold.
  apply andb_congr; [apply andb_congr; [apply andb_congr; [apply andb_congr; [apply andb_congr|]|]|]|].
  - cbn [ren_group g_ctx g_dep g_id]. rewrite !oref_ok_ren, scope_ren, isSome_map. reflexivity.
  - intros H. rewrite !andb_true_iff in H. destruct H as [[_ H] _].
    cbn [ren_group g_ctx g_dep]. rewrite ctx_group_ren. apply depends_scope_ok_ren. exact H.
  - intros _. cbn [ren_group g_id]. apply group_used_ren.
  - intros _. apply src_ok_ren.
  - intros _. cbn [ren_group g_id]. rewrite fuel_of_ren, var_type_ren.
    destruct (var_type s (fuel_of s) (g_id g)) as [| |td]; reflexivity.
  - intros _. apply var_unique_ren.
Qed.

(* ------------------------------------------------------------------ object types, promises *)
Lemma attr_ok_ren (a : attr) : attr_ok s' (ren_attr rho a) = attr_ok s a.
Proof.
  unfold attr_ok. cbn [ren_attr at_kind].
  destruct (at_kind a) as [t|tgt|tgt]; cbn [ren_akind]; [reflexivity | apply ref_ok_ren | apply ref_ok_ren].
Qed.

Lemma otype_ok_ren (t : otype) : otype_ok s' (ren_otype rho t) = otype_ok s t.
Proof.
  unfold otype_ok. rewrite attr_names_ren. cbn [ren_otype ot_attrs]. rewrite map_length. f_equal.
  apply forallb_map_ext. intros a _. apply attr_ok_ren.
Qed.

Lemma promise_refs_ok_ren (p : promise) : promise_refs_ok s' (ren_promise rho p) = promise_refs_ok s p.
Proof. unfold promise_refs_ok. cbn [ren_promise pr_type pr_ctx]. rewrite ref_ok_ren, oref_ok_ren. reflexivity. Qed.

(* ------------------------------------------------------------------ uniqueness of identifiers *)
Lemma ids_party (l : list party) : nodup_nat (map pa_id (map (ren_party rho) l)) = nodup_nat (map pa_id l).
Proof. rewrite map_map. cbn [ren_party pa_id]. rewrite <- (map_map pa_id rPa). apply nodup_nat_map, rho_inj. Qed.
Lemma ids_otype (l : list otype) : nodup_nat (map ot_id (map (ren_otype rho) l)) = nodup_nat (map ot_id l).
Proof. rewrite map_map. cbn [ren_otype ot_id]. rewrite <- (map_map ot_id rT). apply nodup_nat_map, rho_inj. Qed.
Lemma ids_promise (l : list promise) : nodup_nat (map pr_id (map (ren_promise rho) l)) = nodup_nat (map pr_id l).
Proof. rewrite map_map. cbn [ren_promise pr_id]. rewrite <- (map_map pr_id rP). apply nodup_nat_map, rho_inj. Qed.
Lemma ids_action (l : list action) : nodup_nat (map a_id (map (ren_action rho) l)) = nodup_nat (map a_id l).
Proof. rewrite map_map. cbn [ren_action a_id]. rewrite <- (map_map a_id rA). apply nodup_nat_map, rho_inj. Qed.
Lemma ids_checkpoint (l : list checkpoint) : nodup_nat (map cp_id (map (ren_checkpoint rho) l)) = nodup_nat (map cp_id l).
Proof. rewrite map_map. cbn [ren_checkpoint cp_id]. rewrite <- (map_map cp_id rC). apply nodup_nat_map, rho_inj. Qed.
Lemma ids_group (l : list tgroup) : nodup_nat (map g_id (map (ren_group rho) l)) = nodup_nat (map g_id l).
Proof. rewrite map_map. cbn [ren_group g_id]. rewrite <- (map_map g_id rG). apply nodup_nat_map, rho_inj. Qed.

Lemma names_party (l : list party) : map pa_name (map (ren_party rho) l) = map pa_name l.
Proof. rewrite map_map. reflexivity. Qed.
Lemma names_otype (l : list otype) : map ot_name (map (ren_otype rho) l) = map ot_name l.
Proof. rewrite map_map. reflexivity. Qed.
Lemma names_promise (l : list promise) : map pr_name (map (ren_promise rho) l) = map pr_name l.
Proof. rewrite map_map. reflexivity. Qed.
Lemma names_action (l : list action) : map a_name (map (ren_action rho) l) = map a_name l.
Proof. rewrite map_map. reflexivity. Qed.
Lemma names_checkpoint (l : list checkpoint) : map cp_alias (map (ren_checkpoint rho) l) = map cp_alias l.
Proof. rewrite map_map. reflexivity. Qed.
Lemma names_group (l : list tgroup) : map g_name (map (ren_group rho) l) = map g_name l.
Proof. rewrite map_map. reflexivity. Qed.
Lemma milestones_ren (l : list action) : flat_map a_milestones (map (ren_action rho) l) = flat_map a_milestones l.
Proof. apply flat_map_map_same. intros a _. reflexivity. Qed.
Lemma composite_ren (l : list checkpoint) :
  nodup_by composite_eqb (map (ren_checkpoint rho) l) = nodup_by composite_eqb l.
Proof. apply nodup_by_map, composite_eqb_ren. Qed.

Lemma unique_ids_ren : unique_ids s' = unique_ids s.
Proof.
  unfold unique_ids. cbn [renumber parties otypes promises actions checkpoints groups].
  rewrite ids_party, ids_otype, ids_promise, ids_action, ids_checkpoint, ids_group.
  rewrite names_party, names_otype, names_promise, names_action, names_checkpoint, names_group.
  rewrite milestones_ren, composite_ren. reflexivity.
Qed.

(* ------------------------------------------------------------------ the verdict *)
Lemma conforms_with_ren (cmp : ty -> cop -> ty -> bool) (tbl : list (ishape * ty * bool)) :
  conforms_with cmp tbl s' = conforms_with cmp tbl s.
Proof.
  unfold conforms_with. rewrite unique_ids_ren, has_cycle_ren.
  cbn [renumber otypes promises actions checkpoints groups].
  rewrite (forallb_map_ext (otype_ok s') (otype_ok s) (ren_otype rho) (otypes s))
    by (intros t _; apply otype_ok_ren).
  rewrite (forallb_map_ext (fun p => promise_refs_ok s' p && promise_ok s' p)
                           (fun p => promise_refs_ok s p && promise_ok s p) (ren_promise rho) (promises s))
    by (intros p _; rewrite promise_refs_ok_ren, promise_ok_ren; reflexivity).
  rewrite (forallb_map_ext (action_ok tbl s') (action_ok tbl s) (ren_action rho) (actions s))
    by (intros a _; apply action_ok_ren).
  rewrite (forallb_map_ext (checkpoint_ok cmp s') (checkpoint_ok cmp s) (ren_checkpoint rho) (checkpoints s))
    by (intros c _; apply checkpoint_ok_ren).
  rewrite (forallb_map_ext (group_ok s') (group_ok s) (ren_group rho) (groups s))
    by (intros g _; apply group_ok_ren).
  reflexivity.
Qed.

Lemma conforms_ren (tbl : list (ishape * ty * bool)) : conforms tbl s' = conforms tbl s.
Proof. apply conforms_with_ren. Qed.

End Proof.

(* ================================================================== C15, renumbering half *)
Lemma C15_renumber_ids_lemma :
  forall tbl s rho, (forall k, injective (rho k)) -> conforms tbl (renumber rho s) = conforms tbl s.
Proof. intros tbl s rho H. apply conforms_ren. exact H. Qed.

End Renumber.

Print Assumptions Renumber.C15_renumber_ids_lemma.

(* ================================================================== second part: names *)
(* C15, names: the verdict does not depend on how entities, variables and attributes are named.
   [rename_names r s] renames every name of the schema by the injective maps of [r] (attribute names
   consistently at every occurrence) and leaves ids, references, order, tags and gates alone. *)
Module Names.

Definition injective (f : nat -> nat) := forall x y, f x = f y -> x = y.

Record renaming := {
  rn_party : nat -> nat; rn_type : nat -> nat; rn_promise : nat -> nat; rn_action : nat -> nat;
  rn_alias : nat -> nat; rn_group : nat -> nat; rn_var : nat -> nat; rn_attr : nat -> nat
}.

Definition renaming_injective (r : renaming) : Prop :=
  injective (rn_party r) /\ injective (rn_type r) /\ injective (rn_promise r) /\ injective (rn_action r) /\
  injective (rn_alias r) /\ injective (rn_group r) /\ injective (rn_var r) /\ injective (rn_attr r).

Definition ren_party (r : renaming) (p : party) : party :=
  {| pa_id := pa_id p; pa_name := rn_party r (pa_name p) |}.
Definition ren_attr (r : renaming) (a : attr) : attr :=
  {| at_name := rn_attr r (at_name a); at_kind := at_kind a |}.
Definition ren_otype (r : renaming) (t : otype) : otype :=
  {| ot_id := ot_id t; ot_name := rn_type r (ot_name t); ot_attrs := map (ren_attr r) (ot_attrs t) |}.
Definition ren_promise (r : renaming) (p : promise) : promise :=
  {| pr_id := pr_id p; pr_name := rn_promise r (pr_name p); pr_type := pr_type p; pr_ctx := pr_ctx p |}.
Definition ren_path (r : renaming) (p : list nat) : list nat := map (rn_attr r) p.
Definition ren_operand (r : renaming) (o : operand) : operand :=
  match o with
  | OAct a p => OAct a (ren_path r p)
  | OVar g p => OVar g (ren_path r p)
  | OLit l => OLit l
  end.
Definition ren_dep (r : renaming) (d : dep) : dep :=
  match d with
  | DCmp l o rr => DCmp (ren_operand r l) o (ren_operand r rr)
  | DRef c => DRef c
  end.
Definition ren_checkpoint (r : renaming) (c : checkpoint) : checkpoint :=
  {| cp_id := cp_id c; cp_alias := rn_alias r (cp_alias c); cp_gate := cp_gate c;
     cp_deps := map (ren_dep r) (cp_deps c); cp_ctx := cp_ctx c |}.
Definition ren_incl (r : renaming) (i : inclusion) : inclusion :=
  match i with
  | Include (Some l) => Include (Some (ren_path r l))
  | Include None => Include None
  | Exclude (Some l) => Exclude (Some (ren_path r l))
  | Exclude None => Exclude None
  end.
Definition ren_keys (r : renaming) {B} (l : list (nat * B)) : list (nat * B) :=
  map (fun d => (rn_attr r (fst d), snd d)) l.
Definition ren_appends (r : renaming) (o : option (ref * list nat)) : option (ref * list nat) :=
  match o with Some (q, p) => Some (q, ren_path r p) | None => None end.
Definition ren_op (r : renaming) (op : operation) : operation :=
  {| op_incl := ren_incl r (op_incl op); op_defaults := ren_keys r (op_defaults op);
     op_edges := ren_keys r (op_edges op); op_appends := ren_appends r (op_appends op) |}.
Definition ren_action (r : renaming) (a : action) : action :=
  {| a_id := a_id a; a_name := rn_action r (a_name a); a_party := a_party a; a_promise := a_promise a;
     a_ctx := a_ctx a; a_dep := a_dep a; a_op := ren_op r (a_op a); a_milestones := a_milestones a |}.
Definition ren_src (r : renaming) (x : spawn_src) : spawn_src :=
  match x with
  | SpPromise p path => SpPromise p (ren_path r path)
  | SpVar g path => SpVar g (ren_path r path)
  end.
Definition ren_group (r : renaming) (g : tgroup) : tgroup :=
  {| g_id := g_id g; g_name := rn_group r (g_name g); g_ctx := g_ctx g; g_dep := g_dep g;
     g_src := ren_src r (g_src g); g_var := rn_var r (g_var g) |}.

Definition rename_names (r : renaming) (s : schema) : schema :=
  {| parties := map (ren_party r) (parties s);
     otypes := map (ren_otype r) (otypes s);
     promises := map (ren_promise r) (promises s);
     actions := map (ren_action r) (actions s);
     checkpoints := map (ren_checkpoint r) (checkpoints s);
     groups := map (ren_group r) (groups s) |}.

(* ------------------------------------------------------------------ generic list lemmas *)
Lemma andb_congr (a a' b b' : bool) : a = a' -> (a = true -> b = b') -> a && b = a' && b'.
Proof. intros <- H. destruct a; [rewrite H; reflexivity | reflexivity]. Qed.

Lemma find_map {A B} (g : A -> B) (p : B -> bool) l :
  find p (map g l) = option_map g (find (fun x => p (g x)) l).
Proof. induction l as [|a l IH]; simpl; [reflexivity|]. destruct (p (g a)); [reflexivity|exact IH]. Qed.

Lemma find_ext' {A} (p q : A -> bool) l : (forall x, p x = q x) -> find p l = find q l.
Proof. intros H; induction l as [|a l IH]; simpl; [reflexivity|]. rewrite H, IH. reflexivity. Qed.

Lemma forallb_map' {A B} (p : B -> bool) (g : A -> B) l : forallb p (map g l) = forallb (fun x => p (g x)) l.
Proof. induction l as [|a l IH]; simpl; [reflexivity|]. rewrite IH. reflexivity. Qed.

Lemma existsb_map' {A B} (p : B -> bool) (g : A -> B) l : existsb p (map g l) = existsb (fun x => p (g x)) l.
Proof. induction l as [|a l IH]; simpl; [reflexivity|]. rewrite IH. reflexivity. Qed.

Lemma forallb_ext_in' {A} (p q : A -> bool) l : (forall x, In x l -> p x = q x) -> forallb p l = forallb q l.
Proof.
  induction l as [|a l IH]; simpl; intros H; [reflexivity|].
  rewrite (H a (or_introl eq_refl)), IH; [reflexivity|]. intros x Hx. apply H. right. exact Hx.
Qed.

Lemma forallb_ext' {A} (p q : A -> bool) l : (forall x, p x = q x) -> forallb p l = forallb q l.
Proof. intros H. apply forallb_ext_in'. intros x _. apply H. Qed.

Lemma existsb_ext' {A} (p q : A -> bool) l : (forall x, p x = q x) -> existsb p l = existsb q l.
Proof. intros H; induction l as [|a l IH]; simpl; [reflexivity|]. rewrite H, IH. reflexivity. Qed.

Lemma filter_ext' {A} (p q : A -> bool) l : (forall x, p x = q x) -> filter p l = filter q l.
Proof. intros H; induction l as [|a l IH]; simpl; [reflexivity|]. rewrite H, IH. reflexivity. Qed.

Lemma filter_map_comm {A B} (p : B -> bool) (g : A -> B) l :
  filter p (map g l) = map g (filter (fun x => p (g x)) l).
Proof. induction l as [|a l IH]; simpl; [reflexivity|]. destruct (p (g a)); simpl; rewrite IH; reflexivity. Qed.

Lemma flat_map_map' {A B C} (h : B -> list C) (g : A -> B) l :
  flat_map h (map g l) = flat_map (fun x => h (g x)) l.
Proof. induction l as [|a l IH]; simpl; [reflexivity|]. rewrite IH. reflexivity. Qed.

Lemma flat_map_ext' {A B} (h k : A -> list B) l : (forall x, h x = k x) -> flat_map h l = flat_map k l.
Proof. intros H; induction l as [|a l IH]; simpl; [reflexivity|]. rewrite H, IH. reflexivity. Qed.

Lemma map_flat_map' {A B C} (g : B -> C) (h : A -> list B) l :
  map g (flat_map h l) = flat_map (fun x => map g (h x)) l.
Proof. induction l as [|a l IH]; simpl; [reflexivity|]. rewrite map_app, IH. reflexivity. Qed.

Lemma eqb_inj (f : nat -> nat) : injective f -> forall a b, Nat.eqb (f a) (f b) = Nat.eqb a b.
Proof.
  intros Hf a b. destruct (Nat.eqb a b) eqn:E.
  - apply Nat.eqb_eq in E. subst. apply Nat.eqb_refl.
  - apply Nat.eqb_neq. intros H. apply Hf in H. apply Nat.eqb_neq in E. contradiction.
Qed.

Lemma mem_nat_map (f : nat -> nat) : injective f -> forall a l, mem_nat (f a) (map f l) = mem_nat a l.
Proof.
  intros Hf a l. unfold mem_nat. rewrite existsb_map'. apply existsb_ext'. intros x. apply eqb_inj. exact Hf.
Qed.

Lemma nodup_nat_map (f : nat -> nat) : injective f -> forall l, nodup_nat (map f l) = nodup_nat l.
Proof.
  intros Hf l. induction l as [|a l IH]; [reflexivity|].
  cbn [map nodup_nat]. rewrite (mem_nat_map f Hf), IH. reflexivity.
Qed.

Lemma nodup_nat_names {A} (g : A -> A) (nm : A -> nat) (rn : nat -> nat) l :
  injective rn -> (forall x, nm (g x) = rn (nm x)) -> nodup_nat (map nm (map g l)) = nodup_nat (map nm l).
Proof.
  intros Hrn H. rewrite map_map. rewrite (map_ext _ (fun x => rn (nm x)) H).
  rewrite <- (map_map nm rn). apply nodup_nat_map. exact Hrn.
Qed.

Lemma map_ids {A} (g : A -> A) (idf : A -> nat) l : (forall x, idf (g x) = idf x) -> map idf (map g l) = map idf l.
Proof. intros H. rewrite map_map. apply map_ext. exact H. Qed.

Lemma last_map_cons (f : nat -> nat) a l d : last (map f (a :: l)) d = f (last (a :: l) d).
Proof.
  revert a. induction l as [|b l IH]; intro a; [reflexivity|].
  change (last (map f (a :: b :: l)) d) with (last (map f (b :: l)) d).
  change (last (a :: b :: l) d) with (last (b :: l) d). apply IH.
Qed.

Local Arguments fuel_of : simpl never.
Local Arguments find_type : simpl never.
Local Arguments find_promise : simpl never.
Local Arguments find_action : simpl never.
Local Arguments find_checkpoint : simpl never.
Local Arguments find_group : simpl never.
Local Arguments find_party : simpl never.
Local Arguments find_attr : simpl never.
Local Arguments denotes : simpl never.
Local Arguments ref_ok : simpl never.
Local Arguments oref_ok : simpl never.
Local Arguments scope : simpl never.
Local Arguments has_access : simpl never.
Local Arguments ctx_sees : simpl never.
Local Arguments ctx_group : simpl never.
Local Arguments group_cps : simpl never.
Local Arguments action_cps : simpl never.
Local Arguments succ : simpl never.
Local Arguments ancestors : simpl never.
Local Arguments is_ancestor : simpl never.
Local Arguments group_ancestors : simpl never.
Local Arguments guaranteed_ancestor : simpl never.
Local Arguments promise_of : simpl never.
Local Arguments actions_on : simpl never.
Local Arguments creators : simpl never.
Local Arguments fulfiller : simpl never.
Local Arguments promise_context : simpl never.
Local Arguments promise_path_type : simpl never.
Local Arguments resolve_path : simpl never.
Local Arguments find_type_ref : simpl never.
Local Arguments operand_type : simpl never.
Local Arguments type_of_promise : simpl never.
Local Arguments settable : simpl never.
Local Arguments settable_by : simpl never.
Local Arguments attr_names : simpl never.
Local Arguments is_dependee : simpl never.
Local Arguments mem_nat : simpl never.
Local Arguments list_nat_eqb : simpl never.
Local Arguments rename_names : simpl never.
Local Arguments depends_scope_ok : simpl never.
Local Arguments group_used : simpl never.
Local Arguments cp_referenced : simpl never.
Local Arguments default_fits : simpl never.

Ltac prj := cbn [option_map ren_party ren_attr ren_otype ren_promise ren_checkpoint ren_op ren_action ren_group
  ren_dep ren_operand ren_src ren_incl ren_appends
  pa_id pa_name at_name at_kind ot_id ot_name ot_attrs pr_id pr_name pr_type pr_ctx
  cp_id cp_alias cp_gate cp_deps cp_ctx op_incl op_defaults op_edges op_appends
  a_id a_name a_party a_promise a_ctx a_dep a_op a_milestones g_id g_name g_ctx g_dep g_src g_var fst snd].

Section Ren.
Variable r : renaming.
Hypothesis Hinj : renaming_injective r.
Variable s : schema.
Notation s' := (rename_names r s).
Notation fa := (rn_attr r).

Lemma Hfa : injective (rn_attr r).
Proof. apply Hinj. Qed.

Lemma parties_ren : parties s' = map (ren_party r) (parties s). Proof. reflexivity. Qed.
Lemma otypes_ren : otypes s' = map (ren_otype r) (otypes s). Proof. reflexivity. Qed.
Lemma promises_ren : promises s' = map (ren_promise r) (promises s). Proof. reflexivity. Qed.
Lemma actions_ren : actions s' = map (ren_action r) (actions s). Proof. reflexivity. Qed.
Lemma checkpoints_ren : checkpoints s' = map (ren_checkpoint r) (checkpoints s). Proof. reflexivity. Qed.
Lemma groups_ren : groups s' = map (ren_group r) (groups s). Proof. reflexivity. Qed.

Lemma fuel_of_ren : fuel_of s' = fuel_of s.
Proof. unfold fuel_of. rewrite actions_ren, checkpoints_ren, groups_ren, !map_length. reflexivity. Qed.

(* ------------------------------------------------------------------ lookups *)
Lemma find_party_ren i : find_party s' i = option_map (ren_party r) (find_party s i).
Proof. unfold find_party. rewrite parties_ren, find_map. reflexivity. Qed.
Lemma find_type_ren i : find_type s' i = option_map (ren_otype r) (find_type s i).
Proof. unfold find_type. rewrite otypes_ren, find_map. reflexivity. Qed.
Lemma find_promise_ren i : find_promise s' i = option_map (ren_promise r) (find_promise s i).
Proof. unfold find_promise. rewrite promises_ren, find_map. reflexivity. Qed.
Lemma find_action_ren i : find_action s' i = option_map (ren_action r) (find_action s i).
Proof. unfold find_action. rewrite actions_ren, find_map. reflexivity. Qed.
Lemma find_checkpoint_ren i : find_checkpoint s' i = option_map (ren_checkpoint r) (find_checkpoint s i).
Proof. unfold find_checkpoint. rewrite checkpoints_ren, find_map. reflexivity. Qed.
Lemma find_group_ren i : find_group s' i = option_map (ren_group r) (find_group s i).
Proof. unfold find_group. rewrite groups_ren, find_map. reflexivity. Qed.

Lemma find_attr_ren t n : find_attr (ren_otype r t) (fa n) = option_map (ren_attr r) (find_attr t n).
Proof.
  unfold find_attr. simpl. rewrite find_map. f_equal. apply find_ext'. intros x. simpl.
  apply eqb_inj. exact Hfa.
Qed.

Lemma denotes_ren rf : denotes s' rf = denotes s rf.
Proof.
  unfold denotes. destruct (r_kind rf).
  - rewrite find_party_ren. destruct (find_party s (r_id rf)); reflexivity.
  - rewrite find_type_ren. destruct (find_type s (r_id rf)); reflexivity.
  - rewrite find_promise_ren. destruct (find_promise s (r_id rf)); reflexivity.
  - rewrite find_action_ren. destruct (find_action s (r_id rf)); reflexivity.
  - rewrite find_checkpoint_ren. destruct (find_checkpoint s (r_id rf)); reflexivity.
  - rewrite find_group_ren. destruct (find_group s (r_id rf)); reflexivity.
Qed.

Lemma ref_ok_ren k rf : ref_ok s' k rf = ref_ok s k rf.
Proof. unfold ref_ok. rewrite denotes_ren. reflexivity. Qed.
Lemma oref_ok_ren k o : oref_ok s' k o = oref_ok s k o.
Proof. unfold oref_ok. destruct o; [apply ref_ok_ren|reflexivity]. Qed.

(* ------------------------------------------------------------------ scopes *)
Lemma chain_ren fuel : forall g, chain s' fuel g = chain s fuel g.
Proof.
  induction fuel as [|fuel IH]; intro g; [reflexivity|].
  cbn [chain]. rewrite find_group_ren. destruct (find_group s g) as [tg|]; [|reflexivity].
  prj. destruct (g_ctx tg) as [rf|]; [|reflexivity]. rewrite IH. reflexivity.
Qed.

Lemma scope_ren g : scope s' g = scope s g.
Proof. unfold scope. rewrite fuel_of_ren. apply chain_ren. Qed.
Lemma has_access_ren g g' : has_access s' g g' = has_access s g g'.
Proof. unfold has_access. rewrite scope_ren. reflexivity. Qed.
Lemma ctx_sees_ren a b : ctx_sees s' a b = ctx_sees s a b.
Proof. unfold ctx_sees. destruct b; [|reflexivity]. destruct a; [apply has_access_ren|reflexivity]. Qed.

Lemma group_cps_ren g : group_cps s' g = group_cps s g.
Proof.
  unfold group_cps. destruct g as [g|]; [|reflexivity]. rewrite scope_ren.
  destruct (scope s g) as [l|]; [|reflexivity]. apply flat_map_ext'. intros g'.
  rewrite find_group_ren. destruct (find_group s g'); reflexivity.
Qed.

Lemma action_cps_ren a : action_cps s' (ren_action r a) = action_cps s a.
Proof. unfold action_cps. prj. rewrite group_cps_ren. reflexivity. Qed.

Lemma operand_action_ren o : operand_action (ren_operand r o) = operand_action o.
Proof. destruct o; reflexivity. Qed.

Lemma mentions_ren fuel : forall c, mentions s' fuel c = mentions s fuel c.
Proof.
  induction fuel as [|fuel IH]; intro c; [reflexivity|].
  cbn [mentions]. rewrite find_checkpoint_ren. destruct (find_checkpoint s c) as [cp|]; [|reflexivity].
  simpl. rewrite flat_map_map'. apply flat_map_ext'. intros [l o rr|c0]; simpl.
  - rewrite !operand_action_ren. reflexivity.
  - rewrite IH. reflexivity.
Qed.

Lemma succ_ren a : succ s' a = succ s a.
Proof.
  unfold succ. rewrite find_action_ren. destruct (find_action s a) as [act|]; [|reflexivity].
  prj. rewrite action_cps_ren, fuel_of_ren. apply flat_map_ext'. intros c. apply mentions_ren.
Qed.

(* ------------------------------------------------------------------ cycle search *)
Lemma explore_ren fuel : forall a v p, explore s' fuel a v p = explore s fuel a v p.
Proof.
  induction fuel as [|fuel IH]; intros a v p; [reflexivity|].
  cbn [explore]. destruct (mem_nat a p); [reflexivity|]. destruct (mem_nat a v); [reflexivity|].
  rewrite succ_ren. generalize (a :: v). generalize (succ s a).
  induction l as [|b l IHl]; intros vis; [reflexivity|].
  rewrite IH. destruct (explore s fuel b vis (a :: p)) as [[|] v0]; [reflexivity|apply IHl].
Qed.

Lemma explore_all_ren roots : forall v, explore_all s' roots v = explore_all s roots v.
Proof.
  induction roots as [|a roots IH]; intro v; [reflexivity|].
  cbn [explore_all]. rewrite actions_ren, map_length, explore_ren.
  destruct (explore s (S (length (actions s))) a v []) as [[|] v0]; [reflexivity|apply IH].
Qed.

Lemma cp_nesting_cyclic_ren fuel : forall st c, cp_nesting_cyclic s' fuel st c = cp_nesting_cyclic s fuel st c.
Proof.
  induction fuel as [|fuel IH]; intros st c; [reflexivity|].
  cbn [cp_nesting_cyclic]. destruct (mem_nat c st); [reflexivity|].
  rewrite find_checkpoint_ren. destruct (find_checkpoint s c) as [cp|]; [|reflexivity].
  simpl. rewrite existsb_map'. apply existsb_ext'. intros [l o rr|c0]; simpl; [reflexivity|].
  rewrite IH. reflexivity.
Qed.

Lemma has_cycle_ren : has_cycle s' = has_cycle s.
Proof.
  unfold has_cycle. f_equal.
  - rewrite actions_ren, (map_ids (ren_action r) a_id) by reflexivity. apply explore_all_ren.
  - rewrite actions_ren, existsb_map'. apply existsb_ext'. intros a.
    rewrite action_cps_ren, checkpoints_ren, map_length. apply existsb_ext'. intros c. apply cp_nesting_cyclic_ren.
Qed.

(* ------------------------------------------------------------------ ancestry *)
Lemma close_ren n : forall acc, close s' n acc = close s n acc.
Proof.
  induction n as [|n IH]; intro acc; [reflexivity|].
  cbn [close]. rewrite IH. rewrite (flat_map_ext' (succ s') (succ s) acc succ_ren). reflexivity.
Qed.

Lemma ancestors_ren a : ancestors s' a = ancestors s a.
Proof. unfold ancestors. rewrite actions_ren, map_length, close_ren, succ_ren. reflexivity. Qed.
Lemma is_ancestor_ren a b : is_ancestor s' a b = is_ancestor s a b.
Proof. unfold is_ancestor. rewrite ancestors_ren. reflexivity. Qed.

Lemma group_ancestors_ren g : group_ancestors s' g = group_ancestors s g.
Proof.
  unfold group_ancestors, group_eff_cps. rewrite actions_ren, map_length, close_ren, group_cps_ren, fuel_of_ren.
  rewrite (flat_map_ext' (mentions s' (fuel_of s)) (mentions s (fuel_of s)) _ (mentions_ren _)). reflexivity.
Qed.

Lemma guar_cp_ren fuel : forall b c, guar_cp s' fuel b c = guar_cp s fuel b c.
Proof.
  induction fuel as [|fuel IH]; intros b c; [reflexivity|].
  cbn [guar_cp]. rewrite find_checkpoint_ren. destruct (find_checkpoint s c) as [cp|]; [|reflexivity].
  simpl. rewrite forallb_map', existsb_map'.
  assert (Hd : forall d,
    match ren_dep r d with
    | DCmp l _ r0 =>
        existsb (fun x => Nat.eqb x b || match find_action s' x with
                                         | Some act => existsb (guar_cp s' fuel b) (action_cps s' act)
                                         | None => false end) (operand_action l ++ operand_action r0)
    | DRef r0 => if rkind_eqb (r_kind r0) RCheckpoint then guar_cp s' fuel b (r_id r0) else false
    end =
    match d with
    | DCmp l _ r0 =>
        existsb (fun x => Nat.eqb x b || match find_action s x with
                                         | Some act => existsb (guar_cp s fuel b) (action_cps s act)
                                         | None => false end) (operand_action l ++ operand_action r0)
    | DRef r0 => if rkind_eqb (r_kind r0) RCheckpoint then guar_cp s fuel b (r_id r0) else false
    end).
  { intros [l o rr|c0]; simpl.
    - rewrite !operand_action_ren. apply existsb_ext'. intros x. f_equal.
      rewrite find_action_ren. destruct (find_action s x) as [act|]; [|reflexivity].
      simpl. rewrite action_cps_ren. apply existsb_ext'. intros y. apply IH.
    - rewrite IH. reflexivity. }
  destruct (cp_gate cp) as [[]|]; first [apply forallb_ext' | apply existsb_ext']; exact Hd.
Qed.

Lemma guaranteed_ancestor_ren a b : guaranteed_ancestor s' (ren_action r a) b = guaranteed_ancestor s a b.
Proof.
  unfold guaranteed_ancestor. rewrite action_cps_ren, actions_ren, checkpoints_ren, !map_length.
  apply existsb_ext'. intros c. apply guar_cp_ren.
Qed.

(* ------------------------------------------------------------------ lifecycle *)
Lemma promise_of_ren a : promise_of (ren_action r a) = promise_of a.
Proof. reflexivity. Qed.

Lemma actions_on_ren p : actions_on s' p = map (ren_action r) (actions_on s p).
Proof. unfold actions_on. rewrite actions_ren, filter_map_comm. reflexivity. Qed.

Lemma creators_ren p : creators s' p = map (ren_action r) (creators s p).
Proof.
  unfold creators. cbv zeta. rewrite actions_on_ren, filter_map_comm. f_equal.
  apply filter_ext'. intros a. f_equal. rewrite existsb_map'. apply existsb_ext'. intros b.
  prj. rewrite is_ancestor_ren. reflexivity.
Qed.

Lemma fulfiller_ren p : fulfiller s' p = option_map (ren_action r) (fulfiller s p).
Proof. unfold fulfiller. rewrite creators_ren. destruct (creators s p); reflexivity. Qed.

Lemma promise_context_ren p : promise_context s' p = promise_context s p.
Proof. unfold promise_context. rewrite fulfiller_ren. destruct (fulfiller s p); reflexivity. Qed.

Lemma promise_ok_ren p : promise_ok s' (ren_promise r p) = promise_ok s p.
Proof.
  unfold promise_ok. prj. rewrite creators_ren. destruct (creators s (pr_id p)) as [|x [|y l]]; reflexivity.
Qed.

Lemma promise_refs_ok_ren p : promise_refs_ok s' (ren_promise r p) = promise_refs_ok s p.
Proof. unfold promise_refs_ok. prj. rewrite ref_ok_ren, oref_ok_ren. reflexivity. Qed.

(* ------------------------------------------------------------------ typing *)
Lemma find_type_ref_ren rf : find_type_ref s' rf = option_map (ren_otype r) (find_type_ref s rf).
Proof. unfold find_type_ref. destruct (rkind_eqb (r_kind rf) RType); [apply find_type_ren|reflexivity]. Qed.

Lemma walk_ren path : forall def td,
  walk s' (option_map (ren_otype r) def) td (ren_path r path) = walk s def td path.
Proof.
  induction path as [|seg rest IH]; intros def td; [reflexivity|].
  unfold ren_path in *. cbn [map walk]. destruct def as [d|]; [|reflexivity].
  cbn [option_map]. rewrite find_attr_ren. destruct (find_attr d seg) as [a|]; [|reflexivity].
  prj. destruct (at_kind a) as [t|tgt|tgt].
  - destruct rest; reflexivity.
  - rewrite find_type_ren, IH. reflexivity.
  - rewrite find_type_ren, IH. reflexivity.
Qed.

Lemma resolve_path_ren tr path : resolve_path s' tr (ren_path r path) = resolve_path s tr path.
Proof.
  unfold resolve_path. rewrite find_type_ref_ren. destruct (find_type_ref s tr) as [d|]; [|reflexivity].
  cbn [option_map]. apply (walk_ren path (Some d)).
Qed.

Lemma promise_path_type_ren from p path :
  promise_path_type s' from p (ren_path r path) = promise_path_type s from p path.
Proof.
  unfold promise_path_type. rewrite find_promise_ren, promise_context_ren.
  destruct (find_promise s p) as [pr|]; [|reflexivity]. prj.
  destruct (promise_context s p) as [pctx|]; [|reflexivity].
  assert (Hm : match pctx with
               | Some g' => negb match from with Some g => has_access s' g g' | None => false end
               | None => false end =
               match pctx with
               | Some g' => negb match from with Some g => has_access s g g' | None => false end
               | None => false end).
  { destruct pctx; [|reflexivity]. destruct from; [|reflexivity]. rewrite has_access_ren. reflexivity. }
  rewrite Hm. destruct path as [|n path]; [reflexivity|].
  change (ren_path r (n :: path)) with (fa n :: ren_path r path) at 1. cbv iota.
  rewrite resolve_path_ren. reflexivity.
Qed.

Lemma var_type_ren fuel : forall g, var_type s' fuel g = var_type s fuel g.
Proof.
  induction fuel as [|fuel IH]; intro g; [reflexivity|].
  cbn [var_type]. rewrite find_group_ren. destruct (find_group s g) as [tg|]; [|reflexivity].
  prj. destruct (g_src tg) as [p path|g' path]; prj.
  - rewrite promise_path_type_ren. reflexivity.
  - rewrite has_access_ren, IH.
    destruct (negb (Nat.eqb g' g) && has_access s g g'); [|reflexivity].
    destruct (var_type s fuel g') as [| |vt]; try reflexivity.
    destruct (td_item vt); destruct (td_obj vt); rewrite ?resolve_path_ren; destruct path; reflexivity.
Qed.

Lemma operand_type_ren cctx o : operand_type s' cctx (ren_operand r o) = operand_type s cctx o.
Proof.
  unfold operand_type. destruct o as [a path|g path|l]; prj; [| |reflexivity].
  - rewrite find_action_ren.
    destruct (if rkind_eqb (r_kind a) RAction then find_action s (r_id a) else None) as [act|] eqn:E.
    + destruct (rkind_eqb (r_kind a) RAction); [|discriminate]. rewrite E. prj.
      rewrite promise_of_ren. destruct (promise_of act); [|reflexivity].
      rewrite promise_path_type_ren. reflexivity.
    + destruct (rkind_eqb (r_kind a) RAction); [|reflexivity]. rewrite E. reflexivity.
  - destruct cctx as [cg|]; [|reflexivity]. rewrite has_access_ren, fuel_of_ren, var_type_ren.
    destruct (has_access s cg g); [|reflexivity].
    destruct (var_type s (fuel_of s) g) as [| |vt]; try reflexivity.
    destruct (td_item vt); destruct (td_obj vt); rewrite ?resolve_path_ren; destruct path; reflexivity.
Qed.

(* ------------------------------------------------------------------ equality of operands, dependencies, composites *)
Lemma list_nat_eqb_ren p q : list_nat_eqb (ren_path r p) (ren_path r q) = list_nat_eqb p q.
Proof.
  unfold list_nat_eqb, ren_path. rewrite !map_length. f_equal.
  revert q. induction p as [|a p IH]; intros [|b q]; try reflexivity.
  cbn [map combine forallb fst snd]. rewrite (eqb_inj _ Hfa), IH. reflexivity.
Qed.

Lemma operand_eqb_ren a b : operand_eqb (ren_operand r a) (ren_operand r b) = operand_eqb a b.
Proof.
  destruct a, b; try reflexivity; cbn [ren_operand operand_eqb]; rewrite list_nat_eqb_ren; reflexivity.
Qed.

Lemma is_lit_ren o : is_lit (ren_operand r o) = is_lit o.
Proof. destruct o; reflexivity. Qed.

Lemma dep_eqb_ren a b : dep_eqb (ren_dep r a) (ren_dep r b) = dep_eqb a b.
Proof.
  destruct a, b; try reflexivity. cbn [ren_dep dep_eqb]. rewrite !operand_eqb_ren. reflexivity.
Qed.

Lemma remove_first_ren d l :
  remove_first (ren_dep r d) (map (ren_dep r) l) = option_map (map (ren_dep r)) (remove_first d l).
Proof.
  induction l as [|x l IH]; [reflexivity|].
  cbn [map remove_first]. rewrite dep_eqb_ren, IH. destruct (dep_eqb d x); [reflexivity|].
  destruct (remove_first d l); reflexivity.
Qed.

Lemma msub_ren a : forall b, msub (map (ren_dep r) a) (map (ren_dep r) b) = msub a b.
Proof.
  induction a as [|x a IH]; intro b; [reflexivity|].
  cbn [map msub]. rewrite remove_first_ren. destruct (remove_first x b) as [b'|]; [|reflexivity].
  cbn [option_map]. apply IH.
Qed.

Lemma composite_eqb_ren a b : composite_eqb (ren_checkpoint r a) (ren_checkpoint r b) = composite_eqb a b.
Proof.
  unfold composite_eqb, deps_same. prj. rewrite !map_length, msub_ren. reflexivity.
Qed.

Lemma nodup_by_composite_ren l :
  nodup_by composite_eqb (map (ren_checkpoint r) l) = nodup_by composite_eqb l.
Proof.
  induction l as [|x l IH]; [reflexivity|].
  cbn [map nodup_by]. rewrite IH, existsb_map'. f_equal. f_equal. apply existsb_ext'. intros y.
  apply composite_eqb_ren.
Qed.

(* ------------------------------------------------------------------ checkpoints *)
Lemma comparison_ok_ren cmp cctx l o rr :
  comparison_ok cmp s' cctx (ren_operand r l) o (ren_operand r rr) = comparison_ok cmp s cctx l o rr.
Proof. unfold comparison_ok. rewrite !is_lit_ren, operand_eqb_ren, !operand_type_ren. reflexivity. Qed.

Lemma operand_refs_ok_ren o : operand_refs_ok s' (ren_operand r o) = operand_refs_ok s o.
Proof. destruct o; try reflexivity. apply ref_ok_ren. Qed.

Lemma operand_scope_ok_ren cctx o : operand_scope_ok s' cctx (ren_operand r o) = operand_scope_ok s cctx o.
Proof.
  destruct o as [a p|g p|l]; try reflexivity. cbn [ren_operand operand_scope_ok].
  rewrite find_action_ren. destruct (find_action s (r_id a)); [|reflexivity]. prj. apply ctx_sees_ren.
Qed.

Lemma dep_ok_ren cmp cp d : dep_ok cmp s' (ren_checkpoint r cp) (ren_dep r d) = dep_ok cmp s cp d.
Proof.
  unfold dep_ok. cbv zeta. prj. destruct d as [l o rr|c]; prj.
  - rewrite !operand_refs_ok_ren, comparison_ok_ren, !operand_scope_ok_ren. reflexivity.
  - rewrite ref_ok_ren, find_checkpoint_ren. destruct (find_checkpoint s (r_id c)); [|reflexivity].
    prj. rewrite ctx_sees_ren. reflexivity.
Qed.

Lemma cp_referenced_ren c : cp_referenced s' c = cp_referenced s c.
Proof.
  unfold cp_referenced. rewrite actions_ren, groups_ren, checkpoints_ren, !existsb_map'.
  f_equal. apply existsb_ext'. intros cp. prj. rewrite existsb_map'. apply existsb_ext'.
  intros [l o rr|c0]; reflexivity.
Qed.

Lemma gate_shape_ok_ren cp : gate_shape_ok (ren_checkpoint r cp) = gate_shape_ok cp.
Proof.
  unfold gate_shape_ok. prj. destruct (cp_deps cp) as [|[l o rr|c] [|d2 l2]]; reflexivity.
Qed.

Lemma checkpoint_ok_ren cmp cp : checkpoint_ok cmp s' (ren_checkpoint r cp) = checkpoint_ok cmp s cp.
Proof.
  unfold checkpoint_ok. rewrite gate_shape_ok_ren. prj. rewrite oref_ok_ren, cp_referenced_ren, forallb_map'.
  f_equal. f_equal. apply forallb_ext'. intros d. apply dep_ok_ren.
Qed.

Lemma depends_scope_ok_ren h d : depends_scope_ok s' h d = depends_scope_ok s h d.
Proof.
  unfold depends_scope_ok. destruct d as [rf|]; [|reflexivity]. rewrite find_checkpoint_ren.
  destruct (find_checkpoint s (r_id rf)); [|reflexivity]. prj. apply ctx_sees_ren.
Qed.

(* ------------------------------------------------------------------ operations *)
Lemma type_of_promise_ren p : type_of_promise s' p = option_map (ren_otype r) (type_of_promise s p).
Proof.
  unfold type_of_promise. rewrite find_promise_ren. destruct (find_promise s p) as [pr|]; [|reflexivity].
  prj. apply find_type_ref_ren.
Qed.

Lemma attr_names_ren t : attr_names (ren_otype r t) = map fa (attr_names t).
Proof. unfold attr_names. prj. rewrite !map_map. reflexivity. Qed.

Lemma incl_list_ren i : incl_list (ren_incl r i) = map fa (incl_list i).
Proof. destruct i as [[l|]|[l|]]; reflexivity. Qed.

Lemma keys_ren {B} (l : list (nat * B)) : map fst (ren_keys r l) = map fa (map fst l).
Proof. unfold ren_keys. rewrite !map_map. reflexivity. Qed.

Lemma mem_attr_names_ren t n : mem_nat (fa n) (attr_names (ren_otype r t)) = mem_nat n (attr_names t).
Proof. rewrite attr_names_ren. apply mem_nat_map. exact Hfa. Qed.

Lemma settable_by_ren t op : settable_by (ren_otype r t) (ren_op r op) = map fa (settable_by t op).
Proof.
  unfold settable_by. prj. rewrite !map_app, !keys_ren, !filter_map_comm. f_equal; [|f_equal].
  - destruct (op_incl op) as [[l|]|[l|]]; cbn [ren_incl].
    + unfold ren_path. rewrite filter_map_comm. f_equal. apply filter_ext'. intros n. apply mem_attr_names_ren.
    + reflexivity.
    + rewrite attr_names_ren, filter_map_comm. f_equal. apply filter_ext'. intros n.
      unfold ren_path. rewrite (mem_nat_map _ Hfa). reflexivity.
    + apply attr_names_ren.
  - do 2 f_equal. apply filter_ext'. intros n. apply mem_attr_names_ren.
  - do 2 f_equal. apply filter_ext'. intros n. rewrite find_attr_ren. destruct (find_attr t (fst n)); reflexivity.
Qed.

Lemma settable_ren p : settable s' p = map fa (settable s p).
Proof.
  unfold settable. rewrite type_of_promise_ren. destruct (type_of_promise s p) as [t|]; [|reflexivity].
  cbn [option_map]. rewrite actions_on_ren, flat_map_map', map_flat_map'. apply flat_map_ext'. intros a.
  prj. apply settable_by_ren.
Qed.

Lemma is_dependee_ren a : is_dependee s' a = is_dependee s a.
Proof.
  unfold is_dependee. rewrite checkpoints_ren, existsb_map'. apply existsb_ext'. intros cp.
  prj. rewrite existsb_map'. apply existsb_ext'. intros [l o rr|c]; [|reflexivity].
  cbn [ren_dep]. rewrite !operand_action_ren. reflexivity.
Qed.

(* The one place where renaming is not transparent: for an EMPTY appends path the rule looks up the
   attribute name [last [] 0 = 0], which is not renamed.  [corner_excl a q] says that for such a path the
   other conjuncts of the appends clause cannot all hold; it is vacuous for non-empty paths and follows
   from the thread-group rules (see [corner_from_groups]). *)
Definition corner_excl (a : action) (q : ref) : Prop :=
  match promise_path_type s (ctx_group (a_ctx a)) (r_id q) [] with TOk td => td_list td | _ => false end = true ->
  match promise_context s (r_id q) with
  | Some qc => opt_nat_eqb (ctx_group (a_ctx a)) qc
  | None => opt_nat_eqb (ctx_group (a_ctx a)) None
  end = true -> False.

Lemma action_op_ok_ren tbl a :
  (forall q, op_appends (a_op a) = Some (q, []) -> corner_excl a q) ->
  action_op_ok tbl s' (ren_action r a) = action_op_ok tbl s a.
Proof.
  intros Hc. unfold action_op_ok. rewrite promise_of_ren. destruct (promise_of a) as [p|]; [|reflexivity].
  rewrite type_of_promise_ren. destruct (type_of_promise s p) as [t|]; [|reflexivity].
  cbn [option_map]. cbv zeta. prj. apply andb_congr.
  { rewrite incl_list_ren, forallb_map'. apply forallb_ext'. intros n. apply mem_attr_names_ren. }
  intros _. rewrite fulfiller_ren. destruct (fulfiller s p) as [fl|]; [|reflexivity]. prj.
  destruct (Nat.eqb (a_id fl) (a_id a)).
  - (* CREATE *)
    f_equal; [f_equal|].
    + unfold ren_keys. rewrite forallb_map'. apply forallb_ext'. intros [n sh]. prj.
      rewrite find_attr_ren. destruct (find_attr t n); reflexivity.
    + unfold ren_keys. rewrite forallb_map'. apply forallb_ext'. intros [n q]. prj.
      rewrite find_attr_ren. destruct (find_attr t n) as [at_|]; [|reflexivity]. prj.
      destruct (at_kind at_); try reflexivity.
      rewrite ref_ok_ren, find_promise_ren. destruct (find_promise s (r_id q)) as [pq|]; [|reflexivity].
      prj. rewrite fulfiller_ren. destruct (fulfiller s (pr_id pq)); [|reflexivity].
      prj. rewrite is_ancestor_ren. reflexivity.
    + destruct (op_appends (a_op a)) as [[q path]|] eqn:Eapp; [|reflexivity].
      cbn [ren_appends].
      rewrite ref_ok_ren, fulfiller_ren, promise_path_type_ren, find_promise_ren, settable_ren,
              is_dependee_ren, promise_context_ren.
      assert (HB : match option_map (ren_action r) (fulfiller s (r_id q)) with
                   | Some fq => guaranteed_ancestor s' (ren_action r a) (a_id fq)
                   | None => false end =
                   match fulfiller s (r_id q) with
                   | Some fq => guaranteed_ancestor s a (a_id fq)
                   | None => false end).
      { destruct (fulfiller s (r_id q)); [|reflexivity]. prj. apply guaranteed_ancestor_ren. }
      rewrite HB. clear HB.
      assert (HC : forall x : tres,
                   match x with
                   | TOk td => td_list td && item_eqb (td_item td) IObject &&
                               match td_obj td, option_map (ren_promise r) (find_promise s p) with
                               | Some tr, Some pr => ref_eqb tr (pr_type pr)
                               | _, _ => false end
                   | _ => false end =
                   match x with
                   | TOk td => td_list td && item_eqb (td_item td) IObject &&
                               match td_obj td, find_promise s p with
                               | Some tr, Some pr => ref_eqb tr (pr_type pr)
                               | _, _ => false end
                   | _ => false end).
      { intros [| |td]; try reflexivity. destruct (find_promise s p); reflexivity. }
      rewrite HC. clear HC.
      destruct path as [|n path].
      * (* empty path: the corner case *)
        specialize (Hc q eq_refl). unfold corner_excl in Hc.
        cbn [ren_path map last].
        destruct (promise_path_type s (ctx_group (a_ctx a)) (r_id q) []) as [| |td];
          try (rewrite !andb_false_r; reflexivity).
        destruct (td_list td); [|rewrite !andb_false_r; reflexivity].
        destruct (match promise_context s (r_id q) with
                  | Some qc => opt_nat_eqb (ctx_group (a_ctx a)) qc
                  | None => opt_nat_eqb (ctx_group (a_ctx a)) None end);
          [|rewrite !andb_false_r; reflexivity].
        exfalso. apply Hc; reflexivity.
      * unfold ren_path. rewrite last_map_cons, (mem_nat_map _ Hfa). reflexivity.
  - (* EDIT *)
    rewrite is_ancestor_ren.
    destruct (op_defaults (a_op a)), (op_edges (a_op a)), (op_appends (a_op a)) as [[q path]|]; reflexivity.
Qed.

Lemma action_ok_ren tbl a :
  (oref_ok s RGroup (a_ctx a) = true -> forall q, op_appends (a_op a) = Some (q, []) -> corner_excl a q) ->
  action_ok tbl s' (ren_action r a) = action_ok tbl s a.
Proof.
  intros Hc. unfold action_ok. prj. rewrite !ref_ok_ren, !oref_ok_ren, depends_scope_ok_ren.
  destruct (oref_ok s RGroup (a_ctx a)).
  - rewrite action_op_ok_ren; [reflexivity|]. apply Hc. reflexivity.
  - rewrite !andb_false_r. reflexivity.
Qed.

(* ------------------------------------------------------------------ thread groups *)
Lemma group_used_ren g : group_used s' g = group_used s g.
Proof. unfold group_used. rewrite actions_ren, groups_ren, !existsb_map'. reflexivity. Qed.

Lemma group_ok_ren g : group_ok s' (ren_group r g) = group_ok s g.
Proof.
  unfold group_ok. prj.
  rewrite !oref_ok_ren, scope_ren, depends_scope_ok_ren, group_used_ren, fuel_of_ren, var_type_ren.
  f_equal; [f_equal; f_equal|].
  - destruct (g_src g) as [p path|g' path]; [|reflexivity]. cbn [ren_src].
    rewrite ref_ok_ren, fulfiller_ren, group_ancestors_ren. destruct (fulfiller s (r_id p)); reflexivity.
  - destruct (scope s (g_id g)) as [l|]; [|reflexivity]. f_equal. apply existsb_ext'. intros g'. f_equal.
    rewrite find_group_ren. destruct (find_group s g') as [h|]; [|reflexivity]. prj.
    apply eqb_inj. apply Hinj.
Qed.

(* ------------------------------------------------------------------ object types *)
Lemma attr_ok_ren a : attr_ok s' (ren_attr r a) = attr_ok s a.
Proof. unfold attr_ok. prj. destruct (at_kind a); try reflexivity; apply ref_ok_ren. Qed.

Lemma otype_ok_ren t : otype_ok s' (ren_otype r t) = otype_ok s t.
Proof.
  unfold otype_ok. rewrite attr_names_ren, (nodup_nat_map _ Hfa). prj. rewrite map_length, forallb_map'.
  f_equal. apply forallb_ext'. intros a. apply attr_ok_ren.
Qed.

(* ------------------------------------------------------------------ uniqueness *)
Lemma unique_ids_ren : unique_ids s' = unique_ids s.
Proof.
  destruct Hinj as (Hpa & Hty & Hpr & Hac & Hal & Hgr & _ & _).
  unfold unique_ids.
  rewrite parties_ren, otypes_ren, promises_ren, actions_ren, checkpoints_ren, groups_ren.
  rewrite (map_ids (ren_party r) pa_id) by reflexivity.
  rewrite (map_ids (ren_otype r) ot_id) by reflexivity.
  rewrite (map_ids (ren_promise r) pr_id) by reflexivity.
  rewrite (map_ids (ren_action r) a_id) by reflexivity.
  rewrite (map_ids (ren_checkpoint r) cp_id) by reflexivity.
  rewrite (map_ids (ren_group r) g_id) by reflexivity.
  rewrite (nodup_nat_names (ren_party r) pa_name (rn_party r)) by (auto; reflexivity).
  rewrite (nodup_nat_names (ren_otype r) ot_name (rn_type r)) by (auto; reflexivity).
  rewrite (nodup_nat_names (ren_promise r) pr_name (rn_promise r)) by (auto; reflexivity).
  rewrite (nodup_nat_names (ren_action r) a_name (rn_action r)) by (auto; reflexivity).
  rewrite (nodup_nat_names (ren_checkpoint r) cp_alias (rn_alias r)) by (auto; reflexivity).
  rewrite (nodup_nat_names (ren_group r) g_name (rn_group r)) by (auto; reflexivity).
  rewrite nodup_by_composite_ren, flat_map_map'. reflexivity.
Qed.

(* ------------------------------------------------------------------ the verdict *)
Lemma conforms_with_ren cmp tbl :
  (forallb (group_ok s) (groups s) = true ->
   forall a, In a (actions s) -> oref_ok s RGroup (a_ctx a) = true ->
   forall q, op_appends (a_op a) = Some (q, []) -> corner_excl a q) ->
  conforms_with cmp tbl s' = conforms_with cmp tbl s.
Proof.
  intros Hc. unfold conforms_with.
  rewrite unique_ids_ren, has_cycle_ren.
  rewrite otypes_ren, promises_ren, actions_ren, checkpoints_ren, groups_ren, !forallb_map'.
  rewrite (forallb_ext' (fun x => otype_ok s' (ren_otype r x)) (otype_ok s) _ otype_ok_ren).
  rewrite (forallb_ext' (fun x => promise_refs_ok s' (ren_promise r x) && promise_ok s' (ren_promise r x))
                        (fun p => promise_refs_ok s p && promise_ok s p)) 
    by (intros x; rewrite promise_refs_ok_ren, promise_ok_ren; reflexivity).
  rewrite (forallb_ext' (fun x => checkpoint_ok cmp s' (ren_checkpoint r x)) (checkpoint_ok cmp s) _
                        (checkpoint_ok_ren cmp)).
  rewrite (forallb_ext' (fun x => group_ok s' (ren_group r x)) (group_ok s) _ group_ok_ren).
  destruct (forallb (group_ok s) (groups s)) eqn:EG.
  - rewrite (forallb_ext_in' (fun x => action_ok tbl s' (ren_action r x)) (action_ok tbl s)); [reflexivity|].
    intros a Ha. apply action_ok_ren. intros Ho. apply Hc; auto.
  - rewrite !andb_false_r. reflexivity.
Qed.

End Ren.

(* ------------------------------------------------------------------ the corner case is excluded by the thread-group rules *)
Lemma chain_head s fuel : forall g l, chain s fuel g = Some l -> exists t, l = g :: t.
Proof.
  induction fuel as [|fuel IH]; intros g l H; [discriminate|].
  cbn [chain] in H. destruct (find_group s g) as [tg|]; [|discriminate].
  destruct (g_ctx tg) as [rf|].
  - destruct (rkind_eqb (r_kind rf) RGroup); [|discriminate].
    destruct (chain s fuel (r_id rf)) as [l0|]; [|discriminate].
    injection H as <-. eexists. reflexivity.
  - injection H as <-. eexists. reflexivity.
Qed.

(* a declared group of a schema whose groups pass [group_ok] has access to itself *)
Lemma has_access_self s c g :
  forallb (group_ok s) (groups s) = true -> oref_ok s RGroup c = true -> ctx_group c = Some g ->
  has_access s g g = true.
Proof.
  intros Hg Ho Hc. unfold ctx_group in Hc. destruct c as [rf|]; [|discriminate].
  destruct (rkind_eqb (r_kind rf) RGroup) eqn:Ek; [|discriminate]. injection Hc as <-.
  unfold oref_ok, ref_ok in Ho. rewrite Ek in Ho. cbn [andb] in Ho. unfold denotes in Ho.
  apply rkind_eqb_eq in Ek. rewrite Ek in Ho.
  destruct (find_group s (r_id rf)) as [tg|] eqn:Ef; [|discriminate].
  unfold find_group in Ef. apply find_some in Ef. destruct Ef as [Hin Hid]. apply Nat.eqb_eq in Hid.
  rewrite forallb_forall in Hg. specialize (Hg tg Hin). unfold group_ok in Hg.
  apply andb_true_iff in Hg. destruct Hg as [_ Hl]. rewrite Hid in Hl.
  destruct (scope s (r_id rf)) as [l|] eqn:Es; [|discriminate].
  unfold has_access. rewrite Es. unfold scope in Es. apply chain_head in Es. destruct Es as [t ->].
  unfold mem_nat. cbn [existsb]. rewrite Nat.eqb_refl. reflexivity.
Qed.

Lemma corner_from_groups s a q :
  forallb (group_ok s) (groups s) = true -> oref_ok s RGroup (a_ctx a) = true -> corner_excl s a q.
Proof.
  intros Hg Ho H1 H2. unfold promise_path_type in H1.
  destruct (find_promise s (r_id q)) as [pr|]; [|discriminate].
  destruct (promise_context s (r_id q)) as [[g'|]|]; [| |discriminate].
  - destruct (ctx_group (a_ctx a)) as [g|] eqn:Ec; [|discriminate].
    cbn [opt_nat_eqb] in H2. apply Nat.eqb_eq in H2. subst g'.
    rewrite (has_access_self s _ g Hg Ho Ec) in H1.
    destruct (rkind_eqb (r_kind (pr_type pr)) RType); discriminate.
  - destruct (rkind_eqb (r_kind (pr_type pr)) RType); discriminate.
Qed.

(* ------------------------------------------------------------------ C15 (names) *)
Definition C15_rename_names_statement : Prop :=
  forall tbl s r, renaming_injective r -> conforms tbl (rename_names r s) = conforms tbl s.

(* the version with the side condition "no empty appends path" (subsumed by the lemma below) *)
Lemma C15_rename_names_partial : forall tbl s r,
  renaming_injective r ->
  (forall a q p, In a (actions s) -> op_appends (a_op a) = Some (q, p) -> p <> []) ->
  conforms tbl (rename_names r s) = conforms tbl s.
Proof.
  intros tbl s r Hi Hne. unfold conforms. apply conforms_with_ren; [exact Hi|].
  intros _ a Ha _ q Eq. exfalso. exact (Hne a q [] Ha Eq eq_refl).
Qed.

Lemma C15_rename_names_lemma : forall tbl s r,
  renaming_injective r -> conforms tbl (rename_names r s) = conforms tbl s.
Proof.
  intros tbl s r Hi. unfold conforms. apply conforms_with_ren; [exact Hi|].
  intros Hg a _ Ho q _. apply corner_from_groups; assumption.
Qed.

Lemma C15_rename_names_kf : forall tbl s r,
  renaming_injective r -> conforms_kf tbl (rename_names r s) = conforms_kf tbl s.
Proof.
  intros tbl s r Hi. unfold conforms_kf. apply conforms_with_ren; [exact Hi|].
  intros Hg a _ Ho q _. apply corner_from_groups; assumption.
Qed.

Lemma C15_rename_names_holds : C15_rename_names_statement.
Proof. exact C15_rename_names_lemma. Qed.

End Names.

Print Assumptions Names.C15_rename_names_lemma.
