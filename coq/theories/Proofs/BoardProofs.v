(* Proofs about Model/Board.v (property C20). *)
From Coq Require Import List Arith ZArith Bool Lia.
From OIS Require Import Model.Graph Model.Board Spec.GraphSpec.
Import ListNotations.

(* ================================================================ equality tests *)
Lemma node_eqb_eq : forall a b, node_eqb a b = true <-> a = b.
Proof.
  destruct a, b; simpl; rewrite ?Nat.eqb_eq; split; intro H; try congruence; try discriminate.
Qed.

Lemma node_eqb_refl : forall a, node_eqb a a = true.
Proof. intro a; apply node_eqb_eq; reflexivity. Qed.

Lemma node_eqb_neq : forall a b, node_eqb a b = false <-> a <> b.
Proof.
  intros a b; split; intro H.
  - intro E; apply node_eqb_eq in E; congruence.
  - destruct (node_eqb a b) eqn:E; [apply node_eqb_eq in E; contradiction | reflexivity].
Qed.

Lemma tuple_eqb_eq : forall a b, tuple_eqb a b = true <-> a = b.
Proof.
  intros [a1 a2] [b1 b2]; unfold tuple_eqb; simpl.
  rewrite andb_true_iff, !node_eqb_eq; split; [intros [-> ->]; reflexivity | intro H; inversion H; auto].
Qed.

Lemma tuple_eqb_refl : forall a, tuple_eqb a a = true.
Proof. intro a; apply tuple_eqb_eq; reflexivity. Qed.

Lemma tuple_eqb_neq : forall a b, tuple_eqb a b = false <-> a <> b.
Proof.
  intros a b; split; intro H.
  - intro E; apply tuple_eqb_eq in E; congruence.
  - destruct (tuple_eqb a b) eqn:E; [apply tuple_eqb_eq in E; contradiction | reflexivity].
Qed.

(* ================================================================ lists *)
Lemma NoDup_app_l : forall A (l l' : list A), NoDup (l ++ l') -> NoDup l.
Proof.
  intros A l l'; induction l as [|a l IH]; simpl; intro H; [constructor|].
  inversion H as [|? ? Hn Hd]; subst; constructor; auto.
  intro Hi; apply Hn; apply in_or_app; auto.
Qed.

Lemma NoDup_snoc : forall A (l : list A) a, NoDup l -> ~ In a l -> NoDup (l ++ [a]).
Proof.
  intros A l a; induction l as [|b l IH]; simpl; intros H N.
  - constructor; [intros []|constructor].
  - inversion H as [|? ? Hn Hd]; subst; constructor.
    + intro Hi; apply in_app_or in Hi; destruct Hi as [Hi|[Hi|[]]]; [contradiction | subst; apply N; auto].
    + apply IH; auto.
Qed.

(* ================================================================ dictionaries *)
Section DictFacts.
  Context {K V : Type} (e : K -> K -> bool).
  Hypothesis e_eq : forall a b, e a b = true <-> a = b.

  Lemma e_refl : forall a, e a a = true.
  Proof. intro a; apply e_eq; reflexivity. Qed.

  Lemma dget_dset_same : forall (m : list (K * V)) k v, dget e (dset e m k v) k = Some v.
  Proof.
    induction m as [|[k' v'] m IH]; intros k v; simpl.
    - rewrite e_refl; reflexivity.
    - destruct (e k k') eqn:E; simpl; rewrite E; auto.
  Qed.

  Lemma dget_dset_other : forall (m : list (K * V)) k v k', k' <> k -> dget e (dset e m k v) k' = dget e m k'.
  Proof.
    induction m as [|[k0 v0] m IH]; intros k v k' N; simpl.
    - destruct (e k' k) eqn:E; [apply e_eq in E; contradiction | reflexivity].
    - destruct (e k k0) eqn:E; simpl.
      + apply e_eq in E; subst k0.
        destruct (e k' k) eqn:E'; [apply e_eq in E'; contradiction | reflexivity].
      + destruct (e k' k0); auto.
  Qed.

  Lemma dget_none_notin : forall (m : list (K * V)) k, dget e m k = None <-> ~ In k (map fst m).
  Proof.
    induction m as [|[k0 v0] m IH]; intro k; simpl.
    - tauto.
    - destruct (e k k0) eqn:E.
      + apply e_eq in E; subst; split; [discriminate | intro H; exfalso; apply H; auto].
      + rewrite IH; split; intro H.
        * intros [H1|H1]; [subst; rewrite e_refl in E; discriminate | contradiction].
        * tauto.
  Qed.

  Lemma dget_in : forall (m : list (K * V)) k v, dget e m k = Some v -> In (k, v) m.
  Proof.
    induction m as [|[k0 v0] m IH]; intros k v; simpl; [discriminate|].
    destruct (e k k0) eqn:E; intro H.
    - apply e_eq in E; inversion H; subst; auto.
    - right; auto.
  Qed.

  Lemma in_dget : forall (m : list (K * V)) k v, NoDup (map fst m) -> In (k, v) m -> dget e m k = Some v.
  Proof.
    induction m as [|[k0 v0] m IH]; intros k v ND HI; simpl in *; [contradiction|].
    inversion ND as [|? ? Hn ND']; subst.
    destruct HI as [HI|HI].
    - inversion HI; subst; rewrite e_refl; reflexivity.
    - destruct (e k k0) eqn:E.
      + apply e_eq in E; subst; exfalso; apply Hn; apply (in_map fst) in HI; exact HI.
      + auto.
  Qed.

  Lemma dset_keys_new : forall (m : list (K * V)) k v, dget e m k = None -> map fst (dset e m k v) = map fst m ++ [k].
  Proof.
    induction m as [|[k0 v0] m IH]; intros k v; simpl; [reflexivity|].
    destruct (e k k0) eqn:E; [discriminate|]; intro H; simpl; rewrite IH; auto.
  Qed.

  Lemma dset_keys_old : forall (m : list (K * V)) k v v0, dget e m k = Some v0 -> map fst (dset e m k v) = map fst m.
  Proof.
    induction m as [|[k0 v1] m IH]; intros k v v0; simpl; [discriminate|].
    destruct (e k k0) eqn:E; intro H; simpl; [reflexivity | erewrite IH; eauto].
  Qed.
End DictFacts.

(* ================================================================ the conversation monad *)
Definition is_ok (r : response) : Prop := match r with ROk _ => True | RErr => False end.

Definition all_ok (l : log) : Prop := Forall is_ok (map snd l).

(* what every computation built from ret / send / mbind / lookups that succeed satisfies:
   the script is consumed in order, one response per request; it finishes only on ok responses, is
   starved only at the end of the script, and raises only on (and immediately after) an error response *)
Definition spec {A} (m : M A) (Post : A -> log -> Prop) : Prop :=
  forall rs,
    match m rs with
    | (l, Done a, rs') => rs = map snd l ++ rs' /\ all_ok l /\ Post a l
    | (l, Raised, rs') => rs = map snd l ++ rs' /\ exists l0 q, l = l0 ++ [(q, RErr)] /\ all_ok l0
    | (l, Starved, rs') => rs = map snd l ++ rs' /\ all_ok l /\ rs' = []
    end.

Lemma all_ok_app : forall l1 l2, all_ok l1 -> all_ok l2 -> all_ok (l1 ++ l2).
Proof. unfold all_ok; intros; rewrite map_app; apply Forall_app; auto. Qed.

Lemma all_ok_nil : all_ok [].
Proof. constructor. Qed.

Lemma spec_ret : forall A (a : A) (Post : A -> log -> Prop), Post a [] -> spec (ret a) Post.
Proof. intros A a Post H rs; simpl; repeat split; auto; apply all_ok_nil. Qed.

Lemma spec_send : forall q, spec (send q) (fun i l => l = [(q, ROk i)]).
Proof.
  intros q rs; unfold send; destruct rs as [|[i|] rs']; simpl.
  - repeat split; constructor.
  - repeat split; repeat constructor.
  - split; [reflexivity|]; exists [], q; split; [reflexivity | constructor].
Qed.

Lemma spec_bind : forall A B (m : M A) (f : A -> M B) (P : A -> log -> Prop) (Q : B -> log -> Prop),
  spec m P ->
  (forall a l1, P a l1 -> spec (f a) (fun b l2 => Q b (l1 ++ l2))) ->
  spec (mbind m f) Q.
Proof.
  intros A B m f P Q Hm Hf rs; unfold mbind.
  specialize (Hm rs); destruct (m rs) as [[l1 r1] rs1]; destruct r1 as [a| |].
  - destruct Hm as (E1 & O1 & HP).
    specialize (Hf a l1 HP rs1); destruct (f a rs1) as [[l2 r2] rs2]; destruct r2 as [b| |].
    + destruct Hf as (E2 & O2 & HQ); repeat split; auto.
      * rewrite map_app, <- app_assoc, <- E2; exact E1.
      * apply all_ok_app; auto.
    + destruct Hf as (E2 & l0 & q & El & O2); split.
      * rewrite map_app, <- app_assoc, <- E2; exact E1.
      * exists (l1 ++ l0), q; split; [rewrite El, app_assoc; reflexivity | apply all_ok_app; auto].
    + destruct Hf as (E2 & O2 & Er); repeat split; auto.
      * rewrite map_app, <- app_assoc, <- E2; exact E1.
      * apply all_ok_app; auto.
  - exact Hm.
  - exact Hm.
Qed.

Lemma spec_weaken : forall A (m : M A) (P P' : A -> log -> Prop),
  spec m P -> (forall a l, P a l -> P' a l) -> spec m P'.
Proof.
  intros A m P P' Hm HI rs; specialize (Hm rs); destruct (m rs) as [[l r] rs']; destruct r; auto.
  destruct Hm as (E & O & HP); auto.
Qed.

Lemma spec_lookup : forall K V (e : K -> K -> bool) (m : list (K * V)) k v,
  dget e m k = Some v -> spec (lookup e m k) (fun v' l => v' = v /\ l = []).
Proof. intros K V e m k v H; unfold lookup; rewrite H; apply spec_ret; auto. Qed.

(* loops: [Inv done st l] relates the elements processed so far, the loop state and the conversation so far *)
Lemma spec_forM_gen : forall A S (f : A -> S -> M S) (all : list A) (Inv : list A -> S -> log -> Prop),
  (forall done a rest st lg, all = done ++ a :: rest -> Inv done st lg ->
     spec (f a st) (fun st' c => Inv (done ++ [a]) st' (lg ++ c))) ->
  forall l done st lg, all = done ++ l -> Inv done st lg ->
  spec (forM f l st) (fun st' c => Inv all st' (lg ++ c)).
Proof.
  intros A S f all Inv Hstep l; induction l as [|a l IH]; intros done st lg E HI.
  - simpl; apply spec_ret; rewrite !app_nil_r in *; subst; exact HI.
  - simpl; eapply spec_bind.
    + apply (Hstep done a l st lg E HI).
    + intros st' c HI'; simpl in HI'.
      eapply spec_weaken.
      * apply (IH (done ++ [a]) st' (lg ++ c)); [rewrite <- app_assoc; exact E | exact HI'].
      * intros st'' c' H; simpl in H; rewrite <- app_assoc in H; exact H.
Qed.

Lemma spec_forM : forall A S (f : A -> S -> M S) (all : list A) (Inv : list A -> S -> log -> Prop) st,
  (forall done a rest st lg, all = done ++ a :: rest -> Inv done st lg ->
     spec (f a st) (fun st' c => Inv (done ++ [a]) st' (lg ++ c))) ->
  Inv [] st [] ->
  spec (forM f all st) (Inv all).
Proof.
  intros A S f all Inv st Hstep H0.
  eapply spec_weaken; [apply (spec_forM_gen A S f all Inv Hstep all [] st []); auto|].
  intros a l H; exact H.
Qed.

(* ================================================================ chunked conversations *)
Lemma chunked_app : forall A (R : A -> log -> Prop) l1 l2 lg1 lg2,
  chunked R l1 lg1 -> chunked R l2 lg2 -> chunked R (l1 ++ l2) (lg1 ++ lg2).
Proof.
  intros A R l1 l2 lg1 lg2 H1 H2; induction H1 as [|a l c lg Ha Hl IH]; simpl; auto.
  rewrite <- app_assoc; constructor; auto.
Qed.

Lemma chunked_snoc : forall A (R : A -> log -> Prop) l a lg c,
  chunked R l lg -> R a c -> chunked R (l ++ [a]) (lg ++ c).
Proof.
  intros A R l a lg c H Ha; apply chunked_app; auto.
  rewrite <- (app_nil_r c); constructor; [exact Ha | constructor].
Qed.

Lemma chunked_impl : forall A (R R' : A -> log -> Prop) l lg,
  (forall a c, In a l -> R a c -> R' a c) -> chunked R l lg -> chunked R' l lg.
Proof.
  intros A R R' l lg HI H; induction H as [|a l c lg Ha Hl IH]; constructor.
  - apply HI; simpl; auto.
  - apply IH; intros; apply HI; simpl; auto.
Qed.

Lemma chunked_filter_all : forall A (R : A -> log -> Prop) (p : request * response -> bool) l lg,
  (forall a c, R a c -> filter p c = c) -> chunked R l lg -> filter p lg = lg.
Proof.
  intros A R p l lg HI H; induction H as [|a l c lg Ha Hl IH]; simpl; auto.
  rewrite filter_app, IH, (HI a c Ha); reflexivity.
Qed.

Lemma chunked_filter_none : forall A (R : A -> log -> Prop) (p : request * response -> bool) l lg,
  (forall a c, R a c -> filter p c = []) -> chunked R l lg -> filter p lg = [].
Proof.
  intros A R p l lg HI H; induction H as [|a l c lg Ha Hl IH]; simpl; auto.
  rewrite filter_app, IH, (HI a c Ha); reflexivity.
Qed.

Lemma chunked_in : forall A (R : A -> log -> Prop) l lg a,
  chunked R l lg -> In a l -> exists c, R a c /\ incl c lg.
Proof.
  intros A R l lg a H; induction H as [|a' l c lg Ha Hl IH]; intro HI; [contradiction|].
  destruct HI as [->|HI].
  - exists c; split; auto; apply incl_appl, incl_refl.
  - destruct (IH HI) as (c' & Hc & Hinc); exists c'; split; auto; apply incl_appr; exact Hinc.
Qed.

(* ================================================================ shapes *)
Definition support_chunk (n : node) (l : log) : Prop :=
  l = [] \/ exists x y i, l = [(Support n x y, ROk i)].

Definition sid_of (sd : shape_dict) (n : node) : item :=
  match dget node_eqb sd n with Some i => i | None => 0%Z end.

(* the piece of conversation that draws node n, under the final shape dictionary sd *)
Definition shape_chunk (s : schema) (g : graph) (coords : node -> Z * Z) (sd : shape_dict) (n : node) (c : log) : Prop :=
  exists i q rest,
    dget node_eqb sd n = Some i /\ shape_spec s g coords n q /\ c = (q, ROk i) :: rest /\ support_chunk n rest.

(* one iteration of either shape loop *)
Definition shape_step (s : schema) (g : graph) (coords : node -> Z * Z) (n : node) (sd sd' : shape_dict) (c : log) : Prop :=
  exists i q rest,
    sd' = dset node_eqb sd n i /\ shape_spec s g coords n q /\ c = (q, ROk i) :: rest /\ support_chunk n rest.

Lemma support_if_spec : forall b n c, spec (support_if b n c) (fun _ l => support_chunk n l).
Proof.
  intros b n c; unfold support_if; destruct b.
  - eapply spec_bind; [apply spec_send|].
    intros i l1 ->; apply spec_ret; right; exists (support_x c), (support_y c), i; rewrite app_nil_r; reflexivity.
  - apply spec_ret; left; reflexivity.
Qed.

Lemma scaled_shape : forall coords n, scaled coords n (shape_x (coords n)) (shape_y (coords n)).
Proof. intros coords n; unfold scaled, shape_x, shape_y, x_coord_factor, y_coord_factor; split; ring. Qed.

Lemma party_colour_fill : forall s g a fill,
  In a (s_actions s) -> party_colour s a = Some fill -> fill_spec s g (NAct (a_id a)) fill.
Proof.
  intros s g a fill HI; unfold party_colour.
  destruct (a_party a) as [p|] eqn:Ep.
  - destruct (nth_error (s_parties s) p) as [[c|]|] eqn:En; intro H; inversion H; subst.
    + eapply fill_code; eauto.
    + eapply fill_no_code; eauto.
  - intro H; inversion H; subst; apply fill_no_party; auto.
Qed.

Lemma action_shape_spec : forall s g coords a sd,
  In a (s_actions s) -> party_colour s a <> None ->
  spec (action_shape s coords a sd) (shape_step s g coords (NAct (a_id a)) sd).
Proof.
  intros s g coords a sd HI HP; unfold action_shape.
  destruct (party_colour s a) as [fill|] eqn:Ef; [|congruence].
  eapply spec_bind; [apply spec_send|].
  intros i l1 ->.
  eapply spec_bind; [apply support_if_spec|].
  intros [] rest Hrest; apply spec_ret.
  exists i, (Shape (NAct (a_id a)) (shape_x (coords (NAct (a_id a)))) (shape_y (coords (NAct (a_id a)))) fill (CAction (a_id a))), rest.
  repeat split; auto.
  - exists (shape_x (coords (NAct (a_id a)))), (shape_y (coords (NAct (a_id a)))), fill, (CAction (a_id a)).
    repeat split; try apply scaled_shape.
    + eapply party_colour_fill; eauto.
    + constructor.
  - rewrite app_nil_r; reflexivity.
Qed.

Lemma gate_shape_spec : forall s g coords jt sd,
  In jt (g_gates g) -> nth_error (s_cps s) (fst jt) <> None ->
  spec (gate_shape s coords jt sd) (shape_step s g coords (NGate (fst jt)) sd).
Proof.
  intros s g coords [j t] sd HI HN; unfold gate_shape; simpl in *.
  eapply spec_bind; [apply spec_send|].
  intros i l1 ->.
  destruct (nth_error (s_cps s) j) as [cp|] eqn:En; [|congruence].
  eapply spec_bind; [apply support_if_spec|].
  intros [] rest Hrest; apply spec_ret.
  exists i, (Shape (NGate j) (shape_x (coords (NGate j))) (shape_y (coords (NGate j))) (GateColour t) (CGate t)), rest.
  repeat split; auto.
  - exists (shape_x (coords (NGate j))), (shape_y (coords (NGate j))), (GateColour t), (CGate t).
    repeat split; try apply scaled_shape; constructor; auto.
  - rewrite app_nil_r; reflexivity.
Qed.

Lemma shape_chunk_dset : forall s g coords sd n' i n c,
  n <> n' -> shape_chunk s g coords sd n c -> shape_chunk s g coords (dset node_eqb sd n' i) n c.
Proof.
  intros s g coords sd n' i n c N (i0 & q & rest & Hd & Hq & Hc & Hr).
  exists i0, q, rest; repeat split; auto.
  rewrite (dget_dset_other node_eqb node_eqb_eq); auto.
Qed.

(* either loop: [pre] / [lgpre] are the nodes drawn and the conversation held before the loop *)
Lemma shape_loop_spec : forall A (f : A -> shape_dict -> M shape_dict) (nodeof : A -> node)
    s g coords (all : list A) (pre : list node) (lgpre : log) (sd0 : shape_dict),
  NoDup (pre ++ map nodeof all) ->
  map fst sd0 = pre ->
  chunked (shape_chunk s g coords sd0) pre lgpre ->
  (forall a sd, In a all -> spec (f a sd) (shape_step s g coords (nodeof a) sd)) ->
  spec (forM f all sd0)
       (fun sd lg => map fst sd = pre ++ map nodeof all /\
                     chunked (shape_chunk s g coords sd) (pre ++ map nodeof all) (lgpre ++ lg)).
Proof.
  intros A f nodeof s g coords all pre lgpre sd0 ND K0 C0 Hstep.
  apply (spec_forM A shape_dict f all
           (fun done sd lg => map fst sd = pre ++ map nodeof done /\
                              chunked (shape_chunk s g coords sd) (pre ++ map nodeof done) (lgpre ++ lg))).
  - intros done a rest sd lg E (K & C).
    assert (HIa : In a all) by (rewrite E; apply in_or_app; right; simpl; auto).
    assert (Hfresh : ~ In (nodeof a) (pre ++ map nodeof done)).
    { rewrite E, map_app in ND; simpl in ND; rewrite app_assoc in ND.
      apply NoDup_remove_2 in ND; intro H; apply ND; apply in_or_app; left; exact H. }
    eapply spec_weaken; [apply (Hstep a sd HIa)|].
    intros sd' c (i & q & rest' & -> & Hq & -> & Hr).
    assert (Hnone : dget node_eqb sd (nodeof a) = None).
    { apply (dget_none_notin node_eqb node_eqb_eq); rewrite K; exact Hfresh. }
    split.
    + rewrite (dset_keys_new node_eqb); auto.
      rewrite K, map_app, app_assoc; reflexivity.
    + rewrite map_app, !app_assoc; simpl.
      apply chunked_snoc.
      * eapply chunked_impl; [|exact C].
        intros n c Hn Hc; apply shape_chunk_dset; auto.
        intro Heq; subst n; apply Hfresh; exact Hn.
      * exists i, q, rest'; repeat split; auto.
        apply (dget_dset_same node_eqb node_eqb_eq).
  - simpl; rewrite !app_nil_r; auto.
Qed.

Lemma shapes_spec : forall s g coords,
  board_pre s g ->
  spec (shapes s g coords)
       (fun sd lg => map fst sd = g_nodes g /\ chunked (shape_chunk s g coords sd) (g_nodes g) lg).
Proof.
  intros s g coords (HA & ND & HP & HG & _ & _).
  assert (EN : g_nodes g = map (fun a => NAct (a_id a)) (s_actions s) ++ map (fun jt : nat * gate => NGate (fst jt)) (g_gates g)).
  { unfold g_nodes; rewrite HA, map_map; reflexivity. }
  rewrite EN in ND |- *.
  unfold shapes; eapply spec_bind.
  - apply (shape_loop_spec action (action_shape s coords) (fun a => NAct (a_id a)) s g coords (s_actions s) [] [] []).
    + simpl; apply NoDup_app_l in ND; exact ND.
    + reflexivity.
    + constructor.
    + intros a sd HI; apply action_shape_spec; auto.
  - intros sd1 l1 (K1 & C1); simpl in K1, C1.
    eapply spec_weaken.
    + apply (shape_loop_spec (nat * gate) (gate_shape s coords) (fun jt => NGate (fst jt)) s g coords (g_gates g)
               (map (fun a => NAct (a_id a)) (s_actions s)) l1 sd1); auto.
      intros [j t] sd HI; apply gate_shape_spec; auto; simpl; eapply HG; eauto.
    + intros sd lg H; exact H.
Qed.

(* ================================================================ tuple_occurences *)
Lemma count_tuple_snoc : forall es t t',
  count_tuple (es ++ [t]) t' = count_tuple es t' + (if tuple_eqb t' t then 1 else 0).
Proof.
  intros es t t'; unfold count_tuple; rewrite filter_app, app_length; simpl.
  destruct (tuple_eqb t' t); reflexivity.
Qed.

Definition tc_inv (es : list (node * node)) (m : list ((node * node) * nat)) : Prop :=
  NoDup (map fst m) /\
  forall t, dget tuple_eqb m t = match count_tuple es t with 0 => None | S k => Some (S k) end.

Lemma tc_inv_incr : forall es m t, tc_inv es m -> tc_inv (es ++ [t]) (incr m t).
Proof.
  intros es m t (ND & HD); unfold incr.
  pose proof (HD t) as Ht.
  destruct (count_tuple es t) as [|k] eqn:Ec; rewrite Ht.
  - split.
    + rewrite (dset_keys_new tuple_eqb); auto.
      apply NoDup_snoc; auto.
      apply (dget_none_notin tuple_eqb tuple_eqb_eq); exact Ht.
    + intro t'; rewrite count_tuple_snoc.
      destruct (tuple_eqb t' t) eqn:E.
      * apply tuple_eqb_eq in E; subst t'; rewrite (dget_dset_same tuple_eqb tuple_eqb_eq), Ec; reflexivity.
      * apply tuple_eqb_neq in E; rewrite (dget_dset_other tuple_eqb tuple_eqb_eq); auto.
        rewrite HD, Nat.add_0_r; reflexivity.
  - split.
    + rewrite (dset_keys_old tuple_eqb _ _ _ _ Ht); exact ND.
    + intro t'; rewrite count_tuple_snoc.
      destruct (tuple_eqb t' t) eqn:E.
      * apply tuple_eqb_eq in E; subst t'; rewrite (dget_dset_same tuple_eqb tuple_eqb_eq), Ec.
        rewrite Nat.add_1_r; reflexivity.
      * apply tuple_eqb_neq in E; rewrite (dget_dset_other tuple_eqb tuple_eqb_eq); auto.
        rewrite HD, Nat.add_0_r; reflexivity.
Qed.

Lemma tc_inv_fold : forall es done m, tc_inv done m -> tc_inv (done ++ es) (fold_left incr es m).
Proof.
  induction es as [|t es IH]; intros done m H; simpl.
  - rewrite app_nil_r; exact H.
  - replace (done ++ t :: es) with ((done ++ [t]) ++ es) by (rewrite <- app_assoc; reflexivity).
    apply IH, tc_inv_incr, H.
Qed.

Lemma tuple_counts_table : forall es, tuple_table es (tuple_counts es).
Proof.
  intro es; unfold tuple_counts.
  assert (H : tc_inv es (fold_left incr es [])).
  { apply (tc_inv_fold es [] []); split; [constructor | intro t; reflexivity]. }
  destruct H as (ND & HD); split; [exact ND|].
  intros t k; split.
  - intro HI; apply (in_dget tuple_eqb tuple_eqb_eq _ _ _ ND) in HI.
    rewrite HD in HI; destruct (count_tuple es t); inversion HI; split; lia.
  - intros (-> & Hk); apply (dget_in tuple_eqb tuple_eqb_eq); rewrite HD.
    destruct (count_tuple es t); [lia | reflexivity].
Qed.

Lemma count_tuple_in : forall es t, 1 <= count_tuple es t -> In t es.
Proof.
  intros es t; unfold count_tuple; induction es as [|x es IH]; simpl; [lia|].
  destruct (tuple_eqb t x) eqn:E; [apply tuple_eqb_eq in E; auto | auto].
Qed.

Lemma tuple_eqb_sym : forall a b, tuple_eqb a b = tuple_eqb b a.
Proof.
  intros a b; destruct (tuple_eqb a b) eqn:E.
  - apply tuple_eqb_eq in E; subst; symmetry; apply tuple_eqb_refl.
  - symmetry; apply tuple_eqb_neq; apply tuple_eqb_neq in E; congruence.
Qed.

Lemma caps_spec_length : forall g t, length (caps_spec g t) = count_tuple (g_edges g) t.
Proof.
  intros g t; unfold caps_spec, count_tuple, g_edges; rewrite map_length.
  induction (g_ledges g) as [|e l IH]; simpl; auto.
  rewrite (tuple_eqb_sym t (fst e)); destruct (tuple_eqb (fst e) t); simpl; rewrite IH; reflexivity.
Qed.

(* ================================================================ connectors *)
Lemma strand_point_elbow : forall coords f t k i,
  strand_point coords f t k i (elbow_x (coords f) (coords t)) (elbow_y (coords f) (coords t) k i).
Proof.
  intros; unfold strand_point, elbow_x, elbow_y, x_coord_factor, y_coord_factor; split; ring.
Qed.

Lemma strand_spec_model : forall g coords sd t k i sf st_ cp,
  dget node_eqb sd (fst t) = Some sf -> dget node_eqb sd (snd t) = Some st_ ->
  caps_of g t = caps_spec g t -> nth_error (caps_spec g t) i = Some cp ->
  spec (strand g coords sd t k i tt) (fun _ c => strand_spec g coords (sid_of sd) t k i c).
Proof.
  intros g coords sd t k i sf st_ cp Hf Ht Hc Hn; unfold strand.
  eapply spec_bind; [apply spec_send|]. intros e l1 ->.
  eapply spec_bind; [apply spec_lookup; exact Hf|]. intros sf' l2 (-> & ->).
  eapply spec_bind; [apply spec_send|]. intros i1 l3 ->.
  eapply spec_bind; [apply spec_lookup; exact Ht|]. intros st' l4 (-> & ->).
  eapply spec_bind; [apply spec_send|]. intros i2 l5 ->.
  apply spec_ret.
  exists (elbow_x (coords (fst t)) (coords (snd t))), (elbow_y (coords (fst t)) (coords (snd t)) k i), e, i1, i2, cp.
  split; [apply strand_point_elbow|]. split; [exact Hn|].
  unfold sid_of; rewrite Hf, Ht, Hc, Hn; simpl.
  destruct (Nat.even i); reflexivity.
Qed.

Lemma connect_spec : forall g coords sd t k sf st_,
  dget node_eqb sd (fst t) = Some sf -> dget node_eqb sd (snd t) = Some st_ ->
  caps_of g t = caps_spec g t -> k = count_tuple (g_edges g) t -> 1 <= k ->
  spec (connect g coords sd (t, k) tt) (fun _ c => chain_spec g coords (sid_of sd) (t, k) c).
Proof.
  intros g coords sd t k sf st_ Hf Ht Hc Hk H1; unfold connect; simpl fst; simpl snd.
  pose proof (caps_spec_length g t) as HL; rewrite <- Hk in HL.
  destruct (Nat.eqb k 1) eqn:E1.
  - apply Nat.eqb_eq in E1; subst k.
    destruct (caps_spec g t) as [|cp [|cp' l]] eqn:Ecs; simpl in HL; try lia.
    eapply spec_bind; [apply spec_lookup; exact Hf|]. intros sf' l2 (-> & ->).
    eapply spec_bind; [apply spec_lookup; exact Ht|]. intros st' l4 (-> & ->).
    eapply spec_bind; [apply spec_send|]. intros i l3 ->.
    apply spec_ret; left; simpl; split; [auto|].
    exists cp, i; split; [exact Ecs|].
    unfold sid_of; simpl; rewrite Hf, Ht, Hc; reflexivity.
  - apply Nat.eqb_neq in E1.
    eapply spec_weaken.
    + apply (spec_forM nat unit (strand g coords sd t k) (seq 0 k)
               (fun done _ lg => chunked (strand_spec g coords (sid_of sd) t k) done lg) tt).
      * intros done i rest [] lg E HC.
        assert (Hi : i < k).
        { assert (HI : In i (seq 0 k)) by (rewrite E; apply in_or_app; right; simpl; auto).
          apply in_seq in HI; lia. }
        destruct (nth_error (caps_spec g t) i) as [cp|] eqn:En;
          [|apply nth_error_None in En; lia].
        eapply spec_weaken; [eapply strand_spec_model; eauto|].
        intros [] c Hs; apply chunked_snoc; auto.
      * constructor.
    + intros [] lg H; right; simpl; split; [lia | exact H].
Qed.

Lemma connectors_spec : forall s g coords sd,
  board_pre s g -> map fst sd = g_nodes g ->
  spec (connectors g coords sd)
       (fun _ lg => chunked (chain_spec g coords (sid_of sd)) (tuple_counts (g_edges g)) lg).
Proof.
  intros s g coords sd (_ & _ & _ & _ & HE & HC) K; unfold connectors.
  pose proof (tuple_counts_table (g_edges g)) as (_ & HT).
  apply (spec_forM _ unit (connect g coords sd) (tuple_counts (g_edges g))
           (fun done _ lg => chunked (chain_spec g coords (sid_of sd)) done lg) tt).
  - intros done [t k] rest [] lg E HCh.
    assert (HI : In (t, k) (tuple_counts (g_edges g))) by (rewrite E; apply in_or_app; right; simpl; auto).
    apply HT in HI; destruct HI as (Hk & H1).
    assert (Hin : In t (g_edges g)) by (apply count_tuple_in; lia).
    destruct t as [f t']; destruct (HE f t' Hin) as (Hf & Ht).
    rewrite <- K in Hf, Ht.
    destruct (dget node_eqb sd f) as [sf|] eqn:Ef;
      [|apply (dget_none_notin node_eqb node_eqb_eq) in Ef; contradiction].
    destruct (dget node_eqb sd t') as [st_|] eqn:Et;
      [|apply (dget_none_notin node_eqb node_eqb_eq) in Et; contradiction].
    eapply spec_weaken; [eapply (connect_spec g coords sd (f, t') k); eauto|].
    intros [] c Hc; apply chunked_snoc; auto.
  - constructor.
Qed.

(* ================================================================ the whole board *)
(* a complete conversation: (CreateBoard,) one piece per node, one piece per distinct tuple *)
Definition board_log (s : schema) (g : graph) (coords : node -> Z * Z) (create : bool) (l : log) : Prop :=
  exists sd lhead lsh lco,
    l = lhead ++ lsh ++ lco /\
    (if create then exists b, lhead = [(CreateBoard, ROk b)] else lhead = []) /\
    map fst sd = g_nodes g /\
    chunked (shape_chunk s g coords sd) (g_nodes g) lsh /\
    chunked (chain_spec g coords (sid_of sd)) (tuple_counts (g_edges g)) lco.

Lemma generate_spec : forall s g coords create,
  board_pre s g -> spec (generate s g coords create) (fun _ l => board_log s g coords create l).
Proof.
  intros s g coords create HP; unfold generate.
  eapply spec_bind with (P := fun _ l => if create then exists b, l = [(CreateBoard, ROk b)] else l = []).
  - destruct create.
    + eapply spec_bind; [apply spec_send|].
      intros b l1 ->; apply spec_ret; exists b; rewrite app_nil_r; reflexivity.
    + apply spec_ret; reflexivity.
  - intros [] lhead Hhead.
    eapply spec_bind; [apply shapes_spec; exact HP|].
    intros sd lsh (K & Csh).
    eapply spec_weaken; [eapply connectors_spec; eauto|].
    intros [] lco Cco; exists sd, lhead, lsh, lco; repeat split; auto.
Qed.

(* ---------------------------------------------------------------- reading the conversation *)
Definition links_only (c : log) : Prop := Forall (fun qr => is_link (fst qr) = true) c.

Lemma links_only_app : forall a b, links_only a -> links_only b -> links_only (a ++ b).
Proof. intros; apply Forall_app; auto. Qed.

Lemma chunked_links_only : forall A (R : A -> log -> Prop) l lg,
  (forall a c, R a c -> links_only c) -> chunked R l lg -> links_only lg.
Proof.
  intros A R l lg HI H; induction H as [|a l c lg Ha Hl IH]; [constructor|].
  apply links_only_app; eauto.
Qed.

Lemma chain_links_only : forall g coords sid tk c, chain_spec g coords sid tk c -> links_only c.
Proof.
  intros g coords sid tk c [(Hk & cp & i & _ & ->)|(Hk & HC)].
  - repeat constructor.
  - eapply chunked_links_only; [|exact HC].
    intros i c' (px & py & e & i1 & i2 & cp & _ & _ & ->); repeat constructor.
Qed.

Lemma links_only_filter : forall c, links_only c -> filter (fun qr => is_link (fst qr)) c = c.
Proof.
  induction c as [|x c IH]; intro H; [reflexivity|].
  inversion H as [|? ? Hx Hc]; subst; simpl; rewrite Hx, IH; auto.
Qed.

Lemma links_only_no_shape : forall c, links_only c -> filter is_shape (map fst c) = [].
Proof.
  induction c as [|[q r] c IH]; intro H; [reflexivity|].
  inversion H as [|? ? Hx Hc]; subst; simpl in *.
  destruct q; simpl in Hx; try discriminate; simpl; auto.
Qed.

Lemma support_chunk_filters : forall n rest, support_chunk n rest ->
  filter is_shape (map fst rest) = [] /\ filter (fun qr => is_link (fst qr)) rest = [].
Proof. intros n rest [->|(x & y & i & ->)]; simpl; auto. Qed.

Lemma shape_chunks_shapes : forall s g coords sd ns lg,
  chunked (shape_chunk s g coords sd) ns lg ->
  Forall2 (shape_spec s g coords) ns (filter is_shape (map fst lg))
  /\ filter (fun qr => is_link (fst qr)) lg = [].
Proof.
  intros s g coords sd ns lg H; induction H as [|n ns c lg Hn Hl (IH1 & IH2)]; [split; constructor|].
  destruct Hn as (i & q & rest & Hd & Hq & -> & Hr).
  destruct (support_chunk_filters _ _ Hr) as (F1 & F2).
  pose proof Hq as (px & py & fill & cont & -> & _).
  split.
  - simpl; rewrite map_app, filter_app, F1; simpl; constructor; auto.
  - simpl; rewrite filter_app, F2, IH2; reflexivity.
Qed.

Lemma head_filters : forall (create : bool) (lhead : log),
  (if create then exists b, lhead = [(CreateBoard, ROk b)] else lhead = []) ->
  filter is_shape (map fst lhead) = [] /\ filter (fun qr => is_link (fst qr)) lhead = [].
Proof. intros [|] lhead H; [destruct H as (b & ->)|subst]; simpl; auto. Qed.

Lemma emit_log_finished : forall s g coords create rs l,
  board_pre s g -> emit_log s g coords create rs = (l, Finished) ->
  all_ok l /\ board_log s g coords create l.
Proof.
  intros s g coords create rs l HP; unfold emit_log.
  pose proof (generate_spec s g coords create HP rs) as H.
  destruct (generate s g coords create rs) as [[l' r] rs']; destruct r as [[]| |]; simpl; intro E; inversion E; subst.
  destruct H as (_ & O & HB); auto.
Qed.

Lemma C20_shapes_lemma : forall s g coords create rs l,
  board_pre s g -> emit_log s g coords create rs = (l, Finished) -> shapes_ok s g coords l.
Proof.
  intros s g coords create rs l HP HE.
  destruct (emit_log_finished _ _ _ _ _ _ HP HE) as (_ & sd & lhead & lsh & lco & -> & Hh & K & Csh & Cco).
  unfold shapes_ok; rewrite !map_app, !filter_app.
  destruct (head_filters _ _ Hh) as (-> & _).
  rewrite (links_only_no_shape lco).
  - rewrite app_nil_r; simpl; apply (shape_chunks_shapes _ _ _ _ _ _ Csh).
  - eapply chunked_links_only; [|exact Cco]; intros; eapply chain_links_only; eauto.
Qed.

Lemma C20_connectors_lemma : forall s g coords create rs l,
  board_pre s g -> emit_log s g coords create rs = (l, Finished) -> connectors_ok g coords l.
Proof.
  intros s g coords create rs l HP HE.
  destruct (emit_log_finished _ _ _ _ _ _ HP HE) as (_ & sd & lhead & lsh & lco & -> & Hh & K & Csh & Cco).
  exists (sid_of sd), (tuple_counts (g_edges g)); split; [|split].
  - intros n Hn.
    destruct (chunked_in _ _ _ _ n Csh Hn) as (c & (i & q & rest & Hd & Hq & -> & _) & Hinc).
    destruct Hq as (px & py & fill & cont & -> & _).
    exists px, py, fill, cont; unfold sid_of; rewrite Hd.
    apply in_or_app; right; apply in_or_app; left; apply Hinc; simpl; auto.
  - apply tuple_counts_table.
  - rewrite !filter_app.
    destruct (head_filters _ _ Hh) as (_ & ->).
    destruct (shape_chunks_shapes _ _ _ _ _ _ Csh) as (_ & ->).
    rewrite links_only_filter; [exact Cco|].
    eapply chunked_links_only; [|exact Cco]; intros; eapply chain_links_only; eauto.
Qed.

(* ---------------------------------------------------------------- errors abort *)
Lemma all_ok_nth : forall l k r, all_ok l -> nth_error (map snd l) k = Some r -> is_ok r.
Proof.
  intros l k r H Hn; unfold all_ok in H; rewrite Forall_forall in H; apply H.
  eapply nth_error_In; eauto.
Qed.

Lemma C20_error_aborts_lemma : forall s g coords create rs reqs st k,
  board_pre s g ->
  emit s g coords create rs = (reqs, st) ->
  k < length reqs -> nth_error rs k = Some RErr ->
  st = Aborted /\ length reqs = S k.
Proof.
  intros s g coords create rs reqs st k HP; unfold emit, emit_log.
  pose proof (generate_spec s g coords create HP rs) as H.
  destruct (generate s g coords create rs) as [[l r] rs']; simpl; intro E; inversion E; subst; clear E.
  rewrite map_length; intros Hk Hn.
  assert (Hnl : forall rest, rs = map snd l ++ rest -> nth_error (map snd l) k = Some RErr).
  { intros rest Er; rewrite Er, nth_error_app1 in Hn; [exact Hn | rewrite map_length; exact Hk]. }
  destruct r as [[]| |]; simpl.
  - destruct H as (Er & O & _); exfalso; apply (all_ok_nth l k RErr O); eauto.
  - destruct H as (Er & l0 & q & -> & O); split; [reflexivity|].
    specialize (Hnl _ Er); rewrite app_length in *; simpl in *.
    destruct (Nat.lt_ge_cases k (length l0)) as [Hlt|Hge]; [|lia].
    exfalso; rewrite map_app, nth_error_app1 in Hnl by (rewrite map_length; exact Hlt).
    apply (all_ok_nth l0 k RErr O Hnl).
  - destruct H as (Er & O & _); exfalso; apply (all_ok_nth l k RErr O); eauto.
Qed.

(* generation is aborted ONLY by an error response, which is then the last thing that happened *)
Lemma aborted_only_by_error : forall s g coords create rs l,
  board_pre s g -> emit_log s g coords create rs = (l, Aborted) ->
  exists l0 q, l = l0 ++ [(q, RErr)] /\ all_ok l0 /\ nth_error rs (length l0) = Some RErr.
Proof.
  intros s g coords create rs l HP; unfold emit_log.
  pose proof (generate_spec s g coords create HP rs) as H.
  destruct (generate s g coords create rs) as [[l' r] rs']; destruct r as [[]| |]; simpl; intro E; inversion E; subst.
  destruct H as (Er & l0 & q & -> & O); exists l0, q; repeat split; auto.
  rewrite Er, map_app, <- app_assoc, nth_error_app2; rewrite map_length; [|lia].
  rewrite Nat.sub_diag; reflexivity.
Qed.

(* pairwise distinct intermediate points *)
Lemma strand_points_distinct : forall coords f t k i i' px py px' py',
  strand_point coords f t k i px py -> strand_point coords f t k i' px' py' -> i <> i' -> py <> py'.
Proof.
  unfold strand_point, y_coord_factor; intros coords f t k i i' px py px' py' (_ & H1) (_ & H2) N E.
  subst py'; apply N; lia.
Qed.

(* a script whose first error is at position k: either generation was already complete before that
   response was needed, or it raised on exactly that response; it is never starved, never continues *)
Lemma first_error_outcomes : forall s g coords create rs reqs st k,
  board_pre s g ->
  emit s g coords create rs = (reqs, st) ->
  nth_error rs k = Some RErr ->
  (forall i r, i < k -> nth_error rs i = Some r -> is_ok r) ->
  (st = Aborted /\ length reqs = S k) \/ (st = Finished /\ length reqs <= k).
Proof.
  intros s g coords create rs reqs st k HP; unfold emit, emit_log.
  pose proof (generate_spec s g coords create HP rs) as H.
  destruct (generate s g coords create rs) as [[l r] rs']; simpl; intro E; inversion E; subst; clear E.
  rewrite map_length; intros Hn Hbefore.
  assert (Hshort : all_ok l -> rs = map snd l ++ rs' -> length l <= k).
  { intros O Er; destruct (Nat.le_gt_cases (length l) k) as [Hle|Hgt]; [exact Hle|exfalso].
    rewrite Er, nth_error_app1 in Hn by (rewrite map_length; exact Hgt).
    apply (all_ok_nth l k RErr O Hn). }
  destruct r as [[]| |]; simpl.
  - destruct H as (Er & O & _); right; split; [reflexivity | apply Hshort; auto].
  - destruct H as (Er & l0 & q & -> & O); left; split; [reflexivity|].
    rewrite app_length; simpl.
    assert (Hle : length l0 <= k).
    { destruct (Nat.le_gt_cases (length l0) k) as [Hle|Hgt]; [exact Hle|exfalso].
      rewrite Er, map_app, <- app_assoc, nth_error_app1 in Hn by (rewrite map_length; exact Hgt).
      apply (all_ok_nth l0 k RErr O Hn). }
    destruct (Nat.eq_dec (length l0) k) as [->|N]; [lia|exfalso].
    assert (Hlt : length l0 < k) by lia.
    apply (Hbefore (length l0) RErr Hlt).
    rewrite Er, map_app, <- app_assoc, nth_error_app2; rewrite map_length; [|lia].
    rewrite Nat.sub_diag; reflexivity.
  - destruct H as (Er & O & ->); exfalso.
    rewrite app_nil_r in Er; rewrite Er in Hn.
    apply (all_ok_nth l k RErr O Hn).
Qed.
