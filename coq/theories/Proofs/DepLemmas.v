(* Basic facts relating the searches of Model/Rules.v to the declarative relations of Spec/DepRel.v:
   [chain]/[scope]/[has_access] vs [Encloses]; [mentions] vs [Mentions]; [cp_nesting_cyclic] vs [Nests];
   [group_cps]/[action_cps] vs [HoldsGroup]/[HoldsAction]; [succ] vs [Dep].

   Two side conditions appear in the completeness directions, both consequences of [conforms]:
     - nesting of checkpoints is acyclic (below the checkpoint in question: [NestAcyclicFrom]; globally:
       [NestingAcyclic]) -- otherwise the fuelled [mentions] could stop early;
     - thread scopes resolve ([ScopesResolve]: the context chain of every existing thread group ends in a
       top-level group within fuel) -- otherwise [group_cps] is empty although [Encloses] (which is defined
       link by link and does not ask the whole chain to resolve) still relates groups.  [ScopesResolve_iff] at
       the end of the file states the condition without reference to the search: every existing thread group
       is [Rooted].
   Soundness directions ([In b (succ s a) -> Dep s a b], ...) are unconditional. *)
From Coq Require Import List Bool Arith Lia Relations.
From OIS Require Import Base.Types Base.PipeTypes Model.Schema Model.Rules Spec.DepRel.
Import ListNotations.

(* ------------------------------------------------------------------ membership, lookups *)
Lemma mem_nat_In : forall x l, mem_nat x l = true <-> In x l.
Proof.
  intros x l. unfold mem_nat. rewrite existsb_exists. split.
  - intros [y [H1 H2]]. apply Nat.eqb_eq in H2. subst y. exact H1.
  - intros H. exists x. split; [exact H|apply Nat.eqb_refl].
Qed.

Lemma mem_nat_false : forall x l, mem_nat x l = false <-> ~ In x l.
Proof.
  intros x l. split.
  - intros H Hin. apply mem_nat_In in Hin. congruence.
  - intros H. destruct (mem_nat x l) eqn:E; [|reflexivity]. apply mem_nat_In in E. contradiction.
Qed.

Lemma existsb_false_forall : forall (A : Type) (f : A -> bool) (l : list A),
  existsb f l = false <-> (forall x, In x l -> f x = false).
Proof.
  intros A f l. split.
  - intros H x Hx. destruct (f x) eqn:E; [|reflexivity].
    assert (Ht : existsb f l = true) by (apply existsb_exists; exists x; split; assumption). congruence.
  - intros H. destruct (existsb f l) eqn:E; [|reflexivity].
    apply existsb_exists in E. destruct E as [x [Hx Hf]]. rewrite (H x Hx) in Hf. discriminate.
Qed.

Lemma find_checkpoint_some : forall s c cp, find_checkpoint s c = Some cp -> In cp (checkpoints s) /\ cp_id cp = c.
Proof.
  intros s c cp H. unfold find_checkpoint in H. apply find_some in H. destruct H as [H1 H2].
  apply Nat.eqb_eq in H2. split; assumption.
Qed.

Lemma find_action_some : forall s a act, find_action s a = Some act -> In act (actions s) /\ a_id act = a.
Proof.
  intros s a act H. unfold find_action in H. apply find_some in H. destruct H as [H1 H2].
  apply Nat.eqb_eq in H2. split; assumption.
Qed.

Lemma find_group_some : forall s g tg, find_group s g = Some tg -> In tg (groups s) /\ g_id tg = g.
Proof.
  intros s g tg H. unfold find_group in H. apply find_some in H. destruct H as [H1 H2].
  apply Nat.eqb_eq in H2. split; assumption.
Qed.

Lemma find_checkpoint_id : forall s c cp, find_checkpoint s c = Some cp -> In c (map cp_id (checkpoints s)).
Proof.
  intros s c cp H. apply find_checkpoint_some in H. destruct H as [H1 H2]. subst c. apply in_map. exact H1.
Qed.

Lemma find_action_id : forall s a act, find_action s a = Some act -> In a (map a_id (actions s)).
Proof.
  intros s a act H. apply find_action_some in H. destruct H as [H1 H2]. subst a. apply in_map. exact H1.
Qed.

(* every member of the list is found by some lookup of its own id (possibly an earlier entry with that id) *)
Lemma find_action_in : forall s act, In act (actions s) -> exists act', find_action s (a_id act) = Some act'.
Proof.
  intros s act H. unfold find_action. destruct (find (fun a => Nat.eqb (a_id a) (a_id act)) (actions s)) as [x|] eqn:E.
  - exists x. reflexivity.
  - exfalso. pose proof (find_none _ _ E act H) as Hn. cbn beta in Hn. rewrite Nat.eqb_refl in Hn. discriminate.
Qed.

(* a duplicate-free list of checkpoint ids that resolve is no longer than the checkpoint list (pigeonhole) *)
Lemma nodup_ids_bound : forall (ids l : list nat), NoDup l -> incl l ids -> length l <= length ids.
Proof. intros ids l H1 H2. apply NoDup_incl_length; assumption. Qed.

Section Dep.
Variable s : schema.

(* ------------------------------------------------------------------ scopes *)
Lemma chain_encloses : forall fuel g l, chain s fuel g = Some l -> forall g', In g' l <-> Encloses s g' g.
Proof.
  induction fuel as [|f IH]; intros g l H g'; [discriminate|].
  cbn [chain] in H.
  destruct (find_group s g) as [tg|] eqn:Hg; [|discriminate].
  destruct (g_ctx tg) as [r|] eqn:Hc.
  - destruct (rkind_eqb (r_kind r) RGroup) eqn:Hk; [|discriminate].
    apply rkind_eqb_eq in Hk.
    destruct (chain s f (r_id r)) as [l'|] eqn:Hl; [|discriminate].
    inversion H; subst l; clear H.
    split.
    + intros [Heq|Hin].
      * subst g'. eapply E_self; eassumption.
      * eapply E_up; try eassumption. apply (IH _ _ Hl). exact Hin.
    + intros HE. inversion HE as [g0 tg0 Hf0 | g0 tg0 r0 g0' Hf0 Hc0 Hk0 HE0]; subst.
      * left; reflexivity.
      * right. rewrite Hg in Hf0. inversion Hf0; subst tg0. rewrite Hc in Hc0. inversion Hc0; subst r0.
        apply (IH _ _ Hl). exact HE0.
  - inversion H; subst l; clear H. split.
    + intros [Heq|[]]. subst g'. eapply E_self; eassumption.
    + intros HE. inversion HE as [g0 tg0 Hf0 | g0 tg0 r0 g0' Hf0 Hc0 Hk0 HE0]; subst.
      * left; reflexivity.
      * rewrite Hg in Hf0. inversion Hf0; subst tg0. rewrite Hc in Hc0. discriminate.
Qed.

Lemma scope_encloses : forall g l, scope s g = Some l -> forall g', In g' l <-> Encloses s g' g.
Proof. intros g l H. exact (chain_encloses _ _ _ H). Qed.

Lemma has_access_encloses : forall g g',
  has_access s g g' = true <-> (exists l, scope s g = Some l) /\ Encloses s g' g.
Proof.
  intros g g'. unfold has_access. destruct (scope s g) as [l|] eqn:E.
  - rewrite mem_nat_In, (scope_encloses _ _ E). split.
    + intros H. split; [exists l; reflexivity|exact H].
    + intros [_ H]. exact H.
  - split; [discriminate|]. intros [[l Hl] _]. discriminate.
Qed.

Lemma encloses_resolves : forall g' g, Encloses s g' g -> exists tg, find_group s g = Some tg.
Proof. intros g' g H. inversion H; subst; eexists; eassumption. Qed.

(* the enclosing group itself exists *)
Lemma encloses_outer_resolves : forall g' g, Encloses s g' g -> exists tg, find_group s g' = Some tg.
Proof. intros g' g H. induction H as [g tg Hf | g tg r g' Hf Hc Hk HE IH]; [exists tg; exact Hf|exact IH]. Qed.

(* thread scopes resolve: guaranteed by [group_ok] for every listed group, see [conforms_scopes] in CycleProofs *)
Definition ScopesResolve : Prop := forall g tg, find_group s g = Some tg -> exists l, scope s g = Some l.

(* ------------------------------------------------------------------ mentions *)
Definition mdep (f : nat) (d : dep) : list nat :=
  match d with
  | DCmp l _ r => operand_action l ++ operand_action r
  | DRef r => if rkind_eqb (r_kind r) RCheckpoint then mentions s f (r_id r) else []
  end.

Lemma mentions_S : forall f c,
  mentions s (S f) c = match find_checkpoint s c with None => [] | Some cp => flat_map (mdep f) (cp_deps cp) end.
Proof. reflexivity. Qed.

Lemma mentions_sound : forall fuel c b, In b (mentions s fuel c) -> Mentions s c b.
Proof.
  induction fuel as [|f IH]; intros c b H; [destruct H|].
  rewrite mentions_S in H. destruct (find_checkpoint s c) as [cp|] eqn:Hf; [|destruct H].
  apply in_flat_map in H. destruct H as [d [Hd Hb]]. destruct d as [l o r|r]; cbn [mdep] in Hb.
  - eapply M_cmp; eassumption.
  - destruct (rkind_eqb (r_kind r) RCheckpoint) eqn:Hk; [|destruct Hb].
    apply rkind_eqb_eq in Hk. eapply M_ref; try eassumption. apply IH. exact Hb.
Qed.

(* the nesting below c has no cycle *)
Definition NestAcyclicFrom (c : nat) : Prop := forall c', c' = c \/ Nests s c c' -> ~ Nests s c' c'.

Lemma NestingAcyclic_from : NestingAcyclic s -> forall c, NestAcyclicFrom c.
Proof. intros H c c' _. apply H. Qed.

Lemma NestAcyclicFrom_step : forall c cp r, NestAcyclicFrom c ->
  find_checkpoint s c = Some cp -> In (DRef r) (cp_deps cp) -> r_kind r = RCheckpoint -> NestAcyclicFrom (r_id r).
Proof.
  intros c cp r HA Hf Hd Hk c' Hc'. apply HA. right.
  assert (Hst : Nests s c (r_id r)) by (eapply N_step; eassumption).
  destruct Hc' as [Heq|Hn]; [subst c'; exact Hst|eapply N_trans; eassumption].
Qed.

(* pigeonhole: a nesting chain without repetition, all of whose ids resolve, is at most |checkpoints| long *)
Lemma stack_bound : forall c cp stack, NestAcyclicFrom c -> find_checkpoint s c = Some cp ->
  NoDup stack -> (forall x, In x stack -> Nests s x c) -> incl stack (map cp_id (checkpoints s)) ->
  ~ In c stack /\ S (length stack) <= length (checkpoints s).
Proof.
  intros c cp stack HA Hf ND HS HR.
  assert (Hn : ~ In c stack).
  { intros Hin. apply (HA c (or_introl eq_refl)). apply HS. exact Hin. }
  split; [exact Hn|].
  assert (HND : NoDup (c :: stack)) by (constructor; assumption).
  assert (Hincl : incl (c :: stack) (map cp_id (checkpoints s))).
  { intros x [Hx|Hx]; [subst x; eapply find_checkpoint_id; eassumption|apply HR; exact Hx]. }
  pose proof (NoDup_incl_length HND Hincl) as HL. rewrite map_length in HL. exact HL.
Qed.

Lemma mentions_complete_gen : forall c b, Mentions s c b ->
  forall fuel stack, NestAcyclicFrom c -> NoDup stack -> (forall x, In x stack -> Nests s x c) ->
    incl stack (map cp_id (checkpoints s)) ->
    length (checkpoints s) < length stack + fuel -> In b (mentions s fuel c).
Proof.
  induction 1 as [c cp l o r b Hf Hd Hb | c cp r b Hf Hd Hk HM IH]; intros fuel stack HA ND HS HR HL.
  - destruct (stack_bound _ _ _ HA Hf ND HS HR) as [Hn Hlen].
    destruct fuel as [|f]; [lia|]. rewrite mentions_S, Hf. apply in_flat_map.
    exists (DCmp l o r). split; [exact Hd|exact Hb].
  - destruct (stack_bound _ _ _ HA Hf ND HS HR) as [Hn Hlen].
    destruct fuel as [|f]; [lia|]. rewrite mentions_S, Hf. apply in_flat_map.
    exists (DRef r). split; [exact Hd|]. cbn [mdep].
    assert (Hk' : rkind_eqb (r_kind r) RCheckpoint = true) by (apply rkind_eqb_eq; exact Hk).
    rewrite Hk'.
    assert (Hst : Nests s c (r_id r)) by (eapply N_step; eassumption).
    apply (IH f (c :: stack)).
    + eapply NestAcyclicFrom_step; eassumption.
    + constructor; assumption.
    + intros x [Hx|Hx]; [subst x; exact Hst|eapply N_trans; [apply HS; exact Hx|exact Hst]].
    + intros x [Hx|Hx]; [subst x; eapply find_checkpoint_id; eassumption|apply HR; exact Hx].
    + cbn [length]. lia.
Qed.

Lemma mentions_complete : forall fuel c b, NestAcyclicFrom c -> length (checkpoints s) < fuel ->
  Mentions s c b -> In b (mentions s fuel c).
Proof.
  intros fuel c b HA HL HM. apply (mentions_complete_gen _ _ HM fuel []).
  - exact HA.
  - constructor.
  - intros x [].
  - intros x [].
  - cbn [length]. lia.
Qed.

Lemma fuel_of_cps : length (checkpoints s) < fuel_of s.
Proof. unfold fuel_of. lia. Qed.

Lemma mentions_iff : forall c b, NestAcyclicFrom c -> (In b (mentions s (fuel_of s) c) <-> Mentions s c b).
Proof.
  intros c b HA. split; [apply mentions_sound|]. apply mentions_complete; [exact HA|apply fuel_of_cps].
Qed.

(* ------------------------------------------------------------------ cyclic nesting test *)
Definition cdep (f : nat) (stack : list nat) (d : dep) : bool :=
  match d with
  | DRef r => if rkind_eqb (r_kind r) RCheckpoint then cp_nesting_cyclic s f stack (r_id r) else false
  | _ => false
  end.

Lemma cyc_S : forall f stack c,
  cp_nesting_cyclic s (S f) stack c =
  if mem_nat c stack then true
  else match find_checkpoint s c with None => false | Some cp => existsb (cdep f (c :: stack)) (cp_deps cp) end.
Proof. reflexivity. Qed.

Lemma cyc_in_stack : forall fuel stack c, In c stack -> cp_nesting_cyclic s fuel stack c = true.
Proof.
  intros [|f] stack c H; [reflexivity|]. rewrite cyc_S. apply mem_nat_In in H. rewrite H. reflexivity.
Qed.

(* one step of the search *)
Lemma cyc_step : forall fuel stack c cp r, cp_nesting_cyclic s fuel stack c = false ->
  find_checkpoint s c = Some cp -> In (DRef r) (cp_deps cp) -> r_kind r = RCheckpoint ->
  exists f, cp_nesting_cyclic s f (c :: stack) (r_id r) = false.
Proof.
  intros [|f] stack c cp r H Hf Hd Hk; [discriminate|]. rewrite cyc_S in H.
  destruct (mem_nat c stack); [discriminate|]. rewrite Hf in H.
  exists f. pose proof (proj1 (existsb_false_forall _ _ _) H _ Hd) as Hx. cbn [cdep] in Hx.
  assert (Hk' : rkind_eqb (r_kind r) RCheckpoint = true) by (apply rkind_eqb_eq; exact Hk).
  rewrite Hk' in Hx. exact Hx.
Qed.

Lemma cyc_follow : forall c c', Nests s c c' -> forall fuel stack, cp_nesting_cyclic s fuel stack c = false ->
  exists fuel' stack', cp_nesting_cyclic s fuel' stack' c' = false /\ In c stack' /\ incl stack stack'.
Proof.
  induction 1 as [c cp r Hf Hd Hk | c c' c'' H1 IH1 H2 IH2]; intros fuel stack H.
  - destruct (cyc_step _ _ _ _ _ H Hf Hd Hk) as [f Hx].
    exists f, (c :: stack). split; [exact Hx|]. split; [left; reflexivity|apply incl_tl, incl_refl].
  - destruct (IH1 _ _ H) as [f1 [st1 [Hc1 [Hin1 Hinc1]]]].
    destruct (IH2 _ _ Hc1) as [f2 [st2 [Hc2 [Hin2 Hinc2]]]].
    exists f2, st2. split; [exact Hc2|]. split; [apply Hinc2; exact Hin1|eapply incl_tran; eassumption].
Qed.

(* a negative answer of the nesting test means: no nesting cycle below c *)
Lemma cyc_false_acyclic : forall fuel stack c, cp_nesting_cyclic s fuel stack c = false -> NestAcyclicFrom c.
Proof.
  intros fuel stack c H c' Hc' Hcyc.
  assert (Hx : exists f st, cp_nesting_cyclic s f st c' = false).
  { destruct Hc' as [Heq|Hn]; [subst c'; exists fuel, stack; exact H|].
    destruct (cyc_follow _ _ Hn _ _ H) as [f [st [Hf _]]]. exists f, st. exact Hf. }
  destruct Hx as [f [st Hf]].
  destruct (cyc_follow _ _ Hcyc _ _ Hf) as [f' [st' [Hf' [Hin _]]]].
  rewrite (cyc_in_stack _ _ _ Hin) in Hf'. discriminate.
Qed.

(* and acyclic nesting is never flagged *)
Lemma cyc_complete_gen : forall fuel stack c, NestAcyclicFrom c -> NoDup stack ->
  (forall x, In x stack -> Nests s x c) -> incl stack (map cp_id (checkpoints s)) ->
  length (checkpoints s) < length stack + fuel -> cp_nesting_cyclic s fuel stack c = false.
Proof.
  induction fuel as [|f IH]; intros stack c HA ND HS HR HL.
  - exfalso. pose proof (NoDup_incl_length ND HR) as H. rewrite map_length in H. lia.
  - rewrite cyc_S. destruct (mem_nat c stack) eqn:Hm.
    + exfalso. apply mem_nat_In in Hm. apply (HA c (or_introl eq_refl)). apply HS. exact Hm.
    + destruct (find_checkpoint s c) as [cp|] eqn:Hf; [|reflexivity].
      destruct (stack_bound _ _ _ HA Hf ND HS HR) as [Hn Hlen].
      apply existsb_false_forall. intros d Hd. destruct d as [l o r|r]; cbn [cdep]; [reflexivity|].
      destruct (rkind_eqb (r_kind r) RCheckpoint) eqn:Hk; [|reflexivity]. apply rkind_eqb_eq in Hk.
      assert (Hst : Nests s c (r_id r)) by (eapply N_step; eassumption).
      apply IH.
      * eapply NestAcyclicFrom_step; eassumption.
      * constructor; assumption.
      * intros x [Hx|Hx]; [subst x; exact Hst|eapply N_trans; [apply HS; exact Hx|exact Hst]].
      * intros x [Hx|Hx]; [subst x; eapply find_checkpoint_id; eassumption|apply HR; exact Hx].
      * cbn [length]. lia.
Qed.

Lemma cyc_complete : forall c, NestAcyclicFrom c -> cp_nesting_cyclic s (S (length (checkpoints s))) [] c = false.
Proof.
  intros c HA. apply cyc_complete_gen.
  - exact HA.
  - constructor.
  - intros x [].
  - intros x [].
  - cbn [length]. lia.
Qed.

(* ------------------------------------------------------------------ holders *)
Lemma own_cp_In : forall d c, In c (own_cp d) <-> exists r, d = Some r /\ r_kind r = RCheckpoint /\ r_id r = c.
Proof.
  intros d c. unfold own_cp. destruct d as [r|].
  - destruct (rkind_eqb (r_kind r) RCheckpoint) eqn:Hk.
    + apply rkind_eqb_eq in Hk. split.
      * intros [H|[]]. exists r. repeat split; assumption.
      * intros [r' [Hr [_ Hi]]]. inversion Hr; subst r'. left; exact Hi.
    + split; [intros []|]. intros [r' [Hr [Hk' _]]]. inversion Hr; subst r'.
      apply rkind_eqb_eq in Hk'. congruence.
  - split; [intros []|]. intros [r [Hr _]]. discriminate.
Qed.

Lemma group_cps_iff : forall g c,
  In c (group_cps s (Some g)) <-> (exists l, scope s g = Some l) /\ HoldsGroup s g c.
Proof.
  intros g c. unfold group_cps. destruct (scope s g) as [l|] eqn:E.
  - rewrite in_flat_map. split.
    + intros [g' [Hg' Hc]]. split; [exists l; reflexivity|].
      destruct (find_group s g') as [tg|] eqn:Hf; [|destruct Hc].
      apply own_cp_In in Hc. destruct Hc as [r [Hr [Hk Hi]]].
      exists g', tg, r. split; [apply (scope_encloses _ _ E); exact Hg'|]. repeat split; assumption.
    + intros [_ [g' [tg [r [HE [Hf [Hr [Hk Hi]]]]]]]]. exists g'. split; [apply (scope_encloses _ _ E); exact HE|].
      rewrite Hf. apply own_cp_In. exists r. repeat split; assumption.
  - split; [intros []|]. intros [[l Hl] _]. discriminate.
Qed.

Lemma group_cps_sound : forall g c, In c (group_cps s (Some g)) -> HoldsGroup s g c.
Proof. intros g c H. apply group_cps_iff in H. exact (proj2 H). Qed.

Lemma holds_group_resolves : forall g c, HoldsGroup s g c -> exists tg, find_group s g = Some tg.
Proof. intros g c [g' [tg [r [HE _]]]]. eapply encloses_resolves; eassumption. Qed.

Lemma group_cps_complete : forall g c, ScopesResolve -> HoldsGroup s g c -> In c (group_cps s (Some g)).
Proof.
  intros g c SR H. apply group_cps_iff. split; [|exact H].
  destruct (holds_group_resolves _ _ H) as [tg Hf]. exact (SR _ _ Hf).
Qed.

Lemma ctx_group_Some : forall c g, ctx_group c = Some g <-> exists r, c = Some r /\ r_kind r = RGroup /\ r_id r = g.
Proof.
  intros c g. unfold ctx_group. destruct c as [r|].
  - destruct (rkind_eqb (r_kind r) RGroup) eqn:Hk.
    + apply rkind_eqb_eq in Hk. split.
      * intros H. inversion H; subst g. exists r. repeat split; assumption.
      * intros [r' [Hr [_ Hi]]]. inversion Hr; subst r'. rewrite Hi. reflexivity.
    + split; [discriminate|]. intros [r' [Hr [Hk' _]]]. inversion Hr; subst r'.
      apply rkind_eqb_eq in Hk'. congruence.
  - split; [discriminate|]. intros [r [Hr _]]. discriminate.
Qed.

Lemma action_cps_sound : forall a c, In c (action_cps s a) -> HoldsAction s a c.
Proof.
  intros a c H. unfold action_cps in H. apply in_app_or in H. destruct H as [H|H].
  - left. apply own_cp_In. exact H.
  - right. destruct (ctx_group (a_ctx a)) as [g|] eqn:Eg; [|destruct H].
    apply ctx_group_Some in Eg. destruct Eg as [r [Hr [Hk Hi]]]. exists r. subst g.
    repeat split; try assumption. apply group_cps_sound. exact H.
Qed.

Lemma action_cps_complete : forall a c, ScopesResolve -> HoldsAction s a c -> In c (action_cps s a).
Proof.
  intros a c SR [H|[r [Hr [Hk H]]]]; unfold action_cps; apply in_or_app.
  - left. apply own_cp_In. exact H.
  - right. assert (Eg : ctx_group (a_ctx a) = Some (r_id r)).
    { apply ctx_group_Some. exists r. repeat split; assumption. }
    rewrite Eg. apply group_cps_complete; assumption.
Qed.

Lemma group_eff_cps_sound : forall g c, In c (group_eff_cps s g) -> HoldsGroup s g c.
Proof. intros g c. apply group_cps_sound. Qed.

Lemma group_eff_cps_complete : forall g c, ScopesResolve -> HoldsGroup s g c -> In c (group_eff_cps s g).
Proof. intros g c. apply group_cps_complete. Qed.

(* ------------------------------------------------------------------ direct dependencies *)
Lemma succ_sound : forall a b, In b (succ s a) -> Dep s a b.
Proof.
  intros a b H. unfold succ in H. destruct (find_action s a) as [act|] eqn:Hf; [|destruct H].
  apply in_flat_map in H. destruct H as [c [Hc Hb]].
  exists act, c. split; [exact Hf|]. split; [apply action_cps_sound; exact Hc|eapply mentions_sound; exact Hb].
Qed.

(* completeness where the nesting below every checkpoint holding a is acyclic *)
Lemma succ_complete_local : forall a b, ScopesResolve ->
  (forall act c, find_action s a = Some act -> In c (action_cps s act) -> NestAcyclicFrom c) ->
  Dep s a b -> In b (succ s a).
Proof.
  intros a b SR HA [act [c [Hf [Hh Hm]]]]. unfold succ. rewrite Hf. apply in_flat_map.
  exists c. assert (Hc : In c (action_cps s act)) by (apply action_cps_complete; assumption).
  split; [exact Hc|]. apply mentions_iff; [eapply HA; eassumption|exact Hm].
Qed.

Lemma succ_complete : forall a b, NestingAcyclic s -> ScopesResolve -> Dep s a b -> In b (succ s a).
Proof.
  intros a b NA SR H. apply succ_complete_local; try assumption.
  intros act c _ _. apply NestingAcyclic_from. exact NA.
Qed.

Lemma succ_iff : forall a b, NestingAcyclic s -> ScopesResolve -> (In b (succ s a) <-> Dep s a b).
Proof. intros a b NA SR. split; [apply succ_sound|apply succ_complete; assumption]. Qed.

(* whoever depends on something exists *)
Lemma dep_exists : forall a b, Dep s a b -> In a (map a_id (actions s)).
Proof. intros a b [act [c [Hf _]]]. eapply find_action_id; eassumption. Qed.

Lemma succ_exists : forall a b, In b (succ s a) -> In a (map a_id (actions s)).
Proof. intros a b H. eapply dep_exists. apply succ_sound. exact H. Qed.

End Dep.

(* ------------------------------------------------------------------ when scopes resolve, declaratively *)
(* [Rooted s g]: following the contexts from thread group g leads, through existing thread groups only, to a
   group without context.  [scope s g] resolves exactly then: the fuel [fuel_of s] is enough because a resolving
   chain never repeats a group (pigeonhole on the existing group ids). *)
Inductive Rooted (s : schema) : nat -> Prop :=
| R_top : forall g tg, find_group s g = Some tg -> g_ctx tg = None -> Rooted s g
| R_up : forall g tg r, find_group s g = Some tg -> g_ctx tg = Some r -> r_kind r = RGroup ->
                        Rooted s (r_id r) -> Rooted s g.

Section Scopes.
Variable s : schema.

Lemma chain_S : forall f g,
  chain s (S f) g =
  match find_group s g with
  | None => None
  | Some tg => match g_ctx tg with
               | None => Some [g]
               | Some r => if rkind_eqb (r_kind r) RGroup
                           then match chain s f (r_id r) with Some l => Some (g :: l) | None => None end
                           else None
               end
  end.
Proof. reflexivity. Qed.

Lemma chain_rooted : forall f g l, chain s f g = Some l -> Rooted s g.
Proof.
  induction f as [|f IH]; intros g l H; [discriminate|]. rewrite chain_S in H.
  destruct (find_group s g) as [tg|] eqn:Hg; [|discriminate].
  destruct (g_ctx tg) as [r|] eqn:Hc; [|eapply R_top; eassumption].
  destruct (rkind_eqb (r_kind r) RGroup) eqn:Hk; [|discriminate]. apply rkind_eqb_eq in Hk.
  destruct (chain s f (r_id r)) as [l'|] eqn:Hl; [|discriminate].
  eapply R_up; try eassumption. eapply IH. exact Hl.
Qed.

Lemma rooted_chain : forall g, Rooted s g -> exists f l, chain s f g = Some l.
Proof.
  intros g H. induction H as [g tg Hg Hc|g tg r Hg Hc Hk _ [f [l Hl]]].
  - exists 1, [g]. rewrite chain_S, Hg, Hc. reflexivity.
  - exists (S f), (g :: l). rewrite chain_S, Hg, Hc.
    assert (Hk' : rkind_eqb (r_kind r) RGroup = true) by (apply rkind_eqb_eq; exact Hk).
    rewrite Hk', Hl. reflexivity.
Qed.

Lemma chain_mono : forall f g l f', chain s f g = Some l -> f <= f' -> chain s f' g = Some l.
Proof.
  induction f as [|f IH]; intros g l f' H Hle; [discriminate|].
  destruct f' as [|f']; [lia|]. rewrite chain_S in H. rewrite chain_S.
  destruct (find_group s g) as [tg|]; [|discriminate].
  destruct (g_ctx tg) as [r|]; [|exact H].
  destruct (rkind_eqb (r_kind r) RGroup); [|discriminate].
  destruct (chain s f (r_id r)) as [l'|] eqn:Hl; [|discriminate].
  rewrite (IH _ _ f' Hl); [exact H|lia].
Qed.

Lemma chain_det : forall f g l f' l', chain s f g = Some l -> chain s f' g = Some l' -> l = l'.
Proof.
  intros f g l f' l' H H'.
  pose proof (chain_mono _ _ _ (Nat.max f f') H (Nat.le_max_l _ _)) as H1.
  pose proof (chain_mono _ _ _ (Nat.max f f') H' (Nat.le_max_r _ _)) as H2.
  congruence.
Qed.

(* the least fuel that resolves a chain is its length *)
Lemma chain_min_fuel : forall f g l, chain s f g = Some l -> chain s (length l) g = Some l.
Proof.
  induction f as [|f IH]; intros g l H; [discriminate|]. rewrite chain_S in H.
  destruct (find_group s g) as [tg|] eqn:Hg; [|discriminate].
  destruct (g_ctx tg) as [r|] eqn:Hc.
  - destruct (rkind_eqb (r_kind r) RGroup) eqn:Hk; [|discriminate].
    destruct (chain s f (r_id r)) as [l'|] eqn:Hl; [|discriminate].
    inversion H; subst l. cbn [length]. rewrite chain_S, Hg, Hc, Hk, (IH _ _ Hl). reflexivity.
  - inversion H; subst l. cbn [length]. rewrite chain_S, Hg, Hc. reflexivity.
Qed.

Lemma chain_suffix : forall f g l x, chain s f g = Some l -> In x l ->
  exists f' l', chain s f' x = Some l' /\ length l' <= length l.
Proof.
  induction f as [|f IH]; intros g l x H Hx; [discriminate|].
  pose proof H as H0. rewrite chain_S in H.
  destruct (find_group s g) as [tg|] eqn:Hg; [|discriminate].
  destruct (g_ctx tg) as [r|] eqn:Hc.
  - destruct (rkind_eqb (r_kind r) RGroup) eqn:Hk; [|discriminate].
    destruct (chain s f (r_id r)) as [l'|] eqn:Hl; [|discriminate].
    inversion H; subst l. destruct Hx as [Hx|Hx].
    + subst x. exists (S f), (g :: l'). split; [exact H0|apply le_n].
    + destruct (IH _ _ _ Hl Hx) as [f' [l'' [Hc' Hlen]]]. exists f', l''. split; [exact Hc'|cbn [length]; lia].
  - inversion H; subst l. destruct Hx as [Hx|[]]. subst x. exists (S f), [g]. split; [exact H0|apply le_n].
Qed.

Lemma chain_nodup : forall f g l, chain s f g = Some l -> NoDup l.
Proof.
  induction f as [|f IH]; intros g l H; [discriminate|].
  pose proof H as H0. rewrite chain_S in H.
  destruct (find_group s g) as [tg|] eqn:Hg; [|discriminate].
  destruct (g_ctx tg) as [r|] eqn:Hc.
  - destruct (rkind_eqb (r_kind r) RGroup) eqn:Hk; [|discriminate].
    destruct (chain s f (r_id r)) as [l'|] eqn:Hl; [|discriminate].
    inversion H; subst l. constructor; [|eapply IH; exact Hl].
    intros Hin. destruct (chain_suffix _ _ _ _ Hl Hin) as [f' [l'' [Hc' Hlen]]].
    pose proof (chain_det _ _ _ _ _ H0 Hc') as He. subst l''. cbn [length] in Hlen. lia.
  - inversion H; subst l. constructor; [intros []|constructor].
Qed.

Lemma chain_ids : forall f g l, chain s f g = Some l -> incl l (map g_id (groups s)).
Proof.
  intros f g l H x Hx. apply (chain_encloses s _ _ _ H) in Hx.
  destruct (encloses_outer_resolves s _ _ Hx) as [tg Hf]. apply find_group_some in Hf.
  destruct Hf as [Hin Hid]. subst x. apply in_map. exact Hin.
Qed.

Theorem scope_resolves_iff : forall g, (exists l, scope s g = Some l) <-> Rooted s g.
Proof.
  intros g. split.
  - intros [l H]. eapply chain_rooted. exact H.
  - intros H. destruct (rooted_chain _ H) as [f [l Hl]]. exists l. unfold scope.
    apply (chain_mono (length l)); [eapply chain_min_fuel; exact Hl|].
    pose proof (NoDup_incl_length (chain_nodup _ _ _ Hl) (chain_ids _ _ _ Hl)) as Hb.
    rewrite map_length in Hb. unfold fuel_of. lia.
Qed.

Theorem ScopesResolve_iff : ScopesResolve s <-> (forall g tg, find_group s g = Some tg -> Rooted s g).
Proof.
  unfold ScopesResolve. split; intros H g tg Hf.
  - apply scope_resolves_iff. eapply H. exact Hf.
  - apply scope_resolves_iff. eapply H. exact Hf.
Qed.

End Scopes.
